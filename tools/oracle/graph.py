"""tools/oracle/graph.py — specification side of C20: object graphs, reachability, equality of content under a
reference map, closure, copy counts, page views, content-stream tokens.  Written from ISO 32000-1 (§7.3.10 indirect
objects, §7.7.3 page tree and inheritance, §7.8 content streams and resources), independent of pdf-rs.

A graph is a dict  object number -> value ; values are those of oracle.pdfwriter (None, bool, int, float, bytes,
Name, Ref, list, dict with str keys, Stream).
"""
import struct, zlib
from .pdfwriter import Name, Ref, Stream
from . import canon as K
from . import codecs


# ------------------------------------------------------------------------------------------------
# canon dump -> values

def _f32(bits):
    return struct.unpack(">f", struct.pack(">I", bits))[0]


def of_tuple(t):
    k = t[0]
    if k == "n":
        return None
    if k == "b":
        return t[1]
    if k == "i":
        return t[1]
    if k == "r":
        return _f32(t[1])
    if k == "N":
        return Name(t[1])
    if k == "S":
        return bytes(t[1])
    if k == "R":
        return Ref(t[1], t[2])
    if k == "a":
        return [of_tuple(x) for x in t[1]]
    if k == "d":
        return {kk.decode("latin-1"): of_tuple(v) for kk, v in t[1]}
    if k == "s":
        d = {kk.decode("latin-1"): of_tuple(v) for kk, v in t[1]}
        st = Stream(d, t[2] if t[2] is not None else b"")
        st.raw_len = d.get("Length")
        if t[2] is None:
            st.d["!unreadable"] = True
        return st
    raise ValueError(t)


class Unreadable:
    def __init__(self, kind):
        self.kind = kind

    def __repr__(self):
        return "!" + self.kind


def of_canon(b):
    if b[:1] == b"!":
        return Unreadable(b[1:].decode())
    return of_tuple(K.parse_canon(b))


def graph_of_dump(fields):
    """fields: canon of object 1..n -> {num: value}; unreadable objects (free, missing) are left out"""
    g = {}
    for i, f in enumerate(fields):
        v = of_canon(f)
        if not isinstance(v, Unreadable):
            g[i + 1] = v
    return g


def canon_obj(v):
    """canon text of a source object as the model reads it (streams with their data: p{dict}hex;)"""
    if isinstance(v, Stream):
        d = dict(v.d)
        d["Length"] = v.raw_len if v.raw_len is not None else len(v.data)
        return b"p" + canon_model(d) + v.data.hex().encode() + b";"
    return canon_model(v)


def canon_model(v):
    """like canon.canon, but reals in the model's form (E<exact>~<short>; is not needed: the importer never looks
    inside numbers, so a real is carried as D<text>;)"""
    if isinstance(v, float):
        return b"D" + repr(v).encode() + b";"
    if isinstance(v, (list, tuple)):
        return b"[" + b" ".join(canon_model(x) for x in v) + b"]"
    if isinstance(v, dict):
        return b"{" + b" ".join((k.s if isinstance(k, Name) else k.encode("latin-1")).hex().encode() + b":" + canon_model(x) for k, x in v.items()) + b"}"
    if isinstance(v, Stream):
        return canon_obj(v)
    return K.canon(v)


# ------------------------------------------------------------------------------------------------
# references and reachability

def refs_in(v, out=None):
    if out is None:
        out = []
    if isinstance(v, Ref):
        out.append(v)
    elif isinstance(v, (list, tuple)):
        for x in v:
            refs_in(x, out)
    elif isinstance(v, dict):
        for x in v.values():
            refs_in(x, out)
    elif isinstance(v, Stream):
        refs_in(v.d, out)
    return out


def reach(g, roots):
    """set of object numbers reachable from the references `roots` (numbers absent from g are reachable but have no successors)"""
    seen, todo = set(), [r.num if isinstance(r, Ref) else r for r in roots]
    while todo:
        n = todo.pop()
        if n in seen:
            continue
        seen.add(n)
        if n in g:
            todo.extend(r.num for r in refs_in(g[n]))
    return seen


def dangling(g, roots):
    """references reachable from roots whose target is not an object of g"""
    return sorted(n for n in reach(g, roots) if n not in g)


# ------------------------------------------------------------------------------------------------
# equality of content

def num_eq(a, b):
    fa = struct.unpack(">f", struct.pack(">f", float(a)))[0]
    fb = struct.unpack(">f", struct.pack(">f", float(b)))[0]
    return fa == fb


def is_num(x):
    return isinstance(x, (int, float)) and not isinstance(x, bool)


def filter_chain(g, st):
    """[(filter name bytes | None, parms dict | None)] in decoding order (Table 5: /Filter a name or an array,
    /DecodeParms a dictionary or an array parallel to it)"""
    f = deref(g, st.d.get("Filter"))
    names = [] if f is None else ([deref(g, x) for x in f] if isinstance(f, list) else [f])
    p = deref(g, st.d.get("DecodeParms"))
    parms = [] if p is None else ([deref(g, x) for x in p] if isinstance(p, list) else [p])
    out = []
    for i, n in enumerate(names):
        pd = parms[i] if i < len(parms) else None
        out.append((n.s if isinstance(n, Name) else None, pd if isinstance(pd, dict) else None))
    return out


ABBREV = {b"AHx": b"ASCIIHexDecode", b"A85": b"ASCII85Decode", b"Fl": b"FlateDecode", b"RL": b"RunLengthDecode", b"LZW": b"LZWDecode",
          b"DCT": b"DCTDecode", b"CCF": b"CCITTFaxDecode"}


def decode_prefix(g, st):
    """undo the filters of a stream as far as the oracle can: -> (data after the decodable prefix of the chain,
    [names of the filters that remain]).  An image codec (DCTDecode, JPXDecode, …), a predictor or damaged data
    stop the decoding there; what remains is compared as it is."""
    chain = filter_chain(g, st)
    data = st.data
    for i, (s, pd) in enumerate(chain):
        s = ABBREV.get(s, s)
        pd = {k: deref(g, v) for k, v in (pd or {}).items()}
        try:
            if s == b"ASCIIHexDecode":
                nd = codecs.hex_decode(data)
            elif s == b"ASCII85Decode":
                nd = codecs.a85_decode(data)
            elif s == b"RunLengthDecode":
                nd = codecs.rle_decode(data)
            elif s == b"FlateDecode" and pd.get("Predictor", 1) == 1:
                nd = zlib.decompress(data)
            elif s == b"LZWDecode" and pd.get("Predictor", 1) == 1:
                nd = codecs.lzw_decode(data, pd.get("EarlyChange", 1))
            else:
                nd = None
        except Exception:
            nd = None
        if nd is None:
            return data, [ABBREV.get(x, x) for x, _ in chain[i:]]
        data = nd
    return data, []


def decode_stream(g, st):
    """decoded data of a stream by the filters the oracle knows; None if a filter is unknown"""
    data, rest = decode_prefix(g, st)
    return data if not rest else None


def stream_data_problem(gs, a, gn, b):
    """None if the data of the copy `b` equals the original's `a` — ISO 32000-1 §7.3.8: a stream is its dictionary and
    its bytes *as interpreted through /Filter*.  Equal when the raw bytes and the filter chains are equal; or, when the
    copy was re-encoded, when both decode (as far as the oracle can undo the chain) to the same bytes with the same
    filters still to be applied.  In both cases the decodable prefix must decode alike: raw bytes that are equal under
    different filters, or decoded bytes stored under the original's filters, are different data."""
    ca, cb = filter_chain(gs, a), filter_chain(gn, b)
    na, nb = [ABBREV.get(x, x) for x, _ in ca], [ABBREV.get(x, x) for x, _ in cb]
    xa, ra = decode_prefix(gs, a)
    xb, rb = decode_prefix(gn, b)
    if a.data == b.data and na == nb:
        if (xa, ra) != (xb, rb):
            return "same raw bytes and filters but the decoding parameters differ (%d / %d decoded bytes)" % (len(xa), len(xb))
        return None
    if ra != rb:
        return "stream data differs: %d / %d raw bytes, filters %s / %s (not decodable to a common form: %s / %s remain)" % (
            len(a.data), len(b.data), _fl(na), _fl(nb), _fl(ra), _fl(rb))
    if xa != xb:
        return "stream data differs: %d / %d raw bytes under filters %s / %s decode to different data (%d / %d bytes)" % (
            len(a.data), len(b.data), _fl(na), _fl(nb), len(xa), len(xb))
    return None


def _fl(names):
    return "[" + " ".join((n or b"?").decode("latin-1") for n in names) + "]"


def deref(g, v, limit=32):
    while isinstance(v, Ref) and limit:
        v = g.get(v.num)
        limit -= 1
    return v


class Diff(Exception):
    pass


class Matcher:
    """bisimulation between (source graph, value) and (new graph, value).

    strict=True  : a reference must correspond to a reference (the copy keeps the indirection)
    strict=False : a reference is transparent (ISO 32000-1 §7.3.10: an indirect reference stands for the object)
    Pairs (source number, new number) met at corresponding positions are collected in `pairs`."""

    def __init__(self, gs, gn, strict=False, ignore_keys=(), content_aware=False):
        self.gs, self.gn, self.strict = gs, gn, strict
        self.pairs = set()
        self.seen = set()
        self.ignore = set(ignore_keys)
        # content_aware: a tiling pattern (PatternType 1, §8.7.3) is a content stream with its own resources: its data is
        # compared as an operation sequence and its /Resources by the names the operations use (as for a page).
        self.content_aware = content_aware

    def eq(self, a, b, path="", top_ignore=()):
        if isinstance(a, Ref) and isinstance(b, Ref):
            self.pairs.add((a.num, b.num))
            key = (a.num, b.num)
            if key in self.seen:
                return
            self.seen.add(key)
            if b.num not in self.gn:
                raise Diff("%s: reference %r of the new document has no object" % (path, b))
            if a.num not in self.gs:
                # a dangling source reference denotes null
                if self.gn[b.num] is not None:
                    raise Diff("%s: source reference %r is dangling but the copy is not null" % (path, a))
                return
            if self.gn[b.num] is None and self.gs[a.num] is not None:
                raise Diff("%s: source object %d is lost: its copy, new object %d, is null" % (path, a.num, b.num))
            return self.eq(self.gs[a.num], self.gn[b.num], path + "->%d" % a.num)
        if isinstance(a, Ref) or isinstance(b, Ref):
            if self.strict:
                raise Diff("%s: reference against direct value (%r / %r)" % (path, a, b))
            if isinstance(a, Ref):
                return self.eq(self.gs.get(a.num), b, path + "->%d" % a.num)
            if b.num not in self.gn:
                raise Diff("%s: reference %r of the new document has no object" % (path, b))
            return self.eq(a, self.gn[b.num], path + "=>%d" % b.num)
        if is_num(a) and is_num(b):
            if not num_eq(a, b):
                raise Diff("%s: number %r != %r" % (path, a, b))
            return
        if isinstance(a, Stream) and isinstance(b, Stream):
            if self.content_aware and deref(self.gs, a.d.get("PatternType")) == 1:
                xa, xb = decode_stream(self.gs, a), decode_stream(self.gn, b)
                if xa is not None and xb is not None:
                    return self.eq_tiling(a, b, xa, xb, path)
            da = {k: v for k, v in a.d.items() if k != "Length" and not default_parms(self.gs, k, v)}
            db = {k: v for k, v in b.d.items() if k != "Length" and not default_parms(self.gn, k, v)}
            # a single filter may be given as a name or as a one-element array (Table 5)
            for dd, gg in ((da, self.gs), (db, self.gn)):
                for fk in ("Filter", "DecodeParms"):
                    if fk in dd:
                        fv = deref(gg, dd[fk])
                        if fv is not None and not isinstance(fv, list):
                            dd[fk] = [fv]
            lb = deref(self.gn, b.d.get("Length"))
            if lb != len(b.data):
                raise Diff("%s: /Length %r of the copy differs from its %d data bytes" % (path, lb, len(b.data)))
            # /DecodeParms entry by entry: an entry that states the default of Table 8 says the same as its absence
            pa, pb = norm_parms(self.gs, a), norm_parms(self.gn, b)
            if pa is not None and pb is not None:
                da.pop("DecodeParms", None)
                db.pop("DecodeParms", None)
                for i in range(max(len(pa), len(pb))):
                    self.eq(pa[i] if i < len(pa) else {}, pb[i] if i < len(pb) else {}, path + "{stream}/DecodeParms[%d]" % i)
            self.eq(da, db, path + "{stream}", top_ignore)
            why = stream_data_problem(self.gs, a, self.gn, b)
            if why:
                raise Diff("%s: %s" % (path, why))
            return
        if type(a) != type(b) and not (isinstance(a, (list, tuple)) and isinstance(b, (list, tuple))):
            raise Diff("%s: %r against %r" % (path, _short(a), _short(b)))
        if isinstance(a, dict):
            for k in a:
                # an entry whose copy refers to a null object says nothing any more: name the object that was lost
                if k in b and isinstance(a[k], Ref) and isinstance(b[k], Ref) and deref(self.gs, a[k]) is not None \
                        and b[k].num in self.gn and self.gn[b[k].num] is None:
                    raise Diff("%s/%s: source object %d is lost: its copy, new object %d, is null" % (path, k, a[k].num, b[k].num))
            ka = set(k for k in a if k not in top_ignore and k not in self.ignore and not _nullish(self.gs, a[k]) and not _is_default(self.gs, k, a[k]))
            kb = set(k for k in b if k not in top_ignore and k not in self.ignore and not _nullish(self.gn, b[k]) and not _is_default(self.gn, k, b[k]))
            if "Type" in kb and "Type" not in ka and isinstance(deref(self.gn, b["Type"]), Name):
                kb.discard("Type")      # an optional /Type stated by the copy only adds no content
            if ka != kb:
                raise Diff("%s: keys differ: only in source %s, only in copy %s" % (path, sorted(ka - kb), sorted(kb - ka)))
            for k in sorted(ka):
                self.eq(a[k], b[k], path + "/" + k)
            return
        if isinstance(a, (list, tuple)):
            if len(a) != len(b):
                raise Diff("%s: array length %d != %d" % (path, len(a), len(b)))
            if len(a) == 4 and deref(self.gs, a[0]) == Name("Indexed") and not self.strict:
                # [/Indexed base hival lookup]: the palette may be held as a string or as a stream (§8.6.6.3) — the same
                # bytes are the same palette; a stream is an indirect object (§7.3.8), never a direct element of the array
                if isinstance(b[3], Stream):
                    raise Diff("%s[3]: the palette of the copy is a stream written directly inside the colour-space array "
                               "(a stream shall be an indirect object)" % path)
                la, lb = indexed_lookup(self.gs, a[3]), indexed_lookup(self.gn, b[3])
                if la is not None and lb is not None:
                    for i in range(3):
                        self.eq(a[i], b[i], path + "[%d]" % i)
                    if la != lb:
                        raise Diff("%s[3]: the palettes differ (%d / %d bytes)" % (path, len(la), len(lb)))
                    return
            for i, (x, y) in enumerate(zip(a, b)):
                self.eq(x, y, path + "[%d]" % i)
            return
        if a != b:
            raise Diff("%s: %r != %r" % (path, _short(a), _short(b)))


    def eq_tiling(self, a, b, xa, xb, path):
        """a tiling pattern and its copy (Table 75): the entries other than /Length /Filter /DecodeParms /Resources entry by
        entry, the decoded data as operation sequences, and every resource the operations name"""
        skip = ("Length", "Filter", "DecodeParms", "Resources")
        lb = deref(self.gn, b.d.get("Length"))
        if lb != len(b.data):
            raise Diff("%s: /Length %r of the copy differs from its %d data bytes" % (path, lb, len(b.data)))
        da = {k: v for k, v in a.d.items() if k not in skip}
        db = {k: v for k, v in b.d.items() if k not in skip}
        self.eq(da, db, path + "{pattern}")
        ta, tb = tokens(xa), tokens(xb)
        why = tokens_equal(ta, tb) and ops_problem(self, ta, tb, path + "{pattern}")
        if why:
            raise Diff("%s: the operations of the tiling pattern differ: %s" % (path, why))
        ra = deref(self.gs, a.d.get("Resources"))
        rb = deref(self.gn, b.d.get("Resources"))
        ra, rb = (ra if isinstance(ra, dict) else {}), (rb if isinstance(rb, dict) else {})
        for cat, name in resource_uses(ta):
            sd = deref(self.gs, ra.get(cat))
            key = name.decode("latin-1")
            if not isinstance(sd, dict) or key not in sd or deref(self.gs, sd[key]) is None:
                continue
            nd = deref(self.gn, rb.get(cat))
            if not isinstance(nd, dict) or key not in nd:
                raise Diff("%s: resource /%s /%s used by the operations of the tiling pattern is missing" % (path, cat, key))
            self.eq(sd[key], nd[key], path + "/Resources/%s/%s" % (cat, key))


PARM_DEFAULTS = {"Predictor": 1, "Colors": 1, "BitsPerComponent": 8, "Columns": 1, "EarlyChange": 1}


def default_parms(g, k, v):
    """/DecodeParms whose entries all have the default values of Table 8 say the same as no /DecodeParms"""
    if k not in ("DecodeParms", "DP"):
        return False
    v = deref(g, v)
    if v is None:
        return True
    items = v if isinstance(v, list) else [v]
    for d in items:
        d = deref(g, d)
        if d is None:
            continue
        if not isinstance(d, dict) or any(PARM_DEFAULTS.get(kk, object()) != deref(g, x) for kk, x in d.items()):
            return False
    return True


FLATE_LZW = (b"FlateDecode", b"Fl", b"LZWDecode", b"LZW")


def norm_parms(g, st):
    """the parameters of each filter of a stream without the entries that are null or (FlateDecode / LZWDecode, Table 8) state
    the default value; [] when no filter has any left.  None if /Filter and /DecodeParms are not of the regular shape (a name
    with a dictionary, or an array with an array of dictionaries / nulls not longer than it): then they are compared as they are"""
    f = deref(g, st.d.get("Filter"))
    p = deref(g, st.d.get("DecodeParms"))
    if f is None or p is None:
        return [] if p is None else None
    if not isinstance(f, (Name, list)) or not isinstance(p, (dict, list)):
        return None
    names = [deref(g, x) for x in f] if isinstance(f, list) else [f]
    parms = [deref(g, x) for x in p] if isinstance(p, list) else [p]
    if len(parms) > len(names) or not all(isinstance(n, Name) for n in names) or not all(d is None or isinstance(d, dict) for d in parms):
        return None
    out = []
    for i, n in enumerate(names):
        d = {k: v for k, v in ((parms[i] if i < len(parms) else None) or {}).items() if deref(g, v) is not None}
        if n.s in FLATE_LZW:
            d = {k: v for k, v in d.items()
                 if not (k in PARM_DEFAULTS and is_num(deref(g, v)) and deref(g, v) == PARM_DEFAULTS[k])}
        out.append(d)
    return out if any(out) else []


def indexed_lookup(g, v):
    """the palette of an Indexed colour space (§8.6.6.3: a stream or a byte string) as bytes; None if it is neither a string
    nor a reference to a stream the oracle can decode"""
    if isinstance(v, (bytes, bytearray)):
        return bytes(v)
    if isinstance(v, Ref):
        t = deref(g, v)
        if isinstance(t, (bytes, bytearray)):
            return bytes(t)
        if isinstance(t, Stream):
            return decode_stream(g, t)
    return None


# entries whose absence means exactly this value (Table 89 image dictionaries, Table 95 form dictionaries)
ENTRY_DEFAULTS = {"ImageMask": False, "Interpolate": False, "FormType": 1}


def _is_default(g, k, v):
    if k not in ENTRY_DEFAULTS:
        return False
    v = deref(g, v)
    d = ENTRY_DEFAULTS[k]
    return type(v) == type(d) and v == d


def _nullish(g, v):
    # a dictionary entry whose value is null is equivalent to an absent entry (§7.3.7)
    return deref(g, v) is None


def _short(v):
    s = repr(v)
    return s if len(s) < 80 else s[:77] + "..."


def copy_relation_problems(pairs):
    """`pairs` (source number, new number): the relation must be a function (copied once) and injective (no merging)"""
    out = []
    f, inv = {}, {}
    for a, b in sorted(pairs):
        if a in f and f[a] != b:
            out.append("source object %d was copied more than once (new objects %d and %d)" % (a, f[a], b))
        f.setdefault(a, b)
        if b in inv and inv[b] != a:
            out.append("new object %d stands for two source objects (%d and %d)" % (b, inv[b], a))
        inv.setdefault(b, a)
    return out


def closure_problems(gn, roots):
    d = dangling(gn, roots)
    return ["reference to object %d, which the new document does not define" % n for n in d]


# ------------------------------------------------------------------------------------------------
# page tree (§7.7.3): leaves in order, inherited attributes

INHERITABLE = ("Resources", "MediaBox", "CropBox", "Rotate")


def pages_of(g, trailer):
    """list of (object number | None, page dict, inherited dict) in document order"""
    root = deref(g, trailer.get("Root"))
    out = []

    def walk(node_ref, inh, depth):
        node = deref(g, node_ref)
        if not isinstance(node, dict) or depth > 64:
            return
        inh = dict(inh)
        ty = deref(g, node.get("Type"))
        if "Kids" in node and ty != Name("Page"):
            for k in INHERITABLE:
                if k in node:
                    inh[k] = node[k]
            for kid in deref(g, node["Kids"]) or []:
                walk(kid, inh, depth + 1)
        else:
            out.append((node_ref.num if isinstance(node_ref, Ref) else None, node, inh))
    if isinstance(root, dict):
        walk(root.get("Pages"), {}, 0)
    return out


def page_attr(g, page, inh, key):
    v = page.get(key)
    if deref(g, v) is None:
        v = inh.get(key)
    return v


def rect_of(g, v):
    v = deref(g, v)
    if not isinstance(v, list) or len(v) != 4:
        return None
    return [float(deref(g, x)) for x in v]


def page_content(g, page):
    """concatenated decoded content of a page (streams of an array are joined by white-space, §7.8.2)"""
    c = page.get("Contents")
    v = deref(g, c)
    if v is None:
        return b""
    parts = v if isinstance(v, list) else [c]
    out = []
    for p in parts:
        st = deref(g, p)
        if not isinstance(st, Stream):
            return None
        d = decode_stream(g, st)
        if d is None:
            return None
        out.append(d)
    return b"\n".join(out)


# ------------------------------------------------------------------------------------------------
# content streams: tokens (§7.8.2, §7.2) — enough for the streams the generator writes and the usual producers

WS = b"\x00\t\n\x0c\r "
DELIM = b"()<>[]{}/%"


def tokens(data):
    """-> list of tokens: ('num', float) ('name', bytes) ('str', bytes) ('op', bytes) ('[',) (']',) ('<<',) ('>>',) ('inline', dict tokens, bytes)"""
    i, n = 0, len(data)
    out = []
    while i < n:
        c = data[i]
        if c in WS:
            i += 1
        elif c == 37:
            while i < n and data[i] not in b"\r\n":
                i += 1
        elif c == 47:
            j = i + 1
            while j < n and data[j] not in WS and data[j] not in DELIM:
                j += 1
            raw = data[i + 1:j]
            nm = bytearray()
            k = 0
            while k < len(raw):
                if raw[k] == 35 and k + 2 < len(raw) + 0 and all(chr(x) in "0123456789abcdefABCDEF" for x in raw[k + 1:k + 3]) and len(raw[k + 1:k + 3]) == 2:
                    nm.append(int(raw[k + 1:k + 3], 16))
                    k += 3
                else:
                    nm.append(raw[k])
                    k += 1
            out.append(("name", bytes(nm)))
            i = j
        elif c == 40:
            depth, j, s = 1, i + 1, bytearray()
            while j < n and depth:
                ch = data[j]
                if ch == 92 and j + 1 < n:
                    e = data[j + 1]
                    m = {110: 10, 114: 13, 116: 9, 98: 8, 102: 12, 40: 40, 41: 41, 92: 92}
                    if e in m:
                        s.append(m[e]); j += 2
                    elif 48 <= e <= 55:
                        k, v = j + 1, 0
                        while k < n and k < j + 4 and 48 <= data[k] <= 55:
                            v = v * 8 + data[k] - 48; k += 1
                        s.append(v & 255); j = k
                    elif e == 13:
                        j += 3 if data[j + 2:j + 3] == b"\n" else 2
                    elif e == 10:
                        j += 2
                    else:
                        s.append(e); j += 2
                    continue
                if ch == 40:
                    depth += 1
                elif ch == 41:
                    depth -= 1
                    if depth == 0:
                        j += 1
                        break
                s.append(ch)
                j += 1
            out.append(("str", bytes(s)))
            i = j
        elif c == 60 and data[i + 1:i + 2] == b"<":
            out.append(("<<",)); i += 2
        elif c == 62 and data[i + 1:i + 2] == b">":
            out.append((">>",)); i += 2
        elif c == 60:
            j = data.index(b">", i)
            h = bytes(x for x in data[i + 1:j] if x not in WS)
            if len(h) % 2:
                h += b"0"
            out.append(("str", bytes.fromhex(h.decode())))
            i = j + 1
        elif c == 91:
            out.append(("[",)); i += 1
        elif c == 93:
            out.append(("]",)); i += 1
        elif c in b"{}":
            out.append(("op", bytes([c]))); i += 1
        else:
            j = i
            while j < n and data[j] not in WS and data[j] not in DELIM:
                j += 1
            w = data[i:j]
            i = j
            try:
                out.append(("num", float(w)))
                continue
            except ValueError:
                pass
            if w == b"ID":
                # inline image data up to EI preceded by white-space
                k = i + 1
                e = data.find(b"EI", k)
                while e != -1 and not (data[e - 1] in WS and (e + 2 >= n or data[e + 2] in WS or data[e + 2] in DELIM)):
                    e = data.find(b"EI", e + 1)
                if e == -1:
                    e = n
                out.append(("inline", data[k:e].rstrip(WS)))
                i = e + 2
                continue
            out.append(("op", w))
    return out


def tokens_equal(a, b):
    if len(a) != len(b):
        return "token counts differ (%d / %d)" % (len(a), len(b))
    for i, (x, y) in enumerate(zip(a, b)):
        if x[0] != y[0]:
            return "token %d: %r / %r" % (i, x, y)
        if x[0] == "num":
            if not num_eq(x[1], y[1]):
                return "token %d: number %r / %r" % (i, x[1], y[1])
        elif x != y:
            return "token %d: %r / %r" % (i, x, y)
    return None


_MARK_A, _MARK_D = object(), object()


def operations(toks):
    """tokens -> [(operator, [operand values])] (§7.8.2: operands precede their operator).  Operands are values of the
    oracle (float, Name, bytes, bool, None, list, dict with str keys, Ref for `n g R` — the library's reader accepts a
    reference inside an operand); inline image data is the last operand of the pseudo-operator ID"""
    out, st = [], []

    def close(mark):
        items = []
        while st and st[-1] is not mark:
            items.append(st.pop())
        if st:
            st.pop()
        items.reverse()
        return items
    for t in toks:
        k = t[0]
        if k == "num":
            st.append(t[1])
        elif k == "name":
            st.append(Name(t[1]))
        elif k == "str":
            st.append(t[1])
        elif k == "[":
            st.append(_MARK_A)
        elif k == "<<":
            st.append(_MARK_D)
        elif k == "]":
            st.append(close(_MARK_A))
        elif k == ">>":
            it = close(_MARK_D)
            st.append({(x.s.decode("latin-1") if isinstance(x, Name) else repr(x)): y for x, y in zip(it[0::2], it[1::2])})
        elif k == "inline":
            out.append((b"ID", [x for x in st if x is not _MARK_A and x is not _MARK_D] + [t[1]]))
            st = []
        else:
            op = t[1]
            if op == b"R" and len(st) >= 2 and all(isinstance(x, float) and x == int(x) and x >= 0 for x in st[-2:]):
                g_ = int(st.pop())
                st.append(Ref(int(st.pop()), g_))
            elif op in (b"true", b"false"):
                st.append(op == b"true")
            elif op == b"null":
                st.append(None)
            else:
                out.append((op, [x for x in st if x is not _MARK_A and x is not _MARK_D]))
                st = []
    return out


def ops_problem(M, ta, tb, path="ops"):
    """None if the two token lists are the same operation sequence: the same operators with equal operands, where a
    reference in an operand stands for the object it designates in its own document (compared through the matcher M,
    which also records the pair) and the order of the entries of a dictionary operand is immaterial"""
    oa, ob = operations(ta), operations(tb)
    for i, ((pa, xa), (pb, xb)) in enumerate(zip(oa, ob)):
        if pa != pb or len(xa) != len(xb):
            return "operation %d: %s with %d operand(s) / %s with %d operand(s)" % (
                i, pa.decode("latin-1"), len(xa), pb.decode("latin-1"), len(xb))
        for j, (x, y) in enumerate(zip(xa, xb)):
            try:
                M.eq(x, y, "%s[%d] %s operand %d" % (path, i, pa.decode("latin-1"), j))
            except Diff as e:
                return "operation %d: %s" % (i, e)
    if len(oa) != len(ob):
        return "%d / %d operations" % (len(oa), len(ob))
    return None


# operators that name a resource (Table 51 ff.): operator -> (category of the resource dictionary, operand index from the end)
RES_OPS = {b"Tf": "Font", b"Do": "XObject", b"gs": "ExtGState", b"cs": "ColorSpace", b"CS": "ColorSpace", b"sh": "Shading"}
DEVICE_CS = {b"DeviceGray", b"DeviceRGB", b"DeviceCMYK", b"Pattern"}


def resource_uses(toks):
    """[(category, name)] in the order of first use: the resource names the operations refer to"""
    out, seen = [], set()
    stack = []
    for t in toks:
        if t[0] != "op":
            stack.append(t)
            continue
        op = t[1]
        names = [x[1] for x in stack if x[0] == "name"]
        use = None
        if op in RES_OPS and names:
            cat = RES_OPS[op]
            nm = names[0] if op == b"Tf" else names[-1]
            if not (cat == "ColorSpace" and nm in DEVICE_CS):
                use = (cat, nm)
        elif op in (b"scn", b"SCN") and stack and stack[-1][0] == "name":
            use = ("Pattern", stack[-1][1])
        elif op in (b"BDC", b"DP") and len(stack) >= 2 and stack[-1][0] == "name":
            use = ("Properties", stack[-1][1])
        if use and use not in seen:
            seen.add(use)
            out.append(use)
        stack = []
    return out


# ------------------------------------------------------------------------------------------------
# the judgement of one import (property C20), from the harness output of mode `import`

def f32bits(x):
    return struct.unpack(">I", struct.pack(">f", float(x)))[0]


def rect_bits(r):
    return ",".join("%08x" % f32bits(x) for x in r)


def split_import_result(fields):
    """-> dict(npages, views=[(media, crop, trimrot, old_ops, new_ops)], new_objs=[canon…], new_trailer, src_objs, src_trailer)"""
    n = int(fields[0])
    views = [tuple(fields[1 + 5 * i: 6 + 5 * i]) for i in range(n)]
    p = 1 + 5 * n
    k = int(fields[p])
    new_objs = fields[p + 1: p + 1 + k]
    new_trailer = fields[p + 1 + k]
    p = p + 2 + k
    src_objs = src_trailer = None
    if p < len(fields):
        k2 = int(fields[p])
        src_objs = fields[p + 1: p + 1 + k2]
        src_trailer = fields[p + 1 + k2]
    return {"npages": n, "views": views, "new_objs": new_objs, "new_trailer": new_trailer, "src_objs": src_objs, "src_trailer": src_trailer}


# entries of a page object that the page view / the resources judge, or that an import does not carry (/Parent, /Annots)
PAGE_JUDGED = ("Type", "Parent", "Resources", "MediaBox", "CropBox", "TrimBox", "Contents", "Rotate", "Annots")


def judge_import(gs, src_trailer, sel, fields, expect=None, content_tokens=True, page_entries=False):
    """None if the imported pages satisfy C20, else the reason.

    gs / src_trailer : the source graph and trailer dictionary (known by construction, or the dump of the source)
    sel              : page indices imported, in order
    expect           : per source page dict(media, crop, trim, rotate, content) known by construction (optional)"""
    R = split_import_result(fields)
    if R["npages"] != len(sel):
        return "%d pages imported instead of %d" % (R["npages"], len(sel))
    gn = graph_of_dump(R["new_objs"])
    tn = of_canon(R["new_trailer"])
    # --- closure: every reference reachable from the new trailer is defined in the new document
    roots = refs_in(tn)
    cp = closure_problems(gn, roots)
    if cp:
        return "not self-contained: " + cp[0]
    spages = pages_of(gs, src_trailer)
    npages = pages_of(gn, tn)
    if len(npages) != len(sel):
        return "the new page tree has %d leaves instead of %d" % (len(npages), len(sel))
    M = Matcher(gs, gn, strict=False, content_aware=True)
    for j, pi in enumerate(sel):
        if pi >= len(spages):
            return "source has no page %d" % pi
        _, sp, sinh = spages[pi]
        _, np_, ninh = npages[j]
        media, crop, trimrot, old_ops, new_ops = R["views"][j]
        # --- boxes and rotation (typed view of the reloaded document, and the raw dictionaries)
        smedia = rect_of(gs, page_attr(gs, sp, sinh, "MediaBox"))
        scrop = rect_of(gs, page_attr(gs, sp, sinh, "CropBox")) or smedia
        strim = rect_of(gs, sp.get("TrimBox"))
        srot = deref(gs, page_attr(gs, sp, sinh, "Rotate")) or 0
        if expect is not None:
            e = expect[pi]
            if [float(x) for x in e["media"]] != smedia or [float(x) for x in e["crop"]] != scrop or e["rotate"] != srot:
                return "oracle inconsistency: constructed page attributes differ from the page-tree reading"
        if smedia is None:
            return "source page %d has no MediaBox" % pi
        if media.decode() != rect_bits(smedia):
            return "page %d: MediaBox %s instead of %s" % (j, media.decode(), rect_bits(smedia))
        if crop.decode() != rect_bits(scrop):
            return "page %d: CropBox %s instead of %s" % (j, crop.decode(), rect_bits(scrop))
        want_tr = "%s|%d" % (rect_bits(strim) if strim else "-", srot)
        if trimrot.decode() != want_tr:
            return "page %d: TrimBox|Rotate %s instead of %s" % (j, trimrot.decode(), want_tr)
        nmedia = rect_of(gn, page_attr(gn, np_, ninh, "MediaBox"))
        ncrop = rect_of(gn, page_attr(gn, np_, ninh, "CropBox")) or nmedia
        nrot = deref(gn, page_attr(gn, np_, ninh, "Rotate")) or 0
        if nmedia is None or [f32bits(x) for x in nmedia] != [f32bits(x) for x in smedia]:
            return "page %d: raw MediaBox %r instead of %r" % (j, nmedia, smedia)
        if [f32bits(x) for x in ncrop] != [f32bits(x) for x in scrop]:
            return "page %d: raw CropBox %r instead of %r" % (j, ncrop, scrop)
        if nrot != srot:
            return "page %d: raw Rotate %r instead of %r" % (j, nrot, srot)
        # --- operation sequence
        r = tokens_equal(tokens(old_ops), tokens(new_ops)) and ops_problem(M, tokens(old_ops), tokens(new_ops), "page%d" % j)
        if r:
            return "page %d: operation sequence differs after reload: %s" % (j, r)
        stoks = None
        if content_tokens:
            sc = page_content(gs, sp)
            nc = page_content(gn, np_)
            if sc is not None:
                if expect is not None and tokens_equal(tokens(expect[pi]["content"]), tokens(sc)):
                    return "oracle inconsistency: constructed content differs from the decoded source content"
                if nc is None:
                    return "page %d: content of the new page cannot be decoded" % j
                stoks = tokens(sc)
                r = tokens_equal(stoks, tokens(nc)) and ops_problem(M, stoks, tokens(nc), "page%d" % j)
                if r:
                    return "page %d: content tokens differ: %s" % (j, r)
        if stoks is None:
            stoks = tokens(old_ops)
        # --- every resource the operations name
        sres = deref(gs, page_attr(gs, sp, sinh, "Resources")) or {}
        nres = deref(gn, page_attr(gn, np_, ninh, "Resources")) or {}
        for cat, name in resource_uses(stoks):
            sd = deref(gs, sres.get(cat)) or {}
            key = name.decode("latin-1")
            if not isinstance(sd, dict) or key not in sd or deref(gs, sd[key]) is None:
                continue        # the source page itself does not define it
            nd = deref(gn, nres.get(cat)) or {}
            if not isinstance(nd, dict) or key not in nd:
                return "page %d: resource /%s /%s used by the operations is missing" % (j, cat, key)
            try:
                M.eq(sd[key], nd[key], "page%d/%s/%s" % (j, cat, key))
            except Diff as e:
                return "resource content differs: %s" % e
            except RecursionError:
                return "oracle: recursion limit while comparing /%s /%s" % (cat, key)
        # --- the other entries of the page object (page_entries=True): each is there with equal content
        if page_entries:
            for key in sorted(sp):
                if key in PAGE_JUDGED or deref(gs, sp[key]) is None:
                    continue
                if key not in np_:
                    return "page %d: entry /%s of the source page is missing" % (j, key)
                try:
                    M.eq(sp[key], np_[key], "page%d/%s" % (j, key))
                except Diff as e:
                    return "page entry differs: %s" % e
    # --- shared source objects are copied once
    cr = copy_relation_problems(M.pairs)
    if cr:
        return cr[0]
    return None


def unsupported_uses(gs, src_trailer, sel, handled=("Font", "XObject", "ExtGState")):
    """resource uses of the selected pages in categories outside `handled` that the source defines"""
    out = []
    spages = pages_of(gs, src_trailer)
    for pi in sel:
        if pi >= len(spages):
            continue
        _, sp, sinh = spages[pi]
        sc = page_content(gs, sp)
        if sc is None:
            continue
        sres = deref(gs, page_attr(gs, sp, sinh, "Resources")) or {}
        for cat, name in resource_uses(tokens(sc)):
            sd = deref(gs, sres.get(cat)) or {}
            if cat not in handled and isinstance(sd, dict) and name.decode("latin-1") in sd:
                out.append((cat, name))
    return out
