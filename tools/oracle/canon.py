"""tools/oracle/canon.py — canonical text form of a value (same grammar as harness/src/util.rs::canon)."""
import struct
from .pdfwriter import Name, Ref, Stream


def f32_bits(x):
    return struct.unpack(">I", struct.pack(">f", x))[0]


def canon(v, int_as_real=False):
    if v is None:
        return b"n"
    if v is True:
        return b"t"
    if v is False:
        return b"f"
    if isinstance(v, int):
        return b"i%d" % v
    if isinstance(v, float):
        return b"r%08x" % f32_bits(v)
    if isinstance(v, Name):
        return b"N" + v.s.hex().encode() + b";"
    if isinstance(v, Ref):
        return b"R%d,%d" % (v.num, v.gen)
    if isinstance(v, (bytes, bytearray)):
        return b"S" + bytes(v).hex().encode() + b";"
    if isinstance(v, (list, tuple)):
        return b"[" + b" ".join(canon(x) for x in v) + b"]"
    if isinstance(v, dict):
        return b"{" + b" ".join((k.s if isinstance(k, Name) else k.encode()).hex().encode() + b":" + canon(x) for k, x in v.items()) + b"}"
    if isinstance(v, Stream):
        d = dict(v.d)
        d["Length"] = v.raw_len if v.raw_len is not None else len(v.data)
        return b"s" + canon(d) + v.data.hex().encode() + b";"
    raise TypeError(repr(v))
