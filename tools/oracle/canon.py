"""tools/oracle/canon.py — canonical text form of a value (same grammar as harness/src/util.rs::canon)."""
import struct
from .pdfwriter import Name, Ref, Stream


def f32_bits(x):
    return struct.unpack(">I", struct.pack(">f", x))[0]


def canon(v, int_as_real=False):
    if v is None:
        return b"n"
    if v is True:
        return b"t"
    if v is False:
        return b"f"
    if isinstance(v, int):
        return b"i%d" % v
    if isinstance(v, float):
        return b"r%08x" % f32_bits(v)
    if isinstance(v, Name):
        return b"N" + v.s.hex().encode() + b";"
    if isinstance(v, Ref):
        return b"R%d,%d" % (v.num, v.gen)
    if isinstance(v, (bytes, bytearray)):
        return b"S" + bytes(v).hex().encode() + b";"
    if isinstance(v, (list, tuple)):
        return b"[" + b" ".join(canon(x) for x in v) + b"]"
    if isinstance(v, dict):
        return b"{" + b" ".join((k.s if isinstance(k, Name) else k.encode()).hex().encode() + b":" + canon(x) for k, x in v.items()) + b"}"
    if isinstance(v, Stream):
        d = dict(v.d)
        d["Length"] = v.raw_len if v.raw_len is not None else len(v.data)
        return b"s" + canon(d) + v.data.hex().encode() + b";"
    raise TypeError(repr(v))


# ---------------------------------------------------------------------------------------------
# reader of the canon text form and value equivalence (integers and reals of equal value identified)
from fractions import Fraction


class CanonError(Exception):
    pass


def parse_canon(b):
    """-> nested python structure: ('n',) ('b',bool) ('i',int) ('r',bits) ('N',bytes) ('S',bytes) ('R',id,gen)
    ('a',[...]) ('d',[(key,val)...]) ('s',dict_entries,data|None)"""
    pos = 0

    def num():
        nonlocal pos
        st = pos
        while pos < len(b) and (48 <= b[pos] <= 57 or b[pos] == 45):
            pos += 1
        return int(b[st:pos])

    def hexs():
        nonlocal pos
        st = pos
        while pos + 1 < len(b) and chr(b[pos]) in "0123456789abcdef" and chr(b[pos + 1]) in "0123456789abcdef":
            pos += 2
        return bytes.fromhex(b[st:pos].decode())

    def entries():
        nonlocal pos
        out = []
        while True:
            if pos >= len(b):
                raise CanonError("eof in dict")
            c = b[pos]
            if c == 125:
                pos += 1
                return out
            if c == 32:
                pos += 1
                continue
            k = hexs()
            if b[pos] != 58:
                raise CanonError("':' expected")
            pos += 1
            out.append((k, val()))

    def val():
        nonlocal pos
        if pos >= len(b):
            raise CanonError("eof")
        c = chr(b[pos])
        pos += 1
        if c == "n":
            return ("n",)
        if c == "t":
            return ("b", True)
        if c == "f":
            return ("b", False)
        if c == "i":
            return ("i", num())
        if c == "r":
            v = int(b[pos:pos + 8], 16)
            pos += 8
            return ("r", v)
        if c == "N":
            x = hexs(); pos += 1
            return ("N", x)
        if c == "S":
            x = hexs(); pos += 1
            return ("S", x)
        if c == "R":
            a = num(); pos += 1
            return ("R", a, num())
        if c == "[":
            out = []
            while True:
                if b[pos] == 93:
                    pos += 1
                    return ("a", out)
                if b[pos] == 32:
                    pos += 1
                    continue
                out.append(val())
        if c == "{":
            return ("d", entries())
        if c in "sp":
            pos += 1
            d = entries()
            if pos < len(b) and b[pos] == 33:
                pos = b.index(b";", pos) + 1
                return ("s", d, None)
            x = hexs(); pos += 1
            return ("s", d, x)
        raise CanonError("tag %r" % c)
    v = val()
    return v


def _num(v):
    if v[0] == "i":
        return Fraction(v[1])
    if v[0] == "r":
        from . import f32
        bits = v[1]
        if (bits >> 23) & 255 == 255:
            return ("nonfinite", bits)
        neg, q = f32.bits_to_fraction(bits)
        return -q if neg else q
    return None


def equiv(a, b):
    """structural equality, integers and reals of equal numeric value identified"""
    na, nb = _num(a), _num(b)
    if na is not None or nb is not None:
        return na is not None and nb is not None and na == nb
    if a[0] != b[0]:
        return False
    if a[0] == "a":
        return len(a[1]) == len(b[1]) and all(equiv(x, y) for x, y in zip(a[1], b[1]))
    if a[0] == "d":
        return len(a[1]) == len(b[1]) and all(k1 == k2 and equiv(x, y) for (k1, x), (k2, y) in zip(a[1], b[1]))
    if a[0] == "s":
        return equiv(("d", a[1]), ("d", b[1])) and a[2] == b[2]
    return a == b
