#!/usr/bin/env python3
"""tools/translator_selftest.py — does a source edit change what the translator (gen/extract*.py) generates?

    python3 tools/translator_selftest.py PATCH.diff [PATCH2.diff …]       behaviour-preserving edit: expect NO difference
    python3 tools/translator_selftest.py --expect-change PATCH.diff       behaviour-changing edit: expect a difference
    python3 tools/translator_selftest.py [--expect-change] --edit FILE OLD NEW [--edit …]
                                                                          one-token edit given inline (OLD must occur exactly
                                                                          once in FILE, path relative to the repository)
    python3 tools/translator_selftest.py --sensitivity                    the built-in list of one-token behaviour changes
                                                                          (every one must change Generated.v or lose its anchor)
    options:  --on PATCH   apply PATCH first and take THAT tree as the base (sensitivity of the refactored tree)
              --keep DIR   keep G0/G1 (Generated.v of base / of edited tree) in DIR
              --json       machine-readable result on stdout

What it does: (a) copies the translator's inputs (pdf/src, pdf_derive/src of $VERIF_REPO, working-tree state) into a
scratch directory and translates it -> G0; (b) applies the patch / edit to the scratch copy and translates -> G1 (the
repository worktree itself is never written, so there is nothing to revert); reports every definition whose value,
type or anchor comment differs, every definition added / removed, and every missing anchor of either side.
Exit 0 iff the expectation holds (identical Generated.v apart from the header line naming the source directory, resp. a
difference or a lost anchor with --expect-change).
"""
import json, os, re, shutil, subprocess, sys, tempfile

HERE = os.path.dirname(os.path.abspath(__file__))
ROOT = os.path.dirname(HERE)
REPO = os.environ.get("VERIF_REPO", "/repo")
INPUTS = ["pdf/src", "pdf_derive/src"]


def copy_inputs(dst):
    for rel in INPUTS:
        shutil.copytree(os.path.join(REPO, rel), os.path.join(dst, rel))


def translate(repo, outdir):
    os.makedirs(outdir, exist_ok=True)
    env = dict(os.environ, VERIF_REPO=repo, VERIF_GEN_OUT=outdir)
    p = subprocess.run([sys.executable, os.path.join(ROOT, "gen", "extract.py")], env=env, stdout=subprocess.PIPE,
                       stderr=subprocess.STDOUT)
    out = p.stdout.decode("utf-8", "replace")
    if p.returncode != 0:
        raise SystemExit("translator crashed on %s:\n%s" % (repo, out[-3000:]))
    info = json.loads(out.strip().splitlines()[-1])
    with open(os.path.join(outdir, "Generated.v")) as f:
        text = f.read()
    return text, info["anchors_missing"]


def definitions(text):
    """name -> (anchor comment, type, term) in order"""
    out = {}
    for m in re.finditer(r"^\(\* (.*?) \*\)\nDefinition (\w+) : (.*?) := (.*?)\.\n(?=\(\* |\Z)", text, flags=re.S | re.M):
        out[m.group(2)] = (m.group(1), m.group(3), m.group(4))
    return out


def body(text):
    """Generated.v without the header line (it names the directory that was read)"""
    return text.split("\n", 1)[1]


def short(s, n=150):
    s = " ".join(s.split())
    if len(s) <= n:
        return s
    return s[:n] + " …(%d chars)" % len(s)


def first_diff(a, b):
    i = 0
    while i < min(len(a), len(b)) and a[i] == b[i]:
        i += 1
    lo = max(0, i - 40)
    return "…%s ⟨%s⟩ / ⟨%s⟩" % (" ".join(a[lo:i].split()), short(a[i:i + 60], 60), short(b[i:i + 60], 60))


def compare(g0, m0, g1, m1):
    d0, d1 = definitions(g0), definitions(g1)
    changed = []
    for n in d0:
        if n not in d1:
            changed.append({"name": n, "what": "removed", "anchor": d0[n][0]})
        elif d0[n] != d1[n]:
            a0, t0, v0 = d0[n]
            a1, t1, v1 = d1[n]
            what = "value" if v0 != v1 else ("type" if t0 != t1 else "anchor comment")
            changed.append({"name": n, "what": what, "anchor": a0, "anchor_after": a1, "before": short(v0), "after": short(v1),
                            "at": first_diff(v0, v1) if v0 != v1 else ""})
    for n in d1:
        if n not in d0:
            changed.append({"name": n, "what": "added", "anchor": d1[n][0]})
    if list(d0) != list(d1) and not changed:
        changed.append({"name": "(order)", "what": "order of definitions", "anchor": ""})
    return {"identical": body(g0) == body(g1), "definitions": len(d0), "changed": changed,
            "missing_before": m0, "missing_after": m1,
            "anchors_lost": [a for a in m1 if a.split(":")[0:2] not in [b.split(":")[0:2] for b in m0] and a not in m0]}


def apply_patch(tree, patch):
    p = subprocess.run(["git", "apply", "--whitespace=nowarn", os.path.abspath(patch)], cwd=tree, stdout=subprocess.PIPE,
                       stderr=subprocess.STDOUT)
    if p.returncode != 0:
        raise SystemExit("patch %s does not apply: %s" % (patch, p.stdout.decode()[-2000:]))


def apply_edit(tree, rel, old, new):
    path = os.path.join(tree, rel)
    with open(path, encoding="utf-8") as f:
        s = f.read()
    n = s.count(old)
    if n != 1:
        raise SystemExit("edit of %s: %r occurs %d times (need exactly 1)" % (rel, old, n))
    with open(path, "w", encoding="utf-8") as f:
        f.write(s.replace(old, new))


def run_one(patches, edits, base_patches=(), keep=None):
    tmp = tempfile.mkdtemp(prefix="trself-")
    try:
        tree = os.path.join(tmp, "tree")
        os.makedirs(tree)
        copy_inputs(tree)
        for p in base_patches:
            apply_patch(tree, p)
        g0, m0 = translate(tree, os.path.join(tmp, "g0"))
        for p in patches:
            apply_patch(tree, p)
        for rel, old, new in edits:
            apply_edit(tree, rel, old, new)
        g1, m1 = translate(tree, os.path.join(tmp, "g1"))
        if keep:
            os.makedirs(keep, exist_ok=True)
            with open(os.path.join(keep, "G0.v"), "w") as f:
                f.write(g0)
            with open(os.path.join(keep, "G1.v"), "w") as f:
                f.write(g1)
        return compare(g0, m0, g1, m1)
    finally:
        shutil.rmtree(tmp, ignore_errors=True)


def report(res, out=sys.stdout):
    w = out.write
    w("definitions: %d   identical Generated.v: %s\n" % (res["definitions"], res["identical"]))
    if res["missing_before"]:
        w("anchors missing BEFORE the edit (%d):\n" % len(res["missing_before"]))
        for a in res["missing_before"]:
            w("   - %s\n" % a)
    w("anchors missing after the edit: %d\n" % len(res["missing_after"]))
    for a in res["missing_after"]:
        w("   - %s\n" % a)
    w("definitions that differ: %d\n" % len(res["changed"]))
    for c in res["changed"]:
        w("   * %-28s [%s] %s\n" % (c["name"], c["anchor"], c["what"]))
        if c["what"] == "value":
            w("       before: %s\n       after:  %s\n       at:     %s\n" % (c["before"], c["after"], c["at"]))


# ----------------------------------------------------------------------------------------------------------------------
# built-in sensitivity list: one-token behaviour changes; each must change Generated.v or lose an anchor.
# (file, old, new, what).  Kept next to the self-test so that a later "robustness" change to an extractor can be checked
# for blindness with one command; entries whose OLD text is not in the tree (code moved on) are reported as SKIPPED.
SENSITIVITY = [
    ("pdf/src/parser/lexer/mod.rs", "b' ' | b'\\r' | b'\\n' | b'\\t' | b'\\0' | 0x0C", "b' ' | b'\\r' | b'\\n' | b'\\t' | b'\\0'", "is_whitespace: drop form feed"),
    ("pdf/src/parser/lexer/str.rs", "(b'0'..=b'7').contains", "(b'0'..=b'9').contains", "octal digit test 7 -> 9"),
]


def sensitivity(base_patches):
    bad = 0
    for rel, old, new, what in SENSITIVITY:
        try:
            res = run_one([], [(rel, old, new)], base_patches)
        except SystemExit as e:
            print("SKIPPED  %-60s %s" % (what, str(e)[:100]))
            continue
        hit = (not res["identical"]) or res["anchors_lost"]
        names = ", ".join(c["name"] for c in res["changed"][:6]) or "; ".join(a.split(":")[0] + ":" + a.split(":")[1] for a in res["anchors_lost"][:3])
        print("%-8s %-60s %s" % ("seen" if hit else "BLIND", what, names))
        bad += 0 if hit else 1
    return bad


def main(argv):
    patches, edits, base, keep, expect_change, js, sens = [], [], [], None, False, False, False
    i = 0
    while i < len(argv):
        a = argv[i]
        if a == "--expect-change":
            expect_change = True
        elif a == "--json":
            js = True
        elif a == "--sensitivity":
            sens = True
        elif a == "--keep":
            keep = argv[i + 1]
            i += 1
        elif a == "--on":
            base.append(argv[i + 1])
            i += 1
        elif a == "--edit":
            edits.append((argv[i + 1], argv[i + 2], argv[i + 3]))
            i += 3
        elif a in ("-h", "--help"):
            print(__doc__)
            return 0
        else:
            patches.append(a)
        i += 1
    if sens:
        return 1 if sensitivity(base) else 0
    if not patches and not edits:
        print(__doc__)
        return 2
    res = run_one(patches, edits, base, keep)
    if js:
        print(json.dumps(res, indent=1))
    else:
        report(res)
    differs = (not res["identical"]) or bool(res["missing_after"] != res["missing_before"])
    ok = differs if expect_change else not differs
    if not js:
        print("RESULT: %s (%s)" % ("ok" if ok else "FAIL", "a difference was expected" if expect_change else "no difference was expected"))
    return 0 if ok else 1


if __name__ == "__main__":
    sys.exit(main(sys.argv[1:]))
