#!/usr/bin/env python3
"""tools/translator_selftest.py — does a source edit change what the translator (gen/extract*.py) generates?

    python3 tools/translator_selftest.py PATCH.diff [PATCH2.diff …]       behaviour-preserving edit: expect NO difference
    python3 tools/translator_selftest.py --expect-change PATCH.diff       behaviour-changing edit: expect a difference
    python3 tools/translator_selftest.py [--expect-change] --edit FILE OLD NEW [--edit …]
                                                                          one-token edit given inline (OLD must occur exactly
                                                                          once in FILE, path relative to the repository)
    python3 tools/translator_selftest.py --sensitivity                    the built-in list of one-token behaviour changes
                                                                          (every one must change Generated.v or lose its anchor)
    options:  --on PATCH   apply PATCH first and take THAT tree as the base (sensitivity of the refactored tree)
              --keep DIR   keep G0/G1 (Generated.v of base / of edited tree) in DIR
              --json       machine-readable result on stdout

What it does: (a) copies the translator's inputs (pdf/src, pdf_derive/src of $VERIF_REPO, working-tree state) into a
scratch directory and translates it -> G0; (b) applies the patch / edit to the scratch copy and translates -> G1 (the
repository worktree itself is never written, so there is nothing to revert); reports every definition whose value,
type or anchor comment differs, every definition added / removed, and every missing anchor of either side.
Exit 0 iff the expectation holds (identical Generated.v apart from the header line naming the source directory, resp. a
difference or a lost anchor with --expect-change).
"""
import json, os, re, shutil, subprocess, sys, tempfile

HERE = os.path.dirname(os.path.abspath(__file__))
ROOT = os.path.dirname(HERE)
REPO = os.environ.get("VERIF_REPO", "/repo")
INPUTS = ["pdf/src", "pdf_derive/src"]


def copy_inputs(dst):
    for rel in INPUTS:
        shutil.copytree(os.path.join(REPO, rel), os.path.join(dst, rel))


def translate(repo, outdir):
    os.makedirs(outdir, exist_ok=True)
    env = dict(os.environ, VERIF_REPO=repo, VERIF_GEN_OUT=outdir)
    p = subprocess.run([sys.executable, os.path.join(ROOT, "gen", "extract.py")], env=env, stdout=subprocess.PIPE,
                       stderr=subprocess.STDOUT)
    out = p.stdout.decode("utf-8", "replace")
    if p.returncode != 0:
        raise SystemExit("translator crashed on %s:\n%s" % (repo, out[-3000:]))
    info = json.loads(out.strip().splitlines()[-1])
    with open(os.path.join(outdir, "Generated.v")) as f:
        text = f.read()
    return text, info["anchors_missing"]


def definitions(text):
    """name -> (anchor comment, type, term) in order"""
    out = {}
    for m in re.finditer(r"^\(\* ([^\n]*?) \*\)\nDefinition (\w+) : (.*?) := (.*?)\.\n(?=\(\* |\Z)", text, flags=re.S | re.M):
        out[m.group(2)] = (m.group(1), m.group(3), m.group(4))
    return out


def body(text):
    """Generated.v without the header line (it names the directory that was read)"""
    return text.split("\n", 1)[1]


def short(s, n=150):
    s = " ".join(s.split())
    if len(s) <= n:
        return s
    return s[:n] + " …(%d chars)" % len(s)


def first_diff(a, b):
    i = 0
    while i < min(len(a), len(b)) and a[i] == b[i]:
        i += 1
    lo = max(0, i - 40)
    return "…%s ⟨%s⟩ / ⟨%s⟩" % (" ".join(a[lo:i].split()), short(a[i:i + 60], 60), short(b[i:i + 60], 60))


def compare(g0, m0, g1, m1):
    d0, d1 = definitions(g0), definitions(g1)
    changed = []
    for n in d0:
        if n not in d1:
            changed.append({"name": n, "what": "removed", "anchor": d0[n][0]})
        elif d0[n] != d1[n]:
            a0, t0, v0 = d0[n]
            a1, t1, v1 = d1[n]
            what = "value" if v0 != v1 else ("type" if t0 != t1 else "anchor comment")
            changed.append({"name": n, "what": what, "anchor": a0, "anchor_after": a1, "before": short(v0), "after": short(v1),
                            "at": first_diff(v0, v1) if v0 != v1 else ""})
    for n in d1:
        if n not in d0:
            changed.append({"name": n, "what": "added", "anchor": d1[n][0]})
    if list(d0) != list(d1) and not changed:
        changed.append({"name": "(order)", "what": "order of definitions", "anchor": ""})
    return {"identical": body(g0) == body(g1), "definitions": len(d0), "changed": changed,
            "missing_before": m0, "missing_after": m1,
            "anchors_lost": [a for a in m1 if a.split(":")[0:2] not in [b.split(":")[0:2] for b in m0] and a not in m0]}


def apply_patch(tree, patch):
    p = subprocess.run(["git", "apply", "--whitespace=nowarn", os.path.abspath(patch)], cwd=tree, stdout=subprocess.PIPE,
                       stderr=subprocess.STDOUT)
    if p.returncode != 0:
        raise SystemExit("patch %s does not apply: %s" % (patch, p.stdout.decode()[-2000:]))


def apply_edit(tree, rel, old, new):
    path = os.path.join(tree, rel)
    with open(path, encoding="utf-8") as f:
        s = f.read()
    n = s.count(old)
    if n != 1:
        raise SystemExit("edit of %s: %r occurs %d times (need exactly 1)" % (rel, old, n))
    with open(path, "w", encoding="utf-8") as f:
        f.write(s.replace(old, new))


def run_one(patches, edits, base_patches=(), keep=None):
    tmp = tempfile.mkdtemp(prefix="trself-")
    try:
        tree = os.path.join(tmp, "tree")
        os.makedirs(tree)
        copy_inputs(tree)
        for p in base_patches:
            apply_patch(tree, p)
        g0, m0 = translate(tree, os.path.join(tmp, "g0"))
        for p in patches:
            apply_patch(tree, p)
        for rel, old, new in edits:
            apply_edit(tree, rel, old, new)
        g1, m1 = translate(tree, os.path.join(tmp, "g1"))
        if keep:
            os.makedirs(keep, exist_ok=True)
            with open(os.path.join(keep, "G0.v"), "w") as f:
                f.write(g0)
            with open(os.path.join(keep, "G1.v"), "w") as f:
                f.write(g1)
        return compare(g0, m0, g1, m1)
    finally:
        shutil.rmtree(tmp, ignore_errors=True)


def report(res, out=sys.stdout):
    w = out.write
    w("definitions: %d   identical Generated.v: %s\n" % (res["definitions"], res["identical"]))
    if res["missing_before"]:
        w("anchors missing BEFORE the edit (%d):\n" % len(res["missing_before"]))
        for a in res["missing_before"]:
            w("   - %s\n" % a)
    w("anchors missing after the edit: %d\n" % len(res["missing_after"]))
    for a in res["missing_after"]:
        w("   - %s\n" % a)
    w("definitions that differ: %d\n" % len(res["changed"]))
    for c in res["changed"]:
        w("   * %-28s [%s] %s\n" % (c["name"], c["anchor"], c["what"]))
        if c["what"] == "value":
            w("       before: %s\n       after:  %s\n       at:     %s\n" % (c["before"], c["after"], c["at"]))


# ----------------------------------------------------------------------------------------------------------------------
# built-in sensitivity list: one-token behaviour changes; each must change Generated.v or lose an anchor.
# (file, old, new, what).  Kept next to the self-test so that a later "robustness" change to an extractor can be checked
# for blindness with one command; entries whose OLD text is not in the tree (code moved on) are reported as SKIPPED.
# Entry: (what, file, [candidate edits]); a candidate is (old, new) — old must occur exactly once — or (old, new, n): the
# n-th occurrence (0-based).  The first candidate that applies is used, so one entry covers the unchanged and the tidied
# spelling of the same spot.
L, S, P, PX = "pdf/src/parser/lexer/mod.rs", "pdf/src/parser/lexer/str.rs", "pdf/src/primitive.rs", "pdf/src/parser/parse_xref.rs"
E, C, F, X_, B_ = "pdf/src/enc.rs", "pdf/src/crypt.rs", "pdf/src/font.rs", "pdf/src/xref.rs", "pdf/src/backend.rs"
FI, CO, OM, TY, ST = "pdf/src/file.rs", "pdf/src/content.rs", "pdf/src/object/mod.rs", "pdf/src/object/types.rs", "pdf/src/object/stream.rs"
SENSITIVITY = [
    # ---- enc.rs (gen/extract.py)
    ("decode_nibble: a..h -> a..f", E, [("a @ b'a' ..= b'h'", "a @ b'a' ..= b'f'"), ("lower @ b'a' ..= b'h'", "lower @ b'a' ..= b'f'"), ("(b'a'..=b'h').contains(&c)", "(b'a'..=b'f').contains(&c)"), ("a @ b'a'..=b'h'", "a @ b'a'..=b'f'")]),
    ("encode_nibble: base 'a' -> 'A'", E, [("b'a' - 10 + c", "b'A' - 10 + c")]),
    ("decode_hex: form feed no longer skipped", E, [(".filter(|&b| !matches!(b, 0 | 9 | 10 | 12 | 13 | 32))", ".filter(|&b| !matches!(b, 0 | 9 | 10 | 13 | 32))"),
                                                     ("0 | 9 | 10 | 12 | 13 | 32 => true", "0 | 9 | 10 | 13 | 32 => true"), (".filter(|&b| !matches!(b, 0 | b'\\t' | b'\\n' | 0x0C | b'\\r' | b' '))", ".filter(|&b| !matches!(b, 0 | b'\\t' | b'\\n' | b'\\r' | b' '))", 0), ("matches!(b, 0 | b'\\t' | b'\\n' | 0x0c | b'\\r' | b' ')", "matches!(b, 0 | b'\\t' | b'\\n' | b'\\r' | b' ')"), (".filter(|&b| !matches!(b, b'\\0' | b'\\t' | b'\\n' | b'\\x0c' | b'\\r' | b' '))", ".filter(|&b| !matches!(b, b'\\0' | b'\\t' | b'\\n' | b'\\r' | b' '))", 0), ("matches!(b, 0 | b'\\t' | b'\\n' | 12 | b'\\r' | b' ')\n}", "matches!(b, 0 | b'\\t' | b'\\n' | b'\\r' | b' ')\n}")]),
    ("decode_hex: EOD '>' -> '<'", E, [("take_while(|&b| b != b'>')", "take_while(|&b| b != b'<')"), ("take_while(|b| *b != 62)", "take_while(|b| *b != 60)")]),
    ("sym_85: range end 0x75 -> 0x74", E, [("0x21 ..= 0x75", "0x21 ..= 0x74"), ("const A85_LAST: u8 = b'u';", "const A85_LAST: u8 = b't';")]),
    ("decode_85: form feed no longer skipped", E, [("0 | b'\\t' | b'\\n' | 12 | b'\\r' | b' '", "0 | b'\\t' | b'\\n' | b'\\r' | b' '"),
                                                    ("0 | 9 | 10 | 12 | 13 | 32 => true", "0 | 9 | 10 | 13 | 32 => true"), (".filter(|&b| !matches!(b, 0 | b'\\t' | b'\\n' | 0x0C | b'\\r' | b' '))", ".filter(|&b| !matches!(b, 0 | b'\\t' | b'\\n' | b'\\r' | b' '))", 1), ("!matches!(*b, 0 | b'\\t' | b'\\n' | 12 | b'\\r' | b' ')", "!matches!(*b, 0 | b'\\t' | b'\\n' | b'\\r' | b' ')"), ("matches!(b, 0 | b'\\t' | b'\\n' | 0x0c | b'\\r' | b' ')", "matches!(b, 0 | b'\\t' | b'\\n' | b'\\r' | b' ')"), (".filter(|&b| !matches!(b, b'\\0' | b'\\t' | b'\\n' | b'\\x0c' | b'\\r' | b' '))", ".filter(|&b| !matches!(b, b'\\0' | b'\\t' | b'\\n' | b'\\r' | b' '))", 1)]),
    ("decode_85: '~' -> '}'", E, [("take_while(|&b| b != b'~')", "take_while(|&b| b != b'}')")]),
    ("decode_85: 'z' -> 'y'", E, [("Some(b'z') =>", "Some(b'y') =>"), ("Some(0x7A) =>", "Some(0x79) =>")]),
    ("decode_85: padding of the empty tail 'u' -> 'v'", E, [("[b'u'; 5]", "[b'v'; 5]"), ("[117; 5]", "[118; 5]")]),
    ("decode_85: '>' after '~' -> '<'", E, [("(Some(b'>'), None) => Ok(out)", "(Some(b'<'), None) => Ok(out)")]),
    ("run_length_decode: literal runs below 127", E, [("if length < 128 {", "if length < 127 {"), ("if len_byte < 128 {", "if len_byte < 127 {"), ("            0..=127 => {", "            0..=126 => {"), ("if length < RUN_LENGTH_EOD {", "if length < RUN_LENGTH_EOD - 1 {"), ("length @ 0 ..= 127 =>", "length @ 0 ..= 126 =>"), ("            0 ..= 127 => {", "            0 ..= 126 => {")]),
    ("run_length_decode: repeat base 257 -> 256", E, [("257 - length", "256 - length"), ("257 - len_byte", "256 - len_byte"), ("257 - run", "256 - run"), ("257 - length as usize", "256 - length as usize")]),
    ("PredictorType::from_u8: 3 -> Paeth", E, [("3 => Ok(PredictorType::Avg),", "3 => Ok(PredictorType::Paeth),"), ("3 => PredictorType::Avg,", "3 => PredictorType::Paeth,")]),
    ("PredictorType::from_u8: arm 4 dropped", E, [("            4 => Ok(PredictorType::Paeth),\n", ""), ("            4 => PredictorType::Paeth,\n", "")]),
    ("unpredict: PNG from 11", E, [("if predictor >= 10 {", "if predictor > 10 {"), ("if predictor > 9 {", "if predictor > 10 {"), ("10..=i32::MAX => png_unpredict", "11..=i32::MAX => png_unpredict")]),
    # ---- gen/extract_syn.py
    ("is_whitespace: form feed dropped", L, [(" | b'\\x0c')", ")"), ("0x00 | 0x09 | 0x0A | 0x0C | 0x0D | 0x20", "0x00 | 0x09 | 0x0A | 0x0D | 0x20"), ("[0u8, 9, 10, 12, 13, 32].contains(&b)", "[0u8, 9, 10, 13, 32].contains(&b)"), ("0 | b' ' | b'\\r' | b'\\n' | b'\\t' | b'\\x0c' => true", "0 | b' ' | b'\\r' | b'\\n' | b'\\t' => true"), ("b == 0 || b.is_ascii_whitespace()", "b == 0 || (b.is_ascii_whitespace() && b != 12)")]),
    ("is_delimiter: '%' dropped", L, [('b"()<>[]{}/%"', 'b"()<>[]{}/"'), (" | b'/' | b'%'))", " | b'/'))")]),
    ("next_word: comment starts with '#'", L, [("Some(&b'%')", "Some(&b'#')"), ("Some(&0x25)", "Some(&0x23)"), ("const COMMENT_START: u8 = b'%';", "const COMMENT_START: u8 = b'#';")]),
    ("next_word: a comment ends at LF only", L, [("|&b| b == b'\\n' || b == b'\\r'", "|&b| b == b'\\n'"), ("matches!(*ch, 0x0A | 0x0D)", "matches!(*ch, 0x0A)"), ("|&c| c == b'\\n' || c == b'\\r'", "|&c| c == b'\\n'"), ("|&b| matches!(b, b'\\n' | b'\\r')", "|&b| matches!(b, b'\\n')")]),
    ("next_lexeme: \\b -> 0x07", S, [("b'b' => Some(b'\\x08')", "b'b' => Some(b'\\x07')"), ("b'b' => Some(0x08)", "b'b' => Some(0x07)"), ("b'b' => Some(8u8)", "b'b' => Some(7u8)"), ("const BACKSPACE: u8 = 0x08;", "const BACKSPACE: u8 = 0x07;")]),
    ("next_lexeme: \\n -> CR", S, [("b'n' => Some(b'\\n')", "b'n' => Some(b'\\r')"), ("b'n' => Some(0x0A)", "b'n' => Some(0x0D)")]),
    ("next_lexeme: escape arm \\f dropped", S, [("                    b'f' => Some(b'\\x0c'),\n", ""), ("                    b'f' => Some(0x0C),\n", ""), ("                    b'f' => Some(0x0C), // form feed\n", ""), ("                    b'f' => Some(FORM_FEED),\n", "")]),
    ("next_lexeme: octal digits 0..9", S, [("(b'0'..=b'7').contains", "(b'0'..=b'9').contains"), ("matches!(c, b'0'..=b'7')", "matches!(c, b'0'..=b'9')"), ("!matches!(digit, b'0'..=b'7')", "!matches!(digit, b'0'..=b'9')"), ("!matches!(c, b'0'..=b'7')", "!matches!(c, b'0'..=b'9')")]),
    ("next_lexeme: octal digit test is_ascii_digit (seeded C03b)", S, [("(b'0'..=b'7').contains(&c)", "c.is_ascii_digit()"), ("!(b'0'..=b'7').contains(&digit)", "!digit.is_ascii_digit()"), ("!matches!(digit, b'0'..=b'7')", "!digit.is_ascii_digit()"), ("!matches!(c, b'0'..=b'7')", "!c.is_ascii_digit()"), ("if matches!(c, b'0'..=b'7') {", "if c.is_ascii_digit() {")]),
    ("next_lexeme: octal digit test polarity", S, [("if (b'0'..=b'7').contains(&c) {", "if !(b'0'..=b'7').contains(&c) {"), ("if !(b'0'..=b'7').contains(&digit) {", "if (b'0'..=b'7').contains(&digit) {"), ("if matches!(c, b'0'..=b'7') {", "if !matches!(c, b'0'..=b'7') {"), ("if !matches!(digit, b'0'..=b'7') {", "if matches!(digit, b'0'..=b'7') {"), ("if !matches!(c, b'0'..=b'7') {", "if matches!(c, b'0'..=b'7') {")]),
    ("next_lexeme: at most 2 octal digits", S, [("for _ in 0..3 {", "for _ in 0..2 {")]),
    ("next_lexeme: octal base 10", S, [("char_code = char_code * 8 +", "char_code = char_code * 10 +")]),
    ("hex string: form feed is not white-space", S, [(" || byte == b'\\x0c'", ""), (" || byte == 0x0C", ""), (" | b'\\r' | 12 | 0)", " | b'\\r' | 0)"), ("while matches!(byte, b' ' | b'\\t' | b'\\n' | b'\\r' | b'\\x0c' | 0) {", "while matches!(byte, b' ' | b'\\t' | b'\\n' | b'\\r' | 0) {"), ("while byte == 0 || byte.is_ascii_whitespace() {", "while byte == 0 || (byte.is_ascii_whitespace() && byte != 12) {"), ("while matches!(byte, b' ' | b'\\t' | b'\\n' | b'\\r' | FORM_FEED | 0) {", "while matches!(byte, b' ' | b'\\t' | b'\\n' | b'\\r' | 0) {"), ("while matches!(byte, b' ' | b'\\t' | b'\\n' | b'\\r' | b'\\x0c' | b'\\0') {", "while matches!(byte, b' ' | b'\\t' | b'\\n' | b'\\r' | b'\\0') {")]),
    ("next_hex_byte: high nibble A..F + 0xB", S, [("c1 - b'A' + 0xA", "c1 - b'A' + 0xB"), ("b'A' ..= b'F' => Some(c - b'A' + 0xA),", "b'A' ..= b'F' => Some(c - b'A' + 0xB),"), ("b'A'..=b'F' => Some(c - b'A' + 0xA),", "b'A'..=b'F' => Some(c - b'A' + 0xB),")]),
    ("next_hex_byte: end '>' -> '<'", S, [("b'>' => return Ok(None)", "b'<' => return Ok(None)"), ("0x3E => return Ok(None)", "0x3C => return Ok(None)"), ("(b'>', None) => return Ok(None)", "(b'<', None) => return Ok(None)")]),
    ("next_stream: LF test -> VT", L, [("if b0 == b'\\n' {", "if b0 == b'\\x0b' {"), ("if first == b'\\n' {", "if first == b'\\x0b' {"), ("if first == 0x0A {", "if first == 0x0B {"), ("b'\\n' => self.pos = pos + 1,", "b'\\x0b' => self.pos = pos + 1,")]),
    ("next_stream: CR LF skips 3", L, [("self.pos = pos + 2;", "self.pos = pos + 3;")]),
    ("MAX_DEPTH 20 -> 19", "pdf/src/parser/mod.rs", [("const MAX_DEPTH: usize = 20;", "const MAX_DEPTH: usize = 19;")]),
    ("serialize_name: '~' escaped", P, [("b'!' ..= b'~' if", "b'!' ..= b'}' if"), ("0x21 ..= 0x7E if", "0x21 ..= 0x7D if"), ("b if b.is_ascii_graphic() && !b", "b if b.is_ascii_graphic() && b != b'~' && !b"), ("b'!'..=b'~' if", "b'!'..=b'}' if")]),
    ("serialize_name: '#' written raw", P, [('!b"()<>[]{}/%#".contains(&b)', '!b"()<>[]{}/%".contains(&b)'), ("b'/', b'%', b'#'];", "b'/', b'%', b'%'];"), ('!b"()<>[]{}/%#".contains(&byte)', '!b"()<>[]{}/%".contains(&byte)'), ('const NAME_ESCAPED: &[u8] = b"()<>[]{}/%#";', 'const NAME_ESCAPED: &[u8] = b"()<>[]{}/%";')]),
    ("PdfString::serialize: hex from 0x81", P, [("any(|&b| b >= 0x80)", "any(|&b| b > 0x80)"), ("any(|b| *b > 127)", "any(|b| *b > 128)"), ("any(|b| !b.is_ascii())", "any(|b| !b.is_ascii() && *b != 128)")]),
    # ---- gen/extract_codec.py
    ("predictor_geometry: 16 bits no longer allowed", E, [("params.bits_per_component, 1 | 2 | 4 | 8 | 16)", "params.bits_per_component, 1 | 2 | 4 | 8)"), ("1 | 2 | 4 | 8 | 16 => true,", "1 | 2 | 4 | 8 => true,")]),
    ("from_kind_and_params: Crypt -> JPXDecode", E, [('"Crypt" => StreamFilter::Crypt,', '"Crypt" => StreamFilter::JPXDecode,')]),
    ("from_kind_and_params: JPXDecode arm dropped", E, [('"JPXDecode" => StreamFilter::JPXDecode,\n', "\n")]),
    ("decode: ASCII85 decoded by decode_hex", E, [("StreamFilter::ASCII85Decode => decode_85(data)", "StreamFilter::ASCII85Decode => decode_hex(data)")]),
    ("StreamInfo: parameters of filter 0 for every filter", ST, [("match decode_params.get(i) {", "match decode_params.get(0) {"), ("match params.get(i) {", "match params.get(0) {")]),
    ("StreamInfo: /DecodeParms -> /DP", ST, [('dict.remove("DecodeParms")', 'dict.remove("DP")')]),
    # ---- gen/extract_crypt.py
    ("key derivation: /EncryptMetadata bytes", C, [("hash.consume([0xff, 0xff, 0xff, 0xff]);", "hash.consume([0xff, 0xff, 0xff, 0xfe]);"), ("hash.consume([0xff_u8; 4]);", "hash.consume([0xff_u8; 3]);")]),
    ("key derivation: password padded to 31", C, [("if pass.len() < 32 {", "if pass.len() < 31 {", 0), ("const PASSWORD_LEN: usize = 32;", "const PASSWORD_LEN: usize = 31;"), ("if pass.len() < PADDING.len() {", "if pass.len() < PADDING.len() - 1 {")]),
    ("key derivation: md5 rounds on 15 bytes", C, [("md5::compute(&data[..std::cmp::min(key_size, 16)])", "md5::compute(&data[..std::cmp::min(key_size, 15)])"), ("md5::compute(&data[..key_size.min(16)])", "md5::compute(&data[..key_size.min(15)])"), ("md5::compute(&data[..key_size.min(MAX_KEY_LEN_V4)])", "md5::compute(&data[..key_size.min(MAX_KEY_LEN_V4 - 1)])")]),
    ("decrypt: salt", C, [('b"sAlT"', 'b"sAlt"'), ("[0x73, 0x41, 0x6C, 0x54]", "[0x73, 0x41, 0x6C, 0x74]"), ("[b's', b'A', b'l', b'T']", "[b's', b'A', b'l', b't']")]),
    ("decrypt: 2 bytes of the object number (seeded C06)", C, [("id.id.to_le_bytes()[..3]", "id.id.to_le_bytes()[..2]", 0), ("&id_bytes[..3]", "&id_bytes[..2]")]),
    ("decrypt: object key capped at 15", C, [("(n + 5).min(16)", "(n + 5).min(15)", 0)]),
    ("Decoder::key capped at 15", C, [("&self.key[.. std::cmp::min(self.key_size, 16)]", "&self.key[.. std::cmp::min(self.key_size, 15)]"), ("let len = self.key_size.min(16);", "let len = self.key_size.min(15);"), ("16_usize.min(self.key_size)", "15_usize.min(self.key_size)"), ("&self.key[.. self.key_size.min(16)]", "&self.key[.. self.key_size.min(15)]"), ("&self.key[..self.key_size.min(MAX_KEY_LEN_V4)]", "&self.key[..self.key_size.min(MAX_KEY_LEN_V4 - 1)]")]),
    # ---- gen/extract_font.py
    ("parse_cid: one-byte code has length 3", F, [("1 => Ok(b[0] as u16)", "3 => Ok(b[0] as u16)"), ("1 => Ok(bytes[0] as u16)", "3 => Ok(bytes[0] as u16)")]),
    ("next_hex_byte: shift 3", S, [("(high_nibble << 4)", "(high_nibble << 3)")]),
    ("next_word: name starts with '\\'", L, [("if self.buf[pos] == b'/' {", "if self.buf[pos] == b'\\\\' {")]),
    ("next_word: '>>' -> ']]'", L, [('slice == b">>"', 'slice == b"]]"'), ("slice == &[b'>', b'>']", "slice == &[b']', b']']"), ('Some(b"<<" | b">>")', 'Some(b"<<" | b"]]")')]),
    # ---- gen/extract_xref.py
    ("HEADER without '-'", B_, [('const HEADER: &[u8] = b"%PDF-";', 'const HEADER: &[u8] = b"%PDF";'), ("b'D', b'F', b'-'];", "b'D', b'F'];"), ('const HEADER: &[u8; 5] = b"%PDF-";', 'const HEADER: &[u8; 4] = b"%PDF";')]),
    ("header window 512", B_, [("std::cmp::min(1024, self.len())", "std::cmp::min(512, self.len())"), ("self.len().min(1024)", "self.len().min(512)"), ("1024_usize.min(self.len())", "512_usize.min(self.len())"), ("const HEADER_SEARCH_LEN: usize = 1024;", "const HEADER_SEARCH_LEN: usize = 512;")]),
    ("XRefTable::new: generation 65534", X_, [("gen_nr: 0xffff }", "gen_nr: 0xfffe }"), ("gen_nr: 65535 }", "gen_nr: 65534 }"), ("gen_nr: 0o177777 }", "gen_nr: 0o177776 }"), ("gen_nr: 65_535 }", "gen_nr: 65_534 }"), ("const FREE_LIST_HEAD_GEN: GenNr = 0xffff;", "const FREE_LIST_HEAD_GEN: GenNr = 0xfffe;")]),
    ("XRefTable::new: filled with Promised", X_, [("entries.resize(num_objects as usize, XRef::Invalid);", "entries.resize(num_objects as usize, XRef::Promised);"), ("vec![XRef::Invalid; num_objects as usize]", "vec![XRef::Promised; num_objects as usize]")]),
    ("xref stream: fields of a type-1 entry swapped", PX, [("XRef::Raw {pos: field1 as usize, gen_nr: field2 as GenNr}", "XRef::Raw {pos: field2 as usize, gen_nr: field1 as GenNr}"), ("XRef::Raw { pos: field1 as usize, gen_nr: field2 as GenNr }", "XRef::Raw { pos: field2 as usize, gen_nr: field1 as GenNr }"), ("            1 => XRef::Raw {\n                pos: field1 as usize,\n                gen_nr: field2 as GenNr,", "            1 => XRef::Raw {\n                pos: field2 as usize,\n                gen_nr: field1 as GenNr,")]),
    ("xref stream: type 2 entry read as type 3", PX, [("2 => XRef::Stream {", "3 => XRef::Stream {")]),
    ("xref stream: default type 0", PX, [("if w0 == 0 {\n            1\n", "if w0 == 0 {\n            0\n"), ("0 => 1,\n            _ => read_u64_from_stream(w0, data)?,", "0 => 0,\n            _ => read_u64_from_stream(w0, data)?,"), ("let _type = if w0 == 0 { 1 } else {", "let _type = if w0 == 0 { 0 } else {")]),
    ("read_u64_from_stream: 4 bits per byte", PX, [("= 8 * i;", "= 4 * i;"), ("= 8 * remaining;", "= 4 * remaining;"), ("= i * 8;", "= i * 4;"), ("|acc, &c| (acc << 8) | u64::from(c)", "|acc, &c| (acc << 4) | u64::from(c)"), ("|value, &byte| (value << 8) | u64::from(byte)", "|value, &byte| (value << 4) | u64::from(byte)")]),
    ("read_u64_from_stream: width limit u32", PX, [("size_of::<u64>()", "size_of::<u32>()")]),
    ("xref table: keyword f -> F", PX, [('if w3 == "f" {', 'if w3 == "F" {'), ('if keyword == "f" {', 'if keyword == "F" {'), ('if kind == "f" {', 'if kind == "F" {'), ('b"f" => section.add_free_entry', 'b"F" => section.add_free_entry')]),
    ("xref table: offset read as u32", PX, [("w1.to::<usize>()", "w1.to::<u32>()"), ("first.to::<usize>()", "first.to::<u32>()")]),
    # ---- gen/extract_storage.py
    ("write_revision: endobj without LF (seeded C04b)", FI, [('writeln!(self.backend, "\\nendobj")?;', 'writeln!(self.backend, "endobj")?;')]),
    ("write_revision: write_stream(id + 2)", FI, [("xref_promise.get_inner().id as usize + 1", "xref_promise.get_inner().id as usize + 2"), ("xref_id as usize + 1", "xref_id as usize + 2")]),
    ("write_stream: /W [2 ..]", X_, [("w: vec![1, a_w, b_w]", "w: vec![2, a_w, b_w]")]),
    ("write_stream: /Index [1 ..]", X_, [("index: vec![0, size as u32]", "index: vec![1, size as u32]"), ("index: vec![0, size_u32]", "index: vec![1, size_u32]"), ("index: vec![0, size],", "index: vec![1, size],")]),
    ("write_stream: /Index ends with size + 1", X_, [("index: vec![0, size as u32]", "index: vec![0, size as u32 + 1]"), ("let size_u32 = size as u32;", "let size_u32 = (size + 1) as u32;"), ("let size = size as u32;", "let size = (size + 1) as u32;")]),
    ("write_stream: fields cut from byte 7", X_, [("[8 - a_w ..]", "[7 - a_w ..]"), ("[8 - a_w..]", "[7 - a_w..]")]),
    ("write_stream: widths swapped (seeded C10)", X_, [("let (max_a, max_b) = self.max_field_widths();", "let (max_b, max_a) = self.max_field_widths();")]),
    ("resolve_ref: changes looked up by generation", FI, [("self.changes.get(&r.id)", "self.changes.get(&r.gen)")]),
    ("resolve_ref: pending changes consulted after the table", FI, [("        match self.changes.get(&r.id) {\n            Some((p, _)) => Ok((*p).clone()),\n            None => match t!(self.refs.get(r.id)) {", "        match self.changes.get(&r.gen) {\n            Some((p, _)) => Ok((*p).clone()),\n            None => match t!(self.refs.get(r.id)) {"),
                                                                    ("            return Ok((*changed).clone());", "            let _ = changed;"), ("Some((changed, _)) => Ok(changed.clone()),", "Some((changed, _)) if false => Ok(changed.clone()),"), ("Some((p, _)) => Ok(p.clone()),", "Some((p, _)) if false => Ok(p.clone()),"), ("            return Ok(p.clone());", "            let _ = p;"), ("            return Ok((*p).clone());", "            let _ = p;")]),
    # ---- gen/extract_import.py
    ("Storage::empty: XRefTable::new(1)", FI, [("refs: XRefTable::new(0),", "refs: XRefTable::new(1),", 0)]),
    ("Primitive::deep_clone: references copied as they are", OM, [("Primitive::Reference(r) => Ok(Primitive::Reference(r.deep_clone(cloner)?)),", "Primitive::Reference(r) => Ok(Primitive::Reference(r)),")]),
    ("Primitive::deep_clone: arrays shallow", OM, [("Ok(Primitive::Array(parts.into_iter().map(|p| p.deep_clone(cloner)).try_collect()?))", "Ok(Primitive::Array(parts.clone()))"),
                                                 ("let cloned_parts = parts.into_iter().map(|part| part.deep_clone(cloner)).try_collect()?;", "let cloned_parts = parts.clone();"), ("let cloned = parts.iter().map(|part| part.deep_clone(cloner)).try_collect()?;", "let cloned = parts.clone();"), ("parts.iter().map(|p| p.deep_clone(cloner)).try_collect()?,", "parts.clone(),")]),
    # ---- gen/extract_content.py
    ("RenderingIntent::from_str: Perceptual -> Saturation", TY, [('"Perceptual" => Some(RenderingIntent::Perceptual),', '"Perceptual" => Some(RenderingIntent::Saturation),')]),
    ("inline image: CS expands to Colorspace", CO, [('("CS", "ColorSpace"),', '("CS", "Colorspace"),')]),
    ("inline image: G expands to DeviceRGB", CO, [('("G", "DeviceGray"),', '("G", "DeviceRGB"),')]),
    ("inline image: filter abbreviation entry dropped", CO, [('            ("RL", "RunLengthDecode"),\n', ""), ('    ("RL", "RunLengthDecode"),\n', "")]),
    ("OpBuilder::parse: errors dropped under another option", CO, [("Err(e) if resolve.options().allow_invalid_ops => {", "Err(e) if resolve.options().allow_error_in_option => {"),
                                                                    ("if resolve.options().allow_invalid_ops {", "if resolve.options().allow_error_in_option {")]),
    ("OpBuilder::parse: polarity of allow_invalid_ops", CO, [("Err(e) if resolve.options().allow_invalid_ops => {", "Err(e) if !resolve.options().allow_invalid_ops => {"),
                                                              ("if resolve.options().allow_invalid_ops {", "if !resolve.options().allow_invalid_ops {")]),
    ("ParseOptions::strict: allow_invalid_ops false", OM, [("allow_invalid_ops: true,", "allow_invalid_ops: false,", 1)]),
    # ---- gen/extract_cache.py
    ("raw_image_data: LZW counts as an image filter", TY, [("StreamFilter::LZWDecode(_) => false,", "StreamFilter::LZWDecode(_) => true,"), ("                    | StreamFilter::LZWDecode(_)\n", ""), (" | StreamFilter::LZWDecode(_) | StreamFilter::RunLengthDecode))", " | StreamFilter::RunLengthDecode))")]),
    ("raw_image_data: Crypt counts as a transport filter", TY, [("StreamFilter::Crypt => true,", "StreamFilter::Crypt => false,"), ("| StreamFilter::RunLengthDecode => false,", "| StreamFilter::RunLengthDecode | StreamFilter::Crypt => false,"), (" | StreamFilter::RunLengthDecode))", " | StreamFilter::RunLengthDecode | StreamFilter::Crypt))"), ("                    | StreamFilter::RunLengthDecode\n                )).unwrap_or(filters.len());", "                    | StreamFilter::RunLengthDecode | StreamFilter::Crypt\n                )).unwrap_or(filters.len());")]),
    ("raw_image_data: default false", TY, [("                    _ => true\n                }).unwrap_or(filters.len());", "                    _ => false\n                }).unwrap_or(filters.len());"), ("rposition(|f| !matches!(f, StreamFilter::ASCIIHexDecode", "rposition(|f| matches!(f, StreamFilter::ASCIIHexDecode"), ("rposition(|f| !matches!(f,\n", "rposition(|f| matches!(f,\n")]),
    ("raw_image_data: JPX no longer an image codec", TY, [("                    [StreamFilter::JPXDecode] |\n", ""), (" | StreamFilter::JPXDecode\n", "\n")]),
    # ---- gen/extract_typed.py
    ("Option<T>: null object no longer None", OM, [("            Primitive::Null => Ok(None),\n            p => match T::from_primitive(p, resolve) {", "            Primitive::Integer(0) => Ok(None),\n            p => match T::from_primitive(p, resolve) {"),
                                                   ("if let Primitive::Null = p {\n            return Ok(None);", "if let Primitive::Integer(0) = p {\n            return Ok(None);")]),
    ("Option<T>: missing object no longer None", OM, [("Err(e) if e.is_missing_object() => Ok(None),", "Err(e) if e.is_eof() => Ok(None),")]),
    ("Vec<T>: is_ref tests Name", OM, [("let is_ref = matches!(p, Primitive::Reference(_));", "let is_ref = matches!(p, Primitive::Name(_));"),
                                        ("                        Primitive::Reference(_) => true,\n                        _ => false,", "                        Primitive::Name(_) => true,\n                        _ => false,")]),
    ("Vec<T>: is_ref also for Null", OM, [("let is_ref = matches!(p, Primitive::Reference(_));", "let is_ref = matches!(p, Primitive::Reference(_) | Primitive::Null);"),
                                           ("                        Primitive::Reference(_) => true,\n                        _ => false,", "                        Primitive::Reference(_) | Primitive::Null => true,\n                        _ => false,")]),
    # ---- extractors whose locals are now bound instead of named (content enum codes, storage, typed, safety)
    ("OpBuilder::add j: 1 -> Bevel", CO, [("1 => LineJoin::Round,", "1 => LineJoin::Bevel,")]),
    ("save: /Size = len + 1 (seeded C10b)", FI, [("trailer.size = (self.refs.len() + 2) as _;", "trailer.size = (self.refs.len() + 1) as _;")]),
    ("Storage::update: a compressed object cannot be updated", FI, [("XRef::Stream { .. } => PlainRef { id: old.id, gen: 0 },", "XRef::Stream { .. } => panic!(),"), ("XRef::Stream { .. } | XRef::Promised => PlainRef { id: old.id, gen: 0 },", "XRef::Stream { .. } | XRef::Promised => panic!(),")]),
    ("Storage::update: generation of the entry ignored", FI, [("XRef::Raw { gen_nr, .. } => PlainRef { id: old.id, gen: gen_nr },", "XRef::Raw { .. } => PlainRef { id: old.id, gen: 0 },")]),
    ("StorageResolver::get: cached error not wrapped", FI, [("Err(e) if computed => Err(PdfError::Shared { source: e.clone()}),", "Err(e) if computed => Err(e.clone()),"), ("Err(e) if computed => Err(PdfError::Shared { source: e }),", "Err(e) if computed => Err(e),")]),
    ("NameTree::walk: depth budget 31", TY, [("self.walk_limited(r, callback, 32,", "self.walk_limited(r, callback, 31,", 0), ("const MAX_TREE_DEPTH: usize = 32;", "const MAX_TREE_DEPTH: usize = 31;")]),
    ("ColorSpace: depth budget 4", "pdf/src/object/color.rs", [("ColorSpace::from_primitive_depth(p, resolve, 5)", "ColorSpace::from_primitive_depth(p, resolve, 4)"), ("const MAX_NESTING: usize = 5;", "const MAX_NESTING: usize = 4;"), ("const MAX_BASE_DEPTH: usize = 5;", "const MAX_BASE_DEPTH: usize = 4;")]),
    ("Function type 2: domain guard 1", "pdf/src/object/function.rs", [("if raw.domain.len() < 2 {", "if raw.domain.len() < 1 {")]),
    ("Encoding differences: gid += 1", "pdf/src/encoding.rs", [("gid = gid.wrapping_add(1);", "gid += 1;")]),
    # ---- round 2: spots whose reading was changed (evaluation / helper following / normalised writes)
    ("hex_digit_value helper: a..f + 0xB (r3)", S, [("b'a' ..= b'f' => Some(c - b'a' + 0xA),", "b'a' ..= b'f' => Some(c - b'a' + 0xB),"), ("b'a' ..= b'f' => c1 - b'a' + 0xA,", "b'a' ..= b'f' => c1 - b'a' + 0xB,"), ("b'a'..=b'f' => Some(c - b'a' + 0xA),", "b'a'..=b'f' => Some(c - b'a' + 0xB),")]),
    ("next_hex_byte: second read steps back on '<'", S, [("            (b'>', None) => {\n", "            (b'<', None) => {\n"), ("            b'>' => {\n                self.back()?;", "            b'<' => {\n                self.back()?;"), ("            0x3E => {\n                self.back()?;", "            0x3C => {\n                self.back()?;"), ("None if c2 == b'>' => {", "None if c2 == b'<' => {")]),
    ("sym_85: offset", E, [("Some(b - 0x21)", "Some(b - 0x20)"), ("- 0x21)", "- 0x20)"), ("Some(b - A85_FIRST)", "Some(b - A85_FIRST + 1)")]),
    ("encode_nibble: 10..15 -> 10..14", E, [("10 ..= 15 =>", "10 ..= 14 =>"), ("10..=15 =>", "10..=14 =>")]),
    ("from_password: R5/R6 slice of U", C, [("&u[32..40];", "&u[32..41];")]),
    ("from_password: user hash slice", C, [("let user_hash = &u[0..32];", "let user_hash = &u[0..31];"), ("let user_hash = &u[..32];", "let user_hash = &u[..31];")]),
    ("revision_6_kdf: block size 48 hashed with sha512", C, [("                48 => {\n                    sha384.update(encrypted);", "                48 => {\n                    sha512.update(encrypted);")]),
    ("from_password: revision 7 admitted", C, [("if !(2..=6).contains(&level) {", "if !(2..=7).contains(&level) {"), ("if level < 2 || level > 6 {", "if level < 2 || level > 7 {")]),
    ("from_password: owner rounds 19", C, [("{ 20u8 }", "{ 19u8 }"), ("{ 20_u8 }", "{ 19_u8 }")]),
    ("from_password: owner rounds polarity", C, [("let rounds = if level == 2 {", "let rounds = if level != 2 {"), ("let rounds = if level != 2 {", "let rounds = if level == 2 {"), ("let rounds = if revision == 2 {", "let rounds = if revision != 2 {")]),
    ("compute_u_rev_3_4: 18 rounds", C, [("1u8..=19 {", "1u8..=18 {"), ("1..=19u8 {", "1..=18u8 {")]),
    ("check_cid: MAX_CID itself rejected", F, [("if cid > MAX_CID {", "if cid >= MAX_CID {"), ("if cid <= MAX_CID {", "if cid < MAX_CID {"), ("if MAX_CID < cid {", "if MAX_CID <= cid {")]),
    ("check_cid: polarity", F, [("if cid > MAX_CID {", "if cid < MAX_CID {"), ("if cid <= MAX_CID {", "if cid > MAX_CID {"), ("if MAX_CID < cid {", "if MAX_CID > cid {")]),
    ("MAX_CID 0xFFFE", F, [("const MAX_CID: usize = 0xFFFF;", "const MAX_CID: usize = 0xFFFE;")]),
    ("parse_cmap: last byte incremented up to 254", F, [("if *last < 255 {", "if *last < 254 {"), ("if *last == 255 {", "if *last >= 254 {")]),
    ("parse_cmap: last byte increment polarity", F, [("if *last < 255 {", "if *last > 255 {"), ("if *last == 255 {", "if *last != 255 {")]),
    ("parse_cmap: keyword", F, [('b"beginbfrange" => loop {', 'b"beginbfrang" => loop {')]),
    ("parse_cmap: endcmap no longer ends the scan", F, [('b"endcmap" => break,', 'b"endcmap" => {}')]),
    ("write_cid: 3 digits", F, [('"<{:04X}>"', '"<{:03X}>"'), ('"<{cid:04X}>"', '"<{cid:03X}>"')]),
    ("write_cid: lower case", F, [('"<{:04X}>"', '"<{:04x}>"'), ('"<{cid:04X}>"', '"<{cid:04x}>"')]),
    ("walk_limited: visited test dropped (NameTree)", TY, [("if !seen.insert(tree_ref.get_inner()) {", "if seen.contains(&tree_ref.get_inner()) {", 0), ("if !seen.insert(plain) {", "if seen.contains(&plain) {")]),
    ("walk_limited: recursion with the same depth", TY, [("tree.walk_limited(r, callback, depth - 1, seen)?;", "tree.walk_limited(r, callback, depth, seen)?;", 0)]),
    ("walk_limited: another set is inserted into (let-hoisted)", TY, [("let plain = tree_ref.get_inner();", "let plain = tree_ref.get_outer();"), ("if !seen.insert(tree_ref.get_inner()) {", "if !seen.insert(tree_ref.get_outer()) {", 0)]),
    ("XRefTable::get: missing entry is a NullRef", X_, [("None => Err(PdfError::UnspecifiedXRefEntry {id}),", "None => Err(PdfError::NullRef {obj_nr: id}),"), (".ok_or(PdfError::UnspecifiedXRefEntry { id })", ".ok_or(PdfError::NullRef { obj_nr: id })"), (".ok_or_else(|| PdfError::UnspecifiedXRefEntry { id })", ".ok_or_else(|| PdfError::NullRef { obj_nr: id })"), (".ok_or(PdfError::UnspecifiedXRefEntry {id})", ".ok_or(PdfError::NullRef {obj_nr: id})")]),
    ("save: the table is not rolled back", FI, [("            self.refs.truncate(num_refs);\n", ""), ("                self.refs.truncate(num_refs);\n", "")]),
    ("save: the error of write_revision is swallowed", FI, [("            self.refs.truncate(num_refs);\n            return Err(e);", "            self.refs.truncate(num_refs);"), ("                self.refs.truncate(num_refs);\n                return Err(e);", "                self.refs.truncate(num_refs);")]),
    ("xref table: n and f exchanged", PX, [('if w3 == "f" {', 'if w3 == "n" {', 0), ('if kind == "n" {', 'if kind == "f" {', 0), ('if keyword == "f" {', 'if keyword == "n" {', 0), ('b"f" => section.add_free_entry', 'b"n" => section.add_free_entry')]),
    ("xref table: trailer keyword in the entry loop", PX, [('if w1 == "trailer" {', 'if w1 == "trailers" {'), ('if first == "trailer" {', 'if first == "trailers" {')]),
    ("write_revision: startxref tail without final newline", FI, [('"\\nstartxref\\n{}\\n%%EOF\\n"', '"\\nstartxref\\n{}\\n%%EOF"'), ('writeln!(self.backend, "\\nstartxref\\n{xref_pos}\\n%%EOF")', 'write!(self.backend, "\\nstartxref\\n{xref_pos}\\n%%EOF")')]),
    ("write_revision: object header keyword", FI, [('"{} {} obj", id, gen', '"{} {} objx", id, gen'), ('"{id} {gen} obj"', '"{id} {gen} objx"')]),
    ("next_stream: CR alone accepted", L, [("if b1 != b'\\n' {", "if b1 != b'\\n' && false {"), ("if second != 0x0A {", "if second != 0x0A && false {"), ("if second != b'\\n' {", "if second != b'\\n' && false {")]),
    ("next_stream: CR test -> FF", L, [("} else if b0 == b'\\r' {", "} else if b0 == b'\\x0c' {"), ("} else if first == 0x0D {", "} else if first == 0x0C {"), ("} else if first == b'\\r' {", "} else if first == b'\\x0c' {"), ("            b'\\r' => {\n                let &b1", "            b'\\x0c' => {\n                let &b1"), ("            b'\\r' => {\n                let &second", "            b'\\x0c' => {\n                let &second")]),
    ("lzw_decode: early change polarity", E, [("let mut decoder = if params.early_change != 0 {", "let mut decoder = if params.early_change == 0 {"), ("let mut decoder = if params.early_change == 0 {", "let mut decoder = if params.early_change != 0 {")]),
    ("lzw_decode: symbol size 9", E, [("Decoder::new(BitOrder::Msb, 8)", "Decoder::new(BitOrder::Msb, 9)")]),
    ("serialize_ops: SCN operands without separating space", CO, [("                for p in args {\n                    p.serialize(f)?;\n                    write!(f, \" \")?;\n                }\n                writeln!(f, \"SCN\")?;", "                for p in args {\n                    p.serialize(f)?;\n                }\n                writeln!(f, \"SCN\")?;"),
                                                               ("        operand.serialize(f)?;\n        write!(f, \" \")?;", "        operand.serialize(f)?;"), ("        p.serialize(f)?;\n        write!(f, \" \")?;", "        p.serialize(f)?;")]),
    ("deep_clone_op: XObject looked up among the fonts (seeded C20b)", CO, [("if !resources.xobjects.contains_key(name) {", "if !resources.fonts.contains_key(name) {")]),
    # ---- round 3: named constants, one more level of helpers, evaluated dispatch
    ("const: ASCII85 first symbol", E, [("const A85_FIRST: u8 = b'!';", "const A85_FIRST: u8 = b'\\\"';"), ("b @ 0x21 ..= 0x75 => Some(b - 0x21)", "b @ 0x22 ..= 0x75 => Some(b - 0x22)")]),
    ("const: run-length EOD marker 127", E, [("const RUN_LENGTH_EOD: u8 = 128;", "const RUN_LENGTH_EOD: u8 = 127;"), ("} else if length >= 129 {", "} else if length >= 128 {"), ("} else if len_byte >= 129 {", "} else if len_byte >= 128 {"), ("            128 => break, // EOD", "            127 => break, // EOD")]),
    ("const: a local const shadows nothing else (PAGE depth)", TY, [("const PAGE_TREE_DEPTH: usize = 16;", "const PAGE_TREE_DEPTH: usize = 15;"), ("const MAX_PAGE_TREE_DEPTH: usize = 16;", "const MAX_PAGE_TREE_DEPTH: usize = 15;"), ("self.page_limited(resolve, page_nr, 16)", "self.page_limited(resolve, page_nr, 15)")]),
    ("const: AES IV length", C, [("const AES_IV_LEN: usize = 16;", "const AES_IV_LEN: usize = 15;"), ("let (iv, ciphertext) = data.split_at_mut(16);", "let (iv, ciphertext) = data.split_at_mut(15);", 0)]),
    ("const: AES salt", C, [('const AES_SALT: &[u8; 4] = b"sAlT";', 'const AES_SALT: &[u8; 4] = b"sAlt";'), ('b"sAlT"', 'b"salT"'), ("[0x73, 0x41, 0x6C, 0x54]", "[0x73, 0x61, 0x6C, 0x54]"), ("[b's', b'A', b'l', b'T']", "[b's', b'a', b'l', b'T']")]),
    ("const: PADDING byte", C, [("0x28, 0xBF, 0x4E, 0x5E", "0x28, 0xBF, 0x4E, 0x5F"), ("0x28, 0xbf, 0x4e, 0x5e", "0x28, 0xbf, 0x4e, 0x5f")]),
    ("const: R5 password cap", C, [("const MAX_PASSWORD_LEN_V5: usize = 127;", "const MAX_PASSWORD_LEN_V5: usize = 126;"), ("if password_encoded.len() > 127 {", "if password_encoded.len() > 126 {")]),
    ("const table: inline-image key abbreviation", CO, [('("BPC", "BitsPerComponent"),', '("BPC", "BitsPerComponents"),')]),
    ("const table: lexer delimiters", L, [('const DELIMITERS: &[u8] = b"()<>[]{}/%";', 'const DELIMITERS: &[u8] = b"()<>[]{}/";'), ('b"()<>[]{}/%".contains(b)', 'b"()<>[]{}%".contains(b)'), (" | b'/' | b'%'))", " | b'%'))")]),
    ("unpredict: TIFF value 3", E, [("            2 => tiff_unpredict(decoded, params),", "            3 => tiff_unpredict(decoded, params),"), ("} else if predictor == 2 {", "} else if predictor == 3 {"), ("        2 => tiff_unpredict(decoded, params),", "        3 => tiff_unpredict(decoded, params),")]),
    ("run_length_decode: repeat runs from 130", E, [("            129..=255 => {", "            130..=255 => {"), ("} else if length >= 129 {", "} else if length >= 130 {"), ("} else if length > RUN_LENGTH_EOD {", "} else if length > RUN_LENGTH_EOD + 1 {"), ("} else if len_byte >= 129 {", "} else if len_byte >= 130 {"), ("length @ 129 ..= 255 =>", "length @ 130 ..= 255 =>"), ("            129 ..= 255 => {", "            130 ..= 255 => {")]),
    ("serialize_ops: keyword handed to the name-operand helper", CO, [('serialize_name_op(name, "gs", f)?', 'serialize_name_op(name, "gS", f)?'), ('writeln!(f, " gs")?;', 'writeln!(f, " gS")?;')]),
    ("next_word: an unterminated comment stops one byte early", L, [(".map_or(self.buf.len(), |off| pos + off + 1);", ".map_or(self.buf.len() - 1, |off| pos + off + 1);"), ("None => pos = self.buf.len(),", "None => pos = self.buf.len() - 1,")]),
    ("from_password: R5 password truncation dropped", C, [("&password_encoded[..password_encoded.len().min(MAX_PASSWORD_LEN_V5)];", "&password_encoded[..password_encoded.len()];"), ("password_encoded = &password_encoded[..127];", "password_encoded = &password_encoded[..128];")]),
    # ---- round 4
    ("OpBuilder::add: the integer operand of j is read as a number", CO, [("fn integer(args: &mut impl Iterator<Item=Primitive>) -> Result<i32> {\n    args.next().ok_or(PdfError::NoOpArg)?.as_integer()", "fn integer(args: &mut impl Iterator<Item=Primitive>) -> Result<i32> {\n    args.next().ok_or(PdfError::NoOpArg)?.as_number()"),
                                                                        ("let n = args.next().ok_or(PdfError::NoOpArg)?.as_integer()?;", "let n = args.next().ok_or(PdfError::NoOpArg)?.as_number()?;", 0)]),
    ("write_revision: position of the xref stream object absolute", FI, [("let xref_pos = self.backend.len() - self.start_offset;", "let xref_pos = self.backend.len();")]),
    ("write_revision: position of the xref stream object taken after its header is written", FI, [("        let xref_pos = self.backend.len() - self.start_offset;\n", "        writeln!(self.backend, \"\")?;\n        let xref_pos = self.backend.len() - self.start_offset;\n")]),
    ("next_stream: the second byte is read at pos + 2", L, [("self.buf.get(pos + 1).ok_or(PdfError::EOF)?;", "self.buf.get(pos + 2).ok_or(PdfError::EOF)?;")]),
    # ---- gen/extract_pagetree.py
    ("PagesNode: /Type /Pagez", TY, [('"Pages" => Ok(PagesNode::Tree(', '"Pagez" => Ok(PagesNode::Tree(')]),
]


def apply_candidates(tree, rel, cands):
    path = os.path.join(tree, rel)
    with open(path, encoding="utf-8") as f:
        s = f.read()
    for cand in cands:
        old, new = cand[0], cand[1]
        n = s.count(old)
        if len(cand) == 2 and n == 1:
            s2 = s.replace(old, new)
        elif len(cand) == 3 and n > cand[2]:
            i = -1
            for _ in range(cand[2] + 1):
                i = s.index(old, i + 1)
            s2 = s[:i] + new + s[i + len(old):]
        else:
            continue
        with open(path, "w", encoding="utf-8") as f:
            f.write(s2)
        return True
    return False


def sensitivity(base_patches, only=None):
    """every entry of SENSITIVITY against the (optionally patched) tree; returns the number of BLIND entries"""
    tmp = tempfile.mkdtemp(prefix="trsens-")
    bad = skipped = 0
    try:
        base = os.path.join(tmp, "base")
        os.makedirs(base)
        copy_inputs(base)
        for p in base_patches:
            apply_patch(base, p)
        g0, m0 = translate(base, os.path.join(tmp, "g0"))
        def one(job):
            k, (what, rel, cands) = job
            tree = os.path.join(tmp, "t%d" % k)
            shutil.copytree(base, tree)
            try:
                if not apply_candidates(tree, rel, cands):
                    return ("SKIPPED", what, "(text not found in %s)" % rel)
                g1, m1 = translate(tree, os.path.join(tmp, "g1_%d" % k))
            finally:
                shutil.rmtree(tree, ignore_errors=True)
            res = compare(g0, m0, g1, m1)
            lost = [a for a in m1 if a not in m0]
            hit = (not res["identical"]) or lost
            names = ", ".join(c["name"] for c in res["changed"][:5])
            if lost:
                names = "anchor lost: " + "; ".join(a.split(": ")[0] for a in lost[:2]) + (" | " + names if names else "")
            return ("seen" if hit else "BLIND", what, names)
        jobs = [(k, e) for k, e in enumerate(SENSITIVITY) if not (only and only not in e[0])]
        from concurrent.futures import ThreadPoolExecutor
        with ThreadPoolExecutor(max_workers=int(os.environ.get("SELFTEST_JOBS", "8"))) as ex:
            for status, what, names in ex.map(one, jobs):
                print("%-8s %-62s %s" % (status, what, names))
                bad += 1 if status == "BLIND" else 0
                skipped += 1 if status == "SKIPPED" else 0
        print("sensitivity: %d edits, %d BLIND, %d skipped" % (len(SENSITIVITY), bad, skipped))
    finally:
        shutil.rmtree(tmp, ignore_errors=True)
    return bad + skipped


def main(argv):
    patches, edits, base, keep, expect_change, js, sens, only = [], [], [], None, False, False, False, None
    i = 0
    while i < len(argv):
        a = argv[i]
        if a == "--expect-change":
            expect_change = True
        elif a == "--json":
            js = True
        elif a == "--sensitivity":
            sens = True
        elif a == "--only":
            only = argv[i + 1]
            i += 1
        elif a == "--keep":
            keep = argv[i + 1]
            i += 1
        elif a == "--on":
            base.append(argv[i + 1])
            i += 1
        elif a == "--edit":
            edits.append((argv[i + 1], argv[i + 2], argv[i + 3]))
            i += 3
        elif a in ("-h", "--help"):
            print(__doc__)
            return 0
        else:
            patches.append(a)
        i += 1
    if sens:
        return 1 if sensitivity(base, only) else 0
    if not patches and not edits:
        print(__doc__)
        return 2
    res = run_one(patches, edits, base, keep)
    if js:
        print(json.dumps(res, indent=1))
    else:
        report(res)
    differs = (not res["identical"]) or bool(res["missing_after"] != res["missing_before"])
    ok = differs if expect_change else not differs
    if not js:
        print("RESULT: %s (%s)" % ("ok" if ok else "FAIL", "a difference was expected" if expect_change else "no difference was expected"))
    return 0 if ok else 1


if __name__ == "__main__":
    sys.exit(main(sys.argv[1:]))
