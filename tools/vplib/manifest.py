"""vplib.manifest — MANIFEST.json is generated from the property plugins (props/Cxx/prop.py) so that it
only ever lists properties that have a check, and from props/not_applicable.json for the others."""
import json, os, subprocess
from . import core


def hook_commits():
    try:
        out = subprocess.run(["git", "-C", core.REPO, "log", "--format=%h %s"], stdout=subprocess.PIPE).stdout.decode()
        return [l.split(" ", 1)[0] for l in out.split("\n") if " hook:" in l or l.split(" ", 1)[-1].startswith("hook:")]
    except Exception:
        return []


def write():
    checks = []
    claimed = set()
    ltp = os.path.join(core.ROOT, "props", "level_texts.json")
    ltexts = json.load(open(ltp)) if os.path.exists(ltp) else {}
    for pid in core.all_props():
        P = core.load_plugin(pid)
        claimed.add(pid)
        checks.append({
            "property_id": pid,
            "quick_cmd": "bin/vp check %s --tier quick" % pid,
            "thorough_cmd": "bin/vp check %s --tier thorough" % pid,
            "evidence_file": "evidence/%s.json" % pid,
            "replay_cmd_template": "bin/vp replay {path}",
            "engine": "rocq",
            "level_claimed": {"category": getattr(P, "LEVEL", "proof"), "text": getattr(P, "LEVEL_TEXT", "") or ltexts.get(pid, {}).get("text", ""),
                              "design_ref": getattr(P, "DESIGN_REF", "DESIGN.md §9 " + pid)},
            "level_note": getattr(P, "LEVEL_NOTE", "trusted: " + "; ".join(getattr(P, "TRUSTED_BASE", [])) +
                                  " | assumed: " + "; ".join(getattr(P, "ASSUMPTIONS", []))),
            "technique": getattr(P, "TECHNIQUE", "Rocq (Coq 8.16) proof over a Gallina model of the code; model tied to /repo by tables "
                                 "regenerated from the Rust source on every run and by differential correspondence "
                                 "(extracted model vs real crate on the same inputs)"),
        })
    na = []
    nap = os.path.join(core.ROOT, "props", "not_applicable.json")
    reasons = json.load(open(nap)) if os.path.exists(nap) else {}
    allp = [json.loads(l)["id"] for l in open(os.path.join(core.ROOT, "properties.jsonl")) if l.strip()]
    for pid in allp:
        if pid not in claimed:
            na.append({"property_id": pid, "reason": reasons.get(pid, "not yet claimed: no check has been registered for this property (see DESIGN.md §12 status)")})
    m = {
        "version": 1,
        "setup_cmd": "bin/vp setup",
        "hooks": {"guard": "pdf_rs_pdf_verif",
                  "enable": "RUSTFLAGS=\"--cfg pdf_rs_pdf_verif\" (set in harness/.cargo/config.toml; the harness crate depends on pdf = {path=\"/repo/pdf\"})",
                  "baseline_off_cmd": "cd /repo && cargo test --workspace --no-fail-fast --offline",
                  "source_commits": hook_commits(), "add_only": True},
        "engines": [
            {"name": "rocq", "path": "coq/", "serves_properties": sorted(claimed),
             "kind_free_text": "Coq 8.16.1 development (models, theorems, pins); full .vo make; Print Assumptions; lint"},
            {"name": "translator", "path": "gen/", "serves_properties": sorted(claimed),
             "kind_free_text": "regenerates coq/theories/Gen/Generated.v (tables, constants) from /repo's Rust sources on every run"},
            {"name": "pdfh", "path": "harness/", "serves_properties": sorted(claimed),
             "kind_free_text": "Rust harness running the real pdf crate on the generated cases (correspondence, implementation side)"},
            {"name": "model", "path": "coq/extracted/", "serves_properties": sorted(claimed),
             "kind_free_text": "OCaml extraction (ExtrOcamlBasic only) of the Gallina models + coq/driver/main.ml"},
            {"name": "vp", "path": "bin/vp", "serves_properties": sorted(claimed),
             "kind_free_text": "python3 orchestrator: generators, specification oracles, comparison, known-finding rule, evidence"}],
        "checks": checks,
        "not_applicable": na,
        "notes": "every check rebuilds from /repo's working tree (translator, coq make, cargo build) before running; "
                 "known findings are in known_findings/<id>.json",
    }
    with open(os.path.join(core.ROOT, "MANIFEST.json"), "w") as f:
        json.dump(m, f, indent=1)
    print("MANIFEST.json: %d checks, %d not claimed" % (len(checks), len(na)))
    return 0
