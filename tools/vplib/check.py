"""vplib.check — one property check, end to end (DESIGN.md §3.2)."""
import hashlib, json, os, random, re, sys, time

from . import core
from .api import Case, same_result, show
from .core import log


def setup():
    t0 = time.time()
    with core.Lock("build"):
        info = core.translate()
        log("translate:", info)
        core.gen_extract_v()
        core.coq_project()
        rc, out, dt = core.make([])
        log("coq make rc=%d (%.0fs)" % (rc, dt))
        if rc != 0:
            print(out[-4000:])
        ok = True
        for pid in core.all_props():
            o, msg = core.build_model_exe(pid)
            if not o and os.path.exists(os.path.join(core.COQ, "theories", "Run", "Extract_%s.v" % pid)):
                ok = False
                log("model.exe %s:" % pid, o, msg[:300])
        okc, exe, cerr, dtc = core.cargo_build()
        log("cargo build:", okc, "%.0fs" % dtc, cerr[-500:])
    log("setup done in %.0fs" % (time.time() - t0))
    return 0 if (rc == 0 and ok and okc) else 1


def write_replay(pid, name, payload):
    d = os.path.join(core.ROOT, "replays")
    os.makedirs(d, exist_ok=True)
    path = os.path.join(d, "%s-%s.json" % (pid, name))
    with open(path, "w") as f:
        json.dump(payload, f, indent=1)
    return path


def check(pid, tier="quick", seed=None, only_cases=None):
    t0 = time.time()
    P = core.load_plugin(pid)
    if seed is None:
        seed = int(os.environ.get("VERIF_SEED", "20260927"))
    rng = random.Random(seed * 1000003 + sum(ord(c) for c in pid))
    ev_path = os.path.join(core.ROOT, "evidence", pid + ".json")
    os.makedirs(os.path.dirname(ev_path), exist_ok=True)
    if os.path.exists(ev_path):
        os.remove(ev_path)

    violations = []      # (replay_path, suffix)
    broken = []          # names of proof obligations / correspondences that no longer check
    notes = []
    machinery_broken = []

    # ---- 1. translator + 2. proofs --------------------------------------------------------
    targets = [t for t in getattr(P, "COQ_TARGETS", [])]
    with core.Lock("build"):
        tinfo = core.translate()
        reg = core.gen_extract_v(pid, getattr(P, "MODES", None))
        core.coq_project()
        vo = ["theories/%s.vo" % t for t in targets] + (["theories/Run/Extract_%s.vo" % pid] if reg else [])
        rc, mout, mdt = core.make(vo)
        merrs = core.failed_files(mout) if rc != 0 else []
        if rc != 0 and not merrs:
            merrs = [{"file": "?", "line": 0, "message": mout[-800:]}]
        mok, mmsg = core.build_model_exe(pid) if reg else (True, "no model modes")
        okc, pdfh, cerr, cdt = core.cargo_build()
    log("coq make rc=%d in %.0fs; model.exe %s; cargo %s in %.0fs" % (rc, mdt, mok, okc, cdt))

    cone = core.cone(targets)
    missing = [a for a in tinfo.get("anchors_missing", []) if any(a.startswith(p) for p in getattr(P, "ANCHORS", [""]))]
    for a in missing:
        broken.append("generated-table anchor: " + a)
    for e in merrs:
        st = core.enclosing_statement(e["file"], e["line"]) or "?"
        # make only builds what the property's targets depend on: every error it reports is in the property's cone
        if True:
            broken.append("proof obligation %s (%s:%d): %s" % (st, e["file"], e["line"], e["message"][:200]))
    lint = core.lint(cone)
    for b in lint:
        machinery_broken.append("lint: " + b)
    obligations = core.count_obligations(cone)
    assum, aok, aout = ({}, True, "")
    if rc == 0:
        assum, aok, aout = core.print_assumptions(getattr(P, "THEOREMS", []), pid)
        for mod, name in getattr(P, "THEOREMS", []):
            txt = assum.get(name)
            if txt is None:
                broken.append("theorem %s.%s not found / not printable" % (mod, name))
                continue
            good, bad = core.axioms_ok(txt)
            if not good:
                machinery_broken.append("theorem %s depends on axioms outside the allow-list: %s" % (name, bad or txt[:200]))
    discharged = obligations if rc == 0 else max(0, obligations - len(merrs))
    chk_info = None
    if rc == 0 and tier == "thorough" and targets:
        okk, chk_info, cdt2 = core.coqchk("PdfV." + targets[0].replace("/", "."))
        log("coqchk %s in %.0fs" % ("ok" if okk else "FAILED", cdt2))
        if not okk:
            broken.append("coqchk rejects the compiled development: %s" % str(chk_info)[-300:])
        else:
            ax = chk_info["axioms"]
            names = [a for a in re.findall(r"([\w.']+)\s*:", ax)] if "<none>" not in ax else []
            badax = [n for n in names if n not in core.ALLOWED_AXIOMS and n.split(".")[-1] not in core.ALLOWED_AXIOMS]
            if badax or any("<none>" not in chk_info[k] for k in ("type_in_type", "unsafe_fixpoints", "assumed_positivity")):
                machinery_broken.append("coqchk reports assumptions outside the allow-list: %s" % json.dumps(chk_info)[:400])

    if not okc:
        # the repository no longer builds with the harness: nothing can be observed
        machinery_broken.append("cargo build of the harness failed: " + cerr[-600:])
    if not mok:
        broken.append("extracted model does not build: " + mmsg[-300:])

    # ---- 3. cases -----------------------------------------------------------------------
    findings = core.load_findings(pid)
    open_findings = [f for f in findings if f.get("status") == "open"]
    cases = []
    for f in findings:
        w = f.get("witness")
        if w and f.get("status") in ("open", "fixed"):
            c = Case(w["mode"], [bytes.fromhex(x) for x in w["fields_hex"]], kind="witness", note=f["id"], tags=["witness:" + f["id"]])
            if "mfields_hex" in w:
                c.mfields = [bytes.fromhex(x) for x in w["mfields_hex"]]
            if hasattr(P, "witness_case"):
                c = P.witness_case(f, c)
            cases.append(c)
    # corpus of minimised past disagreements
    cdir = os.path.join(core.ROOT, "corpus", pid)
    if os.path.isdir(cdir) and hasattr(P, "corpus_case"):
        for fn in sorted(os.listdir(cdir)):
            try:
                c = P.corpus_case(json.load(open(os.path.join(cdir, fn))))
                if c is not None:
                    c.kind = "corpus"
                    cases.append(c)
            except Exception as e:
                notes.append("corpus file %s unreadable: %s" % (fn, e))
    if okc:
        gen_t0 = time.time()
        try:
            for c in P.generate(rng, tier):
                cases.append(c)
        except Exception as e:
            # a defect of the case generator under this seed is not a verdict about the code: keep what was generated,
            # say so in the evidence, and top up from a derived seed so that the exploration is not cut short
            import traceback
            notes.append("generator raised %r after %d cases under seed %d (%s); continued with a derived seed"
                         % (e, len(cases), seed, traceback.format_exc().strip().split("\n")[-3].strip()[:160]))
            log("WARNING: generator raised %r after %d cases; continuing with a derived seed" % (e, len(cases)))
            try:
                import random as _r
                for c in P.generate(_r.Random(seed * 7919 + 13), tier):
                    cases.append(c)
            except Exception as e2:
                notes.append("generator raised again under the derived seed: %r" % (e2,))
        if broken and hasattr(P, "search"):
            for c in P.search(rng, broken):
                c.kind = "search"
                cases.append(c)
        log("generated %d cases in %.1fs" % (len(cases), time.time() - gen_t0))

    # ---- 4./5. run implementation and model -------------------------------------------------
    impl = [None] * len(cases)
    model = [None] * len(cases)
    if okc and cases:
        t1 = time.time()
        impl = core.run_parallel(pdfh, [c.line() for c in cases], per_case_timeout=getattr(P, "CASE_TIMEOUT", 10.0))
        log("implementation ran %d cases in %.1fs" % (len(cases), time.time() - t1))
    midx = [i for i, c in enumerate(cases) if c.model and c.mode in reg]
    if mok and midx:
        t1 = time.time()
        mres = core.run_parallel(os.path.join(core.COQ, "extracted", pid, "model.exe"), [cases[i].line(True) for i in midx],
                                 per_case_timeout=getattr(P, "MODEL_TIMEOUT", 60.0), model=True)
        for i, r in zip(midx, mres):
            model[i] = r
        log("model ran %d cases in %.1fs" % (len(midx), time.time() - t1))

    # extraction cross-check on a sample
    vm_n, vm_ok = 0, True
    if mok and midx and rc == 0:
        k = 24 if tier == "quick" else 120
        pick = rng.sample(midx, min(k, len(midx)))
        vm_n, vm_ok, vm_out = core.vm_crosscheck([cases[i] for i in pick], [model[i] for i in pick], reg, pid)
        if not vm_ok:
            machinery_broken.append("extracted model disagrees with vm_compute: " + vm_out[-400:])

    # ---- 6. decide ----------------------------------------------------------------------------
    same = getattr(P, "same", None) or (lambda a, b: same_result(a, b))
    stats = {"pass": 0, "known": 0, "violations": 0, "corr_broken": 0, "spec_fail": 0}
    known_hit = {}
    kinds = {}
    outcome_hist = {}
    bad_cases = []
    tie_broken = bool(broken)
    for i, c in enumerate(cases):
        r, m = impl[i], model[i]
        if r is None:
            continue
        kinds[c.kind] = kinds.get(c.kind, 0) + 1
        outcome_hist[r[0]] = outcome_hist.get(r[0], 0) + 1
        if r[0] in ("NOMODE", "BADINPUT"):
            machinery_broken.append("harness does not know case %s: %s" % (c.line()[:80], r))
            continue
        # spec judgement
        reason = None
        if c.check is not None:
            try:
                reason = c.check(r)
            except Exception as e:
                reason = "spec oracle raised %r" % (e,)
        elif c.expect is not None:
            if not same_result(r, c.expect, err_kinds=True):
                reason = "expected %s" % show(c.expect)
        if hasattr(P, "always") and reason is None:
            reason = P.always(c, r)        # property-wide requirement, e.g. never PANIC/ABORT/TIMEOUT
        has_model = m is not None
        if has_model and m[0] in ("ABORT", "TIMEOUT", "NOMODE", "BADINPUT"):
            machinery_broken.append("model failed to run case %s: %s" % (c.line()[:80], m))
            has_model = False
        if has_model and hasattr(P, "model_broken"):
            why = P.model_broken(c, m)      # e.g. an oracle-table miss inside the model: machinery, not the code
            if why:
                machinery_broken.append("model could not evaluate case %s: %s" % (c.line()[:80], why))
                has_model = False
        corr = (not has_model) or same(r, m)
        if reason is None and corr:
            stats["pass"] += 1
            continue
        fid = None
        if reason is not None:
            stats["spec_fail"] += 1
            # when the tie itself is already broken (lost anchors, failed obligations) the model's prediction means nothing:
            # listed findings are then attributed by their class alone, and the broken tie is reported on its own
            if corr and has_model or (corr and not c.model) or tie_broken:
                # the faithful model predicts exactly this wrong answer (or there is no model for this
                # case kind): attributable to a listed finding only
                for t in c.tags:
                    if t.startswith("witness:"):
                        fid = t[len("witness:"):]
                if fid is None:
                    try:
                        fid = P.classify(c, r, m)
                    except Exception as e:
                        fid = None
                        notes.append("classify raised %r" % (e,))
                if fid is not None and not any(f["id"] == fid for f in open_findings):
                    fid = None
        if fid is not None:
            stats["known"] += 1
            known_hit.setdefault(fid, []).append(i)
            if not corr:
                stats["corr_broken"] += 1
                bad_cases.append((i, None, corr))
            continue
        if not corr:
            stats["corr_broken"] += 1
        bad_cases.append((i, reason, corr))

    # a "fixed"/open witness that no longer fails
    stale = []
    for f in open_findings:
        if f.get("witness") and f["id"] not in known_hit:
            stale.append(f["id"])

    # concrete violations: implementation fails its spec (outside known findings)
    concrete = [(i, reason, corr) for (i, reason, corr) in bad_cases if reason is not None]
    corr_only = [(i, reason, corr) for (i, reason, corr) in bad_cases if reason is None]
    if concrete:
        # smallest input first
        concrete.sort(key=lambda t: sum(len(f) for f in cases[t[0]].fields))
        shown = set()
        for (i, reason, corr) in concrete:
            c = cases[i]
            sig = (c.mode, reason[:40] if reason else "", impl[i][0])
            if sig in shown and len(shown) >= 1:
                continue
            shown.add(sig)
            if hasattr(P, "shrink"):
                try:
                    c = P.shrink(c, pdfh) or c
                except Exception as e:
                    notes.append("shrink raised %r" % (e,))
            name = hashlib.sha256(c.line().encode()).hexdigest()[:12]
            path = write_replay(pid, name, {
                "property": pid, "case": c.to_json(), "line": c.line(), "why": reason,
                "impl": show(impl[i], 4000), "model": show(model[i], 4000), "spec": show(c.expect, 4000) if c.expect else (c.note or "predicate"),
                "correspondence_ok": corr, "seed": seed, "tier": tier, "broken_obligations": broken,
                "how_to_replay": "bin/vp replay %s" % os.path.relpath(os.path.join(core.ROOT, "replays", "%s-%s.json" % (pid, name)), core.ROOT)})
            violations.append((path, ""))
            if len(violations) >= 5:
                break
    else:
        if corr_only:
            i = min((t[0] for t in corr_only), key=lambda j: sum(len(f) for f in cases[j].fields))
            broken.append("correspondence mode=%s case=%s impl=%s model=%s" % (cases[i].mode, cases[i].line()[:300], show(impl[i], 200), show(model[i], 200)))
        if broken:
            name = "broken-" + hashlib.sha256("|".join(broken).encode()).hexdigest()[:10]
            path = write_replay(pid, name, {
                "property": pid, "broken": broken, "seed": seed, "tier": tier,
                "searched_cases": len(cases), "note": "the property is no longer shown to hold: the listed theorem / table lemma / correspondence does not check; no input on which the implementation violates the property was found by the search",
                "disagreeing_cases": [{"line": cases[t[0]].line()[:2000], "impl": show(impl[t[0]], 400), "model": show(model[t[0]], 400)} for t in corr_only[:5]]})
            violations.append((path, " no-failing-input-found"))

    # ---- 7. evidence ------------------------------------------------------------------------------
    nontriv = getattr(P, "nontrivial", lambda c: sum(len(f) for f in c.fields) >= 2)
    distinct = set()
    for c in cases:
        try:
            if nontriv(c):
                distinct.add(c.key())
        except Exception:
            pass
    samples = [dict(c.to_json(), impl=show(impl[i], 120), model=show(model[i], 120)) for i, c in list(enumerate(cases))[:3]]
    if len(cases) > 6:
        for i in rng.sample(range(len(cases)), 3):
            samples.append(dict(cases[i].to_json(), impl=show(impl[i], 120), model=show(model[i], 120)))
    for s in samples:
        s["fields_hex"] = [x[:200] for x in s["fields_hex"]]
    tag_hist = {}
    for c in cases:
        for t in c.tags:
            if not t.startswith("witness:"):
                tag_hist[t] = tag_hist.get(t, 0) + 1
    coverage = {
        "obligations": obligations, "discharged": discharged,
        "checker_cmd": "make -C coq " + " ".join("theories/%s.vo" % t for t in targets) + " (full .vo) ; coqc Print Assumptions ; lint grep" + (" ; coqchk -silent -o PdfV.%s" % targets[0].replace("/", ".") if tier == "thorough" and targets else ""),
        "trusted_base": getattr(P, "TRUSTED_BASE", []),
        "assumptions_printed": assum,
        "coqchk": chk_info,
        "theorems": ["%s.%s" % t for t in getattr(P, "THEOREMS", [])],
        "cone_files": cone,
        "generated_tables": {"sha256": tinfo.get("sha256"), "anchors_missing": tinfo.get("anchors_missing", [])},
        "evaluations": len([r for r in impl if r is not None]),
        "distinct_nontrivial": len(distinct),
        "rule": getattr(P, "RULE", ""),
        "traces_validated_against_impl": len([i for i in midx if impl[i] is not None and model[i] is not None]),
        "extraction_crosschecked_by_vm_compute": vm_n,
        "distribution": {"kinds": kinds, "impl_outcomes": outcome_hist, "tags": dict(sorted(tag_hist.items())[:80]),
                         "input_bytes": size_hist(cases)},
        "decision": stats,
        "known_findings_reproduced": sorted(known_hit),
        "stale_findings": stale,
        "broken": broken,
        "machinery_broken": machinery_broken,
        "notes": notes,
        "samples": samples,
    }
    if hasattr(P, "coverage_extra"):
        try:
            coverage.update(P.coverage_extra(cases, impl, model))
        except Exception as e:
            notes.append("coverage_extra raised %r" % (e,))
    evidence = {"property_id": pid, "tier": tier, "seed": seed, "level": getattr(P, "LEVEL", "proof"),
                "coverage": coverage, "assumptions": getattr(P, "ASSUMPTIONS", []),
                "wall_s": round(time.time() - t0, 1), "violations": len(violations)}

    if machinery_broken:
        # my own artefacts disagree / cannot run: not a statement about the code
        for m in machinery_broken[:10]:
            print("CHECK-BROKEN: property=%s %s" % (pid, m))
        return 2
    with open(ev_path, "w") as f:
        json.dump(evidence, f, indent=1)
    for f in open_findings:
        if f["id"] in known_hit:
            print("KNOWN-FINDING: property=%s %s %s" % (pid, f["id"], f.get("what", "")))
        elif f.get("witness"):
            print("STALE-FINDING: property=%s %s witness no longer fails" % (pid, f["id"]))
    for path, suffix in violations:
        print("VIOLATION property=%s replay=%s%s" % (pid, path, suffix))
    log("%s %s: %d cases, %s, %d violation(s), %.0fs" % (pid, tier, len(cases), stats, len(violations), time.time() - t0))
    return 1 if violations else 0


def size_hist(cases):
    h = {}
    for c in cases:
        n = sum(len(f) for f in c.fields)
        b = "0" if n == 0 else "1-7" if n < 8 else "8-63" if n < 64 else "64-511" if n < 512 else "512-4095" if n < 4096 else "4096+"
        h[b] = h.get(b, 0) + 1
    return h


def replay(path):
    data = json.load(open(path))
    pid = data["property"]
    if "line" not in data:
        print("replay names a broken obligation, not an input:", json.dumps(data.get("broken"), indent=1))
        return 0
    with core.Lock("build"):
        okc, pdfh, cerr, _ = core.cargo_build()
    r = core.run_lines(pdfh, [data["line"]])
    print("impl :", show(r[0], 4000))
    print("spec :", data.get("spec"))
    print("model:", data.get("model"))
    print("why  :", data.get("why"))
    return 0
