"""vplib.api — what a property plugin (props/Cxx/prop.py) sees.

A plugin module defines

  ID, LEVEL ("proof" | ...), DESIGN_REF
  COQ_TARGETS  : list of logical paths under theories/ without extension, e.g. ["Properties/C16"]
  THEOREMS     : list of (module, name) whose `Print Assumptions` is captured, module e.g. "PdfV.Properties.C16"
  ANCHORS      : prefixes of generated-table anchors this property depends on (for anchors_missing)
  TRUSTED_BASE, ASSUMPTIONS : lists of strings (copied to the evidence)
  RULE         : text — how cases are generated and what makes one non-trivial
  def generate(rng, tier) -> iterable of Case
  def classify(case, impl, model) -> known-finding id or None   (only consulted when impl fails its spec)
  def nontrivial(case) -> bool   (optional; default: len(fields[0]) >= 2)
  def search(rng, broken) -> iterable of Case   (optional; extra cases when a proof/correspondence broke)

Results are tuples: ("OK", [bytes, ...]) | ("ERR", kind) | ("PANIC", where) | ("ABORT", why) |
("TIMEOUT", "") | ("FUEL", "") | ("NOMODE", "").
"""


class Case:
    __slots__ = ("mode", "fields", "expect", "check", "model", "tags", "note", "kind", "mfields")

    def __init__(self, mode, fields, expect=None, check=None, model=True, tags=(), note="", kind="structured", mfields=None):
        self.mode = mode
        self.fields = [bytes(f) for f in fields]
        self.expect = expect      # a result tuple the implementation must produce (spec), or None
        self.check = check        # callable(result) -> None | reason   (spec oracle as a predicate)
        self.model = model        # False: no model counterpart for this case (implementation judged by spec only)
        self.tags = set(tags)
        self.note = note
        self.kind = kind          # "structured" | "malformed" | "witness" | "corpus" | "search"
        self.mfields = mfields    # fields for the model if they differ from the implementation's (else None)

    def line(self, for_model=False):
        fs = self.mfields if (for_model and self.mfields is not None) else self.fields
        return self.mode + " " + " ".join(hexf(f) for f in fs)

    def key(self):
        return self.line()

    def to_json(self):
        return {"mode": self.mode, "fields_hex": [f.hex() for f in self.fields], "note": self.note,
                "tags": sorted(self.tags), "kind": self.kind}


def hexf(b):
    return b.hex() if b else "-"


def ok(*fields):
    return ("OK", [bytes(f) for f in fields])


def err(kind="*"):
    return ("ERR", kind)


def parse_result(line):
    line = line.rstrip("\n")
    if not line:
        return ("ABORT", "empty")
    parts = line.split(" ")
    tag = parts[0]
    if tag == "OK":
        return ("OK", [b"" if p == "-" else bytes.fromhex(p) for p in parts[1:] if p != ""])
    if tag in ("ERR", "PANIC", "ABORT", "TIMEOUT", "FUEL", "NOMODE", "BADINPUT"):
        return (tag, " ".join(parts[1:]))
    return ("ABORT", "unparsable: " + line[:80])


def same_result(a, b, err_kinds=False):
    """canonical comparison of two results (DESIGN.md §4: Ok exactly, Err by tag, Panic by tag)."""
    if a is None or b is None:
        return False
    if a[0] != b[0]:
        return False
    if a[0] == "OK":
        return a[1] == b[1]
    if a[0] == "ERR" and err_kinds:
        return a[1] == b[1] or "*" in (a[1], b[1])
    return True


def show(r, limit=64):
    if r is None:
        return "none"
    if r[0] == "OK":
        return "OK " + " ".join((f.hex()[:limit] + ("…" if len(f.hex()) > limit else "")) if f else "-" for f in r[1])
    return "%s %s" % (r[0], r[1])
