"""C13 — concurrent readers get the answers sequential readers would."""
import itertools, os
from vplib.api import Case, ok, same_result
from oracle import cachedocs as D

ID = "C13"
LEVEL = "proof"
LEVEL_TEXT = "proof on an interleaving model (partial)"
LEVEL_NOTE = ("the model fixes the atomic steps at the resolver's lock acquisitions and at the cache's Vacant/InProcess/Computed protocol; "
              "OS scheduling, lock fairness, memory ordering and panics inside user callbacks are outside the model; the implementation is run "
              "under a deterministic turnstile scheduler at exactly these steps (plus an unscheduled stress run with the real SyncCache)")
DESIGN_REF = "DESIGN.md §9 C13, Appendix G, §12.C13"
COQ_TARGETS = ["Properties/C13", "Pins/C13"]
THEOREMS = [("PdfV.Properties.C13", n) for n in
            ["C13_per_thread_chain", "C13_completion", "C13_terminates", "C13_sequential_answer", "C13_answers_alone", "C13_cell_once", "C13_full_refuted",
             "C13_refuted_shared_chain", "C13_refuted_pop_assert", "C13_refuted_abort", "C13_cyclic_deadlock", "C13_chain_table",
             "C13_serving_cached_errors_refuted"]]
ANCHORS = ["file.rs:StorageResolver"]
MODES = ["schedule", "tschedule"]
TRUSTED_BASE = ["coqc 8.16.1 kernel (vm_compute for witnesses and the table lemma; no native_compute)",
                "gen/extract_cache.py (reads whether StorageResolver.chain is keyed by ThreadId)",
                "Extraction + ExtrOcamlBasic, ocamlfind ocamlopt 4.13.1, coq/driver/main.ml",
                "pdf/src/verif_hooks.rs + the four cfg-guarded yield points in StorageResolver::get (hook: commit)",
                "harness pdfh modes/cache.rs: blocked-in-the-kernel detection of the turnstile scheduler (/proc/self/task/<tid>/stat) for threads waiting inside once_cell, Holder test type (Lazy<Node<ty>> cells)",
                "harness pdfh modes/cache.rs: turnstile scheduler, TurnCache (instrumented implementation of the public Cache trait mirroring globalcache-0.2.4 SyncCache::get), Node<0..2> test types",
                "tools/vplib, tools/oracle/cachedocs.py + pdfwriter.py"]
ASSUMPTIONS = ["atomicity: the code between two yield points of one thread is one step (holds under the turnstile scheduler; for free-running threads it is the claim that the two mutexes make these sections atomic)",
               "the instrumented cache follows SyncCache::get's protocol (read from globalcache-0.2.4/src/sync.rs); the real SyncCache is exercised only by the stress mode",
               "C13_per_thread_chain premise `acyclic1`: eager nested loads follow a rank; for cyclic documents the cache protocol deadlocks (C13-b)",
               "the readers' object types are the harness types Node<0..2> (library types are exercised sequentially by C12)",
               "once-cell protocol of Lazy::load as read from once_cell 1.x sync::OnceCell::get_or_try_init (one initialiser at a time, waiters block, a failed initialiser leaves the cell empty); lazily loaded references are the cells of the harness type Holder, shared by all threads of a schedule"]
RULE = ("documents: Node documents (nested eager loads, failing loads, free references; acyclic and cyclic); 2 threads x 1 call: every interleaving of the "
        "model's steps (exhaustive), 2 x 2 and 3 x k: sampled schedules; split documents (for every error kind - missing object, wrong type, parse error, "
        "recursion, ... - a reference that fails with it as one type and loads as another): the same reference loaded as a failing and as a succeeding type "
        "by two threads (interleavings of the model's steps, exhaustive when few) and within one thread (sequential histories), directly and through parents "
        "that load it as several types; lazily loaded references (Lazy::load, a once-cell shared by the threads through one holder value): 2-4 threads "
        "loading the SAME cell - scripted arrival orders (the initialiser parked inside the cell's load while the others arrive), exhaustive / sampled "
        "interleavings, cells whose load fails, mixed with typed gets; real-thread stress hammering one cell; "
        "each under {shared resolver, one resolver each} x {cache on, off}; expected answers = "
        "each call alone (python oracle from the file's construction), no panic, no poison, no deadlock; plus unscheduled real-thread runs with the real "
        "SyncCache; non-trivial = at least two threads with a call each; distinct by (cfg, file, programs, schedule)")
CASE_TIMEOUT = 30.0

PER_THREAD = os.environ.get("VP_C13_PERTHREAD", "1")     # model flag: guard keyed by thread (the code after the fix: commit)


def same(a, b):
    # the model reports a process abort as Panic 99; the harness' parent observes it as ABORT
    if a is not None and b is not None and {a[0], b[0]} == {"ABORT", "PANIC"}:
        return "99" in (a[1] if a[0] == "PANIC" else b[1])
    return same_result(a, b)


def rand_doc(rng, n, cyclic=False):
    ids = list(range(4, 4 + n))
    nodes = {}
    for i in ids:
        cand = ids if cyclic else [j for j in ids if j < i]
        deps = [(0, rng.choice(cand)) for _ in range(rng.choice([0, 1, 1, 2])) if cand]
        if rng.random() < 0.1:
            deps.append((0, 4 + n))
        nodes[i] = dict(v=rng.randrange(100), swallow=rng.random() < 0.7, e0=rng.choice([0, 0, 0, 0, 1]),
                        e1=rng.choice([0, 0, 0, 1]), deps=deps)
    return D.NodeDoc(nodes, free=[4 + n])


def ring_doc(rng, k):
    ids = list(range(4, 4 + k))
    nodes = {i: dict(v=rng.randrange(100), swallow=True, e0=0, e1=0, deps=[(0, ids[(j + 1) % k])]) for j, i in enumerate(ids)}
    return D.NodeDoc(nodes, free=[4 + k])


def steps_bound(nd, r, cache, depth=0):
    """upper bound on the model steps of get(r): enter, pushed, (publish), cached, (re-load), leave + nested"""
    if depth > 6 or r not in nd.nodes:
        return 5
    inner = sum(steps_bound(nd, d, cache, depth + 1) for (_, d) in nd.nodes[r]["deps"])
    return 5 + 2 * inner if cache else 4 + inner


def interleavings(counts):
    """all sequences containing thread i exactly counts[i] times"""
    def go(rem):
        if not any(rem):
            yield []
            return
        for i, c in enumerate(rem):
            if c:
                rem[i] -= 1
                for t in go(rem):
                    yield [i] + t
                rem[i] += 1
    return go(list(counts))


def mk_case(nd, data, progs, sched, shared, cache, tags, typed=False):
    """progs: per thread a list of references (each loaded as Node<0>) or, typed, of (type, reference) pairs"""
    cf = ("1" if shared else "0") + PER_THREAD + ("1" if cache else "0")
    if typed:
        pf = "\n".join(" ".join("%d %d" % c for c in p) for p in progs).encode()
        expect = ok(*[" ".join("%s%d" % nd.alone_item(ty, r) for (ty, r) in p).encode() for p in progs])
    else:
        pf = "\n".join(" ".join(str(r) for r in p) for p in progs).encode()
        expect = ok(*[" ".join("%s%d" % nd.alone_get(0, r) for r in p).encode() for p in progs])
    sf = " ".join(str(t) for t in sched).encode()
    tags = list(tags) + ["shared" if shared else "separate", "cache" if cache else "nocache",
                         "cyclic" if not nd.acyclic() else "acyclic", "threads:%d" % len(progs)]
    fields, mfields = [cf.encode(), data, pf, sf], [cf.encode(), nd.rows(), pf, sf]
    if typed and nd.holder:
        # the holder of the lazy cells (implementation: its object number; model: its entries)
        fields.append(str(nd.holder).encode())
        mfields.append(nd.cells_row())
    return Case("tschedule" if typed else "schedule", fields, mfields=mfields, expect=expect, tags=tags)


def typed_cases(rng, nd, data, quick):
    """the same reference loaded as a type that fails and as a type that succeeds, by two threads and within one"""
    budget = 40 if quick else 200
    refs = [r for r in nd.all_ids() if nd.type_dependent(r)]
    parents = [r for r, n in nd.nodes.items() if len(set(t for (t, _) in n["deps"])) > 1]
    for r in refs:
        bad = [ty for ty in range(3) if nd.alone_get(ty, r)[0] == "e"]
        good = [ty for ty in range(3) if nd.alone_get(ty, r)[0] == "o"]
        pairs = [(b, g) for b in bad for g in good]
        if quick:
            pairs = [rng.choice(pairs)]
        for (b, g) in pairs:
            for shared in (True, False):
                for cache in (True, False):
                    k = budget if cache else max(4, budget // 8)
                    # 2 threads x 1 call
                    n = steps_bound(nd, r, cache)
                    allsch = list(interleavings([n, n])) if n <= 5 else None
                    if allsch is not None and len(allsch) <= k * 8:
                        tag = "2x1-exhaustive"
                    else:
                        allsch = [[rng.randrange(2) for _ in range(2 * min(n, 16))] for _ in range(k)]
                        tag = "2x1-sampled"
                    if len(allsch) > k and quick:
                        allsch, tag = rng.sample(allsch, k), "2x1-sampled"
                    for s in allsch:
                        yield mk_case(nd, data, [[(b, r)], [(g, r)]], s, shared, cache, [tag, "typed"], typed=True)
                    # scripted: A (failing type) alone then B; B then A; B arrives while A computes (waits on InProcess,
                    # receives A's error); A arrives while B computes (receives B's value, of another type)
                    for s in ([0] * 40 + [1] * 40, [1] * 40 + [0] * 40, [0, 0, 1, 1, 1] + [0] * 40 + [1] * 40,
                              [1, 1, 0, 0, 0] + [1] * 40 + [0] * 40, [0, 0, 0, 1, 1, 1, 0, 1, 0, 1, 0, 1, 0, 1]):
                        yield mk_case(nd, data, [[(b, r)], [(g, r)]], s, shared, cache, ["scripted", "typed"], typed=True)
                    # sequential histories inside the threads, and a third thread
                    for _ in range(max(2, k // 4)):
                        progs = [[(b, r), (g, r), (b, r)], [(g, r), (b, r)]]
                        if rng.random() < 0.3:
                            progs.append([(rng.choice([b, g]), r)])
                        rng.shuffle(progs)
                        s = [rng.randrange(len(progs)) for _ in range(rng.randint(0, 40))]
                        yield mk_case(nd, data, progs, s, shared, cache, ["sampled", "typed"], typed=True)
    ids = sorted(nd.nodes)
    for _ in range(30 if quick else 600):
        nt = rng.choice([2, 2, 3])
        progs = []
        for _ in range(nt):
            progs.append([(rng.randrange(3), rng.choice(refs + parents if rng.random() < 0.8 else ids))
                          for _ in range(rng.randint(1, 3))])
        s = [rng.randrange(nt) for _ in range(rng.randint(0, 50))]
        yield mk_case(nd, data, progs, s, rng.random() < 0.6, rng.random() < 0.85, ["sampled", "typed"], typed=True)


def lazy_cases(rng, nd, data, quick):
    """threads that load the SAME lazy cell of one shared holder (Lazy::load: a once-cell) at the same time: every
    order of arrival, the initialiser parked inside the cell's load while the others arrive, cells whose load fails
    (the cell stays empty, the next thread initialises), mixed with typed gets of the same reference"""
    L = nd.LAZY
    n_cells = len(nd.cells)
    for ci in range(n_cells):
        (cty, cr) = nd.cells[ci]
        n = steps_bound(nd, cr, True)
        for shared in (True, False):
            for cache in (True, False):
                k = (12 if quick else 120) if cache else (6 if quick else 40)
                progs2 = [[(L, ci)], [(L, ci)]]
                scripted = [[0] * 60 + [1] * 60, [1] * 60 + [0] * 60, [0, 0, 1, 1, 1] + [0] * 60 + [1] * 60,
                            [1, 1, 0, 0, 0] + [1] * 60 + [0] * 60, [0, 1] * 40, [0, 0, 0, 1, 0, 1, 1, 0] * 8]
                for s in scripted:
                    yield mk_case(nd, data, progs2, s, shared, cache, ["scripted", "typed", "lazy"], typed=True)
                if n <= 4:
                    allsch = list(interleavings([n, n]))
                    if len(allsch) > k * 4:
                        allsch = rng.sample(allsch, k * 4)
                    for s in allsch:
                        yield mk_case(nd, data, progs2, s, shared, cache, ["2x1-exhaustive", "typed", "lazy"], typed=True)
                for _ in range(k):
                    nt = rng.choice([2, 2, 3, 4])
                    progs = []
                    for _ in range(nt):
                        p = [(L, ci)]
                        if rng.random() < 0.5:
                            p.insert(rng.randrange(2), rng.choice([(cty, cr), (rng.randrange(3), cr), (L, rng.randrange(n_cells))]))
                        if rng.random() < 0.4:
                            p.append((L, ci))
                        progs.append(p)
                    s = [rng.randrange(nt) for _ in range(rng.randint(0, 60))]
                    yield mk_case(nd, data, progs, s, shared, cache, ["sampled", "typed", "lazy"], typed=True)
    # many cells, many threads
    for _ in range(40 if quick else 800):
        nt = rng.choice([2, 3, 4])
        few = rng.sample(range(n_cells), min(n_cells, rng.choice([1, 2, 3])))
        progs = [[(L, rng.choice(few)) if rng.random() < 0.75 else (rng.randrange(3), rng.choice(nd.all_ids()))
                  for _ in range(rng.randint(1, 4))] for _ in range(nt)]
        s = [rng.randrange(nt) for _ in range(rng.randint(0, 80))]
        yield mk_case(nd, data, progs, s, rng.random() < 0.6, rng.random() < 0.7, ["sampled", "typed", "lazy"], typed=True)


def generate(rng, tier):
    quick = tier == "quick"
    docs = []
    for di in range(4 if quick else 16):
        nd = ring_doc(rng, 2 + di % 2) if di % 4 == 3 else rand_doc(rng, rng.randint(2, 5))
        docs.append((nd, nd.build()))
    budget_exh = 200 if quick else 4000
    # typed loads: the cache is keyed by the reference only
    split = [D.split_doc(rng, selfloop=i % 2 == 1) for i in range(2 if quick else 6)]
    for nd in split:
        data = nd.build()
        for c in typed_cases(rng, nd, data, quick):
            yield c
        for c in lazy_cases(rng, nd, data, quick):
            yield c
        # real threads, real SyncCache: many threads hammer one lazy cell (and a few others)
        for _ in range(4 if quick else 40):
            ci = rng.randrange(len(nd.cells))
            progs = [[(nd.LAZY, ci) if rng.random() < 0.8 else (nd.LAZY, rng.randrange(len(nd.cells)))
                      for _ in range(rng.randint(1, 4))] for _ in range(rng.choice([4, 6, 8] if not quick else [3, 4]))]
            pf = "\n".join(" ".join("%d %d" % c for c in p) for p in progs).encode()
            expect = ok(*[" ".join("%s%d" % nd.alone_item(ty, r) for (ty, r) in p).encode() for p in progs])
            yield Case("tstress", [data, pf, b"20" if quick else b"300", str(nd.holder).encode()], expect=expect, model=False,
                       tags=["stress", "typed", "lazy", "threads:%d" % len(progs)])
        for _ in range(3 if quick else 20):
            refs = [r for r in nd.all_ids() if nd.type_dependent(r)]
            progs = [[(rng.randrange(3), rng.choice(refs)) for _ in range(rng.randint(1, 6))] for _ in range(rng.choice([2, 3, 4]))]
            pf = "\n".join(" ".join("%d %d" % c for c in p) for p in progs).encode()
            expect = ok(*[" ".join("%s%d" % nd.alone_get(ty, r) for (ty, r) in p).encode() for p in progs])
            yield Case("tstress", [data, pf, b"20" if quick else b"200"], expect=expect, model=False,
                       tags=["stress", "typed", "threads:%d" % len(progs)])
    for nd, data in docs:
        ids = sorted(nd.nodes)
        for shared in (True, False):
            for cache in (True, False):
                # 2 threads x 1 call: every interleaving (bounded exhaustive)
                pairs = [(a, b) for a in ids for b in ids]
                rng.shuffle(pairs)
                for (a, b) in pairs[: (2 if quick else 8)]:
                    n0, n1 = min(steps_bound(nd, a, cache), 7), min(steps_bound(nd, b, cache), 7)
                    allsch = list(interleavings([n0, n1]))
                    if len(allsch) > budget_exh:
                        allsch = rng.sample(allsch, budget_exh)
                        tag = "2x1-sampled"
                    else:
                        tag = "2x1-exhaustive"
                    for s in allsch:
                        yield mk_case(nd, data, [[a], [b]], s, shared, cache, [tag])
                # 2 x 2 and 3 x k: sampled schedules
                for _ in range(12 if quick else 300):
                    nt = rng.choice([2, 2, 3])
                    progs = [[rng.choice(ids) for _ in range(rng.randint(1, 2 if nt == 2 else 3))] for _ in range(nt)]
                    L = rng.randint(0, 40)
                    s = [rng.randrange(nt) for _ in range(L)]
                    yield mk_case(nd, data, progs, s, shared, cache, ["sampled"])
    # real threads, real SyncCache, no scheduler (exploration): acyclic documents only (C13-b would hang)
    for nd, data in docs:
        if not nd.acyclic():
            continue
        ids = sorted(nd.nodes)
        for _ in range(3 if quick else 20):
            progs = [[rng.choice(ids) for _ in range(rng.randint(1, 6))] for _ in range(rng.choice([2, 3, 4]))]
            pf = "\n".join(" ".join(str(r) for r in p) for p in progs).encode()
            expect = ok(*[" ".join("%s%d" % nd.alone_get(0, r) for r in p).encode() for p in progs])
            yield Case("stress", [data, pf, b"20" if quick else b"200"], expect=expect, model=False, tags=["stress", "threads:%d" % len(progs)])


def nontrivial(c):
    f = c.fields[2] if c.mode in ("schedule", "tschedule") else c.fields[1]
    return f.count(b"\n") >= 1


def always(case, r):
    if r[0] in ("PANIC", "ABORT", "TIMEOUT"):
        return "the run ended with %s %s" % (r[0], r[1])
    return None


def classify(case, impl, model):
    # C13-b: eager reference cycles + the compute-once cache: threads wait for each other's InProcess marker
    # (deadlock), and entries computed under a non-empty guard stack are shared (as C12-c)
    if "cyclic" in case.tags and "cache" in case.tags and "typed" not in case.tags:
        return "C13-b"
    return None


def witness_case(f, c):
    exp = f.get("expected")
    if exp:
        c.expect = ok(*[e.encode() for e in exp])
    if f.get("tags"):
        c.tags |= set(f["tags"])
    return c
