"""C17 — bytes before the header do not change what is read."""
import glob, os, re
from vplib.api import Case, ok, err
from vplib import core
from oracle import xrefspec as X
from oracle.pdfwriter import Obj, Revision, write_file
from oracle.canon import canon

ID = "C17"
LEVEL = "proof"
DESIGN_REF = "DESIGN.md §9 C17, §12.C17"
COQ_TARGETS = ["Properties/C17", "Pins/C17"]
THEOREMS = [("PdfV.Properties.C17", n) for n in
            ["C17_marker_first_occurrence", "C17_header_no_border", "C17_locate_start", "C17_locate_xref", "C17_load_invariant",
             "C17_resolve_invariant", "C17_scan_invariant", "C17_full_statement_proved", "C17_resolve_no_panic",
             "C17_lexer_position", "C17_parser_position", "C17_xref_at_prefix", "C17_obj_at_prefix", "C17_tables_invariant", "C17_resolve_latest_prefixed",
             "C17_resolve_overflow_refuted_before_fix", "C17_scan_refuted_before_fix"]]
ANCHORS = ["backend.rs", "xref.rs", "parse_xref.rs", "lexer/mod.rs"]
MODES = ["xr_locate", "xr_walk", "xr_open"]
TRUSTED_BASE = ["coqc 8.16.1 kernel (vm_compute for the generated HEADER lemma and the witnesses; no native_compute)",
                "gen/extract_xref.py (HEADER, search window, startxref keyword, lexer byte classes from the Rust source)",
                "Extraction + ExtrOcamlBasic, ocamlfind ocamlopt 4.13.1, coq/driver/main.ml",
                "harness pdfh (Rust, harness/src/modes/xref.rs: xr_pair observes file and prefix ++ file), tools/vplib",
                "tools/oracle/xrefspec.py + pdfwriter.py + canon.py (files written with header-relative offsets, expected values)"]
ASSUMPTIONS = ["oracle premises of C17_load/resolve/scan_invariant: the object parser reads only the slice it is given and the lexer offset "
               "(Lexer::with_offset) only labels reported file ranges: xref_at/obj_at/member/scan_slice at |p|+pos in p++f equal those at pos in f "
               "up to shifting ranges (tested on every xr_pair case, all objects, raw stream data, trailer, scan listing); PROVED for the lexer and "
               "the shared object-parser model (C17_lexer_position, C17_parser_position) and hence discharged for classic-table files "
               "(C17_tables_invariant, C17_resolve_latest_prefixed); still premises for cross-reference streams, object-stream members and scan",
               "usize = u64; files shorter than 2^64 bytes"]
RULE = ("generated multi-revision files (tables, xref streams, /Prev chains, object streams, stream objects) and the repository's sample files "
        "(unencrypted) x prefix lengths {0,1,2,1018,1019,random} x contents {random, all '%', ending in each proper prefix of the marker}; each case "
        "observes every object below /Size, raw stream data, the trailer and the scan listing for file and prefix++file and requires them equal "
        "(and, for generated files, equal to what the writer wrote); header/startxref location additionally against the model; "
        "non-trivial = non-empty prefix; distinct by (file, prefix)")
CASE_TIMEOUT = 60.0
MARKER = b"%PDF-"


def nontrivial(c):
    if c.mode == "xr_pair":
        return len(c.fields[2]) >= 1
    return sum(len(f) for f in c.fields) > 16


def always(case, r):
    if r[0] in ("PANIC", "ABORT", "TIMEOUT"):
        return "reading must not %s: %s" % (r[0].lower(), r[1][:120])
    return None


def prefixes(rng, room, quick):
    """(tag, bytes) — never containing the marker, header stays within the window (room = 1019 - header position)"""
    lens = [0, 1, 2, 1018, 1019, rng.randint(3, 1017)]
    out = []
    for n0 in lens:
        n = min(n0, room)
        kinds = ["random", "percent"] + ["ends:" + MARKER[:k].decode() for k in range(1, len(MARKER))]
        if quick and n0 not in (1, 1019):
            kinds = [rng.choice(kinds[:2]), rng.choice(kinds[2:])]
        for kind in kinds:
            if kind == "random":
                b = bytes(rng.randrange(256) for _ in range(n))
            elif kind == "percent":
                b = b"%" * n
            else:
                tail = kind[5:].encode()
                if n < len(tail):
                    continue
                b = bytes(rng.choice(b"%PDF-x\n") for _ in range(n - len(tail))) + tail
            while MARKER in b:
                b = b.replace(MARKER, b"%PDF+")
            out.append(("len:%s %s" % (n0 if n0 in (0, 1, 2, 1018, 1019) else "random", kind), b))
    seen, res = set(), []
    for t, b in out:
        if b not in seen:
            seen.add(b)
            res.append((t, b))
    return res


def pair_check(inner):
    def chk(r):
        if r[0] != "OK":
            return "must not fail: %s %s" % (r[0], r[1][:100])
        out = r[1]
        if b"|" not in out:
            return "protocol"
        i = out.index(b"|")
        a, b = out[:i], out[i + 1:]
        if inner is not None:
            why = inner(a)
            if why:
                return "unprefixed file: " + why
        if a != b:
            for j, (x, y) in enumerate(zip(a, b)):
                if x != y:
                    return "field %d differs with the prefix: %s / %s" % (j, x[:80], y[:80])
            return "prefixed file yields %d fields, the file itself %d" % (len(b), len(a))
        if len(a) == 1 and a[0].startswith(b"!"):
            return "the file does not load: %s" % a[0][:40]
        return None
    return chk


def corpus():
    d = os.path.join(core.REPO, "files")
    for path in sorted(glob.glob(os.path.join(d, "*.pdf"))):
        data = open(path, "rb").read()
        if b"/Encrypt" in data:
            continue
        sizes = [int(x) for x in re.findall(rb"/Size\s+(\d+)", data)]
        yield os.path.basename(path), data, (max(sizes) if sizes else 1)


def last_startxref(data):
    m = re.findall(rb"startxref\s+(\d+)", data)
    return int(m[-1]) if m else None


def first_section_first():
    """a file whose NEWEST cross-reference section stands in front of the section its /Prev names (the layout of linearized files:
    first-page section first, main section behind it).  -> (bytes, /Size, offset of the newest section, offset of the older one)"""
    out = bytearray(b"%PDF-1.7\n")
    offs = {}
    def obj(num, body):
        offs[num] = len(out)
        out.extend(b"%d 0 obj\n" % num + body + b"\nendobj\n")
    obj(1, b"<</Type /Catalog /Pages 2 0 R>>")
    obj(2, b"<</Type /Pages /Kids [] /Count 0>>")
    off3old = len(out)
    out.extend(b"3 0 obj\n7\nendobj\n")
    off3new = len(out)
    out.extend(b"3 0 obj\n8\nendobj\n")
    off_a = len(out)
    hole = b"@@@@@@@@@@"
    out.extend(b"xref\n3 1\n%010d 00000 n \ntrailer\n<</Size 4 /Root 1 0 R /Prev " % off3new + hole + b">>\n")
    out.extend(b"%" + b"filler " * 20 + b"\n")
    off_b = len(out)
    out.extend(b"xref\n0 4\n0000000000 65535 f \n%010d 00000 n \n%010d 00000 n \n%010d 00000 n \ntrailer\n<</Size 4 /Root 1 0 R>>\n"
               % (offs[1], offs[2], off3old))
    out.extend(b"startxref\n%d\n%%%%EOF\n" % off_a)
    data = bytes(out).replace(hole, b"%010d" % off_b)
    return data, 4, off_a, off_b


def layout_cases(rng):
    """prefixes whose LENGTH coincides with a distance inside the file (between the two sections, to either section): where a
    header-relative number and an absolute position are mixed up, these are the lengths on which the two meet (seeded/C17i)"""
    data, size, off_a, off_b = first_section_first()
    lens = sorted({n for n in (off_b - off_a, off_b - off_a - 1, off_b - off_a + 1, off_a, off_b, 1, 1019) if 0 < n <= 1019})
    for n in lens:
        pre = bytes(rng.choice(b"abc \n%") for _ in range(n))
        while MARKER in pre:
            pre = pre.replace(MARKER, b"%PDF+")
        yield Case("xr_pair", [b"s", b"%d" % size, pre, data], check=pair_check(None), model=False,
                   tags=["layout:first-section-first", "len:%d" % n, "len-is-section-distance" if n == off_b - off_a else "len-other"])


def generate(rng, tier):
    quick = tier == "quick"
    if not os.environ.get("VP_NO_LAYOUT_CASES"):       # (switch used once, to establish what seeded/C17i needed)
        for c in layout_cases(rng):
            yield c
    # generated files
    n = 14 if quick else 300
    for i in range(n):
        H = X.gen_history(rng, n_updates=rng.randint(1, 4), max_num=rng.randint(2, 14))
        try:
            data, info = X.render(H)
        except (OverflowError, ValueError):
            for r in H.revisions:
                r.w = None
            data, info = X.render(H)
        inner, size = X.observation_check(H, info)
        fm = "".join(f[0] for f in H.fmts)
        for tag, pre in prefixes(rng, 1019, quick):
            t1, t2 = tag.split(" ")
            yield Case("xr_pair", [b"s", b"%d" % size, pre, data], check=pair_check(inner), model=False,
                       tags=["generated", "fmts:" + fm[:2], t1, t2])
            yield Case("xr_locate", [pre + data], expect=ok(b"%d" % len(pre), b"%d" % info["startxrefs"][-1]),
                       tags=["locate", t1, t2])
            if i % 3 == 0 and len(pre) in (1, 1019):
                last = len(H.revisions) - 1
                tabs = [r["table"] for r in info["revisions"]]
                exp = X.expected_table(tabs, info["revisions"][-1]["size"]) + [("f", 0, 65535)]
                yield Case("xr_walk", [b"s", pre + data], mfields=X.abstract_file(H, info, len(pre), len(pre) + len(data)),
                           expect=ok(X.table_text(exp), b"%d" % last), tags=["walk-prefixed", t1])
    # the repository's sample files
    for name, data, size in corpus():
        hp = data.find(MARKER)
        if hp < 0 or hp > 1019:
            continue
        ps = prefixes(rng, 1019 - hp, quick)
        if quick and len(data) > 100000:
            ps = [p for p in ps if len(p[1]) in (0, 1, 1019 - hp)][:4]
        elif quick:
            ps = ps[::2] + [p for p in ps if len(p[1]) == 1019 - hp][:2]
        for tag, pre in ps:
            t1, t2 = tag.split(" ")
            yield Case("xr_pair", [b"t", b"%d" % size, pre, data], check=pair_check(None), model=False,
                       tags=["corpus", "file:" + name, t1, t2])
            sx = last_startxref(data)
            if sx is not None and len(data) < 200000:
                yield Case("xr_locate", [pre + data], expect=ok(b"%d" % (hp + len(pre)), b"%d" % sx), tags=["locate-corpus", t1])
    # header search window and marker edge cases (spec: first occurrence of the marker within the first 1024 bytes)
    body = b"%PDF-1.4\n1 0 obj\n<<>>\nendobj\nstartxref\n9\n%%EOF\n"
    for n in (1019, 1020, 1023, 1024, 2000):
        pre = b"x" * n
        yield Case("xr_locate", [pre + body], expect=ok(b"%d" % n if n <= 1019 else b"E", b"9"), tags=["window", "len:%d" % n])
    for pre in (b"%PDF", b"%PD%PDF", b"%%%%", b"%PDF%PDF%PD", b"-FDP%", b"%PDF\x00-"):
        yield Case("xr_locate", [pre + body], expect=ok(b"%d" % len(pre), b"9"), tags=["marker-edge"])
    for junk in (b"", b"%PDF", b"startxref", b"startxref\n", b"startxref 12", b"startxref 12 ", b"startxrefstartxref 7\n", b"startxref\n-1\n",
                 b"startxref\n18446744073709551615\n", b"startxref\n18446744073709551616\n", b"startxref %c\n5 ", b"startxref +5\n", b"startxref 5%"):
        yield Case("xr_locate", [junk], kind="malformed", tags=["locate-malformed"])
    m = 60 if quick else 2000
    for i in range(m):
        b = bytearray(rng.choice([body, b"junk" + body, body * 2]))
        for _ in range(rng.randint(1, 4)):
            p = rng.randrange(len(b))
            op = rng.randrange(3)
            if op == 0:
                b[p] = rng.choice(b"%PDF-startxref 0123456789\n\r+")
            elif op == 1:
                del b[p:p + rng.randrange(1, 12)]
            else:
                b[p:p] = rng.choice([b"%PDF-", b"startxref", b"%", b"\n", b"7", b" "])
        yield Case("xr_locate", [bytes(b)], kind="malformed", tags=["locate-malformed"])
    for c in overflow_cases():
        yield c
    for c in table_open_cases(rng, quick):
        yield c


def table_open_cases(rng, quick):
    """classic-table files behind a prefix, through the composed model (load + resolve_ref + the shared parser:
    C17_tables_invariant) and against what the writer wrote: the same values as without the prefix"""
    for i in range(8 if quick else 250):
        k = rng.randint(1, 4)
        H = X.gen_history(rng, n_updates=k, max_num=rng.randint(1, 14), force=["table"] * k)
        for r in H.revisions:
            r.eol = rng.choice(X.EOLS)
        data, info = X.render(H)
        vals, size = X.expected_values(H, info)
        tr = dict(H.revisions[-1].trailer)
        if len(H.revisions) > 1:
            tr["Prev"] = info["startxrefs"][-2]
        tr["Size"] = info["revisions"][-1]["size"]
        exp = [(b"!" if v in (b"!FreeObject", b"!NullRef") else v) for v in vals] + [canon(tr)]
        for tag, pre in prefixes(rng, 1019, True):
            t1, t2 = tag.split(" ")
            yield Case("xr_open", [b"s", b"%d" % size, pre + data], expect=ok(*exp), tags=["open-prefixed", t1, t2])


def overflow_file(target=2 ** 64 - 1):
    """an xref stream (w1 = 8) whose entry for object 5 has offset `target` (default 2^64-1)"""
    revs = [Revision({1: Obj({"A": 1}), 5: Obj({"B": 5})}, fmt="stream", trailer={"VpRev": 0}, w=(1, 8, 2), xref_num=6)]
    data, info = write_file(revs)
    off = info["offsets"][(5, 0)]
    row = b"\x01" + off.to_bytes(8, "big") + b"\x00\x00"
    assert data.count(row) == 1
    return data.replace(row, b"\x01" + target.to_bytes(8, "big") + b"\x00\x00")


def overflow_cases():
    """C17-b (fixed): offsets for which header position + offset does not fit in 64 bits, or just does"""
    for off in (2 ** 64 - 1, 2 ** 64 - 2, 2 ** 64 - 1019, 2 ** 64 - 1020, 2 ** 63):
        for pre in (b"", b"%", b"%%", b"%" * 1018, b"%" * 1019):
            yield Case("xr_pair", [b"s", b"7", pre, overflow_file(off)], check=pair_check(None), model=False,
                       tags=["overflow-offset", "len:%d" % len(pre)])


def classify(case, impl, model):
    return None


def witness_case(f, c):
    if c.mode == "xr_pair":
        c.check = pair_check(None)
        c.model = False
        if f["id"] == "C17-b":
            c.tags = set(c.tags) | {"overflow-offset"}
    elif "expect_hex" in f:
        c.expect = ok(*[bytes.fromhex(x) for x in f["expect_hex"]])
    return c


def coverage_extra(cases, impl, model):
    files = sorted(set(t[5:] for c in cases for t in c.tags if t.startswith("file:")))
    return {"corpus_files": files}
