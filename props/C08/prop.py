"""C08 — content-stream operators round-trip and mean what the operator table says."""
from vplib.api import Case, ok, err, same_result
from oracle import optable as T
from oracle.optable import F, Nm, Dict, Word, Raw, NOPROPS

ID = "C08"
LEVEL = "proof"
DESIGN_REF = "DESIGN.md §9 C08, §12.C08"
COQ_TARGETS = ["Properties/C08", "Pins/C08"]
THEOREMS = [("PdfV.Properties.C08", n) for n in
            ["C08_roundtrip_tokens", "C08_roundtrip", "C08_roundtrip_bytes", "C08_lex_reads_back", "C08_ser_defined", "C08_cur_point_sync", "C08_writer_current_point", "C08_table", "C08_table_d0_d1_refuted",
             "C08_table_yields", "C08_table_Tr", "C08_no_leak", "C08_no_leak_buffer", "C08_keywords_cover_iso", "C08_reader_matches_source",
             "C08_writer_reader_agree", "C08_inline_abbreviations"]]
ANCHORS = ["content.rs", "primitive.rs:serialize_name", "primitive.rs:PdfString", "types.rs:RenderingIntent", "object/mod.rs:ParseOptions"]
MODES = ["ops_serialize", "ops_parse", "ops_parse_bytes", "ops_roundtrip"]
TRUSTED_BASE = ["coqc 8.16.1 kernel (vm_compute for table lemmas and witnesses; no native_compute)",
                "gen/extract_content.py (regenerates operator / abbreviation / formatting tables of content.rs, primitive.rs, types.rs)",
                "Extraction + ExtrOcamlBasic, ocamlfind ocamlopt 4.13.1, coq/driver/main.ml",
                "harness pdfh (Rust; canonical Op codec in harness/src/modes/content.rs), tools/vplib",
                "tools/oracle/optable.py: ISO 32000-1 Annex A table, reference tokenizer, exact binary32 rounding/printing"]
ASSUMPTIONS = ["Rust f32 Display prints the shortest round-trip decimal and str::parse::<f32> rounds to nearest "
               "(tools/oracle/optable.py reproduces both exactly; compared with the implementation on every case)",
               "negative zero is judged by value (-0 = 0) in the spec comparison and excluded from the syntactic theorems",
               "the data of a filtered inline image is compared after decoding the model's raw bytes with tools/oracle/codecs.py"]
RULE = ("sequences of 0-40 operations over all 44 writable constructors with adjacency bias (every shorthand pair/triple and its "
        "near misses; all ordered pairs of constructors and all shorthand-relevant triples in thorough), operands: boundary and random "
        "finite reals, regular names, strings of any bytes, property lists; each sequence through ops_serialize (bytes judged by the "
        "reference content-stream reader and compared with the model), ops_roundtrip and ops_content (must return the sequence); "
        "every ISO Annex A keyword with generated operands, with one operand too many and one too few, followed by a probe operator "
        "(ops_parse: judged by the ISO table, compared with the model on the token list); random ISO operator streams with the "
        "standard's current-point rules; inline images (plain, filtered AHx/A85/RL/Fl incl. chains and Indexed colour spaces, malformed "
        "dictionaries, damaged ID / EI, cut streams); every ops_parse case again as ops_parse_bytes (the model reads the bytes: token "
        "loop on the shared lexer / parser models); byte-level damage to well-formed streams (never a panic, same answer as the "
        "model); ops_roundtrip compared with the model (ser_ops then parse_bytes); non-trivial = at least one operation with an operand; distinct by case line")
CASE_TIMEOUT = 10.0

WRITABLE = [c for c in T.SHAPES if c != "InlineImage"]


# ------------------------------------------------------------------------------------------------
# operand generators

BOUNDARY_BITS = [0x00000000, 0x3f800000, 0xbf800000, 0x3f000000, 0x3dcccccd, 0x4b7fffff, 0x4b800000, 0x4effffff, 0xcf000000,
                 0x00000001, 0x00800000, 0x3eaaaaab, 0x42c80000, 0x3a83126f, 0x7f7fffff & 0x4e7fffff, 0x33d6bf95, 0xc2f6e979]
WILD_BITS = [0x4f000000, 0x7f7fffff, 0xff7fffff, 0x501502f9]      # integral, magnitude >= 2^31 (C04-d)
NEG_ZERO = 0x80000000


def gen_f(rng, wild=False):
    r = rng.random()
    if wild and r < 0.5:
        return F(rng.choice(WILD_BITS))
    if r < 0.25:
        return F(rng.choice(BOUNDARY_BITS))
    if r < 0.55:
        return F.of(rng.randint(-50, 50))
    if r < 0.85:
        return F(T.bits_of_float(rng.randint(-100000, 100000) / rng.choice([2, 4, 10, 100, 1000])))
    if r < 0.87:
        return F(NEG_ZERO)
    while True:
        b = rng.getrandbits(32)
        if (b >> 23) & 0xff != 255:
            x = F(b)
            # integral with magnitude >= 2^31 is the C04-d class: only in the wild stream
            if abs(x.frac()) >= 2 ** 31 and not wild:
                continue
            return x


NAME_CHARS = b"ABCDEFGHIJKLMNOPQRSTUVWXYZabcdefghijklmnopqrstuvwxyz0123456789_.+-*'\"!$&;=?@^`|~,:"


def gen_name(rng, wild=False):
    if wild:
        return Nm(rng.choice([b"A B", b"A#20", b"a(b", b"a)b", b"a\\b", b"a/b", b"\xc3\xa9", b"x\x7f", b"[x]", b"a%b", b"a\tb"]))
    if rng.random() < 0.3:
        return Nm(rng.choice([b"F1", b"GS0", b"Im1", b"P0", b"DeviceRGB", b"Pattern", b"Span", b"OC", b"MC0", b"T*", b"true", b"1"]))
    return Nm(bytes(rng.choice(NAME_CHARS) for _ in range(rng.randint(1, 8))))


def gen_string(rng, wild=False):
    r = rng.random()
    n = rng.choice([0, 1, 2, 3, 5, 8, 20])
    if wild:
        return bytes(rng.choice(b"ab\r") for _ in range(max(1, n))) + b"\r"
    if r < 0.35:
        return bytes(rng.choice(b"Hello, World ()\\") for _ in range(n))
    if r < 0.6:
        s = bytes(rng.randrange(256) for _ in range(n))
    else:
        s = bytes(rng.randrange(128) for _ in range(n))
    if all(c < 0x80 for c in s):
        s = s.replace(b"\r", b"\n")          # an unescaped CR in a literal string is the C04-f class (wild stream)
    return s


def gen_prim(rng, depth=0):
    r = rng.random()
    if r < 0.25:
        return rng.randint(-1000, 1000) if rng.random() < 0.8 else rng.choice([-2 ** 31, 2 ** 31 - 1, 0])
    if r < 0.5:
        return gen_f(rng)
    if r < 0.7:
        return gen_name(rng)
    if r < 0.8:
        return gen_string(rng)
    if r < 0.85:
        return rng.choice([True, False, None])
    if depth >= 2:
        return rng.randint(0, 9)
    if r < 0.93:
        return [gen_prim(rng, depth + 1) for _ in range(rng.randint(0, 3))]
    return gen_dict(rng, depth + 1)


def gen_dict(rng, depth=0):
    keys = []
    for _ in range(rng.randint(0, 3)):
        k = gen_name(rng).s
        if k not in keys:
            keys.append(k)
    return Dict([(k, gen_prim(rng, depth + 1)) for k in keys])


def gen_props(rng):
    return gen_name(rng) if rng.random() < 0.4 else gen_dict(rng)


def gen_color_args(rng):
    n = rng.choice([0, 1, 3, 4, 5])
    args = [gen_f(rng) if rng.random() < 0.7 else rng.randint(0, 1) for _ in range(n)]
    if rng.random() < 0.4:
        args.append(gen_name(rng))
    return args


def gen_pt(rng, wild=False):
    return (gen_f(rng, wild), gen_f(rng, wild))


def gen_op(rng, c, wild=False):
    f = []
    for kind in T.SHAPES[c]:
        if kind == "f":
            f.append(gen_f(rng, wild))
        elif kind == "n":
            if c == "RenderingIntent":
                f.append(Nm(rng.choice(T.INTENTS)))
            else:
                f.append(gen_name(rng, wild))
        elif kind == "s":
            f.append(gen_string(rng, wild))
        elif kind == "o":
            f.append(NOPROPS if rng.random() < 0.5 else gen_props(rng))
        elif kind == "p":
            f.append(gen_pt(rng, wild))
        elif kind == "m":
            f.append(tuple(gen_f(rng, wild) for _ in range(6)))
        elif kind == "w":
            f.append(rng.choice(["NonZero", "EvenOdd"]))
        elif kind == "e":
            f.append(rng.randrange(8 if c == "TextRenderMode" else 3))
        elif kind == "L":
            f.append(tuple(gen_f(rng) for _ in range(rng.choice([0, 1, 2, 4]))))
        elif kind == "T":
            f.append(tuple(gen_string(rng) if rng.random() < 0.5 else gen_f(rng) for _ in range(rng.choice([0, 1, 2, 3, 5]))))
        elif kind == "c":
            k = rng.choice(["Gray", "Rgb", "Cmyk", "Other"])
            if k == "Other":
                f.append(("Other", gen_color_args(rng)))
            else:
                f.append((k,) + tuple(gen_f(rng) for _ in range({"Gray": 1, "Rgb": 3, "Cmyk": 4}[k])))
    return (c,) + tuple(f)


def motif(rng):
    """shorthand-relevant neighbourhoods and their near misses"""
    k = rng.randrange(17)
    W = lambda: rng.choice(["NonZero", "EvenOdd"])
    if k == 0:
        return [("Close",), ("Stroke",)]
    if k == 1:
        return [("Close",), ("FillAndStroke", W())]
    if k == 2:
        return [("Close",), rng.choice([("Fill", W()), ("Close",), ("EndPath",), ("Clip", W())])]
    if k == 3:
        return [("TextNewline",), ("TextDraw", gen_string(rng))]
    if k == 4:
        return [("WordSpacing", gen_f(rng)), ("CharSpacing", gen_f(rng)), ("TextNewline",), ("TextDraw", gen_string(rng))]
    if k == 5:   # near misses of "
        full = [("WordSpacing", gen_f(rng)), ("CharSpacing", gen_f(rng)), ("TextNewline",), ("TextDraw", gen_string(rng))]
        j = rng.randrange(1, 4)
        alt = rng.choice([("TextNewline",), ("CharSpacing", gen_f(rng)), ("WordSpacing", gen_f(rng)), ("TextDrawAdjusted", ())])
        return full[:j] + [alt] + full[j + 1:] if rng.random() < 0.5 else full[:j]
    if k in (6, 7):   # TD and its near misses
        t = gen_pt(rng)
        r = rng.random()
        if r < 0.45:
            l = t[1].neg()
        elif r < 0.7:
            l = t[0].neg()
        elif r < 0.8:
            l = t[1]
        else:
            l = gen_f(rng)
        return [("Leading", l), ("MoveTextPosition", t)]
    if k in (8, 9, 10):   # v / y and the current point
        p0, c1, c2, p = gen_pt(rng), gen_pt(rng), gen_pt(rng), gen_pt(rng)
        start = rng.choice([("MoveTo", p0), ("LineTo", p0), ("CurveTo", gen_pt(rng), gen_pt(rng), p0)])
        r = rng.random()
        if r < 0.4:
            cur = ("CurveTo", p0, c2, p)            # v
        elif r < 0.6:
            cur = ("CurveTo", c1, p, p)             # y
        elif r < 0.7:
            cur = ("CurveTo", p0, p, p)             # both: v wins
        elif r < 0.8:
            cur = ("CurveTo", (p0[0], c1[1]), c2, p)    # x matches only
        else:
            cur = ("CurveTo", c1, c2, p)
        mid = []
        if rng.random() < 0.35:    # operations between that do not move the current point for the library
            mid = [rng.choice([("Save",), ("LineWidth", gen_f(rng)), ("Transform", tuple(gen_f(rng) for _ in range(6)))])]
        return [start] + mid + [cur]
    if k == 11:   # stale current point: closing / painting / rectangle between (C08-e)
        p0, c2, p = gen_pt(rng), gen_pt(rng), gen_pt(rng)
        between = rng.choice([[("Close",)], [("Rect", gen_f(rng), gen_f(rng), gen_f(rng), gen_f(rng))], [("Stroke",)], [("Close",), ("Stroke",)],
                              [("EndPath",)], [("Fill", W())]])
        return [("MoveTo", gen_pt(rng)), ("LineTo", p0)] + between + [("CurveTo", p0, c2, p)]
    if k in (14, 15, 16):   # a curve whose first control point is an EARLIER point of the path (not the current one), and the true one
        pa, pb, c2, p = gen_pt(rng), gen_pt(rng), gen_pt(rng), gen_pt(rng)
        first = rng.choice([("MoveTo", pa), ("LineTo", pa), ("CurveTo", gen_pt(rng), gen_pt(rng), pa)])
        second = rng.choice([("MoveTo", pb), ("LineTo", pb), ("CurveTo", gen_pt(rng), gen_pt(rng), pb), ("CurveTo", pa, gen_pt(rng), pb)])
        c1 = pa if rng.random() < 0.6 else pb
        return [first, second, ("CurveTo", c1, c2, p)]
    if k == 12:   # CurveTo first: no current point yet, c1 = (0,0)
        return [("CurveTo", (F(0), F(0)), gen_pt(rng), gen_pt(rng))]
    return [("TextNewline",), rng.choice([("TextNewline",), ("TextDrawAdjusted", (gen_string(rng),)), ("EndText",)])]


def gen_seq(rng, n):
    ops = []
    while len(ops) < n:
        if rng.random() < 0.45:
            ops += motif(rng)
        else:
            ops.append(gen_op(rng, rng.choice(WRITABLE)))
    return ops[:max(n, 0)] if rng.random() < 0.5 else ops


# ------------------------------------------------------------------------------------------------
# spec judgements

INFO = {}     # case key -> data used by classify


def remember(c, **kw):
    INFO[c.key()] = kw
    return c


def has_neg_zero_td(ops):
    return False


def serialize_check(ops):
    def chk(r):
        if r[0] != "OK":
            return "serialize_ops failed: %s %s" % (r[0], r[1])
        data = r[1][0] if r[1] else b""
        try:
            got = T.spec_parse(data)
        except Exception as e:
            return "the reference reader rejects the written stream: %r" % (e,)
        if not T.ops_equal(got, ops):
            return "the reference reader sees different operations (%d instead of %d; first difference at %s)" % (
                len(got), len(ops), next((i for i, (a, b) in enumerate(zip(got, ops)) if not T.val_eq(a, b)), min(len(got), len(ops))))
        return None
    return chk


def same_ops_check(ops):
    def chk(r):
        if r[0] != "OK":
            return "failed: %s %s" % (r[0], r[1])
        try:
            got = canon_images(T.dec_ops(r[1]))
        except Exception as e:
            return "undecodable operation list: %r" % (e,)
        if not T.ops_equal(got, canon_images(ops)):
            return "different operations come back (%d instead of %d; first difference at %s)" % (
                len(got), len(ops), next((i for i, (a, b) in enumerate(zip(got, ops)) if not T.val_eq(a, b)), min(len(got), len(ops))))
        return None
    return chk


def tail_check(tail):
    def chk(r):
        if r[0] != "OK":
            return "failed: %s %s" % (r[0], r[1])
        got = T.dec_ops(r[1])
        if len(got) < len(tail) or not T.ops_equal(got[len(got) - len(tail):], tail):
            return "the operator after the malformed one is not read as alone (operands leaked or were swallowed)"
        return None
    return chk


def seq_cases(ops, tags=(), wild=False):
    atoms = T.enc_ops(ops)
    matoms = T.enc_ops(ops, model=True)
    tags = list(tags)
    out = [remember(Case("ops_serialize", atoms, check=serialize_check(ops), mfields=matoms, tags=["serialize"] + tags), ops=ops),
           remember(Case("ops_roundtrip", atoms, check=same_ops_check(ops), model=not wild, mfields=matoms, tags=["roundtrip"] + tags), ops=ops)]
    if not wild:
        out.append(remember(Case("ops_content", atoms, check=same_ops_check(ops), model=False, tags=["content"] + tags), ops=ops))
    return out


# ---- parse side ---------------------------------------------------------------------------------

def gen_args(rng, kw):
    shape = T.ISO_OPS[kw]
    if shape == "*":
        return gen_color_args(rng)
    args = []
    for k in shape:
        if k == "N":
            args.append(gen_f(rng) if rng.random() < 0.6 else rng.randint(-300, 300))
        elif k == "/":
            args.append(Nm(rng.choice(T.INTENTS)) if kw == "ri" else gen_name(rng))
        elif k == "S":
            args.append(gen_string(rng))
        elif k == "A":
            args.append([gen_f(rng) if rng.random() < 0.5 else rng.randint(0, 9) for _ in range(rng.choice([0, 1, 2, 3]))])
        elif k == "J":
            args.append([gen_string(rng) if rng.random() < 0.5 else (gen_f(rng) if rng.random() < 0.5 else rng.randint(-99, 99))
                         for _ in range(rng.choice([0, 1, 2, 4]))])
        elif k == "I":
            args.append(rng.randrange({"Tr": 8}.get(kw, 3)))
        elif k == "O":
            args.append(gen_props(rng))
    return args


SEPS = [b" ", b"\n", b"\r\n", b"\t", b"  ", b" \n"]


def parse_case(rng, toks, expected, tags, check=None, raw_sep=None):
    sep = raw_sep or rng.choice(SEPS[:1] * 4 + SEPS)
    eol = b"\n" if any(isinstance(t, Raw) for t in toks) else rng.choice([b"\n", b"\n", b" ", b"\r\n"])
    data = T.spell_tokens(toks, sep, eol)
    c = Case("ops_parse", [data], mfields=T.tok_atoms(toks), tags=["parse"] + list(tags),
             check=check if check is not None else same_ops_check(expected))
    return remember(c, toks=toks, expected=expected)


PROBES = [("q", []), ("h", []), ("BT", []), ("T*", [])]


def keyword_cases(rng, reps):
    for kw, shape in T.ISO_OPS.items():
        if shape is None:
            continue
        for _ in range(reps):
            args = gen_args(rng, kw)
            st = T.CP()
            pre, pre_ops = [], []
            if kw == "v":
                p = [gen_f(rng), gen_f(rng)]
                pre, pre_ops = p + [Word(b"m")], T.iso_meaning("m", p, st)
            tag = ["kw:" + kw] + (["d0d1"] if kw in ("d0", "d1") else [])
            exp = pre_ops + T.iso_meaning(kw, args, st)
            yield parse_case(rng, pre + args + [Word(kw.encode())], exp, tag + ["exact"])
            # one operand too many / too few, then a probe operator that must be read as if alone
            pk, pa = rng.choice(PROBES)
            probe = T.iso_meaning(pk, pa, T.CP())
            if shape != "*":
                extra = rng.choice([gen_f(rng), rng.randint(0, 9), gen_name(rng), gen_string(rng)])
                many = [extra] + args if rng.random() < 0.5 else args + [extra]
                yield parse_case(rng, pre + many + [Word(kw.encode()), Word(pk.encode())], None, tag + ["too-many"], check=tail_check(probe))
                if args:
                    few = args[1:] if rng.random() < 0.5 else args[:-1]
                    yield parse_case(rng, pre + few + [Word(kw.encode()), Word(pk.encode())], None, tag + ["too-few"], check=tail_check(probe))
    # text rendering modes 6 and 7 (Table 106)
    for m in (6, 7):
        yield parse_case(rng, [m, Word(b"Tr")], T.iso_meaning("Tr", [m], T.CP()), ["kw:Tr", "tr67"])
    # compatibility sections: unknown operators are ignored between BX and EX only
    yield parse_case(rng, [Word(b"BX"), 1, 2, Word(b"xyzzy"), Word(b"q"), Word(b"EX"), Word(b"Q")], [("Save",), ("Restore",)], ["compat"])


def stream_cases(rng, n, maxlen):
    kws = [k for k, s in T.ISO_OPS.items() if s is not None and k not in ("d0", "d1")]
    for _ in range(n):
        st = T.CP()
        toks, exp = [], []
        for _ in range(rng.randint(0, maxlen)):
            kw = rng.choice(kws)
            if kw == "v" and st.cp is None:
                kw = "m"
            stale_risk = kw == "v"
            args = gen_args(rng, kw)
            exp += T.iso_meaning(kw, args, st)
            toks += args + [Word(kw.encode())]
        yield parse_case(rng, toks, exp, ["stream"])


def inline_cases(rng, n):
    for _ in range(n):
        items = []
        keys = [("W", rng.randint(1, 64)), ("H", rng.randint(1, 64))]
        if rng.random() < 0.7:
            keys.append((rng.choice(["BPC", "BitsPerComponent"]), rng.choice([1, 2, 4, 8])))
        if rng.random() < 0.7:
            keys.append((rng.choice(["CS", "ColorSpace"]), Nm(rng.choice(["G", "RGB", "CMYK", "DeviceGray", "DeviceRGB"]))))
        if rng.random() < 0.3:
            keys.append((rng.choice(["IM", "ImageMask"]), rng.choice([True, False])))
        if rng.random() < 0.3:
            keys.append((rng.choice(["I", "Interpolate"]), rng.choice([True, False])))
        if rng.random() < 0.3:
            keys.append((rng.choice(["D", "Decode"]), [0, 1]))
        rng.shuffle(keys)
        if rng.random() < 0.5:
            keys[0], keys[1] = (("Width", keys[0][1]) if keys[0][0] == "W" else keys[0]), keys[1]
        data = bytes(rng.choice(b"abcdefgh\x00\x01\xff \n0123") for _ in range(rng.choice([1, 2, 7, 30])))
        lf = data.endswith(b"\n")       # C08-h (fixed): Lexer::seek_substr missed "\nEI" after a data byte LF
        toks = [Word(b"BI")]
        for k, v in keys:
            toks += [Nm(k), v]
        toks += [Word(b"ID"), Raw(data)]
        pre = [Word(b"q")] if rng.random() < 0.5 else []
        post = [Word(b"Q")] if rng.random() < 0.5 else []
        exp_dict = sorted(T.expand_image_dict([(k.encode(), v) for k, v in keys]))
        exp = ([("Save",)] if pre else []) + [("InlineImage", (Dict(exp_dict), data))] + ([("Restore",)] if post else [])
        c = parse_case(rng, pre + toks + post, exp, ["inline"] + (["inline-lf"] if lf else []), raw_sep=b" ")
        yield c


def bytes_twin(c):
    """the same content stream, with the model reading the BYTES (token loop on the shared lexer / parser models)"""
    info = INFO.get(c.key(), {})
    t = Case("ops_parse_bytes", c.fields, check=c.check, tags=sorted(c.tags | {"bytes"}))
    return remember(t, **info)


def with_twins(cases):
    for c in cases:
        yield c
        if c.mode == "ops_parse":
            yield bytes_twin(c)


def mutate(rng, data):
    data = bytearray(data)
    for _ in range(rng.choice([1, 1, 2, 3])):
        k = rng.randrange(6)
        i = rng.randrange(len(data) + 1)
        if k == 0 and data:
            del data[min(i, len(data) - 1)]
        elif k == 1:
            data[i:i] = bytes([rng.choice(b"()<>[]{}/%#\\ \n\r\t\x00+-.0123456789abEIDBR'\"\x80\xff\xc3\xa9")])
        elif k == 2 and data:
            data[min(i, len(data) - 1)] = rng.randrange(256)
        elif k == 3:
            del data[i:]
        elif k == 4:
            data[i:i] = rng.choice([b"<<", b">>", b"[", b"]", b"(", b")", b" BI ", b" ID ", b"\nEI", b" EI ", b" 1 0 R ", b"%c\n", b"/A#", b"/A#4",
                                    b"stream", b" true ", b" null ", b"+", b"-", b".", b"1.", b".5", b"+.5", b"99999999999", b"<4", b"<4g>",
                                    b"(a\\", b"\\053", b" BX ", b" EX "])
        else:
            j = rng.randrange(len(data) + 1)
            data[min(i, j):max(i, j)] = b""
    return bytes(data)


def malformed_cases(rng, n):
    """byte-level damage to well-formed streams: the implementation must not panic and must do what the model does"""
    kws = [k for k, s in T.ISO_OPS.items() if s is not None and k not in ("d0", "d1")]
    for _ in range(n):
        toks = []
        for _ in range(rng.randint(1, 6)):
            kw = rng.choice(kws)
            toks += gen_args(rng, kw) + [Word(kw.encode())]
        data = mutate(rng, T.spell_tokens(toks, rng.choice(SEPS), rng.choice([b"\n", b" ", b"\r\n"])))
        if has_ref(data):
            continue
        yield Case("ops_parse_bytes", [data], tags=["malformed", "bytes"], kind="malformed")


def has_ref(data):
    """`n g R` is read as a Primitive::Reference, an operand kind outside the content model"""
    import re
    return re.search(rb"[0-9][\x00\t\n\x0c\r ]+[+-]?[0-9]+[\x00\t\n\x0c\r ]+R", data) is not None or b"R" in data and b"%" in data


def spell_image(rng, keys, raw, pre=b"", post=b""):
    out = bytearray(pre + b"BI ")
    for k, v in keys:
        out += T.spell_prim(Nm(k.encode() if isinstance(k, str) else k)) + b" " + T.spell_prim(v) + b" "
    out += b"ID" + rng.choice([b" ", b"\n"]) + raw + b"\nEI" + rng.choice([b"\n", b" "]) + post
    return bytes(out)


def filtered_inline_cases(rng, n):
    """inline images with /Filter (abbreviated or not, single or array): the data comes back decoded"""
    from oracle import codecs as C
    enc = {"AHx": lambda d: C.hex_encode(d), "A85": lambda d: C.a85_encode(d), "RL": lambda d: C.rle_encode(d), "Fl": lambda d: C.zlib_encode(d)}
    for _ in range(n):
        data = bytes(rng.randrange(256) for _ in range(rng.choice([1, 3, 8, 40])))
        chain = [rng.choice(list(enc))] if rng.random() < 0.7 else [rng.choice(["AHx", "A85"]), rng.choice(list(enc))]
        raw = data
        for f in reversed(chain):
            raw = bytes(enc[f](raw))
        if b"\nEI" in raw or raw[-1:] in (b"\n",):
            continue
        names = [Nm((f if rng.random() < 0.6 else T.INLINE_FILTERS[f]).encode()) for f in chain]
        fval = names[0] if len(names) == 1 and rng.random() < 0.6 else names
        keys = [("W", rng.randint(1, 64)), ("H", rng.randint(1, 64)), (rng.choice(["F", "Filter"]), fval)]
        if rng.random() < 0.5:
            keys.append(("BPC", 8))
        if rng.random() < 0.4:
            keys.append(("CS", rng.choice([Nm(b"G"), Nm(b"RGB"), [Nm(b"I"), Nm(b"RGB"), 1, b"\x00\x00\x00\xff\xff\xff"],
                                           [Nm(b"Indexed"), Nm(b"DeviceGray"), 0, b"\x07"]])))
        if rng.random() < 0.2:
            keys.append(("Intent", Nm(rng.choice(T.INTENTS).encode())))
        rng.shuffle(keys)
        stream = spell_image(rng, keys, raw, b"q\n", b"Q\n")
        exp_dict = T.expand_image_dict([(k.encode(), v) for k, v in keys])
        exp = [("Save",), ("InlineImage", (Dict(exp_dict), data)), ("Restore",)]
        yield remember(Case("ops_parse_bytes", [stream], check=same_ops_check(exp), tags=["inline", "inline-filtered", "bytes"]), toks=[], expected=exp)


BAD_VALUES = [None, True, Nm(b"X"), b"s", 1.5, -1, 300, [1, 2], [], Dict([])]


def malformed_inline_cases(rng, n):
    """inline images whose dictionary is not what ImageDict needs, or that are cut short: never a panic, and the model
    decides the same way whether an image comes out"""
    for _ in range(n):
        keys = [("W", rng.randint(1, 9)), ("H", rng.randint(1, 9)), ("BPC", 8), ("CS", Nm(b"G"))]
        k = rng.randrange(12)
        bad = rng.choice(BAD_VALUES)
        bad = F.of(bad) if isinstance(bad, float) else bad
        if k == 0:
            keys = [x for x in keys if x[0] != rng.choice(["W", "H"])]
        elif k == 1:
            keys[rng.randrange(2)] = (keys[rng.randrange(2)][0], bad)
        elif k == 2:
            keys.append((rng.choice(["F", "Filter"]), rng.choice([Nm(b"Nope"), [Nm(b"AHx"), Nm(b"Nope")], 3, [1], b"AHx", [[Nm(b"AHx")]]])))
        elif k == 3:
            keys[3] = ("CS", rng.choice([bad, [Nm(b"I")], [Nm(b"I"), Nm(b"G")], [Nm(b"I"), Nm(b"G"), 256, b"x"], [Nm(b"I"), Nm(b"G"), 1, 7],
                                         [1, 2], [Nm(b"I"), [Nm(b"I"), [Nm(b"I"), [Nm(b"I"), [Nm(b"I"), [Nm(b"I"), Nm(b"G"), 0, b"a"], 0, b"a"], 0, b"a"], 0, b"a"], 0, b"a"], 0, b"a"]]))
        elif k == 4:
            keys.append((rng.choice(["IM", "I", "ImageMask", "Interpolate"]), bad))
        elif k == 5:
            keys.append((rng.choice(["D", "Decode"]), rng.choice([bad, [0, 1], [F.of(0.5), 1], [Nm(b"a")], 1])))
        elif k == 6:
            keys.append((rng.choice(["DP", "DecodeParms"]), rng.choice([bad, Dict([]), Dict([(b"K", 1)])])))
        elif k == 7:
            keys.append(("Intent", rng.choice([bad, Nm(b"Perceptual"), Nm(b"Bogus")])))
        elif k == 8:
            keys[2] = ("BPC", bad)
        rng.shuffle(keys)
        data = bytes(rng.choice(b"abc\x00\xff 012") for _ in range(rng.choice([0, 1, 4])))
        stream = spell_image(rng, keys, data, rng.choice([b"", b"q\n"]), rng.choice([b"", b"Q\n", b"1 2 m\n"]))
        if k == 9:
            stream = stream[:rng.randrange(len(stream))]
        elif k == 10:
            stream = stream.replace(b"\nEI", rng.choice([b" EI", b"\nE I", b"EI", b"\n\nEI", b"\nEIx"]), 1)
        elif k == 11:
            stream = stream.replace(b" ID", rng.choice([b" IDx", b"", b" 5 ID", b" /K ID", b" ID ID"]), 1)
        if has_ref(stream):
            continue
        yield Case("ops_parse_bytes", [stream], tags=["inline", "inline-malformed", "bytes"], kind="malformed")


# ------------------------------------------------------------------------------------------------

def generate(rng, tier):
    yield from with_twins(generate_base(rng, tier))
    yield from malformed_cases(rng, 600 if tier == "quick" else 8000)
    yield from filtered_inline_cases(rng, 150 if tier == "quick" else 2500)
    yield from malformed_inline_cases(rng, 400 if tier == "quick" else 6000)


def generate_base(rng, tier):
    quick = tier == "quick"
    yield from seq_cases([], ["empty"])
    # every constructor alone, several operand draws
    for c in WRITABLE:
        for _ in range(6 if quick else 30):
            yield from seq_cases([gen_op(rng, c)], ["single:" + c])
    # every motif alone and in context
    for _ in range(300 if quick else 3000):
        yield from seq_cases(motif(rng), ["motif"])
    # thorough: every ordered pair of constructors, every shorthand-relevant triple
    if not quick:
        for a in WRITABLE:
            for b in WRITABLE:
                yield from seq_cases([gen_op(rng, a), gen_op(rng, b)], ["pair"])
        heads = ["Close", "WordSpacing", "CharSpacing", "TextNewline", "TextDraw", "Leading", "MoveTextPosition", "MoveTo", "LineTo",
                 "CurveTo", "Stroke", "FillAndStroke"]
        for a in heads:
            for b in heads:
                for c in heads:
                    yield from seq_cases([gen_op(rng, a), gen_op(rng, b), gen_op(rng, c)], ["triple"])
    # sequences
    for i in range(700 if quick else 6000):
        n = rng.randint(0, 40) if i % 4 else rng.randint(0, 6)
        yield from seq_cases(gen_seq(rng, n), ["seq"])
    # inherited operand-spelling classes (C04): wild names / CR strings / huge integral reals
    for _ in range(40 if quick else 400):
        c = rng.choice(["GraphicsState", "XObject", "TextDraw", "LineWidth", "MoveTo", "TextFont", "BeginMarkedContent"])
        yield from seq_cases([gen_op(rng, c, wild=True)], ["wild"], wild=True)
    # parse side
    yield from keyword_cases(rng, 6 if quick else 40)
    yield from stream_cases(rng, 500 if quick else 5000, 30)
    yield from inline_cases(rng, 60 if quick else 1500)


def nontrivial(c):
    return len(c.fields) >= 2 or (c.mode in ("ops_parse", "ops_parse_bytes") and len(c.fields[0]) >= 4)


def same(a, b):
    """implementation vs model: the model prints numbers as decimal text"""
    if b is not None and b[0] == "OK":
        try:
            b = ("OK", T.normalise_atoms(b[1]))
        except Exception:
            return False
        if a is not None and a[0] == "OK" and any(x == b"InlineImage" for x in a[1]):
            # the harness reports an inline image's dictionary sorted by key, filters as an array of full names
            try:
                return T.ops_equal(canon_images(T.dec_ops(a[1])), canon_images(T.dec_ops(b[1]), decode=True))
            except Exception:
                return False
    return same_result(a, b)


def apply_filters(names, data):
    """the data of a filtered inline image as Stream::data returns it (spec-side decoders); b"?" when it cannot be decoded"""
    from oracle import codecs as C
    try:
        for n in names:
            if n == "ASCIIHexDecode":
                data = C.hex_decode(data)
            elif n == "ASCII85Decode":
                data = C.a85_decode(data)
            elif n == "RunLengthDecode":
                data = C.rle_decode(data)
            elif n == "FlateDecode":
                data = C.zlib_decode(data)
            elif n == "LZWDecode":
                data = C.lzw_decode(data)
            else:
                return b"?"
            if data is None:
                return b"?"
        return bytes(data)
    except Exception:
        return b"?"


def canon_images(ops, decode=False):
    """inline images: dictionary sorted by key, /Filter as a list of full names; decode=True: the model keeps the
    raw data, the implementation reports what Stream::data returns"""
    out = []
    for o in ops:
        if o[0] == "InlineImage":
            d, data = o[1]
            items = []
            for k, v in d.items:
                if k == b"Filter":
                    v = v if isinstance(v, list) else [v]
                    v = [Nm(T.INLINE_FILTERS.get(x.s.decode("latin1"), x.s.decode("latin1")).encode()) if isinstance(x, Nm) else x for x in v]
                    if decode:
                        data = apply_filters([x.s.decode("latin1") for x in v if isinstance(x, Nm)], data)
                items.append((k, v))
            o = ("InlineImage", (Dict(sorted(items)), data))
        out.append(o)
    return out


def always(case, r):
    if r[0] in ("PANIC", "ABORT", "TIMEOUT"):
        return "the implementation does not return: %s %s" % (r[0], r[1][:80])
    return None


def classify(case, impl, model):
    if "d0d1" in case.tags:
        return "C08-d"
    if "wild" in case.tags:
        return "C08-g"
    info = INFO.get(case.key())
    if info is None or impl[0] != "OK":
        return None
    # C08-e: the reader's current point ignores h / re / path-painting operators
    try:
        # (the writer's half is fixed, C08-i: a `v` written against a stale point is a violation)
        if case.mode in ("ops_parse", "ops_parse_bytes") and "toks" in info:
            data = case.fields[0]
            if T.ops_equal(T.spec_parse(data, stale=True), T.dec_ops(impl[1])):
                return "C08-e"
    except Exception:
        return None
    return None


def witness_case(f, c):
    if c.mode in ("ops_roundtrip", "ops_content"):
        ops = T.dec_ops(c.fields)
        c.check = same_ops_check(ops)
        c.model = False
        remember(c, ops=ops)
    elif c.mode == "ops_serialize":
        ops = T.dec_ops(c.fields)
        c.check = serialize_check(ops)
        c.mfields = T.enc_ops(ops, model=True)
        remember(c, ops=ops)
    elif c.mode in ("ops_parse", "ops_parse_bytes"):
        data = c.fields[0]
        try:
            exp = T.spec_parse(data)
        except Exception:
            exp = None
        c.check = same_ops_check(exp) if exp is not None else (lambda r: "the witness is not a valid content stream")
        c.model = c.mfields is not None or c.mode == "ops_parse_bytes"
        remember(c, toks=[], expected=exp)
    return c


def coverage_extra(cases, impl, model):
    ctors, kws = {}, {}
    for c in cases:
        for t in c.tags:
            if t.startswith("single:"):
                ctors[t[7:]] = ctors.get(t[7:], 0) + 1
            if t.startswith("kw:"):
                kws[t[3:]] = kws.get(t[3:], 0) + 1
    return {"constructors_generated": len(ctors), "iso_keywords_generated": len(kws),
            "iso_keywords_missing": sorted(k for k, s in T.ISO_OPS.items() if s is not None and k not in kws)}
