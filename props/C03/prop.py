"""C03 — every spec-conformant spelling of an object parses to the value it denotes."""
import re
from vplib.api import Case, ok, err, same_result
from oracle import spell as S, f32
from oracle.pdfwriter import Name, Ref

ID = "C03"
LEVEL = "proof"
DESIGN_REF = "DESIGN.md §9 C03, §12.C03"
COQ_TARGETS = ["Properties/C03", "Pins/C03"]
THEOREMS = [("PdfV.Properties.C03", n) for n in
            ["C03_token_regular", "C03_token_name", "C03_integer", "C03_real", "C03_name", "C03_string", "C03_hexstring",
             "C03_value", "C03_value_bytes", "C03_sequence", "C03_indirect", "C03_stream", "C03_indirect_stream", "C03_name_not_utf8_refuted", "C03_nonvacuous"]]
ANCHORS = ["lexer/", "parser/", "enc.rs:decode_nibble"]
MODES = ["lex", "strlex", "hexlex", "parse", "parse_seq", "parse_indirect"]
TRUSTED_BASE = ["coqc 8.16.1 kernel (vm_compute for table lemmas)", "gen/extract_syn.py (lexer/parser tables from the Rust source)",
                "Extraction + ExtrOcamlBasic + driver", "pdfh harness", "tools/oracle/spell.py (ISO 32000-1 §7.2–7.3 printer), tools/oracle/f32.py (exact binary32 rounding)"]
ASSUMPTIONS = ["str::parse::<f32> is correctly rounded (Rust std documentation); reals are carried as decimal text in the model and "
               "compared with the implementation's binary32 bit pattern through tools/oracle/f32.py",
               "std::str::from_utf8 accepts exactly well-formed UTF-8 (modelled in Syn/Utf8.v, tested)"]
RULE = ("random values of every kind (nesting <= 4) rendered by the specification printer under random conforming choices "
        "(6 white-space bytes, comments ended by CR/LF/CRLF, signs, leading zeros, fraction-only reals, every string escape form, "
        "octal 1-3 digits, continuations, balanced parentheses, raw EOLs, hex strings with white-space/odd digits, #xx names, "
        "adjacency without separators), as single values with arbitrary following text, as sequences, as indirect objects and as "
        "streams (LF / CRLF after the keyword, direct and indirect /Length); plus a malformed stream (mutations, truncations) judged "
        "only against the model; non-trivial = spelling of at least 3 bytes; distinct by input bytes")

ANY = b"1023"
REAL_RE = re.compile(rb"D([^;]*);")


def norm(r):
    """model results carry reals as decimal text: D<text>; -> r<bits>"""
    if r is None or r[0] != "OK":
        return r
    def sub(m):
        try:
            return b"r%08x" % f32.dec_to_bits(m.group(1).decode("latin-1"))
        except Exception:
            return m.group(0)
    return ("OK", [REAL_RE.sub(sub, f) for f in r[1]])


def same(a, b):
    return same_result(norm(a), norm(b))


def follow(rng, last):
    """text that may follow a value without changing it (follows_ok)"""
    k = rng.random()
    if k < 0.25:
        return b""
    if k < 0.5:
        return bytes([rng.choice(S.WS)]) + rng.choice([b"", b"x", b"12", b"/N", b"R"])
    if k < 0.75:
        return rng.choice([b"/Next", b"(s)", b"<00>", b"[1]", b"<<>>", b"]", b">>", b"%c\n"])
    # a regular token after a separator; after an integer avoid making it look like `n g R`
    return b" " + rng.choice([b"endobj", b"true", b"null", b"obj", b"x"])


def value_cases(rng, n, stats):
    for i in range(n):
        v = S.rand_value(rng, depth=rng.choice([0, 1, 2, 3, 4]))
        sp = S.Speller(rng, stats=stats)
        text = sp.spell(v)
        rest = follow(rng, text)
        if isinstance(v, int) and not isinstance(v, bool) and re.match(rb"[\x00\t\n\x0c\r ]*[+-]?\d+[\x00\t\n\x0c\r ]+R", rest):
            rest = b" x"
        yield Case("parse", [ANY, text + rest], expect=ok(S.canon(v), str(len(text)).encode()),
                   tags=["value:" + type(v).__name__], note="spec printer")


def seq_cases(rng, n, stats):
    for i in range(n):
        sp = S.Speller(rng, stats=stats)
        vals = [S.rand_value(rng, depth=rng.choice([0, 1, 2])) for _ in range(rng.randint(2, 6))]
        # an integer directly followed by an integer and then the keyword R cannot occur: R is not a value
        toks, ends = [], []
        out = b""
        exp = []
        for v in vals:
            body = sp.join(sp.tokens(v))
            must = bool(out) and (S.is_regular(out[-1]) or out.endswith(b"/")) and S.is_regular(body[0])
            if out.endswith(b"<") and body.startswith(b"<") or out.endswith(b">") and body.startswith(b">"):
                must = True
            sep = sp.ws(must) or (b" " if must else b"")
            out += sep + body
            exp += [S.canon(v), str(len(out)).encode()]
        yield Case("parse_seq", [out], expect=ok(*exp), tags=["sequence"])


def indirect_cases(rng, n, stats):
    for i in range(n):
        sp = S.Speller(rng, stats=stats)
        num, gen = rng.choice([1, 7, 12345, 8388607]), rng.choice([0, 0, 1, 65535])
        opts = rng.choice([b"s", b"t"])
        if rng.random() < 0.5:
            v = S.rand_value(rng, depth=rng.choice([0, 1, 2, 3]))
            text = sp.indirect(v, num, gen)
            rest = rng.choice([b"", b"\n", b" 9 0 obj", b"\nxref\n"])
            yield Case("parse_indirect", [opts, text + rest], expect=ok(str(num).encode(), str(gen).encode(), S.canon(v), str(len(text)).encode()),
                       tags=["indirect"])
        else:
            d = {}
            for _ in range(rng.randint(0, 3)):
                d[S.rand_name(rng)] = S.rand_value(rng, depth=1, kinds=["null", "bool", "int", "real", "name", "str", "arr"])
            d.pop(Name("Length"), None)
            data = S.rand_bytes(rng) if rng.random() < 0.7 else bytes(rng.randrange(256) for _ in range(rng.randint(50, 300)))
            indirect_len = rng.random() < 0.3
            length = Ref(99, 0) if indirect_len else None
            head, body, tail = sp.stream_obj(d, data, num, gen, length=length)
            at_end = rng.random() < 0.15
            full = head + body + tail
            rest = rng.choice([b"", b"\n", b" 9 0 obj"])
            dd = dict(d)
            dd["Length"] = Ref(99, 0) if indirect_len else len(data)
            canon = b"s" + S.canon(dd) + data.hex().encode() + b";"
            fields = [opts, full + rest] + ([b"99:%d" % len(data)] if indirect_len else [])
            yield Case("parse_indirect", fields, expect=ok(str(num).encode(), str(gen).encode(), canon, str(len(full)).encode()),
                       tags=["stream", "stream-indirect-length" if indirect_len else "stream-direct-length"])


def token_cases(rng, n):
    """lexer alone on random token soups (model = spec of token boundaries)"""
    alphabet = [b"<<", b">>", b"[", b"]", b"/Name", b"/", b"123", b"-4.5", b"true", b"R", b"obj", b"%c\n", b"%c\r", b" ", b"\n", b"\r",
                b"\x0c", b"\x00", b"\t", b"(", b")", b"<", b">", b"{", b"}", b"abc", b"+1", b".5", b"#41", b"endobj"]
    for i in range(n):
        d = b"".join(rng.choice(alphabet) for _ in range(rng.randint(0, 12)))
        yield Case("lex", [d], tags=["lex"], kind="malformed")


def mutate(rng, b):
    b = bytearray(b)
    k = rng.randrange(5)
    if not b:
        return bytes(b)
    i = rng.randrange(len(b))
    if k == 0:
        b[i] = rng.randrange(256)
    elif k == 1:
        del b[i]
    elif k == 2:
        b.insert(i, rng.choice(b"()<>[]/%\\#\r\n \x00\x0c+-.0129R"))
    elif k == 3:
        b = b[:i]
    else:
        j = rng.randrange(len(b))
        b[i], b[j] = b[j], b[i]
    return bytes(b)


def malformed_cases(rng, n, stats):
    for i in range(n):
        sp = S.Speller(rng, stats={})
        v = S.rand_value(rng, depth=rng.choice([1, 2, 3]))
        text = sp.spell(v) + follow(rng, b"")
        for _ in range(rng.randint(1, 3)):
            text = mutate(rng, text)
        mode = rng.choice(["parse", "parse_seq", "parse_indirect", "strlex", "hexlex"])
        if mode == "parse":
            yield Case("parse", [rng.choice([ANY, b"1", b"4", b"96", b"513"]), text], tags=["malformed"], kind="malformed")
        elif mode == "parse_seq":
            yield Case("parse_seq", [text], tags=["malformed"], kind="malformed")
        elif mode == "parse_indirect":
            yield Case("parse_indirect", [rng.choice([b"s", b"t"]), b"3 0 obj " + text + rng.choice([b" endobj", b"", b"endobj"])], tags=["malformed"], kind="malformed")
        else:
            yield Case(mode, [text], tags=["malformed"], kind="malformed")


STATS = {}


def generate(rng, tier):
    q = tier == "quick"
    STATS.clear()
    yield from value_cases(rng, 1500 if q else 60000, STATS)
    yield from seq_cases(rng, 300 if q else 10000, STATS)
    yield from indirect_cases(rng, 400 if q else 15000, STATS)
    yield from token_cases(rng, 300 if q else 10000)
    yield from malformed_cases(rng, 600 if q else 30000, STATS)
    # nesting at and beyond the supported depth
    for d in (19, 20, 21, 22):
        yield Case("parse", [ANY, b"[" * d + b"]" * d], expect=(ok(b"[" * d + b"]" * d, str(2 * d).encode()) if d <= 20 else err()), tags=["depth"])
        yield Case("parse", [ANY, b"<</A" * d + b" 1" + b">>" * d], expect=(None if d <= 20 else err()), tags=["depth"])


def always(case, r):
    if r[0] in ("PANIC", "ABORT", "TIMEOUT"):
        return "parser must return a value or an error, got %s %s" % (r[0], r[1][:80])
    return None


def nontrivial(c):
    return len(c.fields[-1] if c.mode not in ("parse", "parse_indirect") else c.fields[1]) >= 3


def coverage_extra(cases, impl, model):
    return {"spelling_choices": dict(sorted(STATS.items()))}


def classify(case, impl, model):
    # C03-h: a name whose bytes are not UTF-8 cannot be represented (Name is a string type)
    return None


def witness_case(f, c):
    exp = f.get("expect")
    if exp:
        c.expect = ok(*[bytes.fromhex(x) for x in exp])
    return c
