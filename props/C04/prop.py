"""C04 — serialised objects parse back to the same value."""
import re, struct
from vplib.api import Case, ok, err, same_result
from oracle import spell as S, f32, canon as CN
from oracle.pdfwriter import Name, Ref, simple_file, minimal_catalog

ID = "C04"
LEVEL = "proof"
DESIGN_REF = "DESIGN.md §9 C04, §12.C04"
COQ_TARGETS = ["Properties/C04", "Pins/C04"]
THEOREMS = [("PdfV.Properties.C04", n) for n in ["C04_ser_spells", "C04_roundtrip", "C04_roundtrip_eof", "C04_integer", "C04_decimal", "C04_name", "C04_string_literal", "C04_string_hex", "C04_numbers_normal", "C04_roundtrip_holdable", "C04_indirect_body", "C04_stream", "C04_ser_no_panic", "C04_nonvacuous"]]
ANCHORS = ["primitive.rs", "lexer/", "parser/", "file.rs:write_revision"]
MODES = ["serialize", "ser_parse", "save_value"]
TRUSTED_BASE = ["coqc 8.16.1 kernel", "gen/extract_syn.py", "Extraction + ExtrOcamlBasic + driver", "pdfh harness",
                "tools/oracle/f32.py (shortest round-trip decimal of a binary32), tools/oracle/canon.py (value equivalence)"]
ASSUMPTIONS = ["Rust's `{}` on f32 prints the shortest decimal that reads back to the same value, in positional notation "
               "(std documentation); the model receives that text from tools/oracle/f32.py and the run checks it against what Rust prints",
               "str::parse::<f32> is correctly rounded"]
RULE = ("random Primitive trees (all kinds, nesting <= 4, all 256 byte values in strings, names over all Unicode planes incl. "
        "white-space/delimiters/#, boundary integers, boundary reals: +-2^31, 2^24+-1, subnormals, 1e-7, max), streams with pending data; "
        "each serialised (model must produce the same bytes) and placed in the four writer contexts (indirect-object body, dictionary "
        "value, array element, operand followed by an operator) and parsed back by the real parser; expected: an equal value with "
        "integers and reals of equal numeric value identified, consuming exactly the serialised text; non-trivial = container or >= 3 bytes")

ANY = b"1023"
REAL_RE = re.compile(rb"D([^;]*);")


def canon_impl(v):
    """canon for the implementation: reals as bit patterns"""
    return S.canon(v)


def canon_model(v):
    """canon for the model: reals as the shortest decimal text Rust prints"""
    if isinstance(v, S.Real):
        return b"E" + exact_dec(v.bits()).encode() + b"~" + f32.shortest(v.bits()).encode() + b";"
    if isinstance(v, (list, tuple)):
        return b"[" + b" ".join(canon_model(x) for x in v) + b"]"
    if isinstance(v, dict):
        return b"{" + b" ".join((k.s if isinstance(k, Name) else k.encode()).hex().encode() + b":" + canon_model(x) for k, x in v.items()) + b"}"
    if isinstance(v, PStream):
        return b"p" + canon_model(v.d) + v.data.hex().encode() + b";"
    return CN.canon(v)


def exact_dec(bits):
    """exact decimal expansion of a finite binary32"""
    neg, q = f32.bits_to_fraction(bits)
    ip = q.numerator // q.denominator
    fr = q - ip
    digs = ""
    while fr:
        fr *= 10
        d = fr.numerator // fr.denominator
        digs += str(d)
        fr -= d
    return ("-" if neg else "") + str(ip) + ("." + digs if digs else "")


class PStream:
    def __init__(self, d, data):
        self.d, self.data = d, data


def canon_impl2(v):
    if isinstance(v, PStream):
        return b"p" + canon_impl2(v.d) + v.data.hex().encode() + b";"
    if isinstance(v, (list, tuple)):
        return b"[" + b" ".join(canon_impl2(x) for x in v) + b"]"
    if isinstance(v, dict):
        return b"{" + b" ".join((k.s if isinstance(k, Name) else k.encode()).hex().encode() + b":" + canon_impl2(x) for k, x in v.items()) + b"}"
    return S.canon(v)


def norm(r):
    if r is None or r[0] != "OK":
        return r
    def sub(m):
        try:
            return b"r%08x" % f32.dec_to_bits(m.group(1).decode("latin-1"))
        except Exception:
            return m.group(0)
    return ("OK", [REAL_RE.sub(sub, f) for f in r[1]])


def strip_id(r):
    """save_value: the object number the writer picks is not the model's business (the theorem holds for every id):
       compare the value and the object text behind the number"""
    if r is not None and r[0] == "OK" and len(r[1]) == 4 and r[1][3].startswith(r[1][1] + b" " + r[1][2] + b" obj"):
        return ("OK", [r[1][0], r[1][2], r[1][3][len(r[1][1]):]])
    return r


def same(a, b):
    return same_result(strip_id(norm(a)), strip_id(norm(b)))


BOUNDARY_REALS = [0x4f000000, 0xcf000000, 0x4b800000, 0x4b7fffff, 0x4b800001, 0x00000001, 0x007fffff, 0x00800000, 0x33d6bf95,
                  0x7f7fffff, 0xff7fffff, 0x3f800000, 0xbf800000, 0x3dcccccd, 0x4f800000, 0x5f000000, 0x4effffff, 0x80000000, 0x00000000,
                  0x3f000000, 0x41200000, 0x42c80000, 0x447a0000, 0x461c4000, 0x47c35000, 0x49742400, 0x4b189680, 0x4cbebc20]


def rand_real_bits(rng):
    if rng.random() < 0.4:
        return rng.choice(BOUNDARY_REALS)
    while True:
        b = rng.getrandbits(32)
        if (b >> 23) & 255 != 255:
            return b


class BReal(S.Real):
    """a real given by its bit pattern"""
    def __init__(self, bits):
        self._bits = bits
        self.txt = f32.shortest(bits)

    def bits(self):
        return self._bits


def rand_value(rng, depth):
    kinds = ["null", "bool", "int", "real", "name", "str", "ref", "arr", "dict"]
    k = rng.choice(kinds if depth > 0 else kinds[:7])
    if k == "real":
        return BReal(rand_real_bits(rng))
    if k == "arr":
        return [rand_value(rng, depth - 1) for _ in range(rng.choice([0, 1, 2, 3, 5]))]
    if k == "dict":
        d = {}
        for _ in range(rng.choice([0, 1, 2, 3, 4])):
            d[S.rand_name(rng)] = rand_value(rng, depth - 1)
        return d
    if k == "str":
        return S.rand_bytes(rng) if rng.random() < 0.8 else bytes(rng.randrange(256) for _ in range(rng.randint(0, 30)))
    if k == "name":
        n = S.rand_name(rng)
        if rng.random() < 0.1:
            n = Name("".join(chr(rng.choice([0x21, 0x7e, 0x7f, 0x80, 0xff, 0x100, 0x7ff, 0x800, 0xffff, 0x10000, 0x10ffff, 0x23, 0x2f])) for _ in range(rng.randint(1, 4))))
        return n
    return S.rand_value(rng, 0, kinds=[k])


CONTEXTS = [(b"", b"\nendobj\n", "indirect"), (b"", b"\n>>\n", "dictvalue"), (b"", b" 1]", "arrayelem"), (b"", b" Tf\n", "operand"), (b"", b"", "eof")]


def parsed_equiv(v):
    want = CN.parse_canon(canon_impl2(v).replace(b"p{", b"s{", 1) if isinstance(v, PStream) else canon_impl2(v))
    def chk(r):
        if r[0] != "OK":
            return "serialize/parse back failed: %s %s" % (r[0], r[1])
        got = CN.parse_canon(r[1][0])
        if not CN.equiv(want, got):
            return "parsed value differs from the serialised one"
        if any(c not in b"\x00\t\n\x0c\r " for c in (r[1][3] if len(r[1]) > 3 else b"?")):
            return "parse consumed %s bytes of a %s-byte serialisation, leaving non-white-space %r" % (r[1][1].decode(), r[1][2].decode(), r[1][3][:20])
        return None
    return chk


_BASE = {}


def base_file(fmt):
    """a minimal document (objects 1..3) written by the independent writer; the next object number is 4"""
    if fmt not in _BASE:
        _BASE[fmt] = simple_file(minimal_catalog(), root=1, fmt=fmt)[0]
    return _BASE[fmt]


def saved_equiv(v):
    want = CN.parse_canon(canon_impl2(v).replace(b"p{", b"s{", 1) if isinstance(v, PStream) else canon_impl2(v))
    def chk(r):
        if r[0] != "OK":
            return "the object written by save cannot be read back: %s %s" % (r[0], r[1])
        if not CN.equiv(want, CN.parse_canon(r[1][0])):
            return "the object written by save reads back as a different value"
        return None
    return chk


def save_case(v, rng, tag):
    fmt = rng.choice(["table", "stream"])
    return Case("save_value", [canon_impl2(v), base_file(fmt)], mfields=[canon_model(v), b"4", b"0"], check=saved_equiv(v),
                tags=["ctx:saved-object", tag])


def generate(rng, tier):
    n = 1500 if tier == "quick" else 60000
    # placement "indirect-object body" through the real writer: Updater::create + Storage::save, re-load, resolve
    for i in range(300 if tier == "quick" else 6000):
        v = rand_value(rng, rng.choice([0, 0, 0, 1, 2, 3]))
        yield save_case(v, rng, "saved:" + type(v).__name__)
    for b in BOUNDARY_REALS:
        yield save_case(BReal(b), rng, "saved:boundary-real")
    # nesting up to the supported depth (20 containers): dictionaries only, arrays only, alternating, random mixtures —
    # every container kind must cost the same one level
    def nest(d, how):
        v = rng.choice([7, Name("x"), b"s", None, True])
        for i in range(d):
            kind = how if how in ("arr", "dict") else (("arr", "dict")[i % 2] if how == "alt" else rng.choice(["arr", "dict"]))
            v = [v] if kind == "arr" else {S.rand_name(rng) if rng.random() < 0.3 else Name("K"): v}
        return v
    for d in (9, 10, 11, 14, 19, 20):
        for how in ("arr", "dict", "alt", "mix"):
            v = nest(d, how)
            pre, suf, cname = rng.choice(CONTEXTS)
            yield Case("ser_parse", [canon_impl2(v), suf], mfields=[canon_model(v), suf], check=parsed_equiv(v), tags=["ctx:" + cname, "depth:%d:%s" % (d, how)])
            yield save_case(v, rng, "saved:depth:%d:%s" % (d, how))
    # streams with pending data as objects of their own: written by the real writer, re-loaded, data compared
    for i in range(60 if tier == "quick" else 1500):
        d = {}
        for _ in range(rng.randint(0, 3)):
            d[S.rand_name(rng)] = rand_value(rng, 1)
        data = rng.choice([b"", b"\n", b"\r\n", b"endstream", b"x\nendstream\nendobj\n"]) if rng.random() < 0.2 else \
            S.rand_bytes(rng) + bytes(rng.randrange(256) for _ in range(rng.randint(0, 60)))
        d.pop(Name("Length"), None)
        d[Name("Length")] = len(data)
        yield save_case(PStream(d, data), rng, "saved:stream")
    for v in [None, True, False, 0, -1, 2147483647, -2147483648, Name("N"), Name(""), Ref(1, 0), Ref(3, 0), b"", b"(", [], {}]:
        yield save_case(v, rng, "saved:scalar")
    for i in range(n):
        v = rand_value(rng, rng.choice([0, 0, 1, 2, 3, 4]))
        kind = type(v).__name__
        yield Case("serialize", [canon_impl2(v)], mfields=[canon_model(v)], check=lambda r: None if r[0] == "OK" else "serializer failed: %s %s" % r,
                   tags=["ser:" + kind])
        pre, suf, cname = rng.choice(CONTEXTS)
        yield Case("ser_parse", [canon_impl2(v), suf], mfields=[canon_model(v), suf], check=parsed_equiv(v), tags=["ctx:" + cname, "rt:" + kind])
    # every boundary real in every context; every single byte as a string and as a name character
    for b in BOUNDARY_REALS:
        v = BReal(b)
        for pre, suf, cname in CONTEXTS:
            yield Case("ser_parse", [canon_impl2(v), suf], mfields=[canon_model(v), suf], check=parsed_equiv(v), tags=["ctx:" + cname, "boundary-real"])
    for c in range(256):
        v = bytes([c])
        yield Case("ser_parse", [canon_impl2(v), b" x"], mfields=[canon_model(v), b" x"], check=parsed_equiv(v), tags=["string-byte"])
        v = bytes([65, c, 66, c])
        yield Case("ser_parse", [canon_impl2(v), b""], mfields=[canon_model(v), b""], check=parsed_equiv(v), tags=["string-byte"])
    for c in list(range(1, 0x180)) + [0x7ff, 0x800, 0xfffd, 0xffff, 0x10000, 0x10ffff]:
        if 0xd800 <= c <= 0xdfff:
            continue
        v = Name(chr(c) + "x")
        yield Case("ser_parse", [canon_impl2(v), b" 1"], mfields=[canon_model(v), b" 1"], check=parsed_equiv(v), tags=["name-char"])
        v = {Name("k" + chr(c)): 1}
        yield Case("ser_parse", [canon_impl2(v), b""], mfields=[canon_model(v), b""], check=parsed_equiv(v), tags=["key-char"])
    # streams with pending data: serialisation only (a stream needs an indirect-object context to be parsed; covered by C09/C10)
    for i in range(60 if tier == "quick" else 2000):
        d = {}
        for _ in range(rng.randint(0, 3)):
            d[S.rand_name(rng)] = rand_value(rng, 1)
        data = S.rand_bytes(rng)
        d[Name("Length")] = len(data)
        v = PStream(d, data)
        yield Case("serialize", [canon_impl2(v)], mfields=[canon_model(v)], check=lambda r: None if r[0] == "OK" else "serializer failed: %s %s" % r, tags=["ser:stream"])


def always(case, r):
    if r[0] in ("PANIC", "ABORT", "TIMEOUT"):
        return "serialising never panics: got %s %s" % (r[0], r[1][:80])
    return None


def nontrivial(c):
    return len(c.fields[0]) >= 3


def classify(case, impl, model):
    return None


def witness_case(f, c):
    if c.mode == "ser_parse":
        want = CN.parse_canon(c.fields[0])
        def chk(r, want=want):
            if r[0] != "OK":
                return "serialize/parse back failed: %s %s" % (r[0], r[1])
            if not CN.equiv(want, CN.parse_canon(r[1][0])):
                return "parsed value differs from the serialised one"
            return None
        c.check = chk
        # the model takes reals in its own input form
        def conv(m):
            bits = int(m.group(1), 16)
            return b"E" + exact_dec(bits).encode() + b"~" + f32.shortest(bits).encode() + b";"
        c.mfields = [re.sub(rb"r([0-9a-f]{8})", conv, c.fields[0]), c.fields[1]]
    return c
