"""C11 — an object's value does not depend on how it is stored."""
import re
from vplib.api import Case, ok, err, same_result
from oracle import spell as S, f32
from oracle.pdfwriter import Name, Ref, Stream, Obj, Comp, Revision, write_file, minimal_catalog
from oracle import codecs

ID = "C11"
LEVEL = "proof"
DESIGN_REF = "DESIGN.md §9 C11, §12.C11"
COQ_TARGETS = ["Properties/C11", "Pins/C11"]
THEOREMS = [("PdfV.Properties.C11", n) for n in ["C11_member", "C11_member_any_filter", "C11_direct_twin", "C11_stream_length", "C11_member_slice", "C11_header", "C11_slice_no_panic", "C11_nonvacuous"]]
ANCHORS = ["lexer/", "parser/"]
MODES = ["objstm", "parse_indirect"]
TRUSTED_BASE = ["coqc 8.16.1 kernel", "gen/extract_syn.py", "Extraction + ExtrOcamlBasic + driver", "pdfh harness",
                "tools/oracle/pdfwriter.py (ISO 32000-1 §7.5.7 object streams, xref streams)", "tools/oracle/spell.py, f32.py"]
ASSUMPTIONS = ["the object stream's payload is what its filter chain decodes to (property C05); the model receives the decoded payload",
               "str::parse::<f32> correctly rounded"]
RULE = ("files holding every value twice — as an ordinary indirect object and inside an object stream — for random values of every kind "
        "(incl. bare integers, reals, names, null, nested containers), at the first / middle / last position, with and without trailing "
        "white-space, with the object stream unfiltered / Flate / ASCIIHex / ASCII85, member texts in random conforming spellings; and "
        "streams whose /Length is direct, a reference to a direct integer, or a reference to an integer inside an object stream; "
        "non-trivial = every case; distinct by file bytes + object number")

REAL_RE = re.compile(rb"D([^;]*);")


def norm(r):
    if r is None or r[0] != "OK":
        return r
    def sub(m):
        try:
            return b"r%08x" % f32.dec_to_bits(m.group(1).decode("latin-1"))
        except Exception:
            return m.group(0)
    return ("OK", [REAL_RE.sub(sub, f) for f in r[1]])


def same(a, b):
    return same_result(norm(a), norm(b))


def to_writer(v):
    """spell.Real -> python float is lossy; keep reals as Real and serialise them by their text"""
    return v


def ser_value(v, sp):
    return sp.join(sp.tokens(v))


def build_objstm(members, rng, sp, trailing_ws, member_sep):
    """payload of an object stream (ISO 32000-1 §7.5.7): N pairs then the objects; returns (payload, first)"""
    body = bytearray()
    offs = []
    texts = [ser_value(v, sp) for _, v in members]
    build_objstm.abuts = 0
    for i, (num, v) in enumerate(members):
        offs.append((num, len(body)))
        body += texts[i]
        if i + 1 < len(members):
            # no separator at all where the two members cannot merge: the first ends with, or the second starts with, a delimiter
            # ("12[1 2]/Nm(str)<<…>>" is a legal payload: ISO 32000-1 7.2.2 requires white-space only between regular tokens)
            can_abut = texts[i][-1:] in (b")", b"]", b">") or texts[i + 1][:1] in (b"[", b"(", b"<", b"/")
            if can_abut and rng.random() < 0.5:
                build_objstm.abuts += 1
            else:
                body += member_sep if member_sep else b" "
        elif trailing_ws:
            body += trailing_ws
    # a separator is required between two members only where their tokens would merge; a single space is always legal
    # ... and between the last header integer and the first member only when that member starts with a regular character: a first
    # member that starts with a delimiter may follow the header directly (/First = length of the header, no white-space at all)
    head_end = rng.choice([b"\n", b" ", b"\r\n"])
    build_objstm.head_abuts = False
    if texts and texts[0][:1] in (b"[", b"(", b"<", b"/") and rng.random() < 0.5:
        head_end = b""
        build_objstm.head_abuts = True
    head = b" ".join(b"%d %d" % (n, o) for n, o in offs) + head_end
    return bytes(head) + bytes(body), len(head)


def make_file(rng, tier, vals=None, ghost=False):
    sp = S.Speller(rng, comments=False)
    n = rng.choice([1, 2, 3, 5]) if vals is None else len(vals)
    vals = vals if vals is not None else [S.rand_value(rng, depth=rng.choice([0, 0, 1, 2]), kinds=["null", "bool", "int", "real", "name", "str", "arr", "dict", "ref"]) for _ in range(n)]
    objs = minimal_catalog()
    base = 10
    direct_nums = [base + i for i in range(n)]
    comp_nums = [base + n + i for i in range(n)]
    stm_num = base + 2 * n
    members = list(zip(comp_nums, vals))
    trailing = rng.choice([b"", b"", b" ", b"\n", b"\r\n "])
    sep = rng.choice([b" ", b"\n", b"  ", b"\r\n"])
    payload, first = build_objstm(members, rng, sp, trailing, sep)
    ENC = {"flate": (codecs.zlib_encode, "FlateDecode"), "hex": (codecs.hex_encode, "ASCIIHexDecode"), "a85": (codecs.a85_encode, "ASCII85Decode"),
           "rl": (codecs.rle_encode, "RunLengthDecode"), "lzw": (codecs.lzw_encode, "LZWDecode")}
    # no filter, one filter, or a chain of two or three (the first name of /Filter is the outermost encoding: decoded first)
    filt = rng.choice([None, "flate", "hex", "a85", "rl", "lzw", "hex+flate", "a85+rl", "flate+hex", "rl+a85+flate", "hex+lzw"])
    if filt is None:
        data, fname = payload, None
    else:
        names = filt.split("+")
        data = payload
        for fn_ in reversed(names):          # encode innermost (last listed) first
            data = ENC[fn_][0](data)
        fname = Name(ENC[names[0]][1]) if len(names) == 1 else [Name(ENC[fn_][1]) for fn_ in names]
    d = {"Type": Name("ObjStm"), "N": n, "First": first}
    if fname:
        d["Filter"] = fname
    # assemble the file by hand: direct twins spelled by the spec printer, the object stream, an xref stream
    out = bytearray(b"%PDF-1.7\n")
    table = {}
    def put(num, body_bytes):
        table[num] = ("n", len(out))
        out.extend(b"%d 0 obj\n" % num + body_bytes + b"\nendobj\n")
    from oracle.pdfwriter import ser
    for num, v in objs.items():
        put(num, ser(v))
    for num, v in zip(direct_nums, vals):
        put(num, ser_value(v, sp))
    dd = dict(d); dd["Length"] = len(data)
    put(stm_num, ser(dd) + b"\nstream\n" + data + b"\nendstream")
    for i, num in enumerate(comp_nums):
        table[num] = ("c", stm_num, i)
    xnum = stm_num + 1
    if ghost:
        # an xref entry whose index equals /N of the object stream it names (one past the last member)
        table[xnum + 1] = ("c", stm_num, n)
        table[xnum + 2] = ("c", stm_num, n + 7)
    xoff = len(out)
    table[xnum] = ("n", xoff)
    table[0] = ("f", 0)
    rows = bytearray()
    nums = sorted(table)
    index = []
    run = []
    for k in nums:
        if run and run[-1] + 1 == k:
            run.append(k)
        else:
            if run:
                index += [run[0], len(run)]
            run = [k]
    index += [run[0], len(run)]
    for k in nums:
        t = table[k]
        if t[0] == "n":
            rows += b"\x01" + t[1].to_bytes(4, "big") + b"\x00\x00"
        elif t[0] == "c":
            rows += b"\x02" + t[1].to_bytes(4, "big") + t[2].to_bytes(2, "big")
        else:
            rows += b"\x00" + (0).to_bytes(4, "big") + b"\xff\xff"
    xd = {"Type": Name("XRef"), "Size": xnum + (3 if ghost else 1), "W": [1, 4, 2], "Index": index, "Root": Ref(1), "Length": len(rows)}
    out += b"%d 0 obj\n" % xnum + ser(xd) + b"\nstream\n" + bytes(rows) + b"\nendstream\nendobj\n"
    out += b"startxref\n%d\n%%%%EOF\n" % xoff
    make_file.raw = data
    return bytes(out), vals, direct_nums, comp_nums, payload, first, filt, trailing


def generate(rng, tier):
    nfiles = 150 if tier == "quick" else 6000
    for i in range(nfiles):
        data, vals, dnums, cnums, payload, first, filt, trailing = make_file(rng, tier)
        n = len(vals)
        for idx, (v, dn, cn) in enumerate(zip(vals, dnums, cnums)):
            pos = "first" if idx == 0 else ("last" if idx == n - 1 else "middle")
            exp = ok(S.canon(v))
            tags = ["kind:" + type(v).__name__, "pos:" + pos, "filter:%s" % filt, "trail:%r" % trailing,
                    "members-abutting:%s" % ("yes" if build_objstm.abuts else "no"), "header-abutting:%s" % ("yes" if build_objstm.head_abuts else "no")]
            yield Case("resolve_one", [b"s", data, str(dn).encode()], expect=exp, model=False, tags=tags + ["direct"])
            # hex / a85: the model receives the stream's encoded content and decodes it with its own (proved) decoder
            mf = [str(first).encode(), str(n).encode(), str(idx).encode()] + ([make_file.raw, filt.encode()] if filt in ("hex", "a85") else [payload])
            yield Case("objstm", [b"s", data, str(cn).encode()], mfields=mf, expect=exp, tags=tags + ["compressed"])
    # nesting at and around the supported depth: the limit must be the same for both storage forms
    def nest(d, rng):
        v = rng.choice([7, Name("x"), b"s", None])
        for _ in range(d):
            v = [v] if rng.random() < 0.5 else {"K": v}
        return v
    for d in (1, 18, 19, 20, 21, 22):
        for rep in range(2 if tier == "quick" else 20):
            vals = [nest(d, rng)] + ([nest(rng.choice([2, 19, 20]), rng)] if rep else [])
            data, vals, dnums, cnums, payload, first, filt, trailing = make_file(rng, tier, vals)
            for idx, (v, dn, cn) in enumerate(zip(vals, dnums, cnums)):
                deep = max(d if idx == 0 else 0, 0)
                exp = ok(S.canon(v)) if depth_of(v) <= 20 else err()
                tags = ["depth:%d" % depth_of(v)]
                yield Case("resolve_one", [b"s", data, str(dn).encode()], expect=exp, model=False, tags=tags + ["direct"])
                yield Case("objstm", [b"s", data, str(cn).encode()], mfields=[str(first).encode(), str(len(vals)).encode(), str(idx).encode(), payload],
                           expect=exp, tags=tags + ["compressed"])
    # an index one past the last member (and further): an error value in both the implementation and the model, never a panic
    for rep in range(3 if tier == "quick" else 40):
        data, vals, dnums, cnums, payload, first, filt, trailing = make_file(rng, tier, None, True)
        n = len(vals)
        xnum = dnums[0] + 2 * n + 1
        for k, idx in ((xnum + 1, n), (xnum + 2, n + 7)):
            yield Case("objstm", [b"s", data, str(k).encode()], mfields=[str(first).encode(), str(n).encode(), str(idx).encode(), payload],
                       expect=err(), tags=["index-out-of-range"], kind="malformed")
    # streams whose /Length is stored in the three ways
    for i in range(60 if tier == "quick" else 2000):
        body = S.rand_bytes(rng) + bytes(rng.randrange(256) for _ in range(rng.randint(0, 40)))
        how = rng.choice(["direct", "ref-direct", "ref-compressed"])
        objs = minimal_catalog()
        entries = {k: Obj(v) for k, v in objs.items()}
        if how == "direct":
            entries[10] = Obj(Stream({"K": 1}, body))
        elif how == "ref-direct":
            entries[10] = Obj(Stream({"K": 1}, body, raw_len=Ref(11)))
            entries[11] = Obj(len(body))
        else:
            entries[10] = Obj(Stream({"K": 1}, body, raw_len=Ref(11)))
            entries[11] = Comp(len(body))
            entries[12] = Comp({"pad": 1})
        fmt = "stream" if how == "ref-compressed" or rng.random() < 0.5 else "table"
        data, info = write_file([Revision(entries, fmt=fmt, trailer={"Root": Ref(1)})])
        ln = b"i%d" % len(body) if how == "direct" else b"R11,0"
        exp = ok(b"s{4b:i1 4c656e677468:" + ln + b"}" + body.hex().encode() + b";")
        yield Case("resolve_one", [b"s", data, b"10"], expect=exp, model=False, tags=["length:" + how])


def depth_of(v):
    if isinstance(v, (list, tuple)):
        return 1 + max([depth_of(x) for x in v] + [0])
    if isinstance(v, dict):
        return 1 + max([depth_of(x) for x in v.values()] + [0])
    return 0


def always(case, r):
    if r[0] in ("PANIC", "ABORT", "TIMEOUT"):
        return "resolve must return a value or an error, got %s %s" % (r[0], r[1][:80])
    return None


def nontrivial(c):
    return True


def classify(case, impl, model):
    return None


def witness_case(f, c):
    if f.get("expect"):
        c.expect = ok(*[bytes.fromhex(x) for x in f["expect"]])
    c.model = False
    return c
