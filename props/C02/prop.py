"""C02 — the newest cross-reference entry for an object always wins."""
import random
from vplib.api import Case, ok, err
from oracle import xrefspec as X
from oracle.pdfwriter import Obj, Free, Comp, Revision, write_file, Name, Ref, ser, ser_name
from oracle.canon import canon

ID = "C02"
LEVEL = "proof"
DESIGN_REF = "DESIGN.md §9 C02, §12.C02"
COQ_TARGETS = ["Properties/C02", "Pins/C02"]
THEOREMS = [("PdfV.Properties.C02", n) for n in
            ["C02_merge_latest", "C02_beyond_size", "C02_stream_roundtrip", "C02_stream_sections_roundtrip",
             "C02_walk_latest", "C02_stream_no_panic", "C02_stream_bounded", "C02_table_roundtrip", "C02_table_row_20", "C02_table_total", "C02_locate_xref_total", "C02_lexer_progress",
             "C02_section_roundtrip", "C02_xref_at_section", "C02_walk_latest_tables", "C02_object_at", "C02_locate_startxref", "C02_resolve_latest",
             "C02_merge_older_stream_refuted_before_fix"]]
ANCHORS = ["backend.rs", "xref.rs", "parse_xref.rs", "lexer/mod.rs"]
MODES = ["xr_merge", "xr_stream", "xr_table", "xr_locate", "xr_walk", "xr_section", "xr_open"]
TRUSTED_BASE = ["coqc 8.16.1 kernel (vm_compute for table lemmas and witnesses; no native_compute)",
                "gen/extract_xref.py (regenerates MAX_ID, HEADER, window, keywords, entry type codes, integer widths, lexer byte classes)",
                "Extraction + ExtrOcamlBasic, ocamlfind ocamlopt 4.13.1, coq/driver/main.ml",
                "harness pdfh (Rust, harness/src/modes/xref.rs), tools/vplib (comparison)",
                "tools/oracle/xrefspec.py + pdfwriter.py + canon.py (history generator, section printers, file writer, expected values)"]
ASSUMPTIONS = ["oracle of C02_walk_latest: reading one cross-reference section at a position (object parser, stream decoding) is a function "
               "xref_at; the theorem's premise says it returns the sections and trailer the history wrote there (tested on every xr_walk/xr_all case); "
               "discharged for classic-table files (C02_xref_at_section, C02_walk_latest_tables, C02_resolve_latest: premises about the file's bytes only), "
               "still an oracle for cross-reference streams and object streams",
               "usize = u64 (64-bit target); Primitive::Integer is i32",
               "bytes are < 256 (wf_bytes) in the section round-trip theorems"]
RULE = ("histories of 1-6 updates over 1-40 numbers, every ordered pair (previous form, new form) in {absent,direct,compressed,free}^2 and "
        "both formats on both sides forced at least once, rendered by the specification writer (classic tables with the three 2-byte EOL forms and "
        "any subsection split, xref streams with several /W, object streams); judged on the merged table (xr_merge, xr_walk), on every object value "
        "and the trailer (xr_all); section readers on printed sections for all /W widths 0..8 (xr_stream) and all EOL forms (xr_table) plus "
        "malformed section bytes (judged against the model and for absence of panics only); non-trivial = at least 2 entries/bytes of input")
CASE_TIMEOUT = 20.0


def nontrivial(c):
    return sum(len(f) for f in c.fields) >= 8


def always(case, r):
    if r[0] in ("PANIC", "ABORT", "TIMEOUT"):
        return "the reader must not %s: %s" % (r[0].lower(), r[1][:120])
    return None


# ------------------------------------------------------------------------------------------------
# cases

def tables_of(info):
    return [r["table"] for r in info["revisions"]]


def merge_case(H, info, tags):
    """newest section first, as read_xref_table_and_trailer merges them"""
    tabs = tables_of(info)
    size = info["revisions"][-1]["size"]
    fields = [b"%d" % size]
    for k in range(len(tabs) - 1, -1, -1):
        for first, es in X.sections_of(tabs[k], H.revisions[k].split):
            fields.append(X.section_text(first, es))
    exp = X.expected_table(tabs, size) + [("f", 0, 65535)]
    return Case("xr_merge", fields, expect=ok(X.table_text(exp)), tags=["merge"] + tags)


def walk_case(H, info, data, tags, opts=b"s"):
    tabs = tables_of(info)
    size = info["revisions"][-1]["size"]
    exp = X.expected_table(tabs, size) + [("f", 0, 65535)]
    last = len(H.revisions) - 1
    return Case("xr_walk", [opts, data], mfields=X.abstract_file(H, info, 0, len(data)),
                expect=ok(X.table_text(exp), b"%d" % last), tags=["walk"] + tags)


def all_check(H, info):
    inner, size = X.observation_check(H, info)

    def chk(r):
        if r[0] != "OK":
            return "the file must load: %s %s" % (r[0], r[1][:100])
        return inner(r[1])
    return chk, size


def all_case(H, info, data, tags, opts=b"s"):
    chk, size = all_check(H, info)
    return Case("xr_all", [opts, b"%d" % size, data], check=chk, model=False, tags=["all"] + tags)


def history_cases(rng, H, tags):
    try:
        data, info = X.render(H)
    except (OverflowError, ValueError):
        for r in H.revisions:
            r.w = None
        data, info = X.render(H)
    fm = "".join(f[0] for f in H.fmts)
    t = tags + ["fmts:" + (fm if len(fm) <= 2 else fm[:2] + "+")]
    yield merge_case(H, info, t)
    yield walk_case(H, info, data, t, opts=b"t" if rng.random() < 0.2 else b"s")
    yield all_case(H, info, data, t, opts=b"t" if rng.random() < 0.2 else b"s")


def forced_histories(rng):
    """two-update histories realising each ordered pair of forms on number 1, each format on each side"""
    sts = {"absent": None, "direct": ("d", 0), "compressed": ("c",), "free": ("f", 1)}
    for f1 in ("table", "stream"):
        for f2 in ("table", "stream"):
            for a in X.FORMS:
                for b in X.FORMS:
                    if a == "compressed" and f1 == "table":
                        continue
                    if b == "compressed" and f2 == "table":
                        continue
                    st = sts[a]
                    if b == "absent":
                        new = None
                    else:
                        cands = [c for c in X.choices(st, f2) if X.form_of(c) == b]
                        if not cands:
                            continue
                        new = rng.choice(cands)
                    H = X.History()
                    H.fmts = [f1, f2]
                    e1 = {2: Obj({"Keep": 2})}
                    if st is not None:
                        e1[1] = mk(rng, st, 1, 0)
                    e2 = {9: Obj({"New": 9})}
                    if new is not None:
                        e2[1] = mk(rng, new, 1, 1)
                    H.pairs.append((a, b, f1, f2))
                    H.revisions = [Revision(e1, fmt=f1, trailer={"VpRev": 0}, eol=rng.choice(X.EOLS), objstm_nums={None: 20}, xref_num=21),
                                   Revision(e2, fmt=f2, trailer={"VpRev": 1}, eol=rng.choice(X.EOLS), objstm_nums={None: 22}, xref_num=23)]
                    yield H, "pair:%s>%s:%s>%s" % (a, b, f1[0], f2[0])


def mk(rng, st, n, k):
    if st[0] == "d":
        return Obj(X.gen_value(rng, n, k), gen=st[1])
    if st[0] == "c":
        return Comp(X.gen_value(rng, n, k, compressed=True))
    return Free(gen=st[1], nxt=0)


# ---- section readers -----------------------------------------------------------------------------

def rand_entry(rng, kinds="fnc", big=False):
    k = rng.choice(kinds)
    hi = rng.choice([1, 255, 256, 65535, 65536, 2 ** 32 - 1, 2 ** 40, 2 ** 63, 2 ** 64 - 1]) if big else rng.choice([9, 255, 70000, 9999999999])
    a = rng.randint(0, hi)
    b = rng.randint(0, rng.choice([0, 1, 2, 65535] + ([2 ** 64 - 1] if big else [])))
    if not big:
        b = min(b, 99999 if k != "c" else b)
    return (k, a, b)


def stream_cases(rng, tier):
    n = 0
    # every combination of widths 0..8 (w0 = 0: only type-1 entries, the default)
    for w0 in range(0, 9):
        for w1 in range(0, 9):
            for w2 in range(0, 9):
                if w0 + w1 + w2 == 0:
                    continue
                if tier == "quick" and (w0 * 81 + w1 * 9 + w2) % 3 != n % 3 and not (w0 <= 1 and w2 <= 2):
                    continue
                n += 1
                secs = []
                first = rng.randrange(0, 50)
                for _ in range(rng.randint(1, 3)):
                    cnt = rng.randint(1, 4)
                    es = []
                    for _ in range(cnt):
                        k = "n" if w0 == 0 else rng.choice("fnc")
                        a = rng.randrange(256 ** w1) if rng.random() < 0.7 else 256 ** w1 - 1
                        b = rng.randrange(256 ** w2) if rng.random() < 0.7 else 256 ** w2 - 1
                        es.append((k, a, b))
                    secs.append((first, es))
                    first += cnt + rng.randrange(0, 3)
                data, index = X.print_stream_rows(secs, (w0, w1, w2))
                yield Case("xr_stream", [rng.choice([b"s", b"t"]), b"%d,%d,%d" % (w0, w1, w2), ",".join(map(str, index)).encode(), data],
                           expect=ok(*[X.section_text(f, es) for f, es in secs]), tags=["stream-rt", "w0=%d" % w0])
    # malformed: wrong widths, short data, zero widths with huge counts, unknown types, odd /Index
    m = 150 if tier == "quick" else 4000
    for i in range(m):
        w = [rng.choice([0, 0, 1, 1, 2, 3, 4, 8, 9, 16, 2 ** 31 - 1]) for _ in range(rng.choice([3, 3, 3, 3, 2, 4, 0]))]
        idx = []
        for _ in range(rng.choice([1, 1, 2, 3])):
            idx += [rng.randrange(0, 100), rng.choice([0, 1, 2, 3, 5, 50, 2 ** 20, 2 ** 31 - 1])]
        if rng.random() < 0.1:
            idx = idx[:-1]
        data = bytes(rng.choice([0, 1, 2, 3, rng.randrange(256)]) for _ in range(rng.choice([0, 1, 5, 12, 40, 200])))
        yield Case("xr_stream", [rng.choice([b"s", b"t"]), ",".join(map(str, w)).encode(), ",".join(map(str, idx)).encode(), data],
                   kind="malformed", tags=["stream-malformed"])
    # the two numeric sites by name (C01-b, C01-c)
    for o in (b"s", b"t"):
        yield Case("xr_stream", [o, b"0,0,0", b"0,2147483647", b"\x00" * 8], expect=err(), kind="malformed", tags=["stream-zero-width"])
        yield Case("xr_stream", [o, b"0,0,0", b"0,3", b""], expect=err(), kind="malformed", tags=["stream-zero-width"])
        # tolerant mode truncates to the entries that fit (none); strict mode refuses
        yield Case("xr_stream", [o, b"2147483647,2147483647,2147483647", b"0,2147483647", b"\x01" * 8],
                   expect=err() if o == b"s" else ok(b"0"), kind="malformed", tags=["stream-big-width"])


def table_cases(rng, tier):
    m = 120 if tier == "quick" else 3000
    for i in range(m):
        secs = []
        first = rng.randrange(0, 60)
        for _ in range(rng.randint(1, 4)):
            cnt = rng.randint(0 if rng.random() < 0.1 else 1, 6)
            es = []
            for _ in range(cnt):
                k = rng.choice("fn")
                es.append((k, rng.choice([0, 9, 15, 9999999999, rng.randrange(10 ** 10)]), rng.choice([0, 0, 1, 65535, rng.randrange(65536)])))
            secs.append((first, es))
            first += cnt + rng.randrange(0, 3)
        mode = i % 4
        if mode < 3:
            body = X.print_table_rows(secs, eol=X.EOLS[mode], hdr_eol=rng.choice([b"\n", b"\r\n", b"\r", b" \n"]))
            tg = "eol:" + {0: "SP-LF", 1: "CR-LF", 2: "SP-CR"}[mode]
        else:
            body = X.print_table_rows(secs, eols=X.EOLS)
            tg = "eol:mixed"
        yield Case("xr_table", [body], expect=ok(*[X.section_text(f, es) for f, es in secs]), tags=["table-rt", tg])
        # the printer of C02_table_roundtrip: any ISO white-space in the gaps, an end-of-line form per row
        if i % 2 == 0:
            body2 = X.print_table_layout(rng, secs if i % 8 else secs + [(first + 5, [])])
            s2 = secs if i % 8 else secs + [(first + 5, [])]
            yield Case("xr_table", [body2], expect=ok(*[X.section_text(f, es) for f, es in s2]), tags=["table-rt", "layout:any-white-space"])
        # malformed variants (never contain the letter 't', so the appended keyword is the first one)
        b = bytearray(body)
        for _ in range(rng.randint(1, 3)):
            if not b:
                break
            op = rng.randrange(5)
            p = rng.randrange(len(b))
            if op == 0:
                b[p] = rng.choice(b"0123456789 \r\n fnx%+-/<(")
            elif op == 1:
                del b[p]
            elif op == 2:
                b.insert(p, rng.choice(b"0123456789 \r\n fn%+"))
            elif op == 3:
                del b[p:p + rng.randrange(1, 25)]
            else:
                b[p:p] = b"%" + bytes(rng.choice(b"abc 12") for _ in range(rng.randrange(4))) + rng.choice([b"\n", b"\r", b""])
        if b"t" not in bytes(b):
            yield Case("xr_table", [bytes(b)], kind="malformed", tags=["table-malformed"])
    for body in (b"", b"0 1\n", b"0 2\n0000000000 65535 f \n", b"4294967296 1\n0000000000 00000 n \n", b"0 4294967295\n",
                 b"0 1\n18446744073709551616 00000 n \n", b"0 1\n18446744073709551615 18446744073709551615 n \n",
                 b"+0 +1\n+5 +0 n\n", b"0 1\n-5 0 n\n", b"0 1\n5 0 x\n", b"%c\n0 1\n1 0 n%x\n", b"0 1\n1 0 n%x", b"0 1 1 0 f 7 1 9 0 n"):
        yield Case("xr_table", [body], kind="malformed", tags=["table-edge"])


# ---- composed readers on classic-table files (XRef/At.v) -----------------------------------------------

SEPS = [b" ", b"\n", b"\r\n", b"\t", b"  ", b"%c\n", b" %x y\r", b"\x00", b"\x0c"]


def spell_dict(rng, d):
    """a conforming spelling of a dictionary with arbitrary separators (white-space, comments) between the tokens"""
    out = bytearray(b"<<")
    for k, v in d.items():
        out += rng.choice([b""] + SEPS) + ser_name(Name(k) if not isinstance(k, Name) else k)
        sv = ser(v)
        out += (rng.choice([b""] + SEPS) if sv[:1] in b"/[(<" else rng.choice(SEPS)) + sv
    last = list(d.values())[-1] if d else None
    out += (rng.choice(SEPS) if isinstance(last, Ref) and rng.random() < 0.5 else rng.choice([b""] + SEPS)) + b">>"
    return bytes(out)


def section_cases(rng, tier):
    m = 40 if tier == "quick" else 1500
    for i in range(m):
        secs = []
        first = rng.randrange(0, 60)
        for _ in range(rng.randint(0 if i % 10 == 0 else 1, 4)):
            cnt = rng.randint(0 if rng.random() < 0.1 else 1, 5)
            es = [(rng.choice("fn"), rng.choice([0, 9, 9999999999, rng.randrange(10 ** 10)]), rng.choice([0, 1, 65535, rng.randrange(65536)]))
                  for _ in range(cnt)]
            secs.append((first, es))
            first += cnt + rng.randrange(0, 3)
        size = rng.choice([None, 0, 1, first + 1, 2 ** 31 - 1])
        prev = rng.choice([None, None, 0, 17, 2 ** 31 - 1])
        tr = {}
        if rng.random() < 0.5:
            tr["Root"] = Ref(1, 0)
        if size is not None:
            tr["Size"] = size
        if rng.random() < 0.3:
            tr["ID"] = [b"ab(c)", b"\x00\xff"]
        if prev is not None:
            tr["Prev"] = prev
        if rng.random() < 0.2:
            tr["Info"] = {"K": [Name("A#B"), True, None], "S": b"x"}
        if not tr:
            tr["X"] = Name("Y")
        pos = rng.choice([0, 9, 1000, 2 ** 40])
        tail = rng.choice([b"", b"\n", b"\nstartxref\n%d\n%%%%EOF\n" % pos, b" % c", b"\r\n1 0 obj"])
        text = b"xref" + X.print_table_layout(rng, secs) + b"trailer" + rng.choice([b""] + SEPS) + spell_dict(rng, tr) + tail
        exp = [X.section_text(f, es) for f, es in secs]
        exp.append(b"%s %s" % (b"%d" % size if size is not None else b"-", b"%d" % prev if prev is not None else b"-"))
        exp.append(canon(tr))
        yield Case("xr_section", [b"%d" % pos, text], expect=ok(*exp), tags=["section-rt", "pos:%d" % min(pos, 1001)])
        # /Size, /Prev that are not non-negative integers; missing dictionary; damaged text (model only)
        bad = dict(tr)
        bad[rng.choice(["Size", "Prev"])] = rng.choice([-1, Name("N"), b"s", [1], Ref(3, 0), None])
        text2 = b"xref" + X.print_table_layout(rng, secs) + b"trailer\n" + ser(bad) + tail
        yield Case("xr_section", [b"%d" % pos, text2, b"q"], kind="malformed", tags=["section-bad-trailer"])
        b = bytearray(text)
        for _ in range(rng.randint(1, 3)):
            if not b:
                break
            p = rng.randrange(len(b))
            op = rng.randrange(4)
            if op == 0:
                b[p] = rng.choice(b"0123456789 \r\n fnx%+-/<>[(t")
            elif op == 1:
                del b[p:p + rng.randrange(1, 9)]
            elif op == 2:
                b.insert(p, rng.choice(b"0123456789 \r\n fn%+<>"))
            else:
                b = b[:p]
        yield Case("xr_section", [b"%d" % pos, bytes(b), b"q"], kind="malformed", tags=["section-malformed"])
    for text in (b"", b"xref", b"xref\ntrailer", b"xref\ntrailer\n<<>>", b"xref trailer<</Size 1>>stream", b"xreftrailer<<>>", b"xref\n0 1\n0000000000 65535 f \ntrailer 5",
                 b"xref\ntrailer\n[1]", b"xref\ntrailer\n<</Size 1>>\nstream\n", b"5 0 obj\n<<>>\nendobj", b"%c\nxref\ntrailer<</Size 2/Prev 3>>"):
        yield Case("xr_section", [b"0", text, b"q"], kind="malformed", tags=["section-edge"])


def table_history(rng):
    k = rng.randint(1, 5)
    H = X.gen_history(rng, n_updates=k, max_num=rng.randint(1, 25), force=["table"] * k)
    for r in H.revisions:
        r.eol = rng.choice(X.EOLS)
    return H


def open_cases(rng, tier):
    m = 40 if tier == "quick" else 1500
    for i in range(m):
        H = table_history(rng)
        data, info = X.render(H)
        vals, size = X.expected_values(H, info)
        last = info["revisions"][-1]
        tr = dict(H.revisions[-1].trailer)
        if len(H.revisions) > 1:
            tr["Prev"] = info["startxrefs"][-2]
        tr["Size"] = last["size"]
        exp = [(b"!" if v in (b"!FreeObject", b"!NullRef") else v) for v in vals] + [canon(tr)]
        o = b"t" if rng.random() < 0.2 else b"s"
        yield Case("xr_open", [o, b"%d" % size, data], expect=ok(*exp), tags=["open-rt", "updates:%d" % len(H.revisions)])
        for k, rev in enumerate(H.revisions):
            secs = X.sections_of(info["revisions"][k]["table"], rev.split)
            pos = info["startxrefs"][k]
            prev = info["startxrefs"][k - 1] if k else None
            e = [X.section_text(f, es) for f, es in secs]
            e.append(b"%d %s" % (info["revisions"][k]["size"], b"%d" % prev if prev is not None else b"-"))
            if i % 4 == 0:
                yield Case("xr_section", [b"%d" % pos, data[pos:], b"q"], expect=ok(*e), tags=["section-in-file"])
        # damaged chains: /Prev cycles, /Prev beyond the file or into an object, /Size too small / too big, flipped row kinds
        b = bytearray(data)
        kind = rng.randrange(5)
        import re as _re
        if kind == 0:
            ms = list(_re.finditer(rb"/Prev (\d+)", data))
            if ms:
                mm = rng.choice(ms)
                new = rng.choice([info["startxrefs"][-1], len(data) + 5, 9, 0, info["startxrefs"][0] + 1])
                b[mm.start(1):mm.end(1)] = b"%d" % new
        elif kind == 1:
            ms = list(_re.finditer(rb"/Size (\d+)", data))
            mm = ms[-1]
            b[mm.start(1):mm.end(1)] = b"%d" % rng.choice([0, 1, 2, 1000001, 1000000])
        elif kind == 2:
            ms = list(_re.finditer(rb"\d{10} \d{5} ([nf])", data))
            if ms:
                mm = rng.choice(ms)
                b[mm.start(1):mm.end(1)] = b"f" if data[mm.start(1):mm.end(1)] == b"n" else b"n"
        elif kind == 3:
            ms = list(_re.finditer(rb"(\d{10}) \d{5} n", data))
            if ms:
                mm = rng.choice(ms)
                b[mm.start(1):mm.end(1)] = b"%010d" % rng.choice([0, 5, len(data), len(data) + 1, 9999999999, info["startxrefs"][-1]])
        else:
            ms = list(_re.finditer(rb"startxref\n(\d+)", data))
            mm = ms[-1]
            b[mm.start(1):mm.end(1)] = b"%d" % rng.choice([0, 3, len(data), info["startxrefs"][0]] + [info["offsets"][k0] for k0 in sorted(info["offsets"])[:1]])
        if bytes(b) != data:
            yield Case("xr_open", [o, b"%d" % size, bytes(b)], kind="malformed", tags=["open-damaged", "damage:%d" % kind])


def open_boundary_cases(rng):
    """/Size at the limit MAX_ID (accepted) and above it (refused); a /Prev cycle; a section whose /Prev is itself"""
    for size, good in ((1000000, True), (1000001, False)):
        revs = [Revision({1: Obj({"A": 1})}, fmt="table", trailer={"VpRev": 0}, size=size)]
        data, info = write_file(revs)
        if good:
            exp = [b"!", canon({"A": 1}), b"!", canon({"VpRev": 0, "Size": size})]
            yield Case("xr_open", [b"s", b"3", data], expect=ok(*exp), tags=["open-size-limit"])
        else:
            yield Case("xr_open", [b"s", b"3", data], expect=err(), kind="malformed", tags=["open-size-limit"])
    revs = [Revision({1: Obj({"A": 1})}, fmt="table", trailer={"VpRev": 0, "Pad": 11111}), Revision({1: Obj({"A": 2})}, fmt="table", trailer={"VpRev": 1})]
    data, info = write_file(revs)
    a, b = info["startxrefs"]
    assert data.count(b"/Pad 11111") == 1 and b < 10000
    good = [b"!", canon({"A": 2}), canon({"VpRev": 1, "Prev": a, "Size": 2})]
    yield Case("xr_open", [b"s", b"2", data], expect=ok(*good), tags=["open-prev-cycle"])
    cyc = data.replace(b"/Pad 11111", b"/Prev %04d" % b)      # same length: the oldest section points to the newest one
    yield Case("xr_open", [b"s", b"2", cyc], expect=err(), kind="malformed", tags=["open-prev-cycle"])
    self_ = data.replace(b"/Pad 11111", b"/Prev %04d" % a)    # the oldest section points to itself
    yield Case("xr_open", [b"s", b"2", self_], expect=err(), kind="malformed", tags=["open-prev-cycle"])


def merge_malformed(rng, tier):
    """sections that no well-formed history produces: decreasing generations, duplicates, numbers >= /Size,
    /Size smaller than an older section needs.  Judged against the model only."""
    m = 150 if tier == "quick" else 4000
    for i in range(m):
        size = rng.choice([0, 1, 2, 5, 10])
        fields = [b"%d" % size]
        for _ in range(rng.randint(1, 5)):
            first = rng.randrange(0, size + 3)
            es = [rand_entry(rng, big=rng.random() < 0.2) for _ in range(rng.randint(0, 5))]
            fields.append(X.section_text(first, es))
        yield Case("xr_merge", fields, kind="malformed", tags=["merge-any"])


def generate(rng, tier):
    for H, tag in forced_histories(rng):
        for c in history_cases(rng, H, [tag]):
            yield c
    n = 60 if tier == "quick" else 2500
    for i in range(n):
        H = X.gen_history(rng)
        for c in history_cases(rng, H, ["random"]):
            yield c
    for c in stream_cases(rng, tier):
        yield c
    for c in table_cases(rng, tier):
        yield c
    for c in section_cases(rng, tier):
        yield c
    for c in open_cases(rng, tier):
        yield c
    for c in open_boundary_cases(rng):
        yield c
    for c in merge_malformed(rng, tier):
        yield c
    for c in shrink_cases(rng):
        yield c


def shrink_cases(rng):
    """/Size of the newest trailer smaller than before, and entries at or beyond /Size: the spec (§7.5.5) makes
    every number >= /Size missing; never an older value."""
    e1 = {n: Obj({"Old": n}) for n in range(1, 8)}
    e2 = {2: Obj({"New": 2}), 6: Obj({"New": 6})}
    revs = [Revision(e1, fmt="table", trailer={"VpRev": 0}), Revision(e2, fmt="table", trailer={"VpRev": 1}, size=5)]
    data, info = write_file(revs)

    def chk(r):
        if r[0] != "OK":
            return "must load: %s" % (r,)
        out = r[1]
        exp = {1: b"Old", 2: b"New", 3: b"Old", 4: b"Old"}
        for n, key in exp.items():
            if key.hex().encode() not in out[n]:
                return "object %d: %s" % (n, out[n][:60])
        for n in (5, 6, 7):
            if not out[n].startswith(b"!"):
                return "object %d is at or beyond /Size 5 and must be missing, got %s" % (n, out[n][:60])
        return None
    yield Case("xr_all", [b"s", b"8", data], check=chk, model=False, tags=["size-shrinks"])


def classify(case, impl, model):
    return None


def witness_case(f, c):
    if "expect_hex" in f:
        c.expect = ok(*[bytes.fromhex(x) for x in f["expect_hex"]])
    elif f.get("expect") == "err":
        c.expect = err()
    return c


def coverage_extra(cases, impl, model):
    pairs = {}
    for c in cases:
        for t in c.tags:
            if t.startswith("pair:"):
                pairs[t[5:]] = pairs.get(t[5:], 0) + 1
    return {"form_pairs_forced": len(pairs), "form_pairs": dict(sorted(pairs.items()))}
