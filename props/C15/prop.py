"""C15 — typed objects round-trip through their dictionary form without losing entries."""
from vplib.api import Case, ok, err
from oracle import typed as T
from oracle import typed_hand as H
from oracle.canon import canon
from oracle.pdfwriter import Name, Ref, Stream

ID = "C15"
LEVEL = "proof"
DESIGN_REF = "DESIGN.md §9 C15, §12.C15"
COQ_TARGETS = ["Properties/C15", "Pins/C15", "Typed/Font"]
THEOREMS = [("PdfV.Properties.C15", n) for n in
            ["C15_value_rt", "C15_fields_rt", "C15_dict_rt", "C15_generated_wf", "C15_generated_indirect",
             "C15_generated_value_rt", "C15_hand_Rectangle", "C15_hand_Matrix", "C15_hand_Date", "C15_hand_Action",
             "C15_dict_rt_read", "C15_int_real", "C15_top_rt", "C15_top_rt_maybe_ref", "C15_generated_top_wf", "C15_hand_Encoding", "C15_hand_NameTree"]]
import os as _os
if _os.environ.get("VP_DEV_NOTHM"):      # development only: correspondence without the proof targets
    COQ_TARGETS, THEOREMS = ["Typed/Run"], []
ANCHORS = ["pdf_derive"]
MODES = ["typed_roundtrip"]
TRUSTED_BASE = ["coqc 8.16.1 kernel (vm_compute for the schema well-formedness lemma and finite sweeps; no native_compute)",
                "gen/extract_typed.py (regenerates the schema of every #[derive(Object, ObjectWrite)] item into Gen/Generated.v)",
                "Extraction + ExtrOcamlBasic, ocamlfind ocamlopt 4.13.1, coq/driver/main.ml",
                "harness pdfh (Rust: modes/typed.rs), tools/vplib, tools/oracle/typed.py (equivalences of the property text, ISO 32000-1 date syntax)"]
ASSUMPTIONS = ["dictionary key order is not observable (IndexMap::swap_remove / HashMap order abstracted; both sides print sorted keys)",
               "hand-written pairs outside Date/Rectangle/Matrix/Action/NameTree are a parameter of the generic theorems (premise hand_law); Encoding has its own theorem (C15_hand_Encoding); the other pairs are judged by specification oracles of their written form",
               "the proc-macro expansion is modelled (interpreter over the extracted schemas) and tied by correspondence, not verified",
               "i32 -> f32 conversion (`as f32`) is the round-to-nearest-even function Prim.f32_of_i32 (compared bit-exactly on every case)"]
RULE = ("per derived struct with reader and writer: random well-typed field assignments (present/absent optionals, defaults, "
        "one-or-many, nested models, references to objects, unknown extra keys, shuffled key order), one case per field forced "
        "present and one forced absent, ill-typed mutants (model comparison only); EVERY hand-written Object/ObjectWrite pair "
        "(Encoding/Differences, BaseEncoding, Rectangle, Matrix, Date, Dest, Action, name and number trees, ColorSpace, "
        "CidToGidMap, Font variants, stream dictionaries, leaf types and wrappers) with boundary values of each field, judged "
        "two-sidedly against the written form the standard defines (tools/oracle/typed_hand.py); "
        "typed_fresh (no model): for every derived struct with a catch-all field (Page, PostScriptDict, ImageDict, FormDict, SeedValue-, "
        "Signature-, SignatureReferenceDictionary, Annot, FieldDictionary, CIDFont) the value read from a random well-typed dictionary with its "
        "catch-all field emptied (= a value built in code): the written dictionary must carry the schema's /Type and Key=\"Value\" check "
        "pairs (/Subtype /Image, /Form, /PS), only declared entries, read back and write identically; "
        "judged against the property text (second write identical, every input entry preserved up to the stated equivalences) "
        "and against the extracted Coq interpreter; non-trivial = dictionary with at least one entry; distinct by input line")

_S = None
_COV = {}


def S():
    global _S
    if _S is None:
        _S = T.schemas()
    return _S


def fields_line(name, d, objs):
    return [name.encode(), canon(d)] + [canon(o) for o in objs]


def check_struct(sidx, d, objs_in):
    s = S().structs[sidx]
    has_other = any(f["flags"] & 1 for f in s["fields"])
    bykey = {f["key"]: f for f in s["fields"] if not f["flags"] & 5}
    indirect = {f["key"] for f in s["fields"] if f["flags"] & 2}

    def chk(r):
        if r == ("ERR", "UnknownType"):
            return None                 # a derived type the harness cannot name: reported as uncovered, not judged
        if r[0] != "OK":
            return "%s %s" % (r[0], r[1])
        f = r[1]
        if f[0] != b"ok":
            return "well-typed dictionary rejected: " + f[0].decode("latin-1")
        if len(f) < 3:
            return "value read from a well-typed dictionary cannot be written: " + f[1].decode("latin-1")
        if len(f) < 4 or f[3] != b"ok":
            return "written form cannot be read back: " + (f[3].decode("latin-1") if len(f) > 3 else "?")
        if len(f) < 6:
            return "re-read value cannot be written: " + f[4].decode("latin-1")
        w1, c1, w2, c2 = (T.uncanon(x) for x in (f[1], f[2], f[4], f[5]))
        n0 = len(objs_in) + 1
        objs = {i + 1: o for i, o in enumerate(list(objs_in) + c1 + c2)}
        # 1. the re-read value writes to the identical primitive form (references to objects the writer itself
        #    created for `indirect` fields are compared by content)
        if set(w1) != set(w2):
            return "second write has different keys: %r vs %r" % (sorted(w1), sorted(w2))
        for k in w1:
            a, b = w1[k], w2[k]
            if canon(a) == canon(b):
                continue
            if k in indirect and isinstance(a, Ref) and isinstance(b, Ref) and a.num >= n0 and b.num >= n0 \
                    and canon(objs.get(a.num)) == canon(objs.get(b.num)):
                continue
            return "second write differs at /%s: %r vs %r" % (k, a, b)
        if not indirect and (c1 or c2):
            return "writer created objects without an indirect field"
        # an entry the writer adds for an absent key must carry the standard's default
        for k in w1:
            if k not in d and (s["name"], k) in T.SPEC_DEFAULTS and not T.equiv(T.SPEC_DEFAULTS[(s["name"], k)], w1[k], objs):
                return "entry /%s added with %r, the standard's default is %r" % (k, w1[k], T.SPEC_DEFAULTS[(s["name"], k)])
        # 2. every entry of the input is preserved (models that keep unrecognised entries)
        if has_other:
            for k, v in d.items():
                if v is None:
                    continue
                fd = bykey.get(k)
                if fd is not None and fd["ty"][0] == 22 and v == {}:
                    continue                       # an empty map is the omitted default of a HashMap field
                if fd is not None and fd["ty"][0] == 20 and fd["ty"][1] == 22 and v == {}:
                    continue
                if k not in w1:
                    return "entry /%s lost" % k
                if not T.equiv(v, w1[k], objs):
                    return "entry /%s changed: %r -> %r" % (k, v, w1[k])
            for k in w1:
                if k in d or k == "Type" or k in s["attrs"]:
                    continue
                fd = bykey.get(k)
                if fd is not None and fd["ty"][0] == 21 and w1[k] == []:
                    continue                       # absent one-or-many field = empty array
                if fd is None or fd["default"][0] == 0:
                    return "entry /%s invented" % k
                sd = T.SPEC_DEFAULTS.get((s["name"], k))
                if sd is not None and not T.equiv(sd, w1[k], objs):
                    return "entry /%s added with %r, the standard's default is %r" % (k, w1[k], sd)
        return None
    return chk


def check_hand(v, objs_in):
    def chk(r):
        if r[0] != "OK":
            return "%s %s" % (r[0], r[1])
        f = r[1]
        if f[0] != b"ok" or len(f) < 6 or f[3] != b"ok":
            return "round trip failed: " + b" ".join(f[:5]).decode("latin-1")
        if f[1] != f[4]:
            return "second write differs"
        objs = {i + 1: o for i, o in enumerate(objs_in)}
        if not T.equiv(v, T.uncanon(f[1]), objs):
            return "value changed: %r -> %r" % (v, T.uncanon(f[1]))
        return None
    return chk


# ---------------------------------------------------------------------------------------------- stream dictionaries, fonts

LZW_DEFAULTS = {"Predictor": 1, "Colors": 1, "BitsPerComponent": 8, "Columns": 1, "EarlyChange": 1}
CCITT_DEFAULTS = {"K": 0, "EndOfLine": False, "EncodedByteAlign": False, "Columns": 1728, "Rows": 0, "EndOfBlock": True,
                  "BlackIs1": False, "DamagedRowsBeforeError": 0}          # ISO 32000-1 Table 11
PARAM_FILTERS = ("FlateDecode", "LZWDecode")
STREAM_KEYS = ("Length", "Filter", "DecodeParms", "F", "FFilter", "FDecodeParms")


def eff_filters(d, fk="Filter", pk="DecodeParms"):
    """what a stream dictionary says about its filters (ISO 32000-1 Table 5): [(name, non-default parameters)];
    fk/pk = FFilter/FDecodeParms: the filters of the external file"""
    f = d.get(fk)
    names = [] if f is None else ([f] if isinstance(f, Name) else list(f))
    p = d.get(pk)
    parms = [] if p is None else ([p] if isinstance(p, dict) else list(p))
    out = []
    for i, n in enumerate(names):
        pd = parms[i] if i < len(parms) and isinstance(parms[i], dict) else {}
        dflt = CCITT_DEFAULTS if str(n) == "/CCITTFaxDecode" else LZW_DEFAULTS
        out.append((str(n), sorted((k, float(v)) for k, v in pd.items() if dflt.get(k) != v)))
    return out


def check_stream(d, keep_all):
    def chk(r):
        if r[0] != "OK":
            return "%s %s" % (r[0], r[1])
        f = r[1]
        if f[0] != b"ok":
            return "well-formed stream dictionary rejected: " + f[0].decode("latin-1")
        if len(f) < 6 or f[3] != b"ok":
            return "round trip failed: " + b" ".join(f[:5]).decode("latin-1")
        if f[1] != f[4]:
            return "second write differs"
        w1 = T.uncanon(f[1])
        if eff_filters(w1) != eff_filters(d):
            return "filters/parameters changed: %r -> %r" % (eff_filters(d), eff_filters(w1))
        if eff_filters(w1, "FFilter", "FDecodeParms") != eff_filters(d, "FFilter", "FDecodeParms"):
            return "file filters/parameters changed: %r -> %r" % (eff_filters(d, "FFilter", "FDecodeParms"), eff_filters(w1, "FFilter", "FDecodeParms"))
        if d.get("F") is not None and not (isinstance(w1.get("F"), dict) and T.equiv(d["F"], w1["F"], {})):
            return "entry /F (the external file) lost or changed: %r -> %r" % (d["F"], w1.get("F"))
        if keep_all:
            for k, v in d.items():
                if v is None or k in ("Filter", "DecodeParms", "Length", "FFilter", "FDecodeParms"):
                    continue
                if k not in w1:
                    return "entry /%s lost" % k
        return None
    return chk


def stream_cases(rng, tier):
    n = 60 if tier == "quick" else 800
    img = [i for i, s in enumerate(S().structs) if s["name"] == "ImageDict"][0]
    for _ in range(n):
        G = T.Gen(S(), rng)
        k = rng.randrange(4)
        # the image codecs and /Crypt are only *named* here (no parameters): the filter list read and written back must be
        # the one the dictionary states (mutation sweep, survivor #0119)
        pool = ["ASCIIHexDecode", "ASCII85Decode", "RunLengthDecode", "FlateDecode", "LZWDecode"]
        if rng.random() < 0.35:
            pool = pool + ["CCITTFaxDecode", "JBIG2Decode", "DCTDecode", "JPXDecode", "Crypt"]
        names = [rng.choice(pool) for _ in range([0, 1, 2, 3][k])]
        d = {"Length": 0}
        parms = []
        for nm in names:
            if nm in PARAM_FILTERS and rng.random() < 0.6:
                parms.append({kk: vv for kk, vv in (("Predictor", rng.choice([1, 2, 12])), ("Columns", rng.choice([1, 4, 9])),
                                                    ("Colors", rng.choice([1, 3])), ("EarlyChange", rng.choice([0, 1]))) if rng.random() < 0.6})
            else:
                parms.append(None)
        if len(names) == 1:
            d["Filter"] = Name(names[0]) if rng.random() < 0.7 else [Name(names[0])]
            if parms[0] is not None:
                d["DecodeParms"] = parms[0] if rng.random() < 0.7 else [parms[0]]
        elif names:
            d["Filter"] = [Name(x) for x in names]
            if any(p is not None for p in parms):
                d["DecodeParms"] = parms
        tags = ["stream", "filters:%d" % len(names)]
        if rng.random() < 0.6:
            yield Case("typed_roundtrip", fields_line("Stream<()>", d, []), check=check_stream(d, False), model=False, tags=tags)
        else:
            e = G.struct(img, extras=True)
            if any(k2 in e for k2 in STREAM_KEYS) or G.objs:
                continue
            e.update(d)
            cls = []
            if rng.random() < 0.35:
                # the data lives in an external file (Table 5: /F, /FFilter, /FDecodeParms — one entry per file filter)
                e["F"] = rng.choice([{"EF": {}}, {"EF": {"F": Ref(7)}}, {"EF": {"F": Ref(7), "UF": Ref(8, 1)}}])     # FileSpec declares /EF only
                fn = [rng.choice(["ASCIIHexDecode", "FlateDecode", "LZWDecode"]) for _ in range(rng.randrange(3))]
                if len(fn) == 1:
                    e["FFilter"] = Name(fn[0]) if rng.random() < 0.5 else [Name(fn[0])]
                elif fn:
                    e["FFilter"] = [Name(x) for x in fn]
                fp = [({"Predictor": 12, "Columns": rng.choice([4, 9])} if x in PARAM_FILTERS and rng.random() < 0.6 else None) for x in fn]
                if any(x is not None for x in fp):
                    e["FDecodeParms"] = fp[0] if len(fp) == 1 and rng.random() < 0.5 else fp
                cls = ["class:stream-file"]
            yield Case("typed_roundtrip", fields_line("Stream<ImageDict>", e, []), check=check_stream(e, True), model=False, tags=tags + cls)


def check_font(d, objs_in=()):
    objs = {i + 1: o for i, o in enumerate(objs_in)}

    def chk(r):
        if r[0] != "OK":
            return "%s %s" % (r[0], r[1])
        f = r[1]
        if f[0] != b"ok" or len(f) < 6 or f[3] != b"ok":
            return "round trip failed: " + b" ".join(f[:5]).decode("latin-1")
        if f[1] != f[4]:
            return "second write differs"
        w1 = T.uncanon(f[1])
        for k, v in d.items():
            if v is None:
                continue
            if k not in w1:
                return "entry /%s lost" % k
            if not T.equiv(v, w1[k], objs):
                return "entry /%s changed: %r -> %r" % (k, v, w1[k])
        return None
    return chk


def font_cases(rng, tier):
    """Font (font.rs): every FontData variant — simple fonts (Type1, TrueType: TFont), composite fonts (Type0) and their
    descendants (CIDFontType0/2: CIDFont) — with /Encoding as a name and as a dictionary whose /Differences start at
    code 0, 1, 2 or 255, /ToUnicode, and entries no typed field maps (kept in `_other`)"""
    fd = lambda: {"FontName": Name("ABCDEF+Foo"), "Flags": rng.choice([4, 32]), "FontBBox": [0, -200, 1000, 900.5],
                  "ItalicAngle": rng.choice([0, -12.5])}
    for _ in range(60 if tier == "quick" else 600):
        objs = []
        kind = rng.choice(["Type1", "TrueType", "Type0", "CIDFontType0", "CIDFontType2"])
        d = {"Type": Name("Font"), "Subtype": Name(kind), "BaseFont": Name(rng.choice(["Helvetica", "ABCDEF+Foo"]))}
        tags = ["font", "font:" + kind]
        if kind in ("Type1", "TrueType"):
            if rng.random() < 0.6:
                n = rng.randrange(4)
                d.update({"FirstChar": 32, "LastChar": 32 + n - 1, "Widths": [rng.choice([250, 500.5, 722]) for _ in range(n)]})
            if rng.random() < 0.4:
                d["FontDescriptor"] = fd()
            if rng.random() < 0.6:
                first = rng.choice([0, 1, 2, 39, 255])
                names = [Name(rng.choice(H.GLYPHS)) for _ in range(1 if first == 255 else rng.randint(1, 3))]
                d["Encoding"] = rng.choice([Name("WinAnsiEncoding"), Name("MacRomanEncoding"),
                                            {"BaseEncoding": Name("WinAnsiEncoding"), "Differences": [first] + names},
                                            {"BaseEncoding": Name("MacRomanEncoding"), "Differences": [first] + names + [first + 10, Name("bullet")] if first < 200 else [first] + names}])
                tags.append("font:encoding")
        elif kind == "Type0":
            cid = {"Type": Name("Font"), "Subtype": Name("CIDFontType2"), "BaseFont": Name("ABCDEF+Foo"), "CIDSystemInfo": {"Registry": b"Adobe", "Ordering": b"Identity", "Supplement": 0},
                   "FontDescriptor": fd()}
            objs.append(cid)
            d.update({"Encoding": Name("Identity-H"), "DescendantFonts": [Ref(1)]})
        else:
            d.update({"CIDSystemInfo": {"Registry": b"Adobe", "Ordering": b"Identity", "Supplement": 0}, "FontDescriptor": fd()})
            if rng.random() < 0.5:
                d["DW"] = rng.choice([1000, 500.5])
            if rng.random() < 0.5:
                d["W"] = [1, [500, 600.5], 10, 12, 250]
            if rng.random() < 0.4:
                d["CIDToGIDMap"] = Name("Identity")
        if rng.random() < 0.3:
            objs.append(Stream({}, b"/CIDInit /ProcSet findresource begin end"))
            d["ToUnicode"] = Ref(len(objs))
            tags.append("font:tounicode")
        if rng.random() < 0.5:
            for k in rng.sample(["Zz1", "Name", "Custom", "AAPL:Key"], rng.randint(1, 2)):
                d[k] = rng.choice([7, Name("F1"), b"x", [1, None, 2.5], {"a": 1}])
            tags.append("class:font-other")
        keys = list(d)
        rng.shuffle(keys)
        d = {k: d[k] for k in keys}
        yield Case("typed_roundtrip", fields_line("Font", d, objs), check=check_font(d, objs), model=False, tags=tags)


# ---------------------------------------------------------------------------------------------- Encoding (hand-written pair, no Coq model)
# added after the mutation sweep (mutation/REPORT.md, survivor #0049 and seeded/C15c): the harness could dispatch "Encoding"
# but no case ever named it.  Spec side: ISO 32000-1 Table 114 — /Differences `code name name … code name …` assigns
# consecutive codes from each integer on; the written form must denote the same base encoding and the same code -> name map.

BASE_ENCODINGS = ["StandardEncoding", "SymbolEncoding", "MacRomanEncoding", "WinAnsiEncoding", "MacExpertEncoding", "Identity-H"]


def enc_denotation(p):
    if isinstance(p, Name):
        return p.s, {}
    m, code = {}, 0
    for x in p.get("Differences") or []:
        if isinstance(x, Name):
            m[code] = x.s
            code += 1
        else:
            code = int(x)
    b = p.get("BaseEncoding")
    return (b.s if isinstance(b, Name) else None), m


def check_encoding(v):
    want = enc_denotation(v)

    def chk(r):
        if r[0] != "OK":
            return "%s %s" % (r[0], r[1])
        f = r[1]
        if f[0] != b"ok" or len(f) < 6 or f[3] != b"ok":
            return "round trip failed: " + b" ".join(f[:5]).decode("latin-1")
        if f[1] != f[4]:
            return "second write differs"
        got = enc_denotation(T.uncanon(f[1]))
        if got[1] != want[1]:
            return "code -> glyph name map changed: %r -> %r" % (want[1], got[1])
        if want[0] is not None and got[0] != want[0]:
            return "base encoding changed: %r -> %r" % (want[0], got[0])
        return None
    return chk


def encoding_cases(rng, tier):
    glyphs = ["A", "Aacute", "bullet", "dotlessi", "caron", "ring", "space", "Euro", "f_i", "g123"]
    for i in range(40 if tier == "quick" else 600):
        if i % 5 == 0:
            v = Name(rng.choice(BASE_ENCODINGS))
        else:
            v = {}
            if rng.random() < 0.7:
                v["BaseEncoding"] = Name(rng.choice(BASE_ENCODINGS))
            arr, code = [], rng.choice([0, 1, 1, 32, 65, 128])
            for _ in range(rng.randrange(0 if i % 5 == 1 else 1, 4)):        # runs in ascending order, gaps of 0..n between them
                arr.append(code)
                for _ in range(rng.randrange(1, 4)):
                    arr.append(Name(rng.choice(glyphs)))
                    code += 1
                code += rng.choice([0, 1, 2, 40])
                if code > 250:
                    break
            v["Differences"] = arr
        yield Case("typed_roundtrip", fields_line("Encoding", v, []), check=check_encoding(v), model=False,
                   tags=["hand:Encoding", "differences:%d" % (0 if isinstance(v, Name) else len(enc_denotation(v)[1]))])


# ---------------------------------------------------------------------------------------------- containers on their own

def container_value(rng, name, G):
    """a primitive in the image of the writer of the named container type (so sentence 1 demands: it is written back
    identically): arrays of optionals / of untyped primitives with null elements at every position, nested"""
    def opt_ints(allow_empty=True):
        return [None if rng.random() < 0.4 else rng.randint(-9, 99) for _ in range(rng.randrange(0 if allow_empty else 1, 5))]
    if name == "Vec<Option<i32>>":
        return opt_ints()
    if name == "Vec<Option<Name>>":
        return [None if rng.random() < 0.4 else G.name() for _ in range(rng.randrange(5))]
    if name in ("Vec<Primitive>", "Option<Vec<Primitive>>"):
        v = [None if rng.random() < 0.35 else G.any_prim(1) for _ in range(rng.randrange(5))]
        if rng.random() < 0.4:
            v.insert(rng.randrange(len(v) + 1), [3, None, 2])
        if name.startswith("Option") and rng.random() < 0.1:
            return None
        return v
    if name == "Vec<Option<Dictionary>>":
        return [None if rng.random() < 0.4 else {k: rng.randint(0, 9) for k in rng.sample(["Predictor", "Columns", "a"], rng.randrange(3))}
                for _ in range(rng.randrange(5))]
    if name == "Vec<Option<Vec<Option<i32>>>>":
        return [None if rng.random() < 0.35 else opt_ints() for _ in range(rng.randrange(4))]
    raise ValueError(name)


CONTAINERS = ["Vec<Option<i32>>", "Vec<Option<Name>>", "Vec<Primitive>", "Option<Vec<Primitive>>", "Vec<Option<Dictionary>>",
              "Vec<Option<Vec<Option<i32>>>>"]


def sort_keys(v):
    if isinstance(v, dict):
        return {k: sort_keys(v[k]) for k in sorted(v)}
    if isinstance(v, list):
        return [sort_keys(x) for x in v]
    return v


def check_container(v):
    want = canon(sort_keys(v))          # the harness prints dictionaries with sorted keys

    def chk(r):
        if r[0] != "OK":
            return "%s %s" % (r[0], r[1])
        f = r[1]
        if f[0] != b"ok" or len(f) < 6 or f[3] != b"ok":
            return "round trip failed: " + b" ".join(f[:5]).decode("latin-1")
        if f[1] != want:
            return "written form of the value read from %r is %r" % (v, T.uncanon(f[1]))
        if f[1] != f[4]:
            return "second write differs"
        return None
    return chk


def container_cases(rng, tier):
    for name in CONTAINERS:
        for _ in range(40 if tier == "quick" else 600):
            G = T.Gen(S(), rng)
            v = container_value(rng, name, G)
            tags = ["container:" + name] + (["null-element"] if isinstance(v, list) and any(x is None for x in v) else [])
            yield Case("typed_roundtrip", fields_line(name, v, []), check=check_container(v), tags=tags)



# ---------------------------------------------------------------------------------------------- every hand-written pair

# types of the universe of Typed/Run.v (ty_by_name): the extracted model runs them too
HAND_MODELLED = {"Encoding", "BaseEncoding", "FontType", "Rectangle", "Matrix", "Date", "NameTree<Primitive>",
                 "i32", "u32", "usize", "f32", "bool", "Name", "PdfString", "Primitive", "Dictionary", "PlainRef", "()",
                 "Ref<Dictionary>", "RcRef<Dictionary>", "MaybeRef<Dictionary>", "MaybeRef<i32>", "Lazy<Dictionary>", "Box<i32>",
                 "Option<i32>", "Option<Name>", "HashMap<Name,i32>", "HashMap<Name,Option<i32>>", "(i32,Name)", "(f32,f32)",
                 "Vec<i32>", "Vec<f32>", "Vec<Name>", "Vec<u32>"}


def has_stream(v):
    if isinstance(v, Stream):
        return True
    if isinstance(v, dict):
        return any(has_stream(x) for x in v.values())
    if isinstance(v, list):
        return any(has_stream(x) for x in v)
    return False


def check_written(inp, expected, tags=()):
    """two-sided judgement of sentence 1: the written form of the value read is the form the standard defines for it
    (the input itself when the input is in the writer's image), and the second write equals the first"""
    want = None if expected is H.ANY else canon(H.sort_keys(expected))

    def chk(r):
        if r[0] != "OK":
            return "%s %s" % (r[0], r[1])
        f = r[1]
        if ("cs:unwritable" in tags or "fn:unwritable" in tags) and f[0] == b"ok" and len(f) == 2 and f[1] == b"!Other":
            # a value the library reads but refuses to write (the crate's `unimplemented!()` is an Err): outside the
            # quantifier of C15 by its wording ("can both read and write"); were it written, the form below is demanded
            return None
        if f[0] != b"ok":
            return "a value in the domain of the standard is rejected: " + f[0].decode("latin-1")
        if len(f) < 3:
            return "the value read cannot be written: " + f[1].decode("latin-1")
        if len(f) < 4 or f[3] != b"ok":
            return "written form cannot be read back: " + (f[3].decode("latin-1") if len(f) > 3 else "?")
        if len(f) < 6:
            return "re-read value cannot be written: " + f[4].decode("latin-1")
        if want is not None and f[1] != want:
            return "written form of the value read from %r is %r, the standard's form is %r" % (inp, T.uncanon(f[1]), expected)
        if f[1] != f[4]:
            return "second write differs: %r then %r" % (T.uncanon(f[1]), T.uncanon(f[4]))
        if "class:stream-direct" in tags and has_stream(T.uncanon(f[1])):
            return "a stream is written directly inside an array or dictionary (7.3.8: streams are indirect objects)"
        return None
    return chk


_FORM_ONLY = {}      # case key -> the judgement of a `class:stream-direct` case without the directness clause


def hand_case(tname, inp, objs, expected, tags, kind):
    model = tname in HAND_MODELLED and not has_stream(objs)
    tags = ["hand:" + tname, "kind:" + kind] + list(tags)
    if "class:stream-direct" in tags and kind != "malformed":
        c = Case("typed_roundtrip", fields_line(tname, inp, objs), check=check_written(inp, expected, tags), model=model, tags=tags)
        _FORM_ONLY[c.key()] = check_written(inp, expected, [t for t in tags if t != "class:stream-direct"])
        return c
    if kind == "malformed":
        # outside the standard: no specification; the implementation must agree with the model (where there is one),
        # must not panic (always), and a successful round trip must be stable
        def chk(r, _t=tuple(tags)):
            if r[0] != "OK":
                return "%s %s" % (r[0], r[1])
            f = r[1]
            if len(f) >= 6 and f[1] != f[4]:
                return "second write differs"
            return None
        return Case("typed_roundtrip", fields_line(tname, inp, objs), check=chk, model=model, tags=tags, kind="malformed")
    return Case("typed_roundtrip", fields_line(tname, inp, objs), check=check_written(inp, expected, tags), model=model, tags=tags)


def hand_cases(rng, tier):
    q = tier == "quick"
    n = 25 if q else 400
    for c in H.encoding_cases(rng, 60 if q else 1500):
        yield hand_case("Encoding", *c)
    yield from (hand_case(*c) for c in H.name_enum_cases(S(), ("BaseEncoding", "FontType")))
    for c in H.numbers_cases(rng, 4, n):
        yield hand_case("Rectangle", *c)
    for c in H.numbers_cases(rng, 6, n, extra_ok=True):
        yield hand_case("Matrix", *c)
    for c in H.date_cases(rng, n):
        yield hand_case("Date", *c)
    yield from (hand_case(*c) for c in H.dest_cases(rng, n))
    G = T.Gen(S(), rng)
    yield from (hand_case(*c) for c in H.tree_cases(rng, n // 2, False, lambda: G.any_prim(1), "NameTree<Primitive>"))
    yield from (hand_case(*c) for c in H.tree_cases(rng, n // 2, False, lambda: rng.choice([0, -1, H.I32_MAX, H.I32_MIN]), "NameTree<i32>"))
    yield from (hand_case(*c) for c in H.tree_cases(rng, n // 2, True, lambda: rng.choice([0, -1, H.I32_MAX, H.I32_MIN]), "NumberTree<i32>"))
    yield from (hand_case(*c) for c in H.tree_cases(rng, n // 2, True, lambda: rng.choice([{}, {"S": Name("D")}, {"S": Name("r"), "P": b"A-", "St": 1}, {"St": H.I32_MAX}]),
                                                    "NumberTree<PageLabel>"))
    for c in H.colorspace_cases(rng, n):
        yield hand_case("ColorSpace", *c)
    for c in H.function_cases(rng):
        yield hand_case("Function", *c)
    for c in H.cid_to_gid_cases(rng):
        yield hand_case("CidToGidMap", *c)
    yield from (hand_case(*c) for c in H.scalar_cases(rng))

WRONG = [None, 7, -1, 2.5, True, Name("Bogus"), b"str", [], [Name("x"), 1], {}, {"a": 1}, Ref(99)]


def struct_cases(rng, sidx, n_random, tier):
    s = S().structs[sidx]
    name = s["name"]
    fields = [f for f in s["fields"] if not f["flags"] & 5]

    def one(force=None, tag="random"):
        G = T.Gen(S(), rng)
        d = G.struct(sidx, force=force)
        model = not T.required_unmodelled(G, sidx) and G.modelled([30, sidx])
        present = set(d)
        for f in fields:
            _COV.setdefault((name, f["name"]), set()).add(f["key"] in present)
        nt = ["has:NameTree"] if any(f["key"] in present and f["ty"][-2:] == [33, T.MODELLED_HAND["NameTree<Primitive>"]] for f in fields) else []
        return Case("typed_roundtrip", fields_line(name, d, G.objs), check=check_struct(sidx, d, list(G.objs)),
                    model=model, tags=["struct:" + name, tag] + nt), d, G

    for _ in range(n_random):
        yield one()[0]
    G0 = T.Gen(S(), rng)
    for f in fields:
        if G0.modelled(f["ty"]) or not G0.optional(f):
            yield one({f["name"]: True}, "forced-present")[0]
        if G0.optional(f):
            yield one({f["name"]: False}, "forced-absent")[0]
    # ill-typed mutants: error paths, judged against the model only
    mfields = [f for f in fields if G0.modelled(f["ty"])]
    for _ in range(6 if tier == "quick" else 40):
        c, d, G = one(tag="mutant-base")
        if "has:NameTree" in c.tags:
            continue
        d = dict(d)
        k = rng.randrange(4)
        if k == 0 and mfields:
            f = rng.choice(mfields)
            d[f["key"]] = rng.choice(WRONG)
        elif k == 1 and d:
            del d[rng.choice(list(d))]
        elif k == 2:
            d["Type"] = rng.choice([Name("Wrong"), 3, None])
        else:
            for key in list(s["attrs"]):
                if key not in ("Type", "is_stream", "key"):
                    d[key] = rng.choice([Name("Wrong"), 1])
            if mfields:
                f = rng.choice(mfields)
                d[f["key"]] = Ref(rng.choice([0, 77, len(G.objs) + 1]))     # dangling / free
        yield Case("typed_roundtrip", fields_line(name, d, G.objs), model=c.model, tags=["struct:" + name, "mutant"], kind="malformed")


# values built in code (the builder / importer: `..Default::default()`), not read from a file: the catch-all field is empty, so every
# entry of the written dictionary comes from the writer itself.  The derived types whose catch-all field the harness can empty:
FRESH_TYPES = ["Page", "PostScriptDict", "ImageDict", "FormDict", "SeedValueDictionary", "SignatureDictionary", "SignatureReferenceDictionary",
               "Annot", "FieldDictionary", "CIDFont"]


def check_fresh(sidx, d, objs_in):
    """mode typed_fresh: read d, empty the catch-all field, write (w1), read w1 back, write again (w2).  From the property text and the
    schema's own statement of its form: w1 carries the schema's /Type (unless optional; then it is that name if present) and every
    `Key = "Value"` check pair, it reads back as the same type, the second write is identical, every entry of a declared field
    is preserved and nothing else appears (the unknown entries went with the catch-all field)."""
    s = S().structs[sidx]
    attrs = {k: v for k, v in s["attrs"].items() if k not in ("is_stream", "key") and isinstance(v, str)}
    known = {f["key"] for f in s["fields"] if not f["flags"] & 5} | set(attrs)
    d_known = {k: v for k, v in d.items() if k in known}
    rest = check_struct(sidx, d_known, objs_in)

    def chk(r):
        if r[0] != "OK":
            return "%s %s" % (r[0], r[1])
        f = r[1]
        if f[0] != b"ok":
            return "well-typed dictionary rejected: " + f[0].decode("latin-1")
        if len(f) < 3:
            return "value built from typed fields only cannot be written: " + f[1].decode("latin-1")
        w1 = T.uncanon(f[1])
        for k, v in attrs.items():
            want = Name(v.rstrip("?"))
            if k == "Type" and v.endswith("?") and k not in w1:
                continue
            if k not in w1:
                why = "the dictionary written for a %s value whose catch-all field is empty lacks the entry /%s /%s its schema states" % (s["name"], k, v.rstrip("?"))
                if len(f) > 3 and f[3] != b"ok":
                    why += "; it cannot be read back as %s: %s" % (s["name"], f[3].decode("latin-1"))
                return why
            if canon(w1[k]) != canon(want):
                return "entry /%s of the written %s is %r, its schema states /%s" % (k, s["name"], w1[k], v.rstrip("?"))
        for k in w1:
            if k not in known:
                return "entry /%s written although the catch-all field was emptied" % k
        return rest(r)
    return chk


def fresh_cases(rng, tier):
    n = 12 if tier == "quick" else 200
    for i, s in enumerate(S().structs):
        if s["name"] not in FRESH_TYPES or not (s["read"] and s["write"]):
            continue
        for j in range(n):
            G = T.Gen(S(), rng)
            d = G.struct(i, extras=(j % 2 == 0))
            yield Case("typed_fresh", fields_line(s["name"], d, G.objs), check=check_fresh(i, d, list(G.objs)), model=False,
                       tags=["struct:" + s["name"], "fresh"] + (["check-attrs"] if len([k for k in s["attrs"] if k not in ("Type", "is_stream", "key")]) else []))


def generate(rng, tier):
    _COV.clear()
    _FORM_ONLY.clear()
    yield Case("typed_types", [], check=lambda r: None, model=False, tags=["types"])
    n = 40 if tier == "quick" else 700
    for i, s in enumerate(S().structs):
        if not (s["read"] and s["write"]):
            continue
        yield from struct_cases(rng, i, n, tier)
    yield from fresh_cases(rng, tier)
    yield from container_cases(rng, tier)
    yield from stream_cases(rng, tier)
    yield from font_cases(rng, tier)
    yield from hand_cases(rng, tier)
    yield from encoding_cases(rng, tier)
    for _ in range(40 if tier == "quick" else 600):          # explicit destinations: outside the Coq model
        G = T.Gen(S(), rng)
        v = G.action(dests=True)
        yield Case("typed_roundtrip", fields_line("Action", v, []), check=check_hand(v, []), model=not isinstance(v.get("D"), list),
                   tags=["hand:Action"])
    for h, hid in T.MODELLED_HAND.items():
        if h == "Encoding":
            continue                                             # hand_cases: boundary generators + the standard's written form
        for _ in range(80 if tier == "quick" else 1500):
            G = T.Gen(S(), rng)
            v = G.prim([33, hid], allow_ref=False)
            yield Case("typed_roundtrip", fields_line(h, v, G.objs), check=check_hand(v, list(G.objs)), tags=["hand:" + h])
        for v in ([None, 1, Name("x"), [], [1, 2, 3], [1, 2, 3, Name("a")], [1, 2, 3, 4, 5, 6, 7], b"D:", b"D:19", b"x", b"D:+123",
                   b"D:2020+1", b"D:20201301", b"D:2020Zabcdef", b"D:2020010203040506070809", b"D:0000", b"D:20200102-", Ref(1)]):
            yield Case("typed_roundtrip", fields_line(h, v, [[1, 2, 3, 4]]), tags=["hand:" + h, "mutant"], kind="malformed")


def same(a, b):
    from vplib.api import same_result
    if a == ("ERR", "UnknownType"):
        return True
    return same_result(a, b)


def nontrivial(c):
    return len(c.fields) >= 2 and len(c.fields[1]) > 2


def classify(case, impl, model):
    tags = case.tags
    if "class:stream-direct" in tags and impl and impl[0] == "OK":
        # attributed to the open finding only when directness is the ONLY defect: the form itself (string below 100 bytes,
        # stream from 100 on, data, second write) must be the standard's
        form = _FORM_ONLY.get(case.key())
        return "C15-i" if form is not None and form(impl) is None else None
    return None


def witness_case(f, c):
    if c.mode == "typed_roundtrip":
        name = c.fields[0].decode()
        v = T.uncanon(c.fields[1])
        objs = [T.uncanon(x) for x in c.fields[2:]]
        if name.startswith("Stream<"):
            c.check, c.model = check_stream(v, name != "Stream<()>"), False
        elif name == "Encoding" and not any(t.startswith("witness:") for t in c.tags):
            c.check, c.model = check_encoding(v), False
        elif name == "Font":
            c.check, c.model = check_font(v), False
            c.tags.add("class:font-other")
        elif f["id"] == "C15-i":
            c.tags.update(["class:stream-direct", "hand:" + name])
            c.check, c.model = check_written(v, v, c.tags), False
            _FORM_ONLY[c.key()] = check_written(v, v, [t for t in c.tags if t != "class:stream-direct"])
        elif name == "NameTree<Primitive>":
            c.check = check_hand(v, objs)
            c.tags.add("hand:NameTree<Primitive>")
        elif name in T.MODELLED_HAND:
            c.check = check_hand(v, objs)
        else:
            idx = [i for i, s in enumerate(S().structs) if s["name"] == name][0]
            c.check = check_struct(idx, v, objs)
        if f.get("expect_write_refused"):
            c.check = lambda r: None if (r[0] == "OK" and len(r[1]) == 2 and r[1][1].startswith(b"!")) else "writer did not refuse: %r" % (r,)
    return c


def coverage_extra(cases, impl, model):
    names = None
    for c, r in zip(cases, impl):
        if c.mode == "typed_types" and r and r[0] == "OK":
            names = [x.decode() for x in r[1]]
    derived = [s["name"] for s in S().structs]
    uncovered = [n for n in derived if names is not None and n not in names]
    both = sum(1 for v in _COV.values() if v == {True, False} or v == {True})
    missed = ["%s.%s" % k for k, v in sorted(_COV.items()) if True not in v]
    no_model = sorted(set(t[len("struct:"):] for c in cases if not c.model for t in c.tags if t.startswith("struct:")))
    return {"derived_types": len(derived), "harness_dispatch": names or [], "derived_types_uncovered_by_harness": uncovered,
            "fields_measured": len(_COV), "fields_seen_present": both, "fields_never_present": missed,
            "structs_judged_by_spec_only": no_model}
