"""C15 — typed objects round-trip through their dictionary form without losing entries."""
from vplib.api import Case, ok, err
from oracle import typed as T
from oracle.canon import canon
from oracle.pdfwriter import Name, Ref

ID = "C15"
LEVEL = "proof"
DESIGN_REF = "DESIGN.md §9 C15, §12.C15"
COQ_TARGETS = ["Properties/C15", "Pins/C15"]
THEOREMS = [("PdfV.Properties.C15", n) for n in
            ["C15_value_rt", "C15_fields_rt", "C15_dict_rt", "C15_generated_wf", "C15_generated_indirect",
             "C15_generated_value_rt", "C15_hand_Rectangle", "C15_hand_Matrix"]]
import os as _os
if _os.environ.get("VP_DEV_NOTHM"):      # development only: correspondence without the proof targets
    COQ_TARGETS, THEOREMS = ["Typed/Run"], []
ANCHORS = ["pdf_derive"]
MODES = ["typed_roundtrip"]
TRUSTED_BASE = ["coqc 8.16.1 kernel (vm_compute for the schema well-formedness lemma and finite sweeps; no native_compute)",
                "gen/extract_typed.py (regenerates the schema of every #[derive(Object, ObjectWrite)] item into Gen/Generated.v)",
                "Extraction + ExtrOcamlBasic, ocamlfind ocamlopt 4.13.1, coq/driver/main.ml",
                "harness pdfh (Rust: modes/typed.rs), tools/vplib, tools/oracle/typed.py (equivalences of the property text, ISO 32000-1 date syntax)"]
ASSUMPTIONS = ["dictionary key order is not observable (IndexMap::swap_remove / HashMap order abstracted; both sides print sorted keys)",
               "hand-written pairs outside Date/Rectangle/Matrix are a parameter of the generic theorems (premise hand_law); their fields are left out by the generator",
               "the proc-macro expansion is modelled (interpreter over the extracted schemas) and tied by correspondence, not verified",
               "i32 -> f32 conversion (`as f32`) is the round-to-nearest-even function Prim.f32_of_i32 (compared bit-exactly on every case)"]
RULE = ("per derived struct with reader and writer: random well-typed field assignments (present/absent optionals, defaults, "
        "one-or-many, nested models, references to objects, unknown extra keys, shuffled key order), one case per field forced "
        "present and one forced absent, ill-typed mutants (model comparison only); hand-written Date/Rectangle/Matrix values; "
        "judged against the property text (second write identical, every input entry preserved up to the stated equivalences) "
        "and against the extracted Coq interpreter; non-trivial = dictionary with at least one entry; distinct by input line")

_S = None
_COV = {}


def S():
    global _S
    if _S is None:
        _S = T.schemas()
    return _S


def fields_line(name, d, objs):
    return [name.encode(), canon(d)] + [canon(o) for o in objs]


def check_struct(sidx, d, objs_in):
    s = S().structs[sidx]
    has_other = any(f["flags"] & 1 for f in s["fields"])
    bykey = {f["key"]: f for f in s["fields"] if not f["flags"] & 5}
    indirect = {f["key"] for f in s["fields"] if f["flags"] & 2}

    def chk(r):
        if r == ("ERR", "UnknownType"):
            return None                 # a derived type the harness cannot name: reported as uncovered, not judged
        if r[0] != "OK":
            return "%s %s" % (r[0], r[1])
        f = r[1]
        if f[0] != b"ok":
            return "well-typed dictionary rejected: " + f[0].decode("latin-1")
        if len(f) < 3:
            return "value read from a well-typed dictionary cannot be written: " + f[1].decode("latin-1")
        if len(f) < 4 or f[3] != b"ok":
            return "written form cannot be read back: " + (f[3].decode("latin-1") if len(f) > 3 else "?")
        if len(f) < 6:
            return "re-read value cannot be written: " + f[4].decode("latin-1")
        w1, c1, w2, c2 = (T.uncanon(x) for x in (f[1], f[2], f[4], f[5]))
        n0 = len(objs_in) + 1
        objs = {i + 1: o for i, o in enumerate(list(objs_in) + c1 + c2)}
        # 1. the re-read value writes to the identical primitive form (references to objects the writer itself
        #    created for `indirect` fields are compared by content)
        if set(w1) != set(w2):
            return "second write has different keys: %r vs %r" % (sorted(w1), sorted(w2))
        for k in w1:
            a, b = w1[k], w2[k]
            if canon(a) == canon(b):
                continue
            if k in indirect and isinstance(a, Ref) and isinstance(b, Ref) and a.num >= n0 and b.num >= n0 \
                    and canon(objs.get(a.num)) == canon(objs.get(b.num)):
                continue
            return "second write differs at /%s: %r vs %r" % (k, a, b)
        if not indirect and (c1 or c2):
            return "writer created objects without an indirect field"
        # an entry the writer adds for an absent key must carry the standard's default
        for k in w1:
            if k not in d and (s["name"], k) in T.SPEC_DEFAULTS and not T.equiv(T.SPEC_DEFAULTS[(s["name"], k)], w1[k], objs):
                return "entry /%s added with %r, the standard's default is %r" % (k, w1[k], T.SPEC_DEFAULTS[(s["name"], k)])
        # 2. every entry of the input is preserved (models that keep unrecognised entries)
        if has_other:
            for k, v in d.items():
                if v is None:
                    continue
                fd = bykey.get(k)
                if fd is not None and fd["ty"][0] == 22 and v == {}:
                    continue                       # an empty map is the omitted default of a HashMap field
                if fd is not None and fd["ty"][0] == 20 and fd["ty"][1] == 22 and v == {}:
                    continue
                if k not in w1:
                    return "entry /%s lost" % k
                if not T.equiv(v, w1[k], objs):
                    return "entry /%s changed: %r -> %r" % (k, v, w1[k])
            for k in w1:
                if k in d or k == "Type" or k in s["attrs"]:
                    continue
                fd = bykey.get(k)
                if fd is not None and fd["ty"][0] == 21 and w1[k] == []:
                    continue                       # absent one-or-many field = empty array
                if fd is None or fd["default"][0] == 0:
                    return "entry /%s invented" % k
                sd = T.SPEC_DEFAULTS.get((s["name"], k))
                if sd is not None and not T.equiv(sd, w1[k], objs):
                    return "entry /%s added with %r, the standard's default is %r" % (k, w1[k], sd)
        return None
    return chk


def check_hand(v, objs_in):
    def chk(r):
        if r[0] != "OK":
            return "%s %s" % (r[0], r[1])
        f = r[1]
        if f[0] != b"ok" or len(f) < 6 or f[3] != b"ok":
            return "round trip failed: " + b" ".join(f[:5]).decode("latin-1")
        if f[1] != f[4]:
            return "second write differs"
        objs = {i + 1: o for i, o in enumerate(objs_in)}
        if not T.equiv(v, T.uncanon(f[1]), objs):
            return "value changed: %r -> %r" % (v, T.uncanon(f[1]))
        return None
    return chk


WRONG = [None, 7, -1, 2.5, True, Name("Bogus"), b"str", [], [Name("x"), 1], {}, {"a": 1}, Ref(99)]


def struct_cases(rng, sidx, n_random, tier):
    s = S().structs[sidx]
    name = s["name"]
    fields = [f for f in s["fields"] if not f["flags"] & 5]

    def one(force=None, tag="random"):
        G = T.Gen(S(), rng)
        d = G.struct(sidx, force=force)
        model = not T.required_unmodelled(G, sidx) and G.modelled([30, sidx])
        present = set(d)
        for f in fields:
            _COV.setdefault((name, f["name"]), set()).add(f["key"] in present)
        return Case("typed_roundtrip", fields_line(name, d, G.objs), check=check_struct(sidx, d, list(G.objs)),
                    model=model, tags=["struct:" + name, tag]), d, G

    for _ in range(n_random):
        yield one()[0]
    G0 = T.Gen(S(), rng)
    for f in fields:
        if G0.modelled(f["ty"]) or not G0.optional(f):
            yield one({f["name"]: True}, "forced-present")[0]
        if G0.optional(f):
            yield one({f["name"]: False}, "forced-absent")[0]
    # ill-typed mutants: error paths, judged against the model only
    mfields = [f for f in fields if G0.modelled(f["ty"])]
    for _ in range(6 if tier == "quick" else 40):
        c, d, G = one(tag="mutant-base")
        d = dict(d)
        k = rng.randrange(4)
        if k == 0 and mfields:
            f = rng.choice(mfields)
            d[f["key"]] = rng.choice(WRONG)
        elif k == 1 and d:
            del d[rng.choice(list(d))]
        elif k == 2:
            d["Type"] = rng.choice([Name("Wrong"), 3, None])
        else:
            for key in list(s["attrs"]):
                if key not in ("Type", "is_stream", "key"):
                    d[key] = rng.choice([Name("Wrong"), 1])
            if mfields:
                f = rng.choice(mfields)
                d[f["key"]] = Ref(rng.choice([0, 77, len(G.objs) + 1]))     # dangling / free
        yield Case("typed_roundtrip", fields_line(name, d, G.objs), model=c.model, tags=["struct:" + name, "mutant"], kind="malformed")


def generate(rng, tier):
    _COV.clear()
    yield Case("typed_types", [], check=lambda r: None, model=False, tags=["types"])
    n = 40 if tier == "quick" else 700
    for i, s in enumerate(S().structs):
        if not (s["read"] and s["write"]):
            continue
        yield from struct_cases(rng, i, n, tier)
    for h, hid in T.MODELLED_HAND.items():
        for _ in range(80 if tier == "quick" else 1500):
            G = T.Gen(S(), rng)
            v = G.prim([33, hid], allow_ref=False)
            yield Case("typed_roundtrip", fields_line(h, v, G.objs), check=check_hand(v, list(G.objs)), tags=["hand:" + h])
        for v in ([None, 1, Name("x"), [], [1, 2, 3], [1, 2, 3, Name("a")], [1, 2, 3, 4, 5, 6, 7], b"D:", b"D:19", b"x", b"D:+123",
                   b"D:2020+1", b"D:20201301", b"D:2020Zabcdef", b"D:2020010203040506070809", b"D:0000", b"D:20200102-", Ref(1)]):
            yield Case("typed_roundtrip", fields_line(h, v, [[1, 2, 3, 4]]), tags=["hand:" + h, "mutant"], kind="malformed")


def same(a, b):
    from vplib.api import same_result
    if a == ("ERR", "UnknownType"):
        return True
    return same_result(a, b)


def nontrivial(c):
    return len(c.fields) >= 2 and len(c.fields[1]) > 2


def classify(case, impl, model):
    return None


def witness_case(f, c):
    if c.mode == "typed_roundtrip" and f.get("status") == "fixed":
        name = c.fields[0].decode()
        v = T.uncanon(c.fields[1])
        objs = [T.uncanon(x) for x in c.fields[2:]]
        if name in T.MODELLED_HAND:
            c.check = check_hand(v, objs)
        else:
            idx = [i for i, s in enumerate(S().structs) if s["name"] == name][0]
            c.check = check_struct(idx, v, objs)
        if f.get("expect_write_refused"):
            c.check = lambda r: None if (r[0] == "OK" and len(r[1]) == 2 and r[1][1].startswith(b"!")) else "writer did not refuse: %r" % (r,)
    return c


def coverage_extra(cases, impl, model):
    names = None
    for c, r in zip(cases, impl):
        if c.mode == "typed_types" and r and r[0] == "OK":
            names = [x.decode() for x in r[1]]
    derived = [s["name"] for s in S().structs]
    uncovered = [n for n in derived if names is not None and n not in names]
    both = sum(1 for v in _COV.values() if v == {True, False} or v == {True})
    missed = ["%s.%s" % k for k, v in sorted(_COV.items()) if True not in v]
    no_model = sorted(set(t[len("struct:"):] for c in cases if not c.model for t in c.tags if t.startswith("struct:")))
    return {"derived_types": len(derived), "harness_dispatch": names or [], "derived_types_uncovered_by_harness": uncovered,
            "fields_measured": len(_COV), "fields_seen_present": both, "fields_never_present": missed,
            "structs_judged_by_spec_only": no_model}
