"""C10 — documents built from scratch reload with the same pages and are valid PDF."""
import os, subprocess
from vplib.api import Case, ok, err, hexf, parse_result
from vplib import core
from oracle.pdfwriter import Name
from oracle.canon import canon
from oracle import validate

ID = "C10"
LEVEL = "proof"
DESIGN_REF = "DESIGN.md §9 C10, §12.C10"
COQ_TARGETS = ["Properties/C10", "Pins/C10", "Storage/RunValid", "Storage/RunBuild"]
THEOREMS = [("PdfV.Properties.C10", n) for n in ["C10_offsets", "C10_xref_consistent", "C10_startxref", "C10_valid_struct", "C10_reload", "C10_load", "C10_build_state"]]
ANCHORS = ["file.rs", "xref.rs"]
MODES = ["accepts", "build_bytes"]
TRUSTED_BASE = ["coqc 8.16.1 kernel (vm_compute for examples and table lemmas)",
                "gen/extract_storage.py (literals of save / write_stream / byte_len)",
                "Extraction + ExtrOcamlBasic, ocamlfind ocamlopt 4.13.1, coq/driver/main.ml (the extracted valid_code is run on the implementation's bytes)",
                "harness pdfh (modes build, accepts), tools/vplib, tools/oracle/validate.py (python twin of Storage/Valid.v), tools/oracle/canon.py"]
ASSUMPTIONS = ["PdfBuilder/CatalogBuilder are the Gallina program Storage/Builder.v: build for arbitrary page lists (operations as the already serialised content stream: serialize_ops is C08's; default Resources; no metadata/lgi/vp); mode build_bytes compares its bytes with the real builder's byte for byte",
               "C10_reload: the values the caller supplies are in C04's storable domain (page_ok, info_ok); `reloaded` = a state over the built bytes whose table is the saved table (what load produces: C09_load_table)",
               "C10_valid_struct is the structural statement valid_struct (Prop, on the bytes and the table the xref stream encodes); the *executable* validator valid_code (own tokeniser over every object body, reference and /Length checks) is evaluated (extracted Coq + python twin) on every generated document, not proved universally (C10_full_statement is stated, not proved)"]
LEVEL_NOTE = ("proved: offsets of saved objects point at their headers, /W /Index /Length of the xref stream are consistent and decode to the table, "
              "startxref announces the xref stream object (all for every well-formed state); evaluated on every case: the complete structural validator "
              "(Coq, extracted) and its python twin on the real bytes, and the reload view against the builder's input")
RULE = ("documents of 0-8 pages; per page optional Media/Crop/TrimBox (integral and dyadic-fraction coordinates), rotation, an operation "
        "sequence over a fixed 13-letter alphabet (C08 owns the operator round trip), 0-3 extra dictionary entries; information dictionary "
        "absent / empty / any subset of the six text entries; each document built by the real PdfBuilder, reloaded cached and uncached and "
        "compared with the input, and its bytes judged by both validators; non-trivial = at least one page; distinct by (pages, info)"
        " documents padded (title length) until the real builder's startxref is exactly 255, 256, 257 and 65535, 65536, 65537 (column widths of the cross-reference stream at powers of 256)")
CASE_TIMEOUT = 20.0
OPS = "qQBESfFnhmlMwLTUN"
INFO_KEYS = ["Title", "Author", "Subject", "Keywords", "Creator", "Producer"]


def fnum(x):
    # Rust's {} of an f32 for the values used here (integral or dyadic fractions)
    s = repr(float(x))
    return s[:-2] if s.endswith(".0") else s


def rect(rng):
    k = rng.randrange(4)
    if k == 0:
        return None
    c = [rng.choice([0, 0, 10, 36]), rng.choice([0, 0, 20]), rng.choice([612, 595, 100.5, 200.25]), rng.choice([792, 842, 300, 150.75])]
    if k == 1:
        c = [float(int(v)) for v in c]
    return c


def rtext(r):
    return "-" if r is None else ",".join(fnum(v) for v in r)


def gen_other(rng):
    d = {}
    for _ in range(rng.randrange(4)):
        k = rng.choice(["X", "Yk", "UserUnit", "Tabs", "PieceInfo", "Zz9"])
        d[k] = rng.choice([5, True, Name("S"), b"str", [1, 2, Name("a")], {"In": 1}, 1.5])
    return d


def gen_doc(rng):
    pages = []
    for _ in range(rng.choice([0, 1, 1, 2, 3, 5, 8])):
        mb = rect(rng) or [0, 0, 612, 792]       # the page tree built by CatalogBuilder has no inheritable MediaBox
        ops = "".join(rng.choice(OPS) for _ in range(rng.choice([0, 1, 3, 8, 20])))
        pages.append({"mb": mb, "cb": rect(rng), "tb": rect(rng), "rot": rng.choice([0, 0, 90, 180, 270, -90]), "ops": ops, "other": gen_other(rng)})
    k = rng.randrange(4)
    if k == 0:
        info = None
    elif k == 1:
        info = {}
    else:
        info = {key: bytes(rng.choice([rng.randrange(32, 127), rng.randrange(128, 256), 40, 41, 92]) for _ in range(rng.randint(0, 12)))
                for key in INFO_KEYS if rng.randrange(2)}
    return pages, info


def page_line(p):
    return ("mb=%s cb=%s tb=%s rot=%d ops=%s other=" % (rtext(p["mb"]), rtext(p["cb"]), rtext(p["tb"]), p["rot"], p["ops"] or "-")).encode() + canon(p["other"])


# content.rs: serialize_ops on the 13-letter alphabet of harness op_of (the operator round trip itself is C08's)
OP_TEXT = {"q": b"q\n", "Q": b"Q\n", "B": b"BT\n", "E": b"ET\n", "S": b"S\n", "f": b"f\n", "F": b"f*\n", "n": b"n\n", "h": b"h\n",
           "s": b"s\n", "m": b"10 20 m\n", "l": b"30.5 40 l\n", "M": b"0 -7.25 m\n", "w": b"2.5 w\n",
           # text positioning: Leading 12, Td (5,-12), Td (5,12), T*; "D" = the folded pair Leading 12 + Td (5,-12), written `5 -12 TD`
           "L": b"12 TL\n", "T": b"5 -12 Td\n", "U": b"5 12 Td\n", "N": b"T*\n", "D": b"5 -12 TD\n"}


def model_page_line(p):
    # serialize_ops writes Close directly followed by Stroke as the single operator `s`
    # … and Leading{l} directly followed by MoveTextPosition{(x, -l)} as `x -l TD` (NOT when y = +l: that pair stays two operators)
    ct = b"".join(OP_TEXT[c] for c in p["ops"].replace("hS", "s").replace("LT", "D"))
    return ("mb=%s cb=%s tb=%s rot=%d ct=%s other=" % (rtext(p["mb"]), rtext(p["cb"]), rtext(p["tb"]), p["rot"], ct.hex())).encode() + canon(p["other"])


def info_text(info):
    if info is None:
        return b"-"
    return b"".join(k.encode() + b"=" + v.hex().encode() + b"\n" for k, v in info.items())


def check_build(pages, info):
    def chk(r):
        if r[0] != "OK":
            return "the builder or the reload failed: %s %s" % (r[0], r[1])
        out = r[1]
        code = validate.valid_code(out[0])
        if code != 0:
            return "the produced bytes are not a valid PDF file: check %d (%s)" % (code, validate.explain(code))
        if not out[0].startswith(b"%PDF-"):
            return "header is not first"
        if int(out[1]) != len(pages):
            return "%d pages built, %s pages after reload" % (len(pages), out[1].decode())
        for i, p in enumerate(pages):
            if out[2 + i] != page_line(p):
                return "page %d differs after reload: %r instead of %r" % (i, out[2 + i][:120], page_line(p)[:120])
        want = info_text(info) if info is not None else b"-"
        got = out[2 + len(pages)]
        if got != want:
            return "information dictionary differs after reload: %r instead of %r" % (got[:80], want[:80])
        return None
    return chk


def check_accepts(data):
    def chk(r):
        code = validate.valid_code(data)
        if code != 0:
            return "structural check %d fails on the produced bytes: %s" % (code, validate.explain(code))
        if r[0] != "OK" or r[1] != [b"0"]:
            return "the library does not open its own output: %s %s" % (r[0], r[1])
        return None
    return chk


def _pdfh():
    return os.path.join(core.HARNESS, "target", "debug", "pdfh")


def _startxref(data):
    i = data.rfind(b"startxref")
    try:
        return int(data[i + 9:].split()[0])
    except (ValueError, IndexError):
        return None


def boundary_docs(rng):
    out = []
    blank = {"mb": [0, 0, 612, 792], "cb": None, "tb": None, "rot": 0, "ops": "", "other": {}}
    for target, pages in ((256, []), (65536, [dict(blank, ops="".join(rng.choice("qQmlw") for _ in range(9000)))])):
        n, hit = 0, None
        for _ in range(6):
            info = {"Title": b"A" * n}
            f = [b"u", b"\n".join(page_line(p) for p in pages), info_text(info)]
            r = core.run_parallel(_pdfh(), ["build " + " ".join(hexf(x) for x in f)], per_case_timeout=20.0)[0]
            if r is None or r[0] != "OK" or not r[1]:
                break
            sx = _startxref(r[1][0])
            if sx is None:
                break
            if sx == target:
                hit = n
                break
            n = n + (target - sx)
            if n < 0:
                break
        if hit is not None:
            for dn in (-1, 0, 1):
                if hit + dn >= 0:
                    out.append(([dict(p) for p in pages], {"Title": b"A" * (hit + dn)}))
    return out


def generate(rng, tier):
    n = 60 if tier == "quick" else 1500
    docs = [([], None), ([], {})] + [gen_doc(rng) for _ in range(n)]
    # documents larger than 64 KiB and larger than 16 MiB/256: offsets need 3 bytes in the xref stream (field widths)
    for k in range(2 if tier == "quick" else 12):
        pages, info = gen_doc(rng)
        while len(pages) < 3:
            pages.append({"mb": [0, 0, 612, 792], "cb": None, "tb": None, "rot": 0, "ops": "", "other": {}})
        for p in pages[:3]:
            p["ops"] = "".join(rng.choice(OPS) for _ in range(rng.choice([12000, 20000, 35000])))
        docs.append((pages, info))
    # a cross-reference stream that starts exactly at a power of 256 (the largest offset of the table is its own: the column width of
    # XRefTable::write_stream / byte_len changes there): the title is padded until `startxref` is 255, 256, 257 resp. 65535, 65536, 65537
    bdocs = boundary_docs(rng)
    bset = set(id(d) for d in bdocs)
    docs += bdocs
    lines = []
    for pages, info in docs:
        f = [b"u", b"\n".join(page_line(p) for p in pages), info_text(info)]
        lines.append(f)
    # the real builder's bytes are needed as the *input* of the validator cases
    res = core.run_parallel(_pdfh(), ["build " + " ".join(hexf(x) for x in f) for f in lines], per_case_timeout=20.0)
    for pi, f, r in zip(docs, lines, res):
        pages, info = pi
        tags = ["pages:%d" % len(pages), "info:%s" % ("none" if info is None else len(info))]
        if id(pi) in bset:
            tags.append("startxref-boundary")
        for opt in (b"u", b"c"):
            yield Case("build", [opt] + f[1:], check=check_build(pages, info), model=False, tags=tags + ["cache:" + opt.decode()])
        if r is not None and r[0] == "OK" and r[1]:
            data = r[1][0]
            # the builder model (Storage/Builder.v: the Gallina program C10_valid_struct / C10_reload are about) must
            # produce the very bytes the real PdfBuilder produces
            if sum(len(p["ops"]) for p in pages) < 4000:
                yield Case("build_bytes", [b"u"] + f[1:], expect=ok(data), model=True,
                           mfields=[b"\n".join(model_page_line(p) for p in pages), info_text(info)], tags=tags + ["builder-model"])
            yield Case("accepts", [data], check=check_accepts(data), model=len(data) < 60000, tags=tags + ["validator"])


def nontrivial(c):
    return (c.mode == "build" and len(c.fields[1]) > 0) or (c.mode == "accepts" and c.fields[0].count(b"/Type /Page\n") > 0)


def classify(case, impl, model):
    return None


def always(case, r):
    if r[0] in ("PANIC", "ABORT", "TIMEOUT"):
        return "the implementation %s: %s" % (r[0], r[1])
    return None


def witness_case(f, c):
    return c
