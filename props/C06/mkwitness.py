#!/usr/bin/env python3
"""regenerates the witness inputs stored in known_findings/C06.json (run from the verif root):
   python3 props/C06/mkwitness.py > /dev/null   prints nothing but rewrites the witness fields in place."""
import json, os, sys
ROOT = os.path.abspath(os.path.join(os.path.dirname(__file__), "..", ".."))
sys.path.insert(0, os.path.join(ROOT, "tools"))
sys.path.insert(0, os.path.dirname(__file__))
from vplib.api import Case
import prop as P

path = os.path.join(ROOT, "known_findings", "C06.json")
data = json.load(open(path))
for f in data["findings"]:
    stub = Case("x", [], kind="witness")
    w = P.witness_case(f, stub)
    if w is stub:
        continue
    f["witness"] = {"mode": w.mode, "fields_hex": [x.hex() for x in w.fields]}
with open(path, "w") as fh:
    json.dump(data, fh, indent=1)
    fh.write("\n")
