"""props/C06/mirror.py — python port of coq/theories/Crypt/Model.v, used ONLY to enumerate the oracle queries
(MD5 / SHA-2 / AES-CBC / SASLprep / zlib) the Gallina model will make on a case, so that the case can carry
their answers.  It judges nothing: the implementation is judged against tools/oracle/security.py (spec) and
against the extracted Gallina model.  If this port and the model ever disagree on which queries are made the
model answers Err 99 and the run stops as CHECK-BROKEN."""
import hashlib, zlib
from oracle import security as S



def _generated_padding():
    """the model is parameterised by the PADDING regenerated from crypt.rs (Gen/Generated.v); its oracle queries are
    enumerated with the same value (the spec oracle keeps the standard's string, so a changed table shows as impl != spec)"""
    import os, re
    try:
        g = open(os.path.join(os.path.dirname(os.path.abspath(__file__)), "..", "..", "coq", "theories", "Gen", "Generated.v")).read()
        m = re.search(r"Definition PADDING : list N := \[([^\]]*)\]", g)
        v = bytes(int(x) for x in m.group(1).split(";") if x.strip())
        return v if v else S.PAD
    except Exception:
        return S.PAD


_PAD = None


def PAD():
    """read lazily: the plugin is imported before the translator has regenerated Gen/Generated.v"""
    global _PAD
    if _PAD is None:
        _PAD = _generated_padding()
    return _PAD
M_NONE, M_V2, M_AESV2, M_AESV3 = 0, 1, 2, 3
_AES_CACHE = {}


class MErr(Exception):
    pass


class MPanic(Exception):
    pass


class MFuel(Exception):
    pass


def _aes(kind, k, iv, x):
    key = (kind, bytes(k), bytes(iv), bytes(x))
    r = _AES_CACHE.get(key)
    if r is None:
        r = (S.aes_cbc_enc if kind == "e" else S.aes_cbc_dec)(bytes(k), bytes(iv), bytes(x))
        if len(_AES_CACHE) > 4000:
            _AES_CACHE.clear()
        _AES_CACHE[key] = r
    return r


class Rec:
    def __init__(self):
        self.t = {}

    def _put(self, tag, args, out):
        self.t[(tag, tuple(bytes(a) for a in args))] = bytes(out)
        return bytes(out)

    def md5(self, x):
        return self._put(b"m", [x], hashlib.md5(bytes(x)).digest())

    def sha256(self, x):
        return self._put(b"2", [x], hashlib.sha256(bytes(x)).digest())

    def sha384(self, x):
        return self._put(b"3", [x], hashlib.sha384(bytes(x)).digest())

    def sha512(self, x):
        return self._put(b"5", [x], hashlib.sha512(bytes(x)).digest())

    def enc(self, k, iv, x):
        return self._put(b"e", [k, iv, x], _aes("e", k, iv, x))

    def dec(self, k, iv, x):
        return self._put(b"d", [k, iv, x], _aes("d", k, iv, x))

    def prep(self, x):
        p = S.saslprep_bytes(x)
        self._put(b"p", [x], b"0" if p is None else b"1" + p)
        return p

    def zlib(self, x):
        try:
            return self._put(b"z", [x], zlib.decompress(bytes(x)))
        except zlib.error:
            raise MErr(9)

    def fields(self):
        out = []
        for (tag, args), o in self.t.items():
            out.append(tag)
            out.extend(args)
            out.append(o)
        return out


def rc4(key, data):
    if not 1 <= len(key) <= 256:
        raise MPanic(601)
    return S.rc4(key, data)


def pad_password(pw):
    return pw + PAD()[:32 - len(pw)] if len(pw) < 32 else pw[:32]


def xor_key(k, i):
    return bytes(b ^ i for b in k)


def compute_u(rec, rev, id0, key):
    if rev == 2:
        return rc4(key, PAD())
    d = rc4(key, rec.md5(PAD() + id0))
    for i in range(1, 20):
        d = rc4(xor_key(key, i), d)
    return d


def check_password(rec, rev, u, id0, key):
    c = compute_u(rec, rev, id0, key)
    return c == u if rev == 2 else u[:len(c)] == c


def kd_user(rec, rev, ks, d, id0, pw):
    em = True if d["em"] is None else d["em"]
    data = rec.md5(pad_password(pw) + d["O"] + (d["P"] & 0xFFFFFFFF).to_bytes(4, "little") + id0
                   + (b"\xff" * 4 if rev >= 4 and not em else b""))
    if rev >= 3:
        for _ in range(50):
            data = rec.md5(data[:min(ks, 16)])
    return data + bytes(max(ks, 16) - 16)


def kd_owner(rec, rev, ks, pw):
    if ks > 16:
        raise MErr(9)
    h = rec.md5(pad_password(pw))
    if rev >= 3:
        for _ in range(50):
            h = rec.md5(h)
    return h[:ks]


def crypt_filter_of(d, name):
    if name is None or name == b"Identity":
        return None, M_NONE
    f = None
    for (n, m, l) in d["cf"]:
        if n == name:
            f = (m, l)
            break
    if f is None:
        raise MErr(9)
    bits = 40 if d["bits"] is None else d["bits"]
    if f[1] is not None:
        if 8 * f[1] >= 1 << 32:
            raise MErr(9)
        bits = 8 * f[1]
    if f[0] in (M_V2, M_AESV2):
        return bits, f[0]
    if f[0] == M_AESV3 and d["V"] == 5:
        return bits, M_AESV3
    raise MErr(9)


def crypt_method(d):
    v = d["V"]
    bits = 40 if d["bits"] is None else d["bits"]
    if v == 1:
        return 40, M_V2, M_V2
    if v == 2:
        if bits % 8:
            raise MErr(9)
        return bits, M_V2, M_V2
    if 4 <= v <= 6:
        a = crypt_filter_of(d, d["stmf"])
        b = crypt_filter_of(d, d.get("strf"))
        return (a[0] if a[0] is not None else b[0] if b[0] is not None else bits), a[1], b[1]
    raise MErr(9)


def kdf(rec, fuel, pw, salt, u):
    inp = rec.sha256(pw + salt + u)
    block, key, iv, last, i = inp, inp[:16], inp[16:], 0, 0
    while i < 64 or i < last + 32:
        if fuel == 0:
            raise MFuel()
        fuel -= 1
        e = rec.enc(key, iv, (pw + block + u) * 64)
        bs = sum(e[:16]) % 3 * 16 + 32
        block = (rec.sha256 if bs == 32 else rec.sha384 if bs == 48 else rec.sha512)(e)
        key, iv, last = block[:16], block[16:32], e[-1]
        i += 1
    return block[:32]


def from_password(rec, d, id0, pw, fuel=200):
    bits, m, ms = crypt_method(d)
    level = d["R"]
    em = True if d["em"] is None else d["em"]
    em_eff = em or d["V"] < 4
    if not 2 <= level <= 6:
        raise MErr(9)
    if level <= 4:
        ks = bits // 8
        if ks == 0:
            raise MErr(9)
        key = kd_user(rec, level, ks, d, id0, pw)
        if check_password(rec, level, d["U"], id0, key[:min(ks, 16)]):
            return dict(size=ks, key=key, method=m, smethod=ms, em=em_eff, enc=None, meta=None)
        wrap = kd_owner(rec, level, ks, pw)
        upw = d["O"]
        for r in range(1 if level == 2 else 20):
            upw = rc4(xor_key(wrap, r), upw)
        key = kd_user(rec, level, ks, d, id0, upw)
        if check_password(rec, level, d["U"], id0, key[:ks]):
            return dict(size=ks, key=key, method=m, smethod=ms, em=em_eff, enc=None, meta=None)
        raise MErr(1)
    u, o = d["U"], d["O"]
    if len(u) != 48 or len(o) != 48:
        raise MErr(9)
    pp = rec.prep(pw)
    if pp is None:
        raise MErr(1)
    p = pp[:127]
    if d["UE"] is None or d["OE"] is None:
        raise MErr(2)
    H = (lambda salt, uu: kdf(rec, fuel, p, salt, uu)) if level == 6 else (lambda salt, uu: rec.sha256(p + salt + uu))
    if H(u[32:40], b"") == u[:32]:
        ik, wrapped = H(u[40:48], b""), d["UE"]
    elif H(o[32:40], u) == o[:32]:
        ik, wrapped = H(o[40:48], u), d["OE"]
    else:
        raise MErr(1)
    if len(wrapped) % 16:
        raise MErr(1)
    key = rec.dec(ik, bytes(16), wrapped)
    if len(key) != 32:
        raise MErr(9)
    return dict(size=32, key=key, method=m, smethod=ms, em=em_eff, enc=None, meta=None)


def dkey(dc):
    n = min(dc["size"], 16)
    if len(dc["key"]) < n:
        raise MPanic(603)
    return dc["key"][:n]


def aes_unpad(rec, keylen, key, iv, ct):
    if len(key) != keylen or len(ct) % 16:
        raise MErr(3)
    p = rec.dec(key, iv, ct)
    r = S.pkcs7_unpad(p) if p else None
    if r is None:
        raise MErr(3)
    return r


def decrypt(rec, dc, num, gen, data, string=False):
    if dc["enc"] == (num, gen):
        return data
    if not dc["em"] and dc["meta"] == (num, gen):
        return data
    if not data:
        return data
    m = dc.get("smethod", dc["method"]) if string else dc["method"]
    if m == M_NONE:
        return data
    tail = (num & 0xFFFFFF).to_bytes(3, "little") + (gen & 0xFFFF).to_bytes(2, "little")
    if m == M_V2:
        k = dkey(dc)
        ok = rec.md5(k + tail)
        return rc4(ok[:min(len(k) + 5, 16)], data)
    if m == M_AESV2:
        n = min(dc["size"], 16)
        k = dkey(dc)
        ok = rec.md5(k + tail + b"sAlT")
        if len(data) < 16:
            raise MErr(3)
        return aes_unpad(rec, 16, ok[:min(n + 5, 16)], data[:16], data[16:])
    if len(data) < 16:
        raise MErr(3)
    return aes_unpad(rec, 32, dc["key"], data[:16], data[16:])


def try_decrypt(rec, dc, num, gen, data, string=False):
    """the model may query the oracles even when it ends in an error; never raises"""
    try:
        return decrypt(rec, dc, num, gen, data, string)
    except (MErr, MPanic, ValueError):
        return None
