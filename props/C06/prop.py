"""C06 — encrypted documents yield their plaintext with either password, and only then."""
import os, zlib
from vplib.api import Case, ok, err, same_result
from oracle import security as S
from oracle import pdfwriter as W
from oracle import codecs as C
import mirror as M

ID = "C06"
LEVEL = "proof"
DESIGN_REF = "DESIGN.md §9 C06, §12.C06"
COQ_TARGETS = ["Properties/C06", "Pins/C06"]
THEOREMS = [("PdfV.Properties.C06", n) for n in [
    "C06_rc4_involution", "C06_rc4_bad_key", "C06_rc4_is_rc4", "C06_pkcs7", "C06_tables", "C06_from_password_rc4_refines", "C06_open_user_rc4",
    "C06_open_owner_rc4", "C06_wrong_pw_rc4", "C06_accepted_iff_rc4", "C06_kdf_refines", "C06_from_password_56_refines", "C06_open_user_56", "C06_open_owner_56", "C06_wrong_pw_56", "C06_accepted_iff_56",
    "C06_no_panic", "C06_decrypt_no_panic", "C06_plaintext", "C06_plaintext_string", "C06_plaintext_decode", "C06_open_user_rc4_reads", "C06_open_user_56_key", "C06_open_owner_56_key", "C06_opened_56_reads",
    "C06_exempt", "C06_full"]]
ANCHORS = ["crypt.rs"]
MODES = ["rc4", "crypt_open", "crypt_dec", "crypt_doc"]
TRUSTED_BASE = ["coqc 8.16.1 kernel (vm_compute for table lemmas and witnesses; no native_compute)",
                "gen/extract_crypt.py (regenerates PADDING, the Identity name and 52 constants of crypt.rs into Gen/Generated.v)",
                "Extraction + ExtrOcamlBasic, ocamlfind ocamlopt 4.13.1, coq/driver/main.ml",
                "harness pdfh (harness/src/modes/crypt.rs), tools/vplib (comparison)",
                "tools/oracle/security.py (writer's side of ISO 32000-1 §7.6 / 32000-2 §7.6.4; hashlib; pure-python AES and RC4 "
                "validated against FIPS-197 / RC4 vectors, the 10 encrypted sample files and RustCrypto through every case), "
                "tools/oracle/pdfwriter.py, python zlib, python stringprep/unicodedata (SASLprep)",
                "props/C06/mirror.py (enumerates the oracle queries of the model; a wrong enumeration stops the run as CHECK-BROKEN)"]
ASSUMPTIONS = ["oracle premises of the theorems (explicit hypotheses): MD5 digests have 16 bytes, SHA-256/384/512 digests 32/48/64 bytes; "
               "AES-CBC decryption inverts encryption on whole blocks and preserves length; nothing about collision resistance; "
               "the R6 theorems hold for every fuel on which Algorithm 2.B is defined (its termination is not proved)",
               "MD5, SHA-256/384/512, AES-128/256-CBC, SASLprep+UTF-8, zlib are answered from per-case tables computed by python "
               "(each table entry is also exercised against the real crates by the correspondence run)",
               "the derive-generated CryptDict::from_primitive is outside the model (the model starts from the parsed dictionary)",
               "Rust u8 wrapping arithmetic, slice bounds and u32 checked_mul as written into the model"]
RULE = ("crypt_open: handler variants R2 (40 bit), R3 (40..128 step 8), R4 (V2 / AESV2), R5, R6 (among them documents whose user validation salt makes "
        "Algorithm 2.B stop exactly on its boundary: round i >= 64 with last byte i - 32), and V4/V5 dictionaries whose /StmF and /StrF "
        "name different crypt filters (RC4 / AES-128 / AES-256 / Identity, Identity explicit or absent, both Identity) x passwords (empty, ASCII, 31/32/33/40 bytes, "
        "bytes >= 0x80, UTF-8 needing SASLprep, >127 bytes) x P x document id x EncryptMetadata x crypt-filter length spelling, opened with the user, "
        "the owner and wrong passwords, each followed by Decoder::decrypt (stream data) and Decoder::decrypt_string (strings), alternately, of payloads of lengths {0,1,15,16,17,31,32,1000} under object numbers up to "
        "2^24+ and generations up to 65536+; malformed dictionaries (key length 0, /Length overflow, bad R/V, wrong U/O/UE lengths incl. empty and 16-byte UE/OE under RC4/AESV2 filters, missing entries, "
        "non-UTF-8 passwords, two /CF entries of different /Length under every /StmF,/StrF choice); crypt_dec: Decoder::with_methods with arbitrary key/size/methods on valid and malformed ciphertexts; crypt_doc: whole files written "
        "by tools/oracle/pdfwriter.py (tables and xref streams, object streams, direct/indirect /Encrypt, metadata stream with EncryptMetadata on/off, "
        "strings nested in dictionaries/arrays, streams with no/ASCIIHex/ASCII85/Flate filters, generations > 0) read through Storage + Resolve; "
        "crypt_open_file (no model): such files (R2, R3, V4 RC4 / AESV2, R5, R6, /StmF != /StrF; /Encrypt an indirect object or a direct dictionary of the trailer, finding C06-e) opened through the public "
        "FileOptions::cached()/uncached()[.password(pw)].load with the user, the owner, two wrong and no password: accepted -> page count, "
        "typed /Info /Title and all leaves are the plaintext, otherwise -> error kind InvalidPassword; "
        "rc4: keys of 0..257 bytes.  non-trivial = at least 2 bytes of input; distinct by full case line")
CASE_TIMEOUT = 30.0
MODEL_TIMEOUT = 240.0

METH = {"V2": 1, "AESV2": 2, "AESV3": 3, "Identity": 0}
MOUT = {"V2": b"V2", "AESV2": b"AESV2", "AESV3": b"AESV3", "Identity": b"None"}
MNAME = {1: b"V2", 2: b"AESV2", 3: b"AESV3", 0: b"None"}
LENS = [0, 1, 15, 16, 17, 31, 32, 1000]


def dnum(n):
    return b"%d" % n


def opt(x):
    return b"0" if x is None else b"1" + bytes(x)


def dict_fields(d):
    fs = [dnum(d["R"]), dnum(d["V"]), dnum(d["P"]), b"x" if d["bits"] is None else dnum(d["bits"]),
          b"d" if d["em"] is None else (b"1" if d["em"] else b"0"), d["O"], d["U"], opt(d["OE"]), opt(d["UE"]), opt(d["stmf"]),
          opt(d.get("strf")), dnum(len(d["cf"]))]
    for (n, m, l) in d["cf"]:
        fs += [n, dnum(m), b"0" if l is None else b"1" + dnum(l)]
    return fs


def spec_of(h, drop_bits=False):
    d = dict(R=h.R, V=h.V, P=h.P, bits=None if drop_bits else h.n * 8, em=h.em, O=h.O, U=h.U, OE=h.OE, UE=h.UE, stmf=None, strf=None, cf=[])
    if h.V >= 4:
        stmf, strf, cfs = h.filters()
        d["stmf"], d["strf"] = stmf, strf
        d["cf"] = [(n, METH[m], l) for (n, m, l) in cfs]
    return d


def record_open(d, id0, pw, items, fuel=400, enc=None, meta=None):
    """oracle table for from_password + the listed decryptions; returns (fields, decoder or None)"""
    rec = M.Rec()
    dc = None
    try:
        dc = M.from_password(rec, d, id0, pw, fuel)
        dc["enc"], dc["meta"] = enc, meta
        M.dkey(dc)
        for it in items:
            M.try_decrypt(rec, dc, it[0], it[1], it[2], string=len(it) > 3 and it[3])
    except (M.MErr, M.MPanic):
        pass
    return rec, dc


def item_fields(items):
    """items: (num, gen, data) = stream data (Decoder::decrypt) | (num, gen, data, True) = a string (Decoder::decrypt_string)"""
    fs = [dnum(len(items))]
    for it in items:
        fs += [b"s" if len(it) > 3 and it[3] else b"t", dnum(it[0]), dnum(it[1]), it[2]]
    return fs


def open_case(d, id0, pw, items, expect=None, tags=(), fuel=400, check=None, note=""):
    try:
        rec, _ = record_open(d, id0, pw, items, fuel)
    except M.MFuel:
        return None
    base = dict_fields(d) + [id0, pw, dnum(fuel)] + item_fields(items)
    return Case("crypt_open", base, expect=expect, check=check, mfields=base + rec.fields(), tags=tags, note=note)


# ------------------------------------------------------------------------------------------------ generators
def rand_bytes(rng, n):
    return bytes(rng.randrange(256) for _ in range(n))


def payloads(rng, k):
    ls = rng.sample(LENS[:-1], min(k, len(LENS) - 1))
    out = []
    for n in ls:
        out.append(rand_bytes(rng, n) if rng.random() < 0.7 else bytes([rng.choice([0, 16, 1, 255])]) * n)
    return out


def obj_ids(rng):
    return rng.choice([(1, 0), (7, 0), (8388607, 65535), (16777216 + 7, 65536 + 3), (rng.randrange(1, 1 << 23), rng.randrange(0, 65536)),
                       (rng.randrange(1, 300), 0), (255, 255), (256, 256), (65535, 1), (65536, 2)])


PW_BYTES = [b"", b"a", b"user", b"secret password", b"x" * 31, b"y" * 32, b"z" * 33, b"0123456789" * 4, b"\xff\xfe\x80", b"p\x00q", b"(\\)"]
PW_UTF8 = [b"", b"user", b"owner-pw", "pässwörd".encode(), "Ⅸ".encode(), "I­X".encode(), "a b".encode(),
           "パスワード".encode(), b"q" * 127, b"r" * 130, "ＡＢ".encode(), "ª".encode()]
P_VALUES = [-1, -4, -3904, -44, 0, 2147483647, -2147483648, -1852]
IDS = [b"", b"\x00", b"0123456789abcdef", bytes(range(16)), b"\xde\xad\xbe\xef", bytes(range(200, 232))]


def variants(rng, tier):
    """(R, method, n, V, cf_length)"""
    vs = [(2, "V2", 5, 1, None), (2, "V2", 5, 2, None)]
    for n in range(5, 17):
        vs.append((3, "V2", n, 2, None))
    vs += [(4, "V2", 16, 4, "bytes"), (4, "V2", 16, 4, None), (4, "V2", 5, 4, "bytes"), (4, "V2", 9, 4, None),
           (4, "AESV2", 16, 4, "bytes"), (4, "AESV2", 16, 4, None), (4, "AESV2", 16, 4, "bytes"),
           (5, "AESV3", 32, 5, "bytes"), (5, "AESV3", 32, 5, None), (5, "AESV3", 32, 5, "bytes")]
    # crypt filters chosen per /StmF and /StrF (C06-b): (R, stream method, n, V, cf_length, string method, Identity entries absent)
    vs += [(4, "AESV2", 16, 4, "bytes", "V2", False), (4, "V2", 16, 4, "bytes", "AESV2", False), (4, "AESV2", 16, 4, None, "Identity", False),
           (4, "V2", 16, 4, "bytes", "Identity", True), (4, "Identity", 16, 4, "bytes", "V2", False), (4, "Identity", 16, 4, None, "AESV2", True),
           (4, "V2", 5, 4, "bytes", "Identity", False), (4, "Identity", 16, 4, "bytes", "Identity", False),
           (5, "AESV3", 32, 5, "bytes", "Identity", False), (5, "Identity", 32, 5, "bytes", "AESV3", True)]
    return vs


# (user password, user validation salt) pairs on which Algorithm 2.B stops on its boundary: the loop ends at a round i >= 64 whose last
# ciphertext byte is exactly i - 32 (found with tools/oracle/security.alg2b instrumented; about 2-3 % of all hashes).  `<` against `<=`
# in the loop condition of revision_6_kdf differs on these and on no other input.
KDF_BOUNDARY = [(b"u6", b"b0000041"), (b"u6", b"b0000049"), (b"user", b"b0000071"), (b"", b"b0000030"), ("Ⅸ own".encode(), b"b0000051"),
                (b"u6", b"b0000056"), (b"u6", b"b0000098"), (b"u6", b"b0000119"), (b"", b"b0000116"), (b"user", b"b0000000"), (b"user", b"b0000085")]


def make_handler(rng, var, upw=None, opw=None, vsalt=None):
    R, method, n, V, cfl = var[:5]
    strm, absent = (var[5], var[6]) if len(var) > 5 else (None, False)
    pws = PW_UTF8 if R >= 5 else PW_BYTES
    upw = rng.choice(pws) if upw is None else upw
    opw = rng.choice(pws) if opw is None else opw
    salts = tuple(rand_bytes(rng, 8) for _ in range(4))
    if vsalt is not None:
        salts = (vsalt,) + salts[1:]
    return S.Handler(R, method, n, upw, opw, rng.choice(P_VALUES), rng.choice(IDS), encrypt_metadata=rng.random() < 0.6,
                     salts=salts, file_key=rand_bytes(rng, 32), u_tail=rand_bytes(rng, 16), V=V, cf_length=cfl or "none",
                     str_method=strm, absent=absent)


def wrong_password(rng, h):
    pool = PW_UTF8 if h.R >= 5 else PW_BYTES
    for _ in range(20):
        w = rng.choice(pool) + rng.choice([b"", b"!", b"w"])
        if h.R >= 5:
            a, b, c = S.prep_r56(w), S.prep_r56(h.upw), S.prep_r56(h.opw)
            if a is not None and a not in (b, c):
                return w
        elif S.pad_pw(w) not in (S.pad_pw(h.upw), S.pad_pw(h.opw or h.upw)):
            return w
    return b"\x01definitely wrong\x02"


def open_cases_for(rng, h, nitems=3, tags=()):
    d = spec_of(h, drop_bits=(h.V == 1 and rng.random() < 0.5))
    plains = payloads(rng, nitems)
    if rng.random() < 0.15:
        plains.append(rand_bytes(rng, 1000))
    items, expect_items = [], []
    for i, m in enumerate(plains):
        num, gen = obj_ids(rng)
        string = (i % 2 == 1)                    # alternately stream data (/StmF) and a string (/StrF)
        items.append((num, gen, h.encrypt(num, gen, m, rand_bytes(rng, 16), string=string), string))
        expect_items.append(b"+" + m)
    exp = ok(h.file_key[:16], MOUT[h.method], MOUT[h.str_method], *expect_items)
    tg = ["open", "R%d" % h.R, h.method, "n%d" % h.n] + list(tags)
    if h.str_method != h.method:
        tg.append("strf-differs")
    out = []
    for who, pw in (("user", h.upw), ("owner", h.opw or h.upw)):
        if h.R <= 4 and len(pw) > 32 and rng.random() < 0.5:
            pw = pw[:32] + b"ignored tail"          # only the first 32 bytes of a password are significant (Algorithm 2 a)
        if h.R >= 5 and len(pw) > 127 and rng.random() < 0.5:
            pw = pw[:127] + b"tail"
        out.append(open_case(d, h.id0, pw, items, expect=exp, tags=tg + [who]))
    out.append(open_case(d, h.id0, wrong_password(rng, h), items[:1], expect=err("InvalidPassword"), tags=tg + ["wrong"]))
    return [c for c in out if c is not None]


def malformed_open_cases(rng):
    """dictionaries outside the standard: judged by model correspondence; key length 0 and /Length overflow must be errors (C14-d)"""
    out = []
    h = make_handler(rng, (3, "V2", 8, 2, None), b"u", b"o")
    base = spec_of(h)
    item = [(3, 0, b"abcdef")]

    def mk(d, pw=b"u", tags=(), id0=h.id0, check=None, expect=None, items=item):
        c = open_case(d, id0, pw, items, tags=["malformed"] + list(tags), check=check, expect=expect)
        if c is not None:
            out.append(c)

    def no_panic(r):
        return "panic on an invalid key length: %s" % r[1] if r[0] in ("PANIC", "ABORT") else (None if r[0] == "ERR" else "expected an error")

    for bits in (0, 1, 7):
        mk(dict(base, bits=bits), tags=["keylen0"], check=no_panic)
    for bits in (12, 39, 41, 127):
        mk(dict(base, bits=bits), tags=["bits-not-multiple-of-8"])
    for bits in (136, 256, 8, 16, 24, 32, 2048, 2056):
        mk(dict(base, bits=bits), tags=["odd-key-length"])
        mk(dict(base, bits=bits), pw=b"o", tags=["odd-key-length", "owner"])
    h4 = make_handler(rng, (4, "V2", 16, 4, "bytes"), b"u", b"o")
    b4 = spec_of(h4)
    for ln in (0, 536870912, 2147483647, 1 << 30):
        mk(dict(b4, cf=[(b"StdCF", 1, ln)]), tags=["cf-length", "keylen0"], check=no_panic)
    for ln in (1, 4, 10, 11, 17, 32, 128):
        for m in (1, 2, 3, 0):
            for pw in (b"u", b"o"):
                mk(dict(b4, cf=[(b"StdCF", m, ln)]), pw=pw, tags=["cf-length-odd"], items=[(3, 0, rand_bytes(rng, 32))])
    mk(dict(b4, stmf=None), tags=["no-stmf"])
    mk(dict(b4, stmf=b"Identity"), tags=["stmf-identity-name"])
    mk(dict(b4, cf=[]), tags=["no-cf"])
    mk(dict(b4, cf=[(b"Other", 1, 16), (b"StdCF", 2, 16)]), tags=["two-filters"])
    # /StmF and /StrF name filters that state different key lengths: the code takes the stream filter's (else the string filter's, else /Length)
    for (l1, l2) in ((16, 5), (5, 16), (None, 5), (5, None), (16, None)):
        for (sf, tf) in ((b"StdCF", b"Other"), (b"Identity", b"Other"), (b"StdCF", None), (None, b"Other"), (None, None), (b"Identity", b"Identity")):
            mk(dict(b4, cf=[(b"StdCF", 1, l1), (b"Other", 2, l2)], stmf=sf, strf=tf), tags=["two-filter-lengths"],
               items=[(3, 0, rand_bytes(rng, 32)), (3, 0, rand_bytes(rng, 32), True)])
    for R in (0, 1, 7, 100):
        mk(dict(base, R=R), tags=["bad-R"])
    for V in (0, 3, 7, -1):
        mk(dict(base, V=V), tags=["bad-V"])
    for V in (5, 6):
        mk(dict(b4, V=V), tags=["V-mismatch"])
        mk(dict(b4, V=V, cf=[(b"StdCF", 3, 32)]), tags=["V-mismatch"])
    mk(dict(base, R=2), tags=["R-mismatch"])
    mk(dict(base, R=4), tags=["R-mismatch"])
    mk(dict(base, U=h.U[:16]), tags=["short-U"])
    mk(dict(base, U=h.U[:15]), tags=["short-U"])
    mk(dict(base, U=b""), tags=["short-U"])
    mk(dict(base, O=h.O[:7]), pw=b"o", tags=["short-O"])
    mk(dict(base, O=b""), pw=b"o", tags=["short-O"])
    mk(dict(base, em=None), tags=["no-em"])
    for var in ((5, "AESV3", 32, 5, "bytes"), (6, "AESV3", 32, 5, "bytes")):
        if var[0] == 6 and os.environ.get("C06_NO_R6"):
            continue
        h5 = make_handler(rng, var, b"u", b"o")
        b5 = spec_of(h5)
        pwset = (b"u", b"o") if var[0] == 5 else (b"u",)
        for pw in pwset:
            mk(dict(b5, UE=None), pw=pw, tags=["no-UE"], id0=h5.id0)
            mk(dict(b5, OE=None), pw=pw, tags=["no-OE"], id0=h5.id0)
            mk(dict(b5, UE=h5.UE[:16], OE=h5.OE[:16]), pw=pw, tags=["short-UE"], id0=h5.id0, items=[(1, 0, rand_bytes(rng, 32))])
            mk(dict(b5, UE=h5.UE[:31], OE=h5.OE[:17]), pw=pw, tags=["odd-UE"], id0=h5.id0)
            mk(dict(b5, UE=h5.UE + h5.UE[:16], OE=h5.OE + h5.OE), pw=pw, tags=["long-UE"], id0=h5.id0, items=[(1, 0, rand_bytes(rng, 32))])
        if var[0] == 5:
            # C06-d: an unwrapped file key that is not 32 bytes long is an error value (it used to reach the slice in Decoder::key())
            mk(dict(b5, UE=b"", OE=b""), pw=b"u", tags=["empty-UE"], id0=h5.id0, items=[(1, 0, rand_bytes(rng, 32))], check=no_panic)
            for m56 in (1, 2):
                for ue in (b"", h5.UE[:16]):
                    for its in ([(1, 0, b"xyz")], [(1, 0, rand_bytes(rng, 32))], []):
                        mk(dict(b5, UE=ue, OE=ue, cf=[(b"StdCF", m56, 16)], V=4), pw=b"u", tags=["empty-UE-rc4"], id0=h5.id0, items=its,
                           check=no_panic)
            mk(dict(b5, U=h5.U[:47]), pw=b"u", tags=["short-U"], id0=h5.id0)
            mk(dict(b5, O=h5.O + b"x"), pw=b"u", tags=["long-O"], id0=h5.id0)
            for pw in (b"\xff\xfe", b"\x07bell", "ا1".encode(), b"\xc3", b"a\x7f", "".encode(), "ȡ".encode()):
                mk(b5, pw=pw, tags=["unpreparable-password"], id0=h5.id0, expect=err("InvalidPassword"))
            mk(dict(b5, R=4), pw=b"u", tags=["R-mismatch"], id0=h5.id0)
            mk(dict(b5, V=2, bits=256), pw=b"u", tags=["V-mismatch"], id0=h5.id0)
    return out


def dec_cases(rng, tier):
    out = []
    n = 60 if tier == "quick" else 600
    for i in range(n):
        method = rng.choice(["V2", "V2", "AESV2", "AESV3", "Identity"])
        smethod = method if rng.random() < 0.5 else rng.choice(["Identity", "AESV3"] if method == "AESV3" else
                                                                ["V2", "AESV2", "Identity", "AESV3"] if method == "Identity" else ["V2", "AESV2", "Identity"])
        both = (method, smethod)
        ksz = 32 if "AESV3" in both else 16 if "AESV2" in both else rng.randrange(5, 17)
        fk = rand_bytes(rng, ksz)
        h = S.Handler.__new__(S.Handler)
        h.method, h.str_method, h.file_key, h.n = method, smethod, fk, ksz
        key = fk + (bytes(16 - ksz) if ksz < 16 and rng.random() < 0.7 else b"")
        items, exp = [], []
        for j, m in enumerate(payloads(rng, 4)):
            num, gen = obj_ids(rng)
            string = (j % 2 == 1)
            items.append((num, gen, h.encrypt(num, gen, m, rand_bytes(rng, 16), string=string), string))
            exp.append(b"+" + m)
        out.append(dec_case(key, ksz, METH[method], rng.random() < 0.5, items, expect=ok(*exp), tags=["dec", method, "str-" + smethod],
                            smethod=METH[smethod]))
    # malformed ciphertexts and decoder states: model correspondence only
    m_n = 80 if tier == "quick" else 800
    for i in range(m_n):
        method = rng.choice([1, 2, 3, 2, 3])
        ksz = rng.choice([0, 1, 5, 10, 11, 15, 16, 17, 32, 33])
        klen = rng.choice([0, 5, 15, 16, 17, 31, 32, 33, ksz, ksz])
        key = rand_bytes(rng, klen)
        items = []
        for _ in range(3):
            ln = rng.choice([0, 1, 15, 16, 17, 31, 32, 33, 48, 64])
            data = rand_bytes(rng, ln)
            if rng.random() < 0.5 and ln >= 32 and ln % 16 == 0 and method in (2, 3):
                # valid CBC framing, padding bytes chosen: 0, 1, 16, 17, inconsistent runs
                body = ln - 16
                padb = rng.choice([0, 1, 2, 15, 16, 17, 255])
                tail = (bytes([padb]) * min(padb, 16) if rng.random() < 0.7 else bytes([padb ^ 1]) * 3 + bytes([padb]))[:body]
                pt = rand_bytes(rng, body - len(tail)) + tail
                iv = rand_bytes(rng, 16)
                if method == 3 and len(key) == 32:
                    data = iv + S.aes_cbc_enc(key, iv, pt)
                elif method == 2 and len(key) >= min(ksz, 16) and min(ksz, 16) >= 11:
                    k = S.object_key(key[:min(ksz, 16)], 5, 0, True)
                    items.append((5, 0, iv + S.aes_cbc_enc(k, iv, pt)))
                    continue
            items.append(obj_ids(rng) + (data, rng.random() < 0.4))
        out.append(dec_case(key, ksz, method, rng.random() < 0.5, items, tags=["dec-malformed"], smethod=rng.choice([method, 0, 1, 2, 3])))
    for ksz, klen in ((16, 0), (5, 4), (32, 15), (16, 16)):
        # CryptMethod::None is the Identity filter: data is returned as it is (it used to be unreachable!())
        out.append(dec_case(rand_bytes(rng, klen), ksz, 0, True, [(1, 0, b"abc"), (1, 0, b"abc", True)], expect=ok(b"+abc", b"+abc"), tags=["dec-method-none"]))
        out.append(dec_case(rand_bytes(rng, klen), ksz, 0, True, [(1, 0, b"")], expect=ok(b"+"), tags=["dec-method-none"]))
    return out


def dec_case(key, ksz, method, em, items, expect=None, tags=(), smethod=None):
    rec = M.Rec()
    smethod = method if smethod is None else smethod
    dc = dict(size=ksz, key=key, method=method, smethod=smethod, em=em, enc=None, meta=None)
    for it in items:
        M.try_decrypt(rec, dc, it[0], it[1], it[2], string=len(it) > 3 and it[3])
    base = [key, dnum(ksz), dnum(method), dnum(smethod), b"1" if em else b"0"] + item_fields(items)
    return Case("crypt_dec", base, expect=expect, mfields=base + rec.fields(), tags=tags)


def rc4_cases(rng, tier):
    out = []
    klens = list(range(0, 20)) + [31, 32, 33, 64, 128, 255, 256, 257, 300]
    for kl in klens:
        for ml in (0, 1, 2, 16, 33) + ((300,) if kl in (1, 5, 16, 256) else ()):
            k, m = rand_bytes(rng, kl), rand_bytes(rng, ml)
            if 1 <= kl <= 256:
                c = S.rc4(k, m)
                out.append(Case("rc4", [k, m], expect=ok(c), tags=["rc4", "klen%d" % kl]))
                out.append(Case("rc4", [k, c], expect=ok(m), tags=["rc4-inverse"]))
            else:
                out.append(Case("rc4", [k, m], tags=["rc4-bad-key"]))
    for v in ([0] * 5, [255] * 16, list(range(256)), [1, 2, 3, 4, 5]):
        out.append(Case("rc4", [bytes(v), bytes(40)], expect=ok(S.rc4(bytes(v), bytes(40))), tags=["rc4", "keystream"]))
    return out


# ------------------------------------------------------------------------------------------------ whole documents
def leaves_plain(v, out):
    if isinstance(v, (bytes, bytearray)):
        out.append(b"S" + bytes(v))
    elif isinstance(v, (list, tuple)):
        for x in v:
            leaves_plain(x, out)
    elif isinstance(v, dict):
        for x in v.values():
            leaves_plain(x, out)
    elif isinstance(v, W.Stream):
        for x in v.d.values():
            leaves_plain(x, out)
        out.append(b"R+" + v.data)
        out.append(b"D+" + decode_filters(v))


FSPEC = {"ASCIIHexDecode": b"h", "ASCII85Decode": b"a", "FlateDecode": b"z"}


def filter_spec(st):
    f = st.d.get("Filter")
    if f is None:
        return b""
    fl = f if isinstance(f, list) else [f]
    return b"".join(FSPEC[x.s.decode()] for x in fl)


def decode_filters(st):
    data = st.data
    for c in filter_spec(st):
        data = C.hex_decode(data) if c == 104 else C.a85_decode(data) if c == 97 else zlib.decompress(data)
    return data


def leaves_model(kind_s, num, gen, v, out):
    """(kind, num, gen, filters, data) of the value as written into the file"""
    if isinstance(v, (bytes, bytearray)):
        out.append((kind_s, num, gen, b"", bytes(v)))
    elif isinstance(v, (list, tuple)):
        for x in v:
            leaves_model(kind_s, num, gen, x, out)
    elif isinstance(v, dict):
        for x in v.values():
            leaves_model(kind_s, num, gen, x, out)
    elif isinstance(v, W.Stream):
        for x in v.d.values():
            leaves_model(kind_s, num, gen, x, out)
        out.append((b"R", num, gen, b"", v.data))
        out.append((b"D", num, gen, filter_spec(v), v.data))


def rand_string(rng):
    n = rng.choice(LENS[:-1] + [3, 7, 100])
    k = rng.randrange(3)
    if k == 0:
        return rand_bytes(rng, n)
    if k == 1:
        return bytes(rng.choice(b"abc ()\\\r\n") for _ in range(n))
    return bytes([rng.choice([0, 16, 255])]) * n


def make_stream(rng, data, filt):
    d = {"Type": W.Name("Test")}
    if rng.random() < 0.3:
        d["Label"] = rand_string(rng)
    if filt == "hex":
        return W.Stream(dict(d, Filter=W.Name("ASCIIHexDecode")), C.hex_encode(data))
    if filt == "a85":
        return W.Stream(dict(d, Filter=W.Name("ASCII85Decode")), C.a85_encode(data))
    if filt == "flate":
        return W.Stream(dict(d, Filter=W.Name("FlateDecode")), zlib.compress(data))
    if filt == "hex+flate":
        return W.Stream(dict(d, Filter=[W.Name("ASCIIHexDecode"), W.Name("FlateDecode")]), C.hex_encode(zlib.compress(data)))
    return W.Stream(d, data)


def doc_case(rng, h, fmt="table", enc_indirect=True, with_meta=True, objstm=False, pw=None, who="user", tags=(), wrong=False, bundle=False):
    objs = W.minimal_catalog()
    gens = {}
    info_num = 4
    info = {"Title": rand_string(rng), "Author": rand_string(rng), "Nested": [rand_string(rng), {"K": rand_string(rng), "L": [rand_string(rng), 7]}],
            "Empty": b"", "Block": rand_bytes(rng, 16)}
    num = 5
    if not objstm:
        objs[info_num] = info
    filts = [None, "hex", "a85", "flate", "hex+flate"]
    rng.shuffle(filts)
    for filt in filts[:3]:
        ln = rng.choice(LENS if filt != "a85" else LENS[:-1])
        objs[num] = make_stream(rng, rand_bytes(rng, ln) if rng.random() < 0.6 else bytes(rng.choice(b"BT ET q Q\n") for _ in range(ln)), filt)
        if rng.random() < 0.3 and fmt == "table":
            gens[num] = rng.choice([1, 2, 255, 65535])
        num += 1
    big = rng.choice([300, 65535, 65536, 70001])
    objs[big] = [rand_string(rng), {"S": rand_string(rng)}]
    if fmt == "table" and rng.random() < 0.5:
        gens[big] = rng.choice([1, 65535, 4242])
    meta_num = None
    if with_meta:
        meta_num = num
        objs[meta_num] = W.Stream({"Type": W.Name("Metadata"), "Subtype": W.Name("XML")}, b"<?xpacket begin?><x:xmpmeta>" + rand_bytes(rng, rng.choice([0, 5, 40])) + b"</x:xmpmeta>")
        objs[1]["Metadata"] = W.Ref(meta_num)
        num += 1
    enc_num = num
    num += 1
    ed = h.encrypt_dict()
    exempt = set()
    if with_meta and h.metadata_exempt:
        exempt.add(meta_num)
    ivs = iter(lambda: rand_bytes(rng, 16), None)
    enc_objs = S.protect(objs, h, ivs, exempt=exempt, gens=gens)
    entries = {n: W.Obj(v, gens.get(n, 0)) for n, v in enc_objs.items()}
    comp_members = {}
    objstm_num = None
    kw = {}
    if objstm:
        comp_members = {info_num: info, num: [rand_string(rng), rand_string(rng)]}
        num += 1
        objstm_num = num
        num += 1
        for n, v in comp_members.items():
            entries[n] = W.Comp(v)
        kw = dict(objstm_nums={None: objstm_num}, objstm_filter=rng.choice([None, "flate"]),
                  objstm_transform=lambda snum, st: W.Stream(st.d, h.encrypt(snum, 0, st.data, rand_bytes(rng, 16))))
    tr = {"Root": W.Ref(1), "Info": W.Ref(info_num), "ID": [h.id0, h.id0]}
    if enc_indirect:
        entries[enc_num] = W.Obj(ed)
        tr["Encrypt"] = W.Ref(enc_num)
    else:
        tr["Encrypt"] = ed
    rev = W.Revision(entries, fmt=fmt, trailer=tr, **kw)
    data, finfo = W.write_file([rev])
    # what is read: every object except containers (object stream, xref stream)
    ids = sorted(set(objs) | set(comp_members) | ({enc_num} if enc_indirect else set()))
    expect_leaves, mleaves = [], []
    for n in ids:
        if n in comp_members:
            leaves_plain(comp_members[n], expect_leaves)
            leaves_model(b"M", n, 0, comp_members[n], mleaves)
        elif n == enc_num and enc_indirect:
            leaves_plain(ed, expect_leaves)
            leaves_model(b"S", n, 0, ed, mleaves)
        else:
            leaves_plain(objs[n], expect_leaves)
            leaves_model(b"S", n, gens.get(n, 0), enc_objs[n], mleaves)
    if bundle:
        # the written document and what it contains (for the cases that open it through FileOptions: file_open_cases)
        return dict(data=data, ids=ids, leaves=expect_leaves, title=info["Title"], enc_indirect=enc_indirect, objstm=objstm, fmt=fmt)
    # probes: Resolve::stream_data over the bytes of one encrypted stream, under its own and under foreign ids
    probes = []
    for n in ids:
        v = enc_objs.get(n)
        if isinstance(v, W.Stream) and len(v.data) >= 12 and data.count(v.data) == 1:
            a = data.index(v.data)
            probes.append((n, gens.get(n, 0), a, a + len(v.data), b"P+" + objs[n].data))
            if h.method == "V2":
                probes.append((8388607, 65535, a, a + len(v.data), None))
                probes.append((n, gens.get(n, 0) + 1, a, a + len(v.data), None))
            break
    pw = (h.upw if who == "user" else (h.opw or h.upw)) if pw is None else pw
    fields = [pw, ",".join(str(n) for n in ids).encode(), data, dnum(len(probes))]
    for (n, g, a, b, _) in probes:
        fields += [dnum(n), dnum(g), dnum(a), dnum(b)]
    for (n, g, a, b, _) in probes:
        mleaves.append((b"P", n, g, b"", data[a:b]))
    d = spec_of(h)
    enc_ref = (enc_num, 0) if enc_indirect else None
    meta_ref = (meta_num, gens.get(meta_num, 0)) if with_meta else None
    fuel = 400
    rec = M.Rec()
    try:
        dc = M.from_password(rec, d, h.id0, pw, fuel)
        dc["enc"], dc["meta"] = enc_ref, meta_ref
        for (k, n, g, fl, x) in mleaves:
            if k == b"M":
                continue
            r = M.try_decrypt(rec, dc, n, g, x, string=(k == b"S"))
            if r is not None and k == b"D":
                for c in fl:
                    try:
                        r = C.hex_decode(r) if c == 104 else C.a85_decode(r) if c == 97 else rec.zlib(r)
                    except Exception:
                        break
    except (M.MErr, M.MPanic):
        pass
    except M.MFuel:
        return None

    def oref(r):
        return [b"1", dnum(r[0]), dnum(r[1])] if r else [b"0", b"0", b"0"]
    mf = dict_fields(d) + [h.id0, pw, dnum(fuel)] + oref(enc_ref) + oref(meta_ref) + [dnum(len(mleaves))]
    for (k, n, g, fl, x) in mleaves:
        mf += [k, dnum(n), dnum(g), fl, x]
    mf += rec.fields()
    n_spec = len(expect_leaves)
    full = expect_leaves + [p[4] for p in probes]
    tg = ["doc", "R%d" % h.R, h.method, fmt, "enc-indirect" if enc_indirect else "enc-direct", who] + list(tags)
    if h.str_method != h.method:
        tg.append("strf-differs")
    if with_meta:
        tg.append("meta-exempt" if h.metadata_exempt else "meta-encrypted")
    if objstm:
        tg.append("objstm")
    if wrong:
        return Case("crypt_doc", fields, expect=err("InvalidPassword"), mfields=mf, tags=tg + ["wrong"])

    def chk(r):
        if r[0] != "OK":
            return "expected the document to open and read: %s %s" % (r[0], r[1])
        if len(r[1]) != len(full):
            return "expected %d leaves, got %d" % (len(full), len(r[1]))
        for i, (g, e) in enumerate(zip(r[1], full)):
            if e is not None and g != e:
                return "leaf %d: expected %s, read %s" % (i, e[:40].hex(), g[:40].hex())
        return None
    return Case("crypt_doc", fields, check=chk, mfields=mf, tags=tg)


def doc_cases(rng, tier):
    out = []
    vs = [(2, "V2", 5, 1, None), (3, "V2", 16, 2, None), (3, "V2", 7, 2, None), (4, "V2", 16, 4, "bytes"), (4, "AESV2", 16, 4, "bytes"),
          (4, "AESV2", 16, 4, None), (5, "AESV3", 32, 5, "bytes"),
          # /StmF and /StrF name different filters, one of them Identity (explicit or absent), both Identity
          (4, "AESV2", 16, 4, "bytes", "V2", False), (4, "V2", 16, 4, "bytes", "AESV2", False), (4, "V2", 16, 4, "bytes", "Identity", False),
          (4, "AESV2", 16, 4, "bytes", "Identity", True), (4, "Identity", 16, 4, "bytes", "V2", False), (4, "Identity", 16, 4, None, "AESV2", True),
          (5, "AESV3", 32, 5, "bytes", "Identity", False), (5, "Identity", 32, 5, "bytes", "AESV3", False),
          (4, "Identity", 16, 4, "bytes", "Identity", False)]
    reps = 4 if tier == "quick" else 40
    for rep in range(reps):
        for var in vs:
            h = make_handler(rng, var)
            fmt = rng.choice(["table", "stream"])
            objstm = fmt == "stream" and rng.random() < 0.6
            who = rng.choice(["user", "owner"])
            c = doc_case(rng, h, fmt=fmt, enc_indirect=rng.random() < 0.7, with_meta=rng.random() < 0.8, objstm=objstm, who=who)
            if c is not None:
                out.append(c)
            if rep % 2 == 0:
                c = doc_case(rng, h, fmt="table", pw=wrong_password(rng, h), wrong=True)
                if c is not None:
                    out.append(c)
    # every (EncryptMetadata, V) combination with a metadata stream, both ways of storing /Encrypt
    for var in vs:
        for em in (True, False):
            for ind in (True, False):
                h = make_handler(rng, var)
                h2 = S.Handler(h.R, h.method, h.n, h.upw, h.opw, h.P, h.id0, encrypt_metadata=em, V=h.V, cf_length=h.cf_length,
                               file_key=h.file_key, str_method=h.str_method, absent=h.absent)
                c = doc_case(rng, h2, enc_indirect=ind, with_meta=True, tags=["em-%s" % em])
                if c is not None:
                    out.append(c)
    return out


def pw_accepted(h, pw):
    """does the standard accept `pw` as the user or the owner password of the document written with h
    (Algorithm 2 step a: the first 32 bytes, padded; Algorithm 2.A: the SASLprep form, first 127 bytes)"""
    if h.R >= 5:
        a = S.prep_r56(pw)
        return a is not None and a in (S.prep_r56(h.upw), S.prep_r56(h.opw))
    return S.pad_pw(pw) in (S.pad_pw(h.upw), S.pad_pw(h.opw or h.upw))


FILE_OPEN_VARIANTS = [(2, "V2", 5, 1, None), (3, "V2", 16, 2, None), (3, "V2", 7, 2, None), (4, "V2", 16, 4, "bytes"), (4, "AESV2", 16, 4, "bytes"),
                      (5, "AESV3", 32, 5, "bytes"), (4, "AESV2", 16, 4, "bytes", "V2", False), (4, "V2", 16, 4, "bytes", "Identity", False),
                      (5, "AESV3", 32, 5, "bytes", "Identity", False)]


def file_open_cases_for(rng, h, tags=(), **kw):
    """one written document opened the way a user opens it — FileOptions::cached() / ::uncached() [.password(pw)] .load(bytes)
    (mode crypt_open_file; no Coq runner: judged from the specification side only).  The user and the owner password open it and
    the page count, the typed /Info /Title and every string and stream read through File::resolver() are the plaintext; a wrong
    password, and no password when the user password is not empty, is an invalid-password error (C06: "and only then")."""
    b = doc_case(rng, h, bundle=True, **kw)
    ids = ",".join(str(n) for n in b["ids"]).encode()
    full = [b"1", b"T+" + b["title"]] + b["leaves"]

    def opens(r):
        if r[0] != "OK":
            return "a correct password must open the document through FileOptions::load: %s %s" % (r[0], r[1])
        if len(r[1]) != len(full):
            return "expected %d fields, got %d" % (len(full), len(r[1]))
        for i, (g, e) in enumerate(zip(r[1], full)):
            if g != e:
                return "field %d (0 = page count, 1 = /Info /Title, then leaves): expected %s, read %s" % (i, e[:40].hex(), g[:40].hex())
        return None

    def rejected(r):
        if r[0] == "ERR" and r[1].strip() == "InvalidPassword":
            return None
        return "a password that is neither the user nor the owner password must be rejected by FileOptions::load with an invalid-password error, got %s %s" % (r[0], r[1][:80] if r[0] != "OK" else "(the document opened)")

    tg = ["file-open", "R%d" % h.R, h.method, b["fmt"], "enc-indirect" if b["enc_indirect"] else "enc-direct"] + list(tags)
    if h.str_method != h.method:
        tg.append("strf-differs")
    if b["objstm"]:
        tg.append("objstm")
    flip = rng.random() < 0.5
    tries = [("user", h.upw, flip), ("owner", h.opw or h.upw, not flip), ("wrong", wrong_password(rng, h), True),
             ("wrong", wrong_password(rng, h), False), ("none", None, rng.random() < 0.5)]
    out = []
    for who, pw, cached in tries:
        good = pw_accepted(h, b"" if pw is None else pw)
        out.append(Case("crypt_open_file", [b"c" if cached else b"u", opt(pw), ids, b["data"]], check=opens if good else rejected, model=False,
                        tags=tg + [who, "cached" if cached else "uncached", "accepted" if good else "rejected"]))
    return out


def encrypt_direct_witness():
    """finding C06-e: a document whose trailer holds /Encrypt as a direct dictionary, opened through FileOptions with the user password"""
    import random
    h = S.Handler(4, "AESV2", 16, b"user", b"owner", -4, b"0123456789abcdef", V=4, file_key=bytes(range(32)))
    cs = file_open_cases_for(random.Random(607), h, tags=["encrypt-direct"], fmt="table", with_meta=False, enc_indirect=False)
    return [c for c in cs if "user" in c.tags][0]


def file_open_cases(rng, tier):
    out = []
    reps = 1 if tier == "quick" else 12
    for rep in range(reps):
        for k, var in enumerate(FILE_OPEN_VARIANTS):
            pool = PW_UTF8 if var[0] >= 5 else PW_BYTES
            # an empty user password (the document opens without .password()) for every third variant, else a non-empty one
            upw = b"" if (k + rep) % 3 == 0 else rng.choice([p for p in pool if p])
            h = make_handler(rng, var, upw=upw)
            fmt = rng.choice(["table", "stream"])
            # /Encrypt as an indirect object and as a direct dictionary of the trailer (ISO 32000-1 Table 15 allows both; the direct
            # spelling was refused by File::load_data until finding C06-e was repaired: Trailer.encrypt_dict demanded a reference)
            out += file_open_cases_for(rng, h, fmt=fmt, objstm=fmt == "stream" and rng.random() < 0.6, with_meta=rng.random() < 0.7,
                                       enc_indirect=(k + rep) % 2 == 0 if tier == "quick" else rng.random() < 0.5)
    return out


def strf_cases(rng):
    """the documents of finding C06-b (fixed): /StrF /Identity with an RC4 /StmF, and the reverse"""
    out = []
    h = S.Handler(4, "V2", 16, b"user", b"owner", -4, b"0123456789abcdef", V=4, str_method="Identity")
    out.append(doc_case(rng, h, with_meta=False, tags=["strf-identity"]))
    h = S.Handler(4, "Identity", 16, b"user", b"owner", -4, b"0123456789abcdef", V=4, str_method="V2")
    out.append(doc_case(rng, h, with_meta=False, tags=["stmf-identity"]))
    return [c for c in out if c is not None]


def generate(rng, tier):
    for c in rc4_cases(rng, tier):
        yield c
    vs = variants(rng, tier)
    reps = 5 if tier == "quick" else 60
    for rep in range(reps):
        for var in vs:
            for c in open_cases_for(rng, make_handler(rng, var)):
                yield c
    # passwords: every listed password as user and as owner password at least once per family
    for fam, pool in ((3, PW_BYTES), (5, PW_UTF8)):
        for pw in pool:
            var = (3, "V2", rng.randrange(5, 17), 2, None) if fam == 3 else (5, "AESV3", 32, 5, "bytes")
            for c in open_cases_for(rng, make_handler(rng, var, upw=pw), nitems=1, tags=["pw-sweep"]):
                yield c
            for c in open_cases_for(rng, make_handler(rng, var, opw=pw), nitems=1, tags=["pw-sweep"]):
                yield c
    # R6: Algorithm 2.B costs 64+ AES-CBC passes over kilobytes per hash: few cases
    if not os.environ.get("C06_NO_R6"):
        n6 = 2 if tier == "quick" else 10
        for i in range(n6):
            up, op = (b"u6", "Ⅸ own".encode()) if i % 2 == 0 else (rng.choice(PW_UTF8[:8]), rng.choice(PW_UTF8[:8]))
            h = make_handler(rng, (6, "AESV3", 32, 5, "bytes"), up, op)
            for c in open_cases_for(rng, h, nitems=2, tags=["R6"]):
                yield c
            if i == 0:
                c = doc_case(rng, h, fmt="stream", objstm=True, tags=["R6"])
                if c is not None:
                    yield c
                for c in file_open_cases_for(rng, h, tags=["R6"], fmt=rng.choice(["table", "stream"])):
                    yield c
        # Algorithm 2.B ending exactly on its boundary (user validation hash)
        for up, vs in (KDF_BOUNDARY[:1] if tier == "quick" else KDF_BOUNDARY):
            h = make_handler(rng, (6, "AESV3", 32, 5, "bytes"), up, b"owner-b", vsalt=vs)
            for c in open_cases_for(rng, h, nitems=1, tags=["R6", "kdf-boundary"])[:1]:
                yield c
    for c in malformed_open_cases(rng):
        yield c
    for c in dec_cases(rng, tier):
        yield c
    for c in doc_cases(rng, tier):
        yield c
    for c in strf_cases(rng):
        yield c
    for c in file_open_cases(rng, tier):
        yield c


# ------------------------------------------------------------------------------------------------ judging
ENAME = {"1": "InvalidPassword", "2": "MissingEntry", "3": "DecryptionFailure", "9": "Other"}
PSITE = {"601": "crypt.rs", "603": "crypt.rs"}


def same(r, m):
    if r is None or m is None:
        return False
    if r[0] == "OK" and m[0] == "OK":
        return r[1] == m[1]
    if r[0] == "ERR" and m[0] == "ERR":
        return ENAME.get(m[1].strip(), "?") == r[1].strip()
    if r[0] == "PANIC" and m[0] == "PANIC":
        return "crypt.rs" in r[1]
    return False


def model_broken(c, m):
    if m[0] == "ERR" and m[1].strip() in ("99", "98"):
        return "oracle table miss / malformed model input (ERR %s)" % m[1]
    if m[0] == "FUEL":
        return "model ran out of fuel"
    return None


def classify(case, impl, model):
    return None


def nontrivial(c):
    return sum(len(f) for f in c.fields) >= 2


def witness_case(f, c):
    """the witnesses are stored as implementation lines; attach the expectation and the model input by regenerating"""
    import random
    rng = random.Random(606)
    if f["id"] == "C06-a":
        h = S.Handler(5, "AESV3", 32, b"user", b"owner", -4, b"0123456789abcdef", file_key=bytes(range(32)))
        items = [(7, 0, h.encrypt(7, 0, b"plaintext of object 7", bytes(16)))]
        w = open_case(spec_of(h), h.id0, b"user", items, expect=ok(h.file_key[:16], b"AESV3", b"AESV3", b"+plaintext of object 7"))
    elif f["id"] == "C14-d":
        h = S.Handler(3, "V2", 8, b"u", b"o", -4, b"id")
        w = open_case(dict(spec_of(h), bits=0), h.id0, b"u", [], check=lambda r: None if r[0] == "ERR" else "key length 0 must be an error: %s %s" % r)
    elif f["id"] == "C06-c":
        h = S.Handler(3, "V2", 16, b"user", b"owner", -4, b"0123456789abcdef", encrypt_metadata=False, V=2)
        w = doc_case(rng, h, with_meta=True, enc_indirect=True)
    elif f["id"] == "C06-d":
        h = S.Handler(5, "AESV3", 32, b"u", b"o", -4, b"0123456789abcdef", file_key=bytes(range(32)))
        w = open_case(dict(spec_of(h), UE=b"", OE=b"", cf=[(b"StdCF", 1, 16)], V=4), h.id0, b"u", [(1, 0, b"xyz")],
                      check=lambda r: None if r[0] == "ERR" else "a file key that is not 32 bytes long must be an error: %s %s" % (r[0], r[1]))
    elif f["id"] == "C06-b":
        h = S.Handler(4, "V2", 16, b"user", b"owner", -4, b"0123456789abcdef", V=4, str_method="Identity")
        w = doc_case(rng, h, with_meta=False, tags=["strf-identity"])
    elif f["id"] == "C06-e":
        w = encrypt_direct_witness()
    else:
        return c
    w.kind, w.note = "witness", f["id"]
    w.tags = set(w.tags) | set(c.tags)
    if w.fields != c.fields or w.mode != c.mode:
        # the stored witness and the regenerated one must be the same input
        w.check = lambda r: "stored witness of %s differs from the regenerated one (machinery)" % f["id"]
    return w


def coverage_extra(cases, impl, model):
    kinds = {}
    for c, r in zip(cases, impl):
        if r is None:
            continue
        for t in c.tags:
            if t in ("user", "owner", "wrong", "malformed", "dec", "dec-malformed", "doc", "objstm", "meta-exempt", "meta-encrypted", "R6"):
                kinds[t + ":" + r[0]] = kinds.get(t + ":" + r[0], 0) + 1
    return {"c06_outcomes_by_role": kinds}
