"""C20 — a page imported into another document is equal and self-contained."""
import glob, os, re
from vplib.api import Case, ok, err, same_result
from vplib import core
from oracle import graph as G, f32
from oracle.pdfwriter import Name, Ref, Stream, Obj, Comp, Revision, write_file, minimal_catalog
import docs

ID = "C20"
LEVEL = "proof"
DESIGN_REF = "DESIGN.md §9 C20, §12.C20"
COQ_TARGETS = ["Properties/C20", "Pins/C20"]
THEOREMS = [("PdfV.Properties.C20", n) for n in
            ["C20_closed", "C20_equal", "C20_once", "C20_reachable_only", "C20_total", "C20_never_panics",
             "C20_page_resources", "C20_page_pruned", "C20_tables", "C20_old_order_refuted", "C20_categories_refuted",
             "C20_graph_iso", "C20_edges", "C20_copy_determined", "C20_stream_equal", "C20_dict_equal", "C20_page_present",
             "C20_target_steps", "C20_target_valid", "C20_reload_object", "C20_reload_stream"]]
ANCHORS = ["build.rs", "content.rs:deep_clone_op", "types.rs:struct Resources", "object/mod.rs:Primitive::deep_clone", "file.rs:Storage::empty"]
MODES = ["import_graph", "import"]
TRUSTED_BASE = ["coqc 8.16.1 kernel (vm_compute for table lemmas and witnesses; no native_compute)",
                "gen/extract_import.py (regenerates from build.rs / content.rs / types.rs / object/mod.rs / file.rs the tables the model runs on)",
                "Extraction + ExtrOcamlBasic, ocamlfind ocamlopt 4.13.1, coq/driver/main.ml",
                "harness pdfh (modes import_graph, import; histories and cache configurations are executed on the real crate only — the model "
                "receives the source graph after the updates), tools/vplib, tools/oracle/graph.py + pdfwriter.py + codecs.py (spec side)",
                "typed cloning (XObject, ExtGState, forms' resources) is modelled by the clone of the dictionary form and tied by correspondence up to "
                "renumbering and key order; Content::from_ops / CatalogBuilder::build / Storage::save are judged by the spec oracle only"]
ASSUMPTIONS = ["C20_reload_object / C20_reload_stream: Storage.Model.save succeeds (premise, as in C09_reload) and the source objects are in C04's storable domain within MAX_DEPTH",
               "the source resolver answers by object number (generation ignored) and stream bytes are what Resolve::stream_data returns (model parameter `fetch`)",
               "Storage::promise / fulfill hand out consecutive ids from 1 and store one value per id (generated anchor import_first_id; correspondence compares ids exactly)"]
RULE = ("import_graph: random object graphs of 1..14 objects (nested arrays/dictionaries/streams with data, shared objects, self loops and longer "
        "cycles, dangling references, repeated roots) written as files (classic table, xref stream, object streams) — judged for closure, equality "
        "under the reference map, single copy, no extra objects, and compared with the model including the exact new numbers; "
        "import: generated documents (1..4 pages; shared fonts Type1/TrueType/Type0/Type3, images under filters with soft masks, forms with direct / "
        "indirect / shared resources and nested forms, ExtGStates direct and indirect, inherited boxes and resources, two-level page trees, content "
        "arrays, metadata and untyped page entries, planted cycles of eight kinds, object streams) x page subsets/orders with repetition, and the "
        "repository's sample files — judged by the page view, content tokens, every used resource's content, closure and single copy; "
        "every case with a cache configuration (source / target / reload with or without object + stream caches) and, for about three "
        "quarters of them, a history on the SOURCE before the import: pages rendered, images decoded (image_data / raw_image_data), fonts' "
        "embedded data read, operations parsed, single streams decoded / read raw / loaded typed, objects updated but not saved (same value, "
        "a touched dictionary, a new pending stream linked in) — the specification applies the updates to the source graph and requires the "
        "reading steps to change nothing; filters: hex, a85, rle, lzw, flate, chains up to three, image codecs that stop the decode early "
        "(dct, jpx behind ascii filters); stream data is judged by raw bytes + filter chain, and by the decoded bytes as far as decodable; "
        "tiling patterns in the resources of forms (operation sequence, entries, used resources of the copied pattern), marked content "
        "with inline / referenced / named property lists and property lists that cannot be copied (import fails or the sequence is kept), "
        "Indexed colour spaces with palettes below 100 bytes, streams with non-default /DecodeParms; "
        "non-trivial = at least two source objects reachable; distinct by (mode, file, selection, configuration, history)")
CASE_TIMEOUT = 30.0
MODEL_TIMEOUT = 120.0

REPO = core.REPO
REAL_RE = re.compile(rb"D([0-9eE+.\-]+);")


def norm(r):
    """model results carry reals as decimal text: D<text>; -> r<bits>"""
    if r is None or r[0] != "OK":
        return r

    def sub(m):
        try:
            return b"r%08x" % f32.dec_to_bits(m.group(1).decode("latin-1"))
        except Exception:
            return m.group(0)
    return ("OK", [REAL_RE.sub(sub, f) for f in r[1]])


# ---------------------------------------------------------------------------------------------------
# histories on the source before the import (harness/src/modes/import.rs: flags c C r, field `hist`)

def apply_updates(g, steps):
    """the source graph after the update steps U / T / N of a history (ISO 32000-1 §7.5.6: the current state of a
    document is what its latest definitions say; a pending change is the latest definition).  -> new graph"""
    g = dict(g)
    fresh = max(g) + 50
    for kind, k in steps:
        if kind not in "TN" or k not in g:
            continue
        v = g[k]
        if kind == "T":
            key, val = "VTouched", 7
        else:
            fresh += 1
            g[fresh] = Stream({}, b"generated data for %d" % k)
            key, val = "VNew", Ref(fresh)
        if isinstance(v, Stream):
            d = dict(v.d)
            d.setdefault("Length", v.raw_len if v.raw_len is not None else len(v.data))     # the file states /Length before the new key
            d[key] = val
            g[k] = Stream(d, v.data, v.raw_len)
        elif isinstance(v, dict):
            d = dict(v)
            d[key] = val
            g[k] = d
    return g


def hist_text(steps):
    return b";".join(b"%s%d" % (k.encode(), n) for k, n in steps)


def rnd_config(rng, with_hist):
    """flags: the source / the target / the reloading with or without the caches"""
    fl = b""
    if rng.random() < (0.8 if with_hist else 0.4):
        fl += b"c"
    if rng.random() < 0.3:
        fl += b"C"
    if rng.random() < 0.2:
        fl += b"r"
    return fl


HIST_KINDS = ["none", "none", "render", "render-all", "images", "raw-images", "fonts", "ops", "decode-all", "decode-some", "raw-some",
              "typed-get", "update", "touch", "new-object", "mixed"]


def rnd_page_history(rng, doc, sel, kind=None):
    """-> (kind, steps [(letter, number)])"""
    kind = kind or rng.choice(HIST_KINDS)
    npages = len(doc.pages)
    streams = [n for n, v in doc.objs.items() if isinstance(v, Stream)]
    tree = set([doc.root]) | set(n for n, v in doc.objs.items() if isinstance(v, dict) and v.get("Type") == Name("Pages"))
    # resource dictionaries are read through the typed `Resources` (no catch-all field): an entry added to one is dropped by
    # the typed layer (the C20-d / C15 class), so the update steps leave them alone
    resdicts = set()
    for v in doc.objs.values():
        d = v.d if isinstance(v, Stream) else v
        if isinstance(d, dict) and isinstance(d.get("Resources"), Ref):
            resdicts.add(d["Resources"].num)
    plain = [n for n, v in doc.objs.items() if n not in tree and n not in resdicts and isinstance(v, (dict, Stream))]
    pages = sorted(set(sel))
    steps = []
    if kind == "render":
        steps = [("P", i) for i in pages]
    elif kind == "render-all":
        steps = [("P", i) for i in range(npages)]
    elif kind == "images":
        steps = [("I", i) for i in pages]
    elif kind == "raw-images":
        steps = [("W", i) for i in pages] + ([("I", i) for i in pages] if rng.random() < 0.5 else [])
    elif kind == "fonts":
        steps = [("F", i) for i in pages]
    elif kind == "ops":
        steps = [("O", i) for i in pages]
    elif kind == "decode-all":
        steps = [("D", n) for n in streams]
    elif kind == "decode-some":
        steps = [("D", n) for n in rng.sample(streams, min(len(streams), rng.randrange(1, 4)))]
    elif kind == "raw-some":
        steps = [(rng.choice("RD"), n) for n in rng.sample(streams, min(len(streams), rng.randrange(1, 4)))]
    elif kind == "typed-get":
        steps = [("G", n) for n in rng.sample(streams, min(len(streams), rng.randrange(1, 4)))]
    elif kind == "update":
        steps = [("U", n) for n in rng.sample(plain, min(len(plain), rng.randrange(1, 4)))]
    elif kind == "touch":
        steps = [("T", n) for n in rng.sample(plain, min(len(plain), rng.randrange(1, 3)))]
    elif kind == "new-object":
        steps = [("N", n) for n in rng.sample(plain, min(len(plain), 1))]
    elif kind == "mixed":
        for _ in range(rng.randrange(2, 7)):
            c = rng.choice("PIWFODDRGUT")
            if c in "PIWFO":
                steps.append((c, rng.randrange(npages)))
            elif c in "DRG" and streams:
                steps.append((c, rng.choice(streams)))
            elif plain:
                steps.append((c, rng.choice(plain)))
    return kind, steps


# ---------------------------------------------------------------------------------------------------
# graph cases

NICE_REALS = [0.5, 2.25, -1.75, 100.125, 0.001953125]


def rnd_value(rng, ids, depth, allow_stream=False):
    k = rng.random()
    if depth <= 0 or k < 0.45:
        c = rng.randrange(9)
        if c == 0:
            return None
        if c == 1:
            return rng.choice([True, False])
        if c == 2:
            return rng.randrange(-50, 5000)
        if c == 3:
            return rng.choice(NICE_REALS)
        if c == 4:
            return Name(rng.choice(["A", "Type", "x y", "F#1", "Näme"]))
        if c == 5:
            return bytes(rng.randrange(256) for _ in range(rng.randrange(0, 6)))
        return Ref(rng.choice(ids))
    if k < 0.7:
        return [rnd_value(rng, ids, depth - 1) for _ in range(rng.randrange(0, 4))]
    return {rng.choice(["A", "B", "Kids", "Parent", "Next", "K" + str(rng.randrange(9))]): rnd_value(rng, ids, depth - 1)
            for _ in range(rng.randrange(0, 4))}


def rnd_graph(rng, shape=None):
    """-> (objs {num: value} from 4 up, roots [Ref])"""
    n = rng.choice([1, 2, 3, 4, 6, 9, 14])
    ids = list(range(4, 4 + n))
    shape = shape or rng.choice(["any", "any", "dag", "chain", "cycle", "dangling"])
    objs = {}
    for i in ids:
        if shape == "dag":
            tgt = [j for j in ids if j > i] or [i + 100]      # only forward references (the last one may dangle: avoid)
            tgt = [j for j in ids if j > i]
        elif shape == "chain":
            tgt = [i + 1] if i + 1 in ids else []
        elif shape == "dangling":
            tgt = ids + [ids[-1] + 5]
        else:
            tgt = ids
        if not tgt:
            v = rnd_value(rng, ids, 0) if False else rng.choice([1, Name("Leaf"), [1, 2], {"K": 0.5}])
        else:
            v = rnd_value(rng, tgt, rng.randrange(0, 4))
            if rng.random() < 0.25:
                d = v if isinstance(v, dict) else {"V": v}
                v = docs.enc_stream(rng, d, bytes(rng.randrange(256) for _ in range(rng.randrange(0, 12))), rng.choice(docs.TEXT_FILTERS + ["dct", "a85+dct"]))
        objs[i] = v
    if shape == "cycle" and n >= 2:
        for a, b in zip(ids, ids[1:] + ids[:1]):
            v = objs[a]
            if isinstance(v, Stream):
                v.d["Next"] = Ref(b)
            elif isinstance(v, dict):
                v["Next"] = Ref(b)
            else:
                objs[a] = {"V": v, "Next": Ref(b)}
    roots = [Ref(rng.choice(ids)) for _ in range(rng.randrange(1, 4))]
    if rng.random() < 0.2:
        roots.append(roots[0])
    return objs, roots, shape


def graph_text(objs):
    return b"".join(b"%d " % n + G.canon_obj(v) + b"\n" for n, v in sorted(objs.items()))


def write_graph_file(rng, objs):
    allo = dict(minimal_catalog())
    allo.update(objs)
    fmt = rng.choice(["table", "stream", "objstm"])
    tr = {"Root": Ref(1)}
    if fmt == "objstm":
        ent = {n: (Comp(v) if isinstance(v, dict) and n != 1 and rng.random() < 0.7 else Obj(v)) for n, v in allo.items()}
        rev = Revision(ent, fmt="stream", trailer=tr, member_sep=b"\n")
    else:
        rev = Revision({n: Obj(v) for n, v in allo.items()}, fmt=fmt, trailer=tr)
    return write_file([rev])[0], allo


def roots_text(roots):
    return b";".join(b"%d,%d" % (r.num, r.gen) for r in roots)


def judge_graph(g, roots):
    reachable = G.reach(g, roots)
    dang = [n for n in reachable if n not in g]

    def chk(r):
        if r[0] == "ERR":
            return None if dang else "importing a closed graph failed: %s" % r[1]
        if r[0] != "OK":
            return "importing must not %s (%s)" % (r[0], r[1][:80])
        f = r[1]
        new_roots = [Ref(*map(int, x.split(b","))) for x in f[0].split(b";")] if f[0] else []
        n = int(f[1])
        gn = G.graph_of_dump(f[2:2 + n])
        if len(gn) != n:
            return "some new object cannot be read back"
        if len(new_roots) != len(roots):
            return "%d new roots for %d roots" % (len(new_roots), len(roots))
        cp = G.closure_problems(gn, new_roots)
        if cp:
            return "not self-contained: " + cp[0]
        M = G.Matcher(g, gn, strict=True)
        try:
            for a, b in zip(roots, new_roots):
                M.eq(a, b, "root")
        except G.Diff as e:
            return "copy differs: %s" % e
        cr = G.copy_relation_problems(M.pairs)
        if cr:
            return cr[0]
        if n != len(reachable):
            return "%d new objects for %d reachable source objects" % (n, len(reachable))
        if set(G.reach(gn, new_roots)) != set(gn):
            return "the new document contains objects that the imported roots do not reach"
        return None
    return chk


def rnd_graph_history(rng, objs, shape):
    streams = [n for n, v in objs.items() if isinstance(v, Stream)]
    plain = [n for n, v in objs.items() if isinstance(v, (dict, Stream))]
    kind = rng.choice(["none", "none", "decode-all", "decode-some", "raw-some", "typed-get", "update", "touch", "new-object", "mixed"])
    steps = []
    if kind == "decode-all":
        steps = [("D", n) for n in streams]
    elif kind in ("decode-some", "raw-some", "typed-get") and streams:
        steps = [({"decode-some": "D", "raw-some": rng.choice("RD"), "typed-get": "G"}[kind], n) for n in rng.sample(streams, min(len(streams), 2))]
    elif kind == "update" and plain:
        steps = [("U", n) for n in rng.sample(plain, min(len(plain), 2))]
    elif kind == "touch" and plain:
        steps = [("T", n) for n in rng.sample(plain, min(len(plain), 2))]
    elif kind == "new-object" and plain and shape != "dangling":
        steps = [("N", rng.choice(plain))]
    elif kind == "mixed":
        for _ in range(rng.randrange(2, 6)):
            c = rng.choice("DDRGUT")
            pool = streams if c in "DRG" else plain
            if pool:
                steps.append((c, rng.choice(pool)))
    return kind, steps


def graph_case(rng, objs, roots, tags=(), spec=True, hist=None, flags=None):
    data, allo = write_graph_file(rng, objs)
    rt = roots_text(roots)
    kind, steps = hist if hist is not None else ("none", [])
    g2 = apply_updates(allo, steps)
    if flags is None:
        flags = rnd_config(rng, bool(steps)).replace(b"r", b"")
    fields = [b"s", data, rt] + ([flags or b"-", hist_text(steps)] if (steps or flags) else [])
    return Case("import_graph", fields, mfields=[graph_text(g2), rt],
                check=judge_graph(g2, roots) if spec else None, tags=["graph", "hist:" + kind] + ["cfg:" + (flags.decode() or "-")] + list(tags))


# ---------------------------------------------------------------------------------------------------
# page cases

PAGE_KNOWN = {"Type", "Parent", "Resources", "MediaBox", "CropBox", "TrimBox", "Contents", "Rotate", "Metadata", "LGIDict", "VP", "Annots"}
OP_VARIANT = {b"gs": b"GraphicsState", b"Tf": b"TextFont", b"Do": b"XObject", b"cs": b"FillColorSpace", b"CS": b"StrokeColorSpace", b"sh": b"Shade"}


def model_num(v):
    """operand values for the model: integral numbers as integers (the importer never looks inside a number)"""
    if isinstance(v, float) and v == int(v):
        return int(v)
    if isinstance(v, list):
        return [model_num(x) for x in v]
    if isinstance(v, dict):
        return {k: model_num(x) for k, x in v.items()}
    return v


def model_uses(toks):
    """the uses list of the model: every operation that names a resource, in order (with repetitions), and the
    property list of every BDC / DP (Op::BeginMarkedContent / MarkedContentPoint { properties: Some(p) }) as [p]"""
    out = []
    for op, args in G.operations(toks):
        names = [x.s for x in args if isinstance(x, Name)]
        if op in OP_VARIANT and names:
            nm = names[0] if op == b"Tf" else names[-1]
            out.append(b"[N" + OP_VARIANT[op].hex().encode() + b"; N" + nm.hex().encode() + b";]")
        elif op in (b"BDC", b"DP") and len(args) >= 2:
            out.append(b"[" + G.canon_model(model_num(args[1])) + b"]")
    return b"[" + b" ".join(out) + b"]"


def page_text(g, trailer, idx):
    """model input for one page: [uses resources tail]"""
    _, p, inh = G.pages_of(g, trailer)[idx]
    content = G.page_content(g, p) or b""
    uses = model_uses(G.tokens(content))
    res = G.deref(g, G.page_attr(g, p, inh, "Resources")) or {}
    cats = {}
    for cat, d in res.items():
        d = G.deref(g, d)
        if isinstance(d, dict):
            cats[cat] = d
    tail = {k: v for k, v in p.items() if k in ("Metadata", "LGIDict", "VP") or k not in PAGE_KNOWN}
    return b"[" + uses + b" " + G.canon_model(cats) + b" " + G.canon_model(tail) + b"]"


def same_import(impl, model):
    """page mode: implementation (reloaded new file) against model (PageBuilder level) up to renumbering and key order"""
    if impl[0] != model[0]:
        return False
    if impl[0] != "OK":
        return True
    try:
        R = G.split_import_result(impl[1])
        gn = G.graph_of_dump(R["new_objs"])
        tn = G.of_canon(R["new_trailer"])
        npages = G.pages_of(gn, tn)
        mf = norm(model)[1]
        k = int(mf[0])
        if k != len(npages):
            return False
        cnt = int(mf[1 + 2 * k])
        gm = G.graph_of_dump(mf[2 + 2 * k: 2 + 2 * k + cnt])
        M = G.Matcher(gm, gn, strict=False)
        for j in range(k):
            mres = G.of_canon(mf[1 + 2 * j])
            mtail = G.of_canon(mf[2 + 2 * j])
            _, np_, ninh = npages[j]
            nres = G.deref(gn, G.page_attr(gn, np_, ninh, "Resources")) or {}
            cats = set(c for c, d in mres.items() if d) | set(c for c, d in nres.items() if G.deref(gn, d))
            for c in cats:
                md = mres.get(c) or {}
                nd = G.deref(gn, nres.get(c)) or {}
                if set(md) != set(nd):
                    return False
                for nm in md:
                    M.eq(md[nm], nd[nm], "p%d/%s/%s" % (j, c, nm))
            for key, v in mtail.items():
                if key not in np_:
                    if G.deref(gm, v) is None:
                        continue
                    return False
                M.eq(v, np_[key], "p%d/%s" % (j, key))
        return not G.copy_relation_problems(M.pairs)
    except G.Diff:
        return False
    except Exception:
        return False


def same(a, b):
    # (implementation, model) in that order; the page mode's first field is a page count, the graph mode's a list "id,gen;…"
    if a and a[0] == "OK" and b and b[0] == "OK" and a[1] and a[1][0].isdigit():
        return same_import(a, b)
    return same_result(norm(a), norm(b))


def page_case(rng, doc, sel, tags=(), kind="structured", hist=None, flags=None, model=None, jopts=None, data=None):
    """hist = (kind, steps) done on the source before the import; flags = cache configuration (None: random);
    model = False: judged by the specification only; jopts: options of G.judge_import"""
    data = docs.write(doc, rng) if data is None else data      # (data given: the document written in another way, e.g. encrypted)
    hkind, steps = hist if hist is not None else ("none", [])
    g = apply_updates(dict(doc.objs), steps)
    if flags is None:
        flags = rnd_config(rng, bool(steps))
    tr = {"Root": Ref(doc.root)}
    pt = b"".join(page_text(g, tr, i) + b"\n" for i in sel)
    st = b",".join(b"%d" % i for i in sel)
    tags = list(tags) + ["hist:" + hkind, "cfg:" + (flags.decode() or "-")]

    def chk(r, g=g, tr=tr, sel=list(sel), exp=doc.expect, jopts=dict(jopts or {})):
        if r[0] == "ERR":
            # the property speaks about imports that succeed; an error is allowed (typed writers refuse some values)
            return None
        if r[0] != "OK":
            return "importing must not %s (%s)" % (r[0], r[1][:80])
        return G.judge_import(g, tr, sel, r[1], expect=exp, **jopts)
    # the model clones dictionary forms; a value the typed writers refuse (ColorSpace::to_primitive for DeviceGray …)
    # ends the real import in an error the model cannot predict: such documents are judged by the spec only
    return Case("import", [b"s", data, st, flags or b"-"] + ([hist_text(steps)] if steps else []), mfields=[graph_text(g), pt], check=chk,
                model=("typed-writer-refuses" not in doc.features) if model is None else model, tags=["pages"] + sorted(doc.features) + list(tags), kind=kind)


def seq_error(kind, sel):
    """mode import_seq records a page that fails and goes on; an error of the whole run after the source was loaded means
    that the pages which WERE imported cannot be saved or read back — they are not a self-contained document (C20-f)"""
    if kind.startswith(("build:", "reload", "reopen")):
        return "the target document cannot be %s after the sequence %s: the imported pages are lost with the failed ones (%s)" % (
            "built" if kind.startswith("build:") else "read back", ",".join(map(str, sel)), kind[:80])
    return None


def seq_case(rng, doc, sel, tags=(), hist=None, flags=None, jopts=None):
    """mode import_seq: the pages of `sel` through one Importer, going on after a page that fails.  Every page that was
    imported is judged as if it had been imported alone: equal to its source page, self-contained, shared objects copied
    once — whatever happened to the pages before it.  A page may fail.  No model (the model stops at the first failure)."""
    data = docs.write(doc, rng)
    hkind, steps = hist if hist is not None else ("none", [])
    g = apply_updates(dict(doc.objs), steps)
    if flags is None:
        flags = rnd_config(rng, bool(steps))
    tr = {"Root": Ref(doc.root)}
    st = b",".join(b"%d" % i for i in sel)

    def chk(r, g=g, tr=tr, sel=list(sel), exp=doc.expect, jopts=dict(jopts or {})):
        if r[0] == "ERR":
            return seq_error(r[1], sel)
        if r[0] != "OK":
            return "importing must not %s (%s)" % (r[0], r[1][:80])
        status = r[1][0]
        if len(status) != len(sel) or any(c not in b"ke" for c in status):
            return "harness: %d page states %r for %d pages" % (len(status), status, len(sel))
        done = [p for p, c in zip(sel, status) if c == ord("k")]
        if not done:
            return None
        why = G.judge_import(g, tr, done, r[1][1:], expect=exp, page_entries=True, **jopts)
        if why and b"e" in status:
            k = status.index(b"e")
            why += " [sequence %s, states %s: the import of page %d failed before]" % (",".join(map(str, sel)), status.decode(), sel[k])
        return why
    return Case("import_seq", [b"s", data, st, flags or b"-"] + ([hist_text(steps)] if steps else []), check=chk, model=False,
                tags=["pages", "sequence"] + sorted(doc.features) + list(tags) + ["hist:" + hkind, "cfg:" + (flags.decode() or "-")], kind="malformed")


def unreadable_case(rng, doc, sel, num, nbytes, tags=()):
    """an encrypted source in which stream `num`, which a selected page reaches, cannot be decrypted: the import returns an
    error, or the copy's stream data equals the source's — and the source has none, so a success is a difference"""
    data = docs.write_encrypted(doc, rng, num, nbytes)
    g = dict(doc.objs)
    v = g[num]
    g[num] = Stream(v.d, b"\x00<data that cannot be decrypted>\x00")
    tr = {"Root": Ref(doc.root)}
    flags = rnd_config(rng, False)

    def chk(r, g=g, tr=tr, sel=list(sel), exp=doc.expect):
        if r[0] == "ERR":
            return None
        if r[0] != "OK":
            return "importing must not %s (%s)" % (r[0], r[1][:80])
        why = G.judge_import(g, tr, sel, r[1], expect=exp, page_entries=True)
        return "the import succeeded although the data of source stream %d (%d encrypted bytes: not decryptable), which the page uses, " \
               "cannot be read: no copy can be equal%s" % (num, nbytes, " — " + why if why else "")
    return Case("import", [b"s", data, b",".join(b"%d" % i for i in sel), flags or b"-"], check=chk, model=False,
                tags=["pages", "unreadable-stream"] + sorted(doc.features) + list(tags) + ["cfg:" + (flags.decode() or "-")], kind="malformed")


def corpus_cases(tier):
    out = []
    for fn in sorted(glob.glob(os.path.join(REPO, "files", "*.pdf"))):
        try:
            data = open(fn, "rb").read()
        except OSError:
            continue
        if len(data) > (400000 if tier == "quick" else 4000000):
            continue
        base = os.path.basename(fn)
        for sel in ([0], [0, 0]):
            st = b",".join(b"%d" % i for i in sel)

            def chk(r, sel=list(sel)):
                if r[0] == "ERR":
                    return None
                if r[0] != "OK":
                    return "importing must not %s (%s)" % (r[0], r[1][:80])
                R = G.split_import_result(r[1])
                if any(o[:1] == b"!" and o not in (b"!NullRef", b"!FreeObject") for o in R["new_objs"]):
                    # the saved file cannot be read back object by object (bare numbers written as `4268endobj`:
                    # the save defect C04-e / C09-c, repaired on another branch) — not judged here
                    return None
                gs = G.graph_of_dump(R["src_objs"])
                ts = G.of_canon(R["src_trailer"])
                return G.judge_import(gs, ts, sel, r[1], content_tokens=False)
            out.append(Case("import", [b"t", data, st, b"s"], check=chk, model=False, tags=["corpus", "corpus:" + base], kind="corpus"))
    return out


def malformed_docs(rng):
    """loadable documents whose page reaches something the importer cannot copy: the import must end in an error
    or in a valid document, never in a panic"""
    for kind in ["dangling-font", "xobject-direct", "font-is-int", "xobject-is-dict", "contents-missing", "resources-missing", "gs-is-name"]:
        doc = docs.gen_doc(rng, npages=2)
        page = doc.objs[doc.pages[0]]
        r = docs.own_resources(doc, page)
        if kind == "dangling-font":
            r.setdefault("Font", {})["FD"] = Ref(doc.n + 50)
            ops = b"BT /FD 9 Tf ET"
        elif kind == "xobject-direct":
            r.setdefault("XObject", {})["XD"] = {"Type": Name("XObject")}
            ops = b"/XD Do"
        elif kind == "font-is-int":
            r.setdefault("Font", {})["FI"] = doc.add(42)
            ops = b"BT /FI 9 Tf ET"
        elif kind == "xobject-is-dict":
            r.setdefault("XObject", {})["XQ"] = doc.add({"Type": Name("XObject"), "Subtype": Name("Form")})
            ops = b"/XQ Do"
        elif kind == "gs-is-name":
            r.setdefault("ExtGState", {})["GQ"] = Name("Oops")
            ops = b"/GQ gs"
        elif kind == "contents-missing":
            page.pop("Contents", None)
            ops = None
        else:
            page.pop("Resources", None)
            ops = None
        if ops:
            i = doc.pages.index(doc.pages[0])
            doc.expect[i]["content"] = doc.expect[i]["content"] + b"\n" + ops
            page["Contents"] = doc.add(Stream({}, doc.expect[i]["content"]))
        data = docs.write(doc, rng, "table")
        for sel in ([0], [1, 0]):
            st = b",".join(b"%d" % i for i in sel)
            yield Case("import", [b"s", data, st, b"-"], model=False, tags=["malformed", "malformed:" + kind], kind="malformed")


def generate(rng, tier):
    quick = tier == "quick"
    # ---- graphs
    n_graph = 400 if quick else 6000
    for i in range(n_graph):
        objs, roots, shape = rnd_graph(rng)
        yield graph_case(rng, objs, roots, tags=["shape:" + shape], hist=rnd_graph_history(rng, objs, shape))
    # fixed small shapes: self loop, two-cycle, diamond (shared object), chain, stream in a cycle
    a, b, c, d = 4, 5, 6, 7
    fixed = [
        ({a: {"Self": Ref(a)}}, [Ref(a)], "self-loop"),
        ({a: {"N": Ref(b)}, b: {"N": Ref(a)}}, [Ref(a)], "two-cycle"),
        ({a: {"N": Ref(b)}, b: {"N": Ref(a)}}, [Ref(b), Ref(a)], "two-cycle-both-roots"),
        ({a: [Ref(b), Ref(c)], b: {"S": Ref(d)}, c: {"S": Ref(d)}, d: Stream({"K": Ref(a)}, b"data")}, [Ref(a)], "diamond-with-back-edge"),
        ({a: [Ref(b), Ref(b), Ref(b)], b: 7}, [Ref(a), Ref(b)], "shared-integer"),
        ({a: {"X": Ref(b)}, b: {"Y": Ref(c)}, c: {"Z": Ref(d)}, d: None}, [Ref(d), Ref(a)], "chain-root-order"),
        ({a: {"X": Ref(99)}}, [Ref(a)], "dangling"),
    ]
    for objs, roots, name in fixed:
        yield graph_case(rng, objs, roots, tags=["fixed:" + name])
    # references whose generation is not the object's: the memo is keyed by (number, generation) — correspondence only
    yield graph_case(rng, {a: [Ref(b, 0), Ref(b, 1)], b: {"K": 1}}, [Ref(a)], tags=["gen-nonzero"], spec=False)

    # ---- pages
    n_docs = 90 if quick else 1500
    for i in range(n_docs):
        cyc = docs.CYCLES[i % len(docs.CYCLES)] if i % 3 == 0 else None
        doc = docs.gen_doc(rng, cyc=cyc)
        k = len(doc.pages)
        sels = [list(range(k))]
        if k > 1:
            sels.append([rng.randrange(k) for _ in range(rng.randrange(1, 4))])
            if rng.random() < 0.5:
                p = list(range(k))
                rng.shuffle(p)
                sels.append(p)
        for sel in sels:
            yield page_case(rng, doc, sel, hist=rnd_page_history(rng, doc, sel))
    # what a viewer does before the user extracts pages: the source (opened with its caches) is looked at first —
    # every page rendered, or every stream decoded — and only then imported; and the same with pending updates
    for i in range(40 if quick else 600):
        doc = docs.gen_doc(rng)
        k = len(doc.pages)
        sel = list(range(k)) if i % 2 == 0 else [rng.randrange(k) for _ in range(rng.randrange(1, 3))]
        hk = ["render-all", "decode-all", "images", "raw-images", "fonts", "mixed", "touch", "new-object"][i % 8]
        fl = [b"c", b"c", b"cC", b"cr", b"cCr"][i % 5]
        yield page_case(rng, doc, sel, tags=["viewer-first"], hist=rnd_page_history(rng, doc, sel, hk), flags=fl)
    # every subset and order of the pages of small documents
    if not quick:
        import itertools
        for _ in range(6):
            doc = docs.gen_doc(rng, npages=3)
            for r in (1, 2, 3):
                for sel in itertools.permutations(range(3), r):
                    yield page_case(rng, doc, list(sel), tags=["all-orders"])
    # typed font reached through an ExtGState (the typed Font writer refuses or rewrites some fonts: judged, errors allowed)
    for i in range(6 if quick else 60):
        doc = docs.gen_doc(rng, typed_font=True)
        c = page_case(rng, doc, list(range(len(doc.pages))), tags=["typed-font"])
        c.check = None if False else (lambda r: None if r[0] in ("OK", "ERR") else "importing must not %s" % r[0])
        c.model = False
        yield c
    # resource categories deep_clone_op does not handle (known finding C20-d)
    for i in range(12 if quick else 120):
        doc = docs.gen_doc(rng, unsupported=True)
        yield page_case(rng, doc, list(range(len(doc.pages))), tags=["unsupported-category"])
    for c in corpus_cases(tier):
        yield c
    for c in malformed_docs(rng):
        yield c
    # tiling patterns held by the resources of a form (the typed clone of a form copies its whole resource dictionary;
    # Pattern::deep_clone parses the pattern's operations, clones them one by one, prunes the pattern's own resources to
    # what they name and writes the operations anew): the pattern of the copy must have the same operation sequence, the
    # same entries and every resource its operations use.  No model: the model clones the dictionary form of a pattern.
    for i in range(20 if quick else 300):
        doc = docs.gen_doc(rng)
        docs.plant_pattern_form(doc, rng, docs.PATTERN_FORM_KINDS[i % len(docs.PATTERN_FORM_KINDS)])
        k = len(doc.pages)
        sel = list(range(k)) if i % 3 else [rng.randrange(k) for _ in range(rng.randrange(1, 4))]
        hk = rng.choice(["none", "none", "render", "render-all", "ops", "decode-all", "fonts", "images"])
        yield page_case(rng, doc, sel, tags=["form-pattern"], model=False, hist=rnd_page_history(rng, doc, sel, hk))


    # marked content: BMC / MP, BDC / DP with an inline property list, with references in it (to one object, shared between
    # pages, a chain ending in a stream), a named property list in a form's resources; the operation sequence after the
    # reload equals the source's, a reference standing for what it designates (G.ops_problem), copied once.
    # And property lists that cannot be copied (a reference to nothing, directly / nested / behind an existing object):
    # the import fails, or the new page has the source's operation sequence (never BDC turned into BMC, DP into MP).
    for i in range(16 if quick else 240):
        kinds = docs.MC_KINDS + docs.MC_BAD_KINDS
        kind = kinds[i % len(kinds)]
        doc = docs.gen_doc(rng)
        changed = docs.plant_marked_content(doc, rng, kind)
        k = len(doc.pages)
        sel = list(range(k)) if i % 2 == 0 else changed + [rng.randrange(k) for _ in range(rng.randrange(0, 2))]
        hk = rng.choice(["none", "none", "render", "ops", "decode-all", "touch", "new-object"])
        yield page_case(rng, doc, sel, tags=["marked-content"] + (["malformed:" + kind] if kind in docs.MC_BAD_KINDS else []),
                        kind="malformed" if kind in docs.MC_BAD_KINDS else "structured", hist=rnd_page_history(rng, doc, sel, hk))


    # Indexed colour spaces with palettes below 100 bytes (as a string / as an indirect stream; as an image's /ColorSpace and
    # as a /ColorSpace resource of a form used by cs + scn): the same base, hival and palette bytes after the import, the
    # palette a string or an indirect stream.  Streams whose /DecodeParms say something (PNG / TIFF predictor, EarlyChange 0,
    # [null <<…>>] in a chain; images and forms): the copy's parameters say the same, entry by entry modulo Table 8 defaults.
    for i in range(14 if quick else 280):
        doc = docs.gen_doc(rng)
        if i % 2 == 0:
            docs.plant_indexed(doc, rng, docs.INDEXED_KINDS[(i // 2) % len(docs.INDEXED_KINDS)])
        else:
            docs.plant_parms(doc, rng, docs.PARMS_KINDS[(i // 2) % len(docs.PARMS_KINDS)])
        k = len(doc.pages)
        sel = list(range(k))
        hk = rng.choice(["none", "none", "render-all", "images", "raw-images", "ops", "decode-all", "touch"])
        yield page_case(rng, doc, sel, tags=["typed-values"], hist=rnd_page_history(rng, doc, sel, hk))


    # sequences through ONE Importer in which the import of a page fails (every way the typed layer has of failing after the
    # carrier object was loaded and memoised) and later pages share objects with the failed page (through a soft mask's
    # group, painted again, an untyped page entry, a sibling resource, the unreadable object itself, the inner form)
    nseq = 0
    for i in range(21 if quick else 315):
        fail = docs.FAIL_KINDS[i % len(docs.FAIL_KINDS)]
        share = docs.SHARE_KINDS[i % len(docs.SHARE_KINDS)]
        doc = docs.gen_doc(rng, npages=rng.choice([2, 2, 3, 4]))
        a, b = docs.plant_failing_share(doc, rng, fail, share)
        k = len(doc.pages)
        others = [x for x in range(k) if x not in (a, b)]
        sels = [[a, b], rng.choice([[a, b, b], [b, a, b], [a, a, b], [a] + others + [b], [a, b, a, b]])]
        if i % 5 == 0:
            sels.append(list(range(k)))
        for sel in sels:
            hk = rng.choice(["none", "none", "none", "render", "ops", "decode-all"])
            yield seq_case(rng, doc, sel, tags=["seq:" + fail, "seq-share:" + share], hist=rnd_page_history(rng, doc, sel, hk))


    # encrypted sources (AESV2) in which a stream the page reaches cannot be decrypted (1..15 bytes, or an IV and a partial
    # block): under an untyped reference (soft-mask group, also behind another form; an untyped page entry) and a typed one
    for i in range(8 if quick else 120):
        kind = docs.UNREADABLE_KINDS[i % len(docs.UNREADABLE_KINDS)]
        doc = docs.gen_doc(rng, npages=rng.choice([1, 2]))
        pi, num = docs.plant_unreadable(doc, rng, kind)
        nbytes = rng.choice([rng.randrange(1, 16), rng.randrange(17, 32), 5])
        sel = [pi] if i % 2 else list(range(len(doc.pages)))
        yield unreadable_case(rng, doc, sel, num, nbytes)


    # intact encrypted sources (R4 / AESV2, where the ciphertext is longer than the data, and R3 / RC4): streams reached through
    # untyped references (the fonts' embedded files, a soft-mask group, a /PieceInfo stream) and typed ones are readable in the
    # new document and their data equal the source's (finding C20-h)
    for i in range(8 if quick else 120):
        kind = docs.UNREADABLE_KINDS[i % len(docs.UNREADABLE_KINDS)]
        doc = docs.gen_doc(rng, npages=rng.choice([1, 2, 3]))
        pi, num = docs.plant_unreadable(doc, rng, kind)
        doc.features.discard("unreadable:" + kind)
        method = "AESV2" if i % 4 != 3 else "V2"
        data = docs.write_encrypted(doc, rng, None, None, method)
        sel = [pi] if i % 2 else list(range(len(doc.pages)))
        yield page_case(rng, doc, sel, tags=["encrypted-source", "untyped-stream:" + kind], data=data, jopts={"page_entries": True},
                        hist=rnd_page_history(rng, doc, sel, rng.choice(["none", "none", "render", "decode-all"])))


def always(case, r):
    if r[0] in ("PANIC", "ABORT", "TIMEOUT"):
        return "importing must never %s: %s" % (r[0].lower(), r[1][:100])
    return None


def nontrivial(c):
    return len(c.fields[1]) > 200


def classify(case, impl, model):
    if ("unsupported-category" in case.tags or "corpus" in case.tags) and impl[0] == "OK" and case.check is not None:
        # attributable only if the failure is a missing resource of a category the importer does not handle
        why = case.check(impl)
        if why and re.search(r"resource /(ColorSpace|Pattern|Properties|Shading) /\S+ used by the operations is missing", why):
            return "C20-d"
    return None


def witness_case(f, c):
    fid = f["id"]
    if c.mode == "import_graph":
        # witnesses of the graph mode carry the source graph for the oracle in the finding
        import json
        objs = {int(k): G.of_canon(bytes.fromhex(v)) for k, v in f.get("graph_hex", {}).items()}
        roots = [Ref(*map(int, x.split(b","))) for x in c.fields[2].split(b";")]
        allo = dict(minimal_catalog())
        allo.update(objs)
        c.check = judge_graph(allo, roots)
        c.mfields = [graph_text(allo), c.fields[2]]
    elif c.mode == "import":
        sel = [int(x) for x in c.fields[2].split(b",")]
        c.fields[3] = b"s"

        def chk(r, sel=sel):
            if r[0] == "ERR":
                return None
            if r[0] != "OK":
                return "importing must not %s (%s)" % (r[0], r[1][:80])
            R = G.split_import_result(r[1])
            gs = G.graph_of_dump(R["src_objs"])
            ts = G.of_canon(R["src_trailer"])
            return G.judge_import(gs, ts, sel, r[1], content_tokens=True)
        c.check = chk
        c.model = False
        if f.get("must_succeed"):
            c.check = lambda r, chk=chk: ("the import must succeed: %s %s" % (r[0], r[1][:120])) if r[0] != "OK" else chk(r)
    elif c.mode == "import_seq":
        # field `must_import` of the finding: indices into the sequence of the pages that import alone (known by construction)
        sel = [int(x) for x in c.fields[2].split(b",")]
        c.fields[3] = b"s"
        must = f.get("must_import", [])

        def chk(r, sel=sel, must=must):
            if r[0] == "ERR":
                return seq_error(r[1], sel) or ("the sequence must run: ERR %s" % r[1][:120] if must else None)
            if r[0] != "OK":
                return "importing must not %s (%s)" % (r[0], r[1][:80])
            status = r[1][0]
            if len(status) != len(sel):
                return "harness: %d page states for %d pages" % (len(status), len(sel))
            for k in must:
                if status[k] != ord("k"):
                    return "page %d (position %d of the sequence %s, states %s) imports alone but failed here" % (
                        sel[k], k, ",".join(map(str, sel)), status.decode())
            done = [p for p, x in zip(sel, status) if x == ord("k")]
            if not done:
                return None
            n = int(r[1][1])
            rest = r[1][1:]
            R = G.split_import_result(rest)
            gs = G.graph_of_dump(R["src_objs"])
            ts = G.of_canon(R["src_trailer"])
            return G.judge_import(gs, ts, done, rest, content_tokens=True, page_entries=True)
        c.check = chk
        c.model = False
    return c


def coverage_extra(cases, impl, model):
    feats = {}
    for c in cases:
        for t in c.tags:
            if ":" in t and not t.startswith("witness:") and not t.startswith("corpus:"):
                feats[t] = feats.get(t, 0) + 1
    errs = sum(1 for c, r in zip(cases, impl) if r and r[0] == "ERR" and c.mode == "import" and "malformed" not in c.tags)
    hist_panics = sum(1 for c, r in zip(cases, impl) if r and r[0] == "ERR" and "history:panic" in r[1])
    cached_hist = sum(1 for c in cases if any(t.startswith("cfg:c") for t in c.tags) and not any(t == "hist:none" for t in c.tags)
                      and any(t.startswith("hist:") for t in c.tags))
    seqs = [(c, r) for c, r in zip(cases, impl) if c.mode == "import_seq" and r and r[0] == "OK"]
    after = sum(1 for c, r in seqs if b"ek" in r[1][0].replace(b"e" * 2, b"e"))
    return {"generator_features": dict(sorted(feats.items())), "imports_ending_in_error": errs,
            "sequences_run": len(seqs), "sequences_with_an_import_after_a_failed_page": after,
            "histories_on_cached_sources": cached_hist, "histories_that_panicked_before_the_import": hist_panics,
            "workarounds": ["single revision, no bytes before the header", "only dictionaries in object streams",
                            "images state /ImageMask and /Interpolate explicitly; DeviceGray images rare (ColorSpace::to_primitive unimplemented)",
                            "no inherited /Rotate (Page::rotate is not inherited by the reader)", "content-array parts end with white-space",
                            "`sc` and `sh` are not generated (C08 findings)"]}
