"""props/C20/docs.py — generator of source documents for the importer (structured, mostly valid; built from the
standard's page/resource model) together with what each page must look like after import."""
import zlib
from oracle.pdfwriter import Name, Ref, Stream, Obj, Comp, Revision, write_file
from oracle import codecs, graph as G


class Doc:
    def __init__(self):
        self.objs = {}
        self.n = 0
        self.pages = []        # page object numbers in document order
        self.features = set()

    def add(self, v):
        self.n += 1
        self.objs[self.n] = v
        return Ref(self.n)

    def reserve(self):
        self.n += 1
        self.objs[self.n] = None
        return Ref(self.n)

    def set(self, r, v):
        self.objs[r.num] = v


# filters by short name: (PDF name, encoder); a chain is written "a+b" = /Filter [a b] (a is undone first)
def _lzw(data):
    return codecs.lzw_encode(data)


ENCODERS = {
    "flate": ("FlateDecode", lambda b: zlib.compress(b)),
    "hex": ("ASCIIHexDecode", lambda b: codecs.hex_encode(b)),
    "a85": ("ASCII85Decode", lambda b: codecs.a85_encode(b)),
    "rle": ("RunLengthDecode", lambda b: codecs.rle_encode(b)),
    "lzw": ("LZWDecode", _lzw),
    # image codecs the oracle does not undo: the bytes are what they are (a decoder may refuse them)
    "dct": ("DCTDecode", lambda b: b"\xff\xd8\xff\xe0\x00\x10JFIF\x00" + b + b"\xff\xd9"),
    "jpx": ("JPXDecode", lambda b: b"\x00\x00\x00\x0cjP  \r\n\x87\n" + b),
}
# legacy spellings of the chains used since the first version
ALIASES = {"flate+a85": "a85+flate"}
TEXT_FILTERS = ["none", "none", "flate", "hex", "a85", "rle", "lzw", "a85+flate", "hex+flate", "a85+lzw", "hex+rle", "a85+hex", "hex+a85+flate"]
IMAGE_FILTERS = ["none", "flate", "hex", "a85", "rle", "lzw", "a85+flate", "hex+lzw", "a85+hex", "dct", "a85+dct", "hex+dct", "rle+dct", "jpx", "hex+jpx"]


def enc_stream(rng, d, data, filt=None):
    """a stream whose data is stored under `filt` (None: random choice among the oracle's encoders);
    `filt` = "none" | name | "a+b+c" (decoding order)"""
    if filt is None:
        filt = rng.choice(TEXT_FILTERS)
    filt = ALIASES.get(filt, filt)
    d = dict(d)
    if filt == "none":
        return Stream(d, data)
    names = filt.split("+")
    for n in reversed(names):
        data = ENCODERS[n][1](data)
    pdfnames = [Name(ENCODERS[n][0]) for n in names]
    # a single filter as a name or (a85: as it always was) a one-element array; chains as arrays
    if len(pdfnames) == 1 and names[0] != "a85":
        d["Filter"] = pdfnames[0]
    else:
        d["Filter"] = pdfnames
    return Stream(d, data)


def rnd_bytes(rng, n):
    return bytes(rng.randrange(256) for _ in range(n))


def rnd_name(rng, prefix):
    return prefix + str(rng.randrange(1, 40))


# ---- resources ---------------------------------------------------------------------------------

def make_font(doc, rng, kind=None):
    kind = kind or rng.choice(["type1", "type1", "truetype", "type0", "type3"])
    doc.features.add("font:" + kind)
    if kind == "type1":
        d = {"Type": Name("Font"), "Subtype": Name("Type1"), "BaseFont": Name(rng.choice(["Helvetica", "Times-Roman", "Courier"]))}
        if rng.random() < 0.5:
            d["Encoding"] = Name("WinAnsiEncoding")
        elif rng.random() < 0.5:
            d["Encoding"] = doc.add({"Type": Name("Encoding"), "Differences": [32, Name("space"), Name("exclam")]})
        return d
    if kind == "truetype":
        ff = doc.add(enc_stream(rng, {"Length1": 20}, rnd_bytes(rng, rng.randrange(1, 60))))
        desc = doc.add({"Type": Name("FontDescriptor"), "FontName": Name("ABCDEF+Foo"), "Flags": 32, "FontBBox": [0, -200, 1000, 800.5],
                        "ItalicAngle": 0, "Ascent": 800, "Descent": -200, "CapHeight": 700, "StemV": 80, "FontFile2": ff})
        return {"Type": Name("Font"), "Subtype": Name("TrueType"), "BaseFont": Name("ABCDEF+Foo"), "FirstChar": 32, "LastChar": 34,
                "Widths": [250, 333.5, 408], "FontDescriptor": desc}
    if kind == "type0":
        ff = doc.add(enc_stream(rng, {"Subtype": Name("CIDFontType0C")}, rnd_bytes(rng, rng.randrange(1, 60))))
        desc = doc.add({"Type": Name("FontDescriptor"), "FontName": Name("GHIJKL+Bar"), "Flags": 4, "FontBBox": [0, 0, 1000, 1000],
                        "ItalicAngle": 0, "Ascent": 800, "Descent": -200, "CapHeight": 700, "StemV": 80, "FontFile3": ff})
        cid = doc.add({"Type": Name("Font"), "Subtype": Name("CIDFontType0"), "BaseFont": Name("GHIJKL+Bar"),
                       "CIDSystemInfo": {"Registry": b"Adobe", "Ordering": b"Identity", "Supplement": 0},
                       "FontDescriptor": desc, "DW": 1000, "W": [1, [500, 600]]})
        tou = doc.add(enc_stream(rng, {}, b"/CIDInit /ProcSet findresource begin\nend"))
        return {"Type": Name("Font"), "Subtype": Name("Type0"), "BaseFont": Name("GHIJKL+Bar"), "Encoding": Name("Identity-H"),
                "DescendantFonts": [cid], "ToUnicode": tou}
    if kind == "type3":
        cp = doc.add(enc_stream(rng, {}, b"500 0 d0\n0 0 100 100 re f"))
        d = {"Type": Name("Font"), "Subtype": Name("Type3"), "FontBBox": [0, 0, 100, 100], "FontMatrix": [0.001, 0, 0, 0.001, 0, 0],
             "CharProcs": {"a": cp}, "Encoding": {"Type": Name("Encoding"), "Differences": [97, Name("a")]},
             "FirstChar": 97, "LastChar": 97, "Widths": [500]}
        return d
    raise ValueError(kind)


def make_image(doc, rng):
    doc.features.add("xobject:image")
    w, h = rng.randrange(1, 5), rng.randrange(1, 5)
    # (DeviceGray / ICCBased images cannot be written by the typed layer: ColorSpace::to_primitive is unimplemented for
    #  them and the import ends in an error, which the property allows; they are generated rarely)
    cs, ncomp = rng.choice([("DeviceRGB", 3), ("DeviceRGB", 3), ("DeviceCMYK", 4)] + ([("DeviceGray", 1)] if rng.random() < 0.1 else []))
    if cs == "DeviceGray":
        doc.features.add("typed-writer-refuses")
    d = {"Type": Name("XObject"), "Subtype": Name("Image"), "Width": w, "Height": h, "ColorSpace": Name(cs), "BitsPerComponent": 8,
         "ImageMask": False, "Interpolate": False}     # the typed layer writes these defaults; the source states them
    if rng.random() < 0.3:
        doc.features.add("xobject:smask")
        sm = doc.add(enc_stream(rng, {"Type": Name("XObject"), "Subtype": Name("Image"), "Width": w, "Height": h,
                                      "ColorSpace": Name("DeviceRGB"), "BitsPerComponent": 8, "ImageMask": False, "Interpolate": False}, rnd_bytes(rng, 3 * w * h), rng.choice(["none", "flate", "hex"])))
        d["SMask"] = sm
    filt = rng.choice(IMAGE_FILTERS)
    doc.features.add("imgfilter:" + filt)
    return doc.add(enc_stream(rng, d, rnd_bytes(rng, ncomp * w * h), filt))


def make_form(doc, rng, res=None, content=b"0 0 10 10 re f", extra=None):
    doc.features.add("xobject:form")
    d = {"Type": Name("XObject"), "Subtype": Name("Form"), "FormType": 1, "BBox": [0, 0, rng.randrange(10, 200), 100.5]}
    if rng.random() < 0.4:
        d["Matrix"] = [1, 0, 0, 1, rng.randrange(50), 2.25]
    if res is not None:
        d["Resources"] = res
    if extra:
        d.update(extra)
    return doc.add(enc_stream(rng, d, content, rng.choice(["none", "flate", "hex", "a85", "lzw", "a85+flate", "hex+rle"])))


def make_gs(doc, rng):
    d = {"Type": Name("ExtGState"), "LW": rng.choice([1, 2.5, 0.75]), "CA": 0.5}
    if rng.random() < 0.4:
        d["LC"] = rng.randrange(3)
    if rng.random() < 0.3:
        d["D"] = [[2, 1], 0]
    if rng.random() < 0.3:
        d["BM"] = Name("Multiply")
    return d


# ---- content -------------------------------------------------------------------------------------

def ser_num(rng, x):
    if isinstance(x, int):
        return b"%d" % x
    return repr(x).encode()


def make_content(rng, fonts, xobjs, gss, extra_ops=()):
    """a content stream using every name of fonts / xobjs / gss at least once (in random order) -> bytes"""
    uses = [("Tf", n) for n in fonts] + [("Do", n) for n in xobjs] + [("gs", n) for n in gss]
    rng.shuffle(uses)
    # repeat some uses
    for _ in range(rng.randrange(3)):
        if uses:
            uses.insert(rng.randrange(len(uses) + 1), rng.choice(uses))
    parts = [b"q"]
    if rng.random() < 0.7:
        parts.append(b"1 0 0 1 %d %d cm" % (rng.randrange(100), rng.randrange(100)))
    for op, n in uses:
        nm = b"/" + n.encode()
        if op == "Tf":
            parts.append(b"BT " + nm + b" " + ser_num(rng, rng.choice([12, 9.5, 24])) + b" Tf 10 20 Td (Hi \\(x\\)) Tj ET")
        elif op == "Do":
            parts.append(b"q " + nm + b" Do Q")
        else:
            parts.append(nm + b" gs")
        if rng.random() < 0.5:
            parts.append(rng.choice([b"0.5 g", b"1 0 0 rg", b"10 10 m 20 20 l S", b"0 0 5 5 re f", b"2 w", b"0 0 0 1 k"]))
    for e in extra_ops:
        parts.insert(rng.randrange(1, len(parts) + 1), e)
    parts.append(b"Q")
    return rng.choice([b"\n", b" "]).join(parts)


# ---- documents -----------------------------------------------------------------------------------

def gen_doc(rng, npages=None, cyc=None, tier="quick", typed_font=False, unsupported=False):
    """-> Doc ; doc.expect[i] = dict(media, crop, trim, rotate, content) for page i"""
    doc = Doc()
    npages = npages or rng.choice([1, 2, 2, 3, 4])
    cat = doc.reserve()
    root_pages = doc.reserve()
    # shared pool of resources
    pool_fonts = []
    for _ in range(rng.randrange(1, 4)):
        f = make_font(doc, rng)
        pool_fonts.append(doc.add(f) if rng.random() < 0.8 else f)      # indirect (shared) or direct
    shared_res = None
    pool_x = []
    for _ in range(rng.randrange(0, 4)):
        if rng.random() < 0.5:
            pool_x.append(make_image(doc, rng))
        else:
            # a form with its own resources; sometimes an indirect resource dictionary shared between forms
            inner_font = rng.choice(pool_fonts)
            res = {"Font": {"FI": inner_font}}
            if pool_x and rng.random() < 0.5:
                res["XObject"] = {"XI": rng.choice(pool_x)}
                doc.features.add("form:nested")
            if rng.random() < 0.4:
                if shared_res is None or rng.random() < 0.5:
                    shared_res = doc.add(res)
                doc.features.add("form:indirect-resources")
                res = shared_res
            body = b"BT /FI 10 Tf (in form) Tj ET" + (b" /XI Do" if isinstance(res, dict) and "XObject" in res else b"")
            pool_x.append(make_form(doc, rng, res, body))
    pool_gs = []
    for _ in range(rng.randrange(0, 3)):
        g = make_gs(doc, rng)
        pool_gs.append(doc.add(g) if rng.random() < 0.5 else g)
    if typed_font and any(isinstance(f, Ref) for f in pool_fonts):
        # a font reached through the typed layer (ExtGState /Font): read and re-written as a typed Font
        doc.features.add("gs:font")
        g = make_gs(doc, rng)
        g["Font"] = [rng.choice([f for f in pool_fonts if isinstance(f, Ref)]), 12]
        pool_gs.append(g)

    # page tree: flat or two levels, inheritable attributes on intermediate nodes
    two_level = npages >= 2 and rng.random() < 0.5
    inh_media = rng.random() < 0.4
    inh_res = rng.random() < 0.3
    nodes = []
    doc.expect = []
    kids_top = []
    groups = [list(range(npages))]
    if two_level:
        cut = rng.randrange(1, npages)
        groups = [list(range(cut)), list(range(cut, npages))]
        doc.features.add("tree:two-level")
    page_refs = [doc.reserve() for _ in range(npages)]
    common_res_names = None
    for gi, grp in enumerate(groups):
        parent = root_pages
        inter = None
        if two_level:
            inter = doc.reserve()
            parent = inter
            kids_top.append(inter)
        inh = {}
        if inh_media:
            inh["MediaBox"] = [0, 0, 500 + gi, 700.5]
            doc.features.add("inherit:MediaBox")
            if rng.random() < 0.5:
                inh["CropBox"] = [10, 10, 400, 600]
                doc.features.add("inherit:CropBox")
        if inh_res:
            doc.features.add("inherit:Resources")
        group_res = None
        for pi in grp:
            fonts = {rnd_name(rng, "F"): f for f in rng.sample(pool_fonts, rng.randrange(0, len(pool_fonts) + 1))}
            xobjs = {rnd_name(rng, "X"): x for x in rng.sample(pool_x, rng.randrange(0, len(pool_x) + 1))}
            gss = {rnd_name(rng, "GS"): g for g in rng.sample(pool_gs, rng.randrange(0, len(pool_gs) + 1))}
            res = {}
            if fonts or rng.random() < 0.3:
                res["Font"] = dict(fonts)
            if xobjs:
                res["XObject"] = dict(xobjs)
            if gss:
                res["ExtGState"] = dict(gss)
            if rng.random() < 0.5:
                res["ProcSet"] = [Name("PDF"), Name("Text")]
            # resources present but not used by the operations (must be pruned or may be kept: not judged)
            used_fonts = dict(fonts)
            if pool_fonts and rng.random() < 0.4:
                res.setdefault("Font", {})["Unused" + str(pi)] = rng.choice(pool_fonts)
                doc.features.add("unused-resource")
            extra_ops = []
            if unsupported:
                kind = rng.choice(["cs", "pattern", "properties"])      # (`sh` is dropped by the content parser: C08-c)
                doc.features.add("unsupported:" + kind)
                if kind == "cs":
                    icc = doc.add(enc_stream(rng, {"N": 3}, rnd_bytes(rng, 24), "flate"))
                    res["ColorSpace"] = {"CS0": [Name("ICCBased"), icc]}
                    extra_ops.append(b"/CS0 cs 0.1 0.2 0.3 scn")
                elif kind == "pattern":
                    pres = doc.add({})
                    pat = doc.add(Stream({"Type": Name("Pattern"), "PatternType": 1, "PaintType": 1, "TilingType": 1, "BBox": [0, 0, 5, 5],
                                          "XStep": 5, "YStep": 5, "Resources": pres}, b"0 0 2 2 re f"))
                    res["Pattern"] = {"P0": pat}
                    extra_ops.append(b"/Pattern cs /P0 scn")
                elif kind == "shading":
                    fn = {"FunctionType": 2, "Domain": [0, 1], "C0": [0], "C1": [1], "N": 1}
                    sh = doc.add({"ShadingType": 2, "ColorSpace": Name("DeviceGray"), "Coords": [0, 0, 1, 1], "Function": fn})
                    res["Shading"] = {"Sh0": sh}
                    extra_ops.append(b"/Sh0 sh")
                else:
                    oc = doc.add({"Type": Name("OCG"), "Name": b"Layer"})
                    res["Properties"] = {"MC0": oc}
                    extra_ops.append(b"/OC /MC0 BDC 0 0 1 1 re f EMC")
            content = make_content(rng, list(used_fonts), list(xobjs), list(gss), extra_ops)
            # contents: one stream, or an array of streams cut at a token boundary
            if rng.random() < 0.25 and b"\n" in content:
                doc.features.add("contents:array")
                cutp = content.index(b"\n")
                # each part ends with white-space (the parts are read as if concatenated, 7.8.2)
                cref = [doc.add(enc_stream(rng, {}, content[:cutp + 1])), doc.add(enc_stream(rng, {}, content[cutp + 1:]))]
            else:
                cref = doc.add(enc_stream(rng, {}, content))
            page = {"Type": Name("Page"), "Parent": parent, "Contents": cref}
            media = inh.get("MediaBox")
            crop = inh.get("CropBox")
            if not inh_media or rng.random() < 0.3:
                media = [0, 0, rng.choice([612, 595.5, 300]), rng.choice([792, 841.25])]
                page["MediaBox"] = media
            if rng.random() < 0.3:
                crop = [5, 5.5, 200, 250]
                page["CropBox"] = crop
            trim = None
            if rng.random() < 0.3:
                trim = [6, 6, 190, 240]
                page["TrimBox"] = trim
            rot = 0
            if rng.random() < 0.4:
                rot = rng.choice([90, 180, 270])
                page["Rotate"] = rot
            if inh_res and group_res is None and not unsupported:
                group_res = res           # the first page's resources go to the intermediate / root node
                doc.features.add("resources-on-node")
            elif inh_res and group_res is not None and rng.random() < 0.7 and not unsupported:
                # this page uses the node's resources: rewrite its content to the names of that dictionary
                fonts = dict(group_res.get("Font", {}))
                fonts = {k: v for k, v in fonts.items() if not k.startswith("Unused")}
                content = make_content(rng, list(fonts), list(group_res.get("XObject", {})), list(group_res.get("ExtGState", {})))
                cref = doc.add(enc_stream(rng, {}, content))
                page["Contents"] = cref
                res = None
            if res is not None and not (inh_res and res is group_res):
                page["Resources"] = doc.add(res) if rng.random() < 0.4 else res
            # entries the page model keeps in `other`, and the untyped ones
            if rng.random() < 0.3:
                page["Group"] = {"Type": Name("Group"), "S": Name("Transparency"), "CS": Name("DeviceRGB")}
            if rng.random() < 0.2:
                page["Metadata"] = doc.add(Stream({"Type": Name("Metadata"), "Subtype": Name("XML")}, b"<x:xmpmeta/>"))
                doc.features.add("page:metadata")
            if rng.random() < 0.2:
                page["PieceInfo"] = {"App": {"LastModified": b"D:20200101", "Private": doc.add({"K": [1, 2, 3]})}}
                doc.features.add("page:other-ref")
            if rng.random() < 0.2:
                page["StructParents"] = pi
            doc.set(page_refs[pi], page)
            doc.expect.append({"media": media, "crop": crop if crop is not None else media, "trim": trim, "rotate": rot, "content": content})
        node_inh = dict(inh)
        if inh_res and group_res is not None:
            node_inh["Resources"] = group_res
        if two_level:
            d = {"Type": Name("Pages"), "Parent": root_pages, "Kids": [page_refs[i] for i in grp], "Count": len(grp)}
            d.update(node_inh)
            doc.set(inter, d)
        else:
            nodes.append(node_inh)
    top = {"Type": Name("Pages"), "Kids": kids_top if two_level else page_refs, "Count": npages}
    if not two_level:
        top.update(nodes[0])
    doc.set(root_pages, top)
    doc.set(cat, {"Type": Name("Catalog"), "Pages": root_pages})
    doc.pages = [r.num for r in page_refs]
    doc.root = cat.num

    # reference cycles (the property's quantifier: cycles among annotations / fonts)
    cyc = cyc if cyc is not None else None
    if cyc:
        plant_cycle(doc, rng, cyc)
    return doc


def plant_cycle(doc, rng, kind):
    """make part of what a page import reaches cyclic"""
    doc.features.add("cycle:" + kind)
    pn = rng.choice(doc.pages)
    page = doc.objs[pn]
    if kind == "annot-popup":
        # /Annots is not imported by clone_page, but an entry of the page that is kept untyped reaches the same cycle
        a = doc.reserve()
        b = doc.add({"Type": Name("Annot"), "Subtype": Name("Popup"), "Rect": [0, 0, 10, 10], "Parent": a})
        doc.set(a, {"Type": Name("Annot"), "Subtype": Name("Text"), "Rect": [0, 0, 10, 10], "Contents": b"note", "Popup": b})
        page["Annots"] = [a, b]
        page["PieceInfo"] = {"App": {"Private": a}}
    elif kind == "beads":
        t = doc.reserve()
        b1, b2 = doc.reserve(), doc.reserve()
        doc.set(t, {"Type": Name("Thread"), "F": b1})
        doc.set(b1, {"Type": Name("Bead"), "T": t, "N": b2, "V": b2, "R": [0, 0, 1, 1]})
        doc.set(b2, {"Type": Name("Bead"), "N": b1, "V": b1, "R": [1, 1, 2, 2]})
        page["B"] = [b1, b2]
    elif kind == "page-backref":
        # an untyped entry pointing back at the page itself (e.g. an action's destination): reaches /Parent and the whole tree
        page["AA"] = {"O": {"S": Name("GoTo"), "D": [Ref(pn), Name("Fit")]}}
    elif kind == "font-self":
        # a font dictionary that reaches itself (Type 3 glyph resources naming the font)
        f = doc.reserve()
        cp = doc.add(Stream({}, b"500 0 d0"))
        doc.set(f, {"Type": Name("Font"), "Subtype": Name("Type3"), "FontBBox": [0, 0, 1, 1], "FontMatrix": [1, 0, 0, 1, 0, 0],
                    "CharProcs": {"a": cp}, "Encoding": {"Type": Name("Encoding"), "Differences": [97, Name("a")]},
                    "FirstChar": 97, "LastChar": 97, "Widths": [500], "Resources": {"Font": {"Self": f}}})
        add_resource(doc, page, "Font", "FC", f, b"BT /FC 8 Tf (a) Tj ET")
    elif kind == "form-self":
        # a form whose resource dictionary lists the form itself
        x = doc.reserve()
        doc.set(x, Stream({"Type": Name("XObject"), "Subtype": Name("Form"), "FormType": 1, "BBox": [0, 0, 1, 1],
                           "Resources": {"XObject": {"Me": x}}}, b"0 0 1 1 re f"))
        add_resource(doc, page, "XObject", "XC", x, b"/XC Do")
    elif kind == "form-shared-res":
        # two nested forms sharing one indirect resource dictionary that lists the inner form
        r = doc.reserve()
        inner = doc.add(Stream({"Type": Name("XObject"), "Subtype": Name("Form"), "FormType": 1, "BBox": [0, 0, 1, 1], "Resources": r}, b"0 0 1 1 re f"))
        outer = doc.add(Stream({"Type": Name("XObject"), "Subtype": Name("Form"), "FormType": 1, "BBox": [0, 0, 2, 2], "Resources": r}, b"/In Do"))
        doc.set(r, {"XObject": {"In": inner}})
        add_resource(doc, page, "XObject", "XO", outer, b"/XO Do")
    elif kind in ("type3-form-shared-res", "form-type3-shared-res"):
        # no cycle: one indirect resource dictionary shared by a Type 3 font (copied untyped) and a form (copied typed)
        r = doc.add({"ExtGState": {"G0": {"Type": Name("ExtGState"), "LW": 1.5}}})
        cp = doc.add(Stream({}, b"500 0 d0"))
        f = doc.add({"Type": Name("Font"), "Subtype": Name("Type3"), "FontBBox": [0, 0, 1, 1], "FontMatrix": [1, 0, 0, 1, 0, 0],
                     "CharProcs": {"a": cp}, "Encoding": {"Type": Name("Encoding"), "Differences": [97, Name("a")]},
                     "FirstChar": 97, "LastChar": 97, "Widths": [500], "Resources": r})
        x = doc.add(Stream({"Type": Name("XObject"), "Subtype": Name("Form"), "FormType": 1, "BBox": [0, 0, 2, 2], "Resources": r}, b"0 0 1 1 re f"))
        if kind == "type3-form-shared-res":
            add_resource(doc, page, "Font", "FS", f, b"BT /FS 8 Tf (a) Tj ET")
            add_resource(doc, page, "XObject", "XS", x, b"/XS Do")
        else:
            add_resource(doc, page, "XObject", "XS", x, b"/XS Do")
            add_resource(doc, page, "Font", "FS", f, b"BT /FS 8 Tf (a) Tj ET")
    else:
        raise ValueError(kind)


CYCLES = ["annot-popup", "beads", "page-backref", "font-self", "form-self", "form-shared-res", "type3-form-shared-res", "form-type3-shared-res"]


def own_resources(doc, page):
    """the page's own resource dictionary (made direct and private so that it can be edited)"""
    r = page.get("Resources")
    if isinstance(r, Ref):
        r = dict(doc.objs[r.num])
    elif r is None:
        # inherited: copy the node's dictionary
        node = doc.objs[page["Parent"].num]
        while "Resources" not in node and "Parent" in node:
            node = doc.objs[node["Parent"].num]
        r = dict(node.get("Resources", {}))
        r = {k: (dict(v) if isinstance(v, dict) else v) for k, v in r.items()}
    else:
        r = {k: (dict(v) if isinstance(v, dict) else v) for k, v in r.items()}
    page["Resources"] = r
    return r


def add_resource(doc, page, cat, name, value, ops):
    r = own_resources(doc, page)
    r.setdefault(cat, {})
    if isinstance(r[cat], Ref):
        r[cat] = dict(doc.objs[r[cat].num])
    r[cat][name] = value
    # append the operations to the page's content
    pn = [n for n in doc.pages if doc.objs[n] is page][0]
    i = doc.pages.index(pn)
    content = doc.expect[i]["content"] + b"\n" + ops
    doc.expect[i]["content"] = content
    page["Contents"] = doc.add(Stream({}, content))


def write(doc, rng, fmt=None):
    """file bytes; fmt: 'table' | 'stream' | 'objstm' (dictionaries that are not streams go to an object stream)"""
    fmt = fmt or rng.choice(["table", "table", "stream", "objstm"])
    doc.features.add("file:" + fmt)
    tr = {"Root": Ref(doc.root)}
    if fmt == "objstm":
        ent = {}
        for n, v in doc.objs.items():
            # dictionaries only (bare integers / arrays in object streams are another property's subject)
            if isinstance(v, dict) and n != doc.root and rng.random() < 0.7:
                ent[n] = Comp(v)
            else:
                ent[n] = Obj(v)
        rev = Revision(ent, fmt="stream", trailer=tr, objstm_filter=rng.choice([None, "flate"]), member_sep=b"\n")
    else:
        rev = Revision({n: Obj(v) for n, v in doc.objs.items()}, fmt=fmt, trailer=tr)
    data, info = write_file([rev])
    return data


# ---- tiling patterns in the resources of a form (§8.7.3; Pattern::deep_clone) ------------------------

# pieces of a pattern's content: each is a complete drawing step, so any concatenation is a valid content stream
PATTERN_STEPS = [b"1 w", b"0 0 m 4 4 l S", b"0.5 g", b"0 0 2 2 re f", b"1 0 0 RG", b"2 w", b"0 0 0 1 k", b"1 1 m 3 1 l 3 3 l S",
                 b"q 1 0 0 1 2 2 cm 0 0 1 1 re f Q", b"[2 1] 0 d", b"1 J", b"0 1 0 rg"]
PATTERN_FORM_KINDS = ["direct", "indirect", "gs", "xobject", "font", "shared", "nested-form", "two-patterns", "stroke", "unused"]


def pattern_content(rng, extra=()):
    """a content stream of at least three operations that is not its own reverse (operation by operation)"""
    while True:
        steps = rng.sample(PATTERN_STEPS, rng.randrange(2, 5)) + list(extra)
        rng.shuffle(steps)
        data = rng.choice([b" ", b"\n"]).join(steps)
        ops = [t[1] for t in G.tokens(data) if t[0] == "op"]
        if len(ops) >= 3 and ops != ops[::-1]:
            return data


def make_tiling(doc, rng, res=None, extra=()):
    """a PatternType 1 pattern (Table 75) as an indirect stream; `res`: its resource dictionary (held by reference)"""
    doc.features.add("pattern:tiling")
    d = {"Type": Name("Pattern"), "PatternType": 1, "PaintType": 1, "TilingType": rng.choice([1, 2, 3]),
         "BBox": [0, 0, rng.randrange(4, 9), 5.5], "XStep": rng.choice([5, 6.25]), "YStep": rng.choice([5, 7]),
         "Resources": doc.add(dict(res or {}))}
    if rng.random() < 0.4:
        d["Matrix"] = [1, 0, 0, 1, rng.randrange(5), 0.5]
    return doc.add(enc_stream(rng, d, pattern_content(rng, extra), rng.choice(["none", "none", "flate", "hex", "a85", "lzw", "a85+flate"])))


def plant_pattern_form(doc, rng, kind):
    """a form whose own /Resources hold tiling patterns used by its operations (`/Pattern cs /P0 scn`), drawn by a page.
    The form's resource dictionary is copied whole by the importer (typed: Resources -> Ref<Pattern>)."""
    doc.features.add("form-pattern:" + kind)
    pn = rng.choice(doc.pages)
    page = doc.objs[pn]
    pres, extra = {}, []
    if kind == "gs":
        pres = {"ExtGState": {"G0": rng.choice([make_gs(doc, rng), doc.add(make_gs(doc, rng))])}}
        extra = [b"/G0 gs"]
    elif kind == "xobject":
        pres = {"XObject": {"X0": make_image(doc, rng) if rng.random() < 0.5 else make_form(doc, rng)}}
        extra = [b"q /X0 Do Q"]
    elif kind == "font":
        pres = {"Font": {"F0": doc.add(make_font(doc, rng, rng.choice(["type1", "truetype"])))}}
        extra = [b"BT /F0 4 Tf (p) Tj ET"]
    elif kind == "unused":
        # a resource of the pattern that its operations do not name (pruned or kept: not judged)
        pres = {"ExtGState": {"G0": make_gs(doc, rng), "GUnused": make_gs(doc, rng)}}
        extra = [b"/G0 gs"]
    pat = make_tiling(doc, rng, pres, extra)
    pats = {"P0": pat}
    body = [b"/Pattern cs /P0 scn 0 0 10 10 re f"]
    if kind == "stroke":
        body = [b"/Pattern CS /P0 SCN 1 1 m 9 9 l S"]
    if kind == "two-patterns":
        pats["P1"] = make_tiling(doc, rng)
        body.append(b"/Pattern CS /P1 SCN 0 0 m 9 9 l S")
    fres = {"Pattern": pats}
    if rng.random() < 0.5:
        fres["ExtGState"] = {"GF": make_gs(doc, rng)}
        body.insert(0, b"/GF gs")
    if kind == "indirect" or (kind not in ("direct", "nested-form") and rng.random() < 0.3):
        doc.features.add("form:indirect-resources")
        fres = doc.add(fres)
    form = make_form(doc, rng, fres, b" ".join(body))
    if kind == "nested-form":
        # the form with the pattern is drawn by another form
        form = make_form(doc, rng, {"XObject": {"In": form}}, b"q /In Do Q")
    add_resource(doc, page, "XObject", "XP", form, b"q /XP Do Q")
    if kind == "shared":
        # a second form (on any page) uses the same pattern object: one copy
        page2 = doc.objs[rng.choice(doc.pages)]
        form2 = make_form(doc, rng, {"Pattern": {"PS": pat}}, b"/Pattern cs /PS scn 0 0 3 3 re f")
        add_resource(doc, page2, "XObject", "XP2", form2, b"q /XP2 Do Q")


# ---- marked content with property lists (§14.6; deep_clone_op: BeginMarkedContent / MarkedContentPoint) -------------

MC_KINDS = ["bmc-mp", "bdc-inline", "dp-inline", "bdc-ref", "dp-ref", "bdc-ref-shared", "bdc-ref-chain", "form-properties"]
# the property list cannot be copied (a reference in it designates no object): the import must fail, or copy the sequence as it is
MC_BAD_KINDS = ["bdc-dangling", "dp-dangling", "bdc-dangling-nested", "bdc-ref-to-dangling", "dp-ref-to-dangling", "bdc-dangling-second"]


def append_ops(doc, rng, page, ops):
    """append operations to a page's content (rewritten as one stream)"""
    pn = [n for n in doc.pages if doc.objs[n] is page][0]
    i = doc.pages.index(pn)
    content = doc.expect[i]["content"] + b"\n" + ops
    doc.expect[i]["content"] = content
    page["Contents"] = doc.add(enc_stream(rng, {}, content))
    return i


def plant_marked_content(doc, rng, kind):
    """marked-content operators on one page (two for the shared kind) -> indices of the pages changed.
    A property list is a name (of the /Properties resources) or an inline dictionary; the library's reader also accepts
    references inside the inline dictionary and the importer copies what they designate."""
    doc.features.add("mc:" + kind)
    pi = rng.randrange(len(doc.pages))
    page = doc.objs[doc.pages[pi]]
    draw = rng.choice([b"0 0 m 10 10 l S", b"0 0 3 3 re f", b"1 w 2 2 m 5 9 l S"])
    missing = doc.n + 60 + rng.randrange(20)
    plist = lambda: doc.add({"Kind": Name("PropList"), "V": [1, 2.5, b"s"], "Lang": b"en"})
    if kind == "bmc-mp":
        ops = b"/Artifact BMC " + draw + b" EMC /Pt MP"
    elif kind == "bdc-inline":
        ops = b"/Span << /MCID %d /Lang (en) /A [1 2.5 /N (s)] /D << /E true /F null >> >> BDC " % rng.randrange(9) + draw + b" EMC"
    elif kind == "dp-inline":
        ops = b"/Pt << /MCID %d /B /Nm >> DP " % rng.randrange(9) + draw
    elif kind == "bdc-ref":
        ops = b"/Span << /K %d 0 R /MCID 1 >> BDC " % plist().num + draw + b" EMC"
    elif kind == "dp-ref":
        ops = b"/Pt << /K [%d 0 R 7] >> DP " % plist().num + draw
    elif kind == "bdc-ref-shared":
        # the same object named by the property lists of two pages (and twice on one): copied once
        r = plist()
        ops = b"/Span << /K %d 0 R >> BDC " % r.num + draw + b" EMC /Pt << /K %d 0 R >> DP" % r.num
        pj = rng.randrange(len(doc.pages))
        if pj != pi:
            append_ops(doc, rng, doc.objs[doc.pages[pj]], b"/Span << /K %d 0 R >> BDC 0 0 1 1 re f EMC" % r.num)
    elif kind == "bdc-ref-chain":
        leaf = doc.add(enc_stream(rng, {"Kind": Name("Leaf")}, b"leaf data"))
        mid = doc.add({"Next": leaf, "Back": None})
        ops = b"/Span << /K %d 0 R >> BDC " % mid.num + draw + b" EMC"
    elif kind == "form-properties":
        # a named property list in the resources of a form (copied with the form's whole resource dictionary)
        oc = doc.add({"Type": Name("OCG"), "Name": b"Layer"})
        form = make_form(doc, rng, {"Properties": {"MC0": oc if rng.random() < 0.6 else {"Type": Name("OCG"), "Name": b"Direct"}}},
                         b"/OC /MC0 BDC 0 0 1 1 re f EMC /Pt /MC0 DP")
        add_resource(doc, page, "XObject", "XM", form, b"q /XM Do Q")
        return [pi]
    elif kind == "bdc-dangling":
        ops = b"/Span << /K %d 0 R >> BDC " % missing + draw + b" EMC"
    elif kind == "dp-dangling":
        ops = b"/Pt << /K %d 0 R >> DP " % missing + draw
    elif kind == "bdc-dangling-nested":
        ops = b"/Span << /MCID 2 /A [ 1 << /K %d 0 R >> ] >> BDC " % missing + draw + b" EMC"
    elif kind == "bdc-ref-to-dangling":
        r = doc.add({"Kind": Name("PropList"), "Gone": Ref(missing)})
        ops = b"/Span << /K %d 0 R >> BDC " % r.num + draw + b" EMC"
    elif kind == "dp-ref-to-dangling":
        r = doc.add({"Kind": Name("PropList"), "Gone": [Ref(missing)]})
        ops = b"/Pt << /K %d 0 R >> DP " % r.num + draw
    elif kind == "bdc-dangling-second":
        # a good property list first, then one that cannot be copied
        ops = b"/Span << /K %d 0 R >> BDC " % plist().num + draw + b" EMC /Span << /K %d 0 R >> BDC " % missing + draw + b" EMC"
    else:
        raise ValueError(kind)
    append_ops(doc, rng, page, ops)
    return [pi]


# ---- Indexed colour spaces (§8.6.6.3; ColorSpace::to_primitive) and streams with /DecodeParms (Table 8) ---------------

# (palettes of 100 bytes and more are written by the library as a stream placed directly inside the colour-space array — a
#  defect of the unchanged library, reported; the generator stays below)
INDEXED_KINDS = ["image-str-small", "image-str-99", "image-stream", "image-cmyk", "form-cs", "form-cs-stream", "image-str-mid", "image-stream-99"]
PARMS_KINDS = ["flate-png-up", "lzw-early0", "chain-null-parms", "form-flate-png", "flate-tiff", "lzw-early0-form"]


def _image_dict(w, h, cs):
    return {"Type": Name("XObject"), "Subtype": Name("Image"), "Width": w, "Height": h, "ColorSpace": cs, "BitsPerComponent": 8,
            "ImageMask": False, "Interpolate": False}


def plant_indexed(doc, rng, kind):
    doc.features.add("indexed:" + kind)
    page = doc.objs[rng.choice(doc.pages)]
    ncomp = 4 if kind == "image-cmyk" else 3
    base = Name("DeviceCMYK" if ncomp == 4 else "DeviceRGB")
    if kind.endswith("-99"):
        n = 99
    elif kind == "image-str-mid":
        n = 3 * rng.randrange(10, 33)
    else:
        n = ncomp * rng.randrange(1, 9)
    pal = rnd_bytes(rng, n)
    lookup = pal
    if "stream" in kind:
        lookup = doc.add(enc_stream(rng, {}, pal, rng.choice(["none", "flate", "hex", "a85"])))
    cs = [Name("Indexed"), base, n // ncomp - 1, lookup]
    if kind.startswith("form"):
        form = make_form(doc, rng, {"ColorSpace": {"CS0": cs}}, b"/CS0 cs %d scn 0 0 5 5 re f" % rng.randrange(n // ncomp))
        add_resource(doc, page, "XObject", "XI0", form, b"q /XI0 Do Q")
    else:
        w, h = rng.randrange(1, 5), rng.randrange(1, 5)
        img = doc.add(enc_stream(rng, _image_dict(w, h, cs), bytes(rng.randrange(n // ncomp) for _ in range(w * h)),
                                 rng.choice(["none", "flate", "hex", "a85+flate"])))
        add_resource(doc, page, "XObject", "XI0", img, b"q /XI0 Do Q")


def png_up(data, row):
    """PNG predictor 'Up' (Predictor 12): every row preceded by its tag byte 2"""
    out, prev = b"", bytes(row)
    for i in range(0, len(data), row):
        r = data[i:i + row]
        out += b"\x02" + bytes((a - b) & 255 for a, b in zip(r, prev))
        prev = r
    return out


def plant_parms(doc, rng, kind):
    """a stream whose /DecodeParms say something (non-default entries): the copy must say the same"""
    doc.features.add("parms:" + kind)
    page = doc.objs[rng.choice(doc.pages)]
    w, h = rng.randrange(1, 5), rng.randrange(1, 5)
    raw = rnd_bytes(rng, 3 * w * h)
    img = _image_dict(w, h, Name("DeviceRGB"))
    pred = {"Predictor": 12, "Colors": 3, "Columns": w}
    if kind == "flate-png-up":
        x = Stream(dict(img, Filter=Name("FlateDecode"), DecodeParms=pred), zlib.compress(png_up(raw, 3 * w)))
    elif kind == "flate-tiff":
        tiff = b"".join(bytes([raw[i + j] if j < 3 else (raw[i + j] - raw[i + j - 3]) & 255 for j in range(3 * w)]) for i in range(0, len(raw), 3 * w))
        x = Stream(dict(img, Filter=[Name("FlateDecode")], DecodeParms=[{"Predictor": 2, "Colors": 3, "Columns": w, "BitsPerComponent": 8}]), zlib.compress(tiff))
    elif kind == "lzw-early0":
        x = Stream(dict(img, Filter=Name("LZWDecode"), DecodeParms={"EarlyChange": 0}), codecs.lzw_encode(raw, 0))
    elif kind == "chain-null-parms":
        x = Stream(dict(img, Filter=[Name("ASCIIHexDecode"), Name("FlateDecode")], DecodeParms=[None, pred]),
                   codecs.hex_encode(zlib.compress(png_up(raw, 3 * w))))
    elif kind in ("form-flate-png", "lzw-early0-form"):
        body = b"0.5 g 0 0 4 4 re f 1 w 0 0 m 9 9 l S"
        fd = {"Type": Name("XObject"), "Subtype": Name("Form"), "FormType": 1, "BBox": [0, 0, 10, 10]}
        if kind == "form-flate-png":
            cols = 6
            body += b" " * (-len(body) % cols)
            x = Stream(dict(fd, Filter=Name("FlateDecode"), DecodeParms={"Predictor": 12, "Columns": cols}), zlib.compress(png_up(body, cols)))
        else:
            x = Stream(dict(fd, Filter=Name("LZWDecode"), DecodeParms={"EarlyChange": 0}), codecs.lzw_encode(body, 0))
    else:
        raise ValueError(kind)
    add_resource(doc, page, "XObject", "XD0", doc.add(x), b"q /XD0 Do Q")


# ---- sequences through one Importer in which a page fails and a later page shares objects with it -------------------

# what makes the typed copy of the carrier form fail AFTER the form itself was loaded (something nested in its resources /
# entries that does not load as the type its position demands)
FAIL_KINDS = ["unknown-subtype", "missing-required", "missing-bbox", "wrong-type-int", "wrong-type-dict", "wrong-entry-type",
              "dangling", "metadata-not-stream", "pattern-bad", "writer-refuses"]
# how the later page reaches what the failed page reached
SHARE_KINDS = ["smask", "do", "entry", "sibling", "bad-direct", "nested-inner", "smask-indirect"]


def plant_failing_share(doc, rng, fail, share):
    """-> (index of the page whose import fails, index of a page that shares objects with it).  Needs >= 2 pages."""
    doc.features.add("fail:" + fail)
    doc.features.add("share:" + share)
    ia, ib = rng.sample(range(len(doc.pages)), 2)
    pa, pb = doc.objs[doc.pages[ia]], doc.objs[doc.pages[ib]]
    img = _image_dict(2, 2, Name("DeviceRGB"))
    fres = {}
    extra = {}
    if fail == "unknown-subtype":
        bad = doc.add(Stream({"Type": Name("XObject"), "Subtype": Name("Vendor")}, b"abcd"))
    elif fail == "missing-required":
        d = dict(img)
        del d["Width"]
        bad = doc.add(Stream(d, rnd_bytes(rng, 12)))
    elif fail == "missing-bbox":
        bad = doc.add(Stream({"Type": Name("XObject"), "Subtype": Name("Form"), "FormType": 1}, b"0 0 1 1 re f"))
    elif fail == "wrong-type-int":
        bad = doc.add(42)
    elif fail == "wrong-type-dict":
        bad = doc.add({"Type": Name("XObject"), "Subtype": Name("Image"), "Width": 2, "Height": 2})
    elif fail == "wrong-entry-type":
        bad = doc.add(Stream(dict(img, Width=Name("Wide")), rnd_bytes(rng, 12)))
    elif fail == "writer-refuses":
        # loads and clones, but the typed writer refuses it (ColorSpace::to_primitive for DeviceGray): fails in `fulfill`
        bad = doc.add(Stream(_image_dict(2, 2, Name("DeviceGray")), rnd_bytes(rng, 4)))
    elif fail == "dangling":
        bad = Ref(doc.n + 70 + rng.randrange(20))
    elif fail == "metadata-not-stream":
        bad = doc.add({"Type": Name("Metadata"), "Subtype": Name("XML")})
        extra = {"Metadata": bad}
    elif fail == "pattern-bad":
        bad = doc.add({"Type": Name("Pattern"), "PatternType": 1, "PaintType": 1})
        fres["Pattern"] = {"PB": bad}
    else:
        raise ValueError(fail)
    if fail not in ("metadata-not-stream", "pattern-bad"):
        fres["XObject"] = {"Bad": bad}
    good = doc.add(enc_stream(rng, img, rnd_bytes(rng, 12), rng.choice(["none", "flate", "hex"])))
    if share == "sibling" or rng.random() < 0.3:
        fres.setdefault("XObject", {})["Good"] = good
    if rng.random() < 0.5:
        fres["ExtGState"] = {"GF": make_gs(doc, rng)}
    body = b"0 0 10 10 re f" + (b" q /Good Do Q" if "Good" in fres.get("XObject", {}) else b"")
    inner = make_form(doc, rng, fres, body, extra)
    carrier = inner
    if share == "nested-inner" or rng.random() < 0.25:
        doc.features.add("fail:nested")
        carrier = make_form(doc, rng, {"XObject": {"In": inner}}, b"q /In Do Q")
    add_resource(doc, pa, "XObject", "XF", carrier, b"q /XF Do Q")
    mask = lambda g: {"Type": Name("ExtGState"), "SMask": {"Type": Name("Mask"), "S": Name("Luminosity"), "G": g}}
    if share == "smask":
        add_resource(doc, pb, "ExtGState", "GSM", mask(carrier), b"/GSM gs 0 0 3 3 re f")
    elif share == "smask-indirect":
        add_resource(doc, pb, "ExtGState", "GSM", doc.add(mask(carrier)), b"/GSM gs 0 0 3 3 re f")
    elif share == "do":
        add_resource(doc, pb, "XObject", "XF2", carrier, b"q /XF2 Do Q")
    elif share == "entry":
        pb["PieceInfo"] = {"App": {"LastModified": b"D:20200101", "Private": carrier}}
    elif share == "sibling":
        add_resource(doc, pb, "XObject", "XG", good, b"q /XG Do Q")
    elif share == "bad-direct":
        add_resource(doc, pb, "ExtGState", "GSM", mask(bad), b"/GSM gs 0 0 3 3 re f")
    elif share == "nested-inner":
        add_resource(doc, pb, "ExtGState", "GSM", mask(inner), b"/GSM gs 0 0 3 3 re f")
    else:
        raise ValueError(share)
    return ia, ib


# ---- encrypted sources with a stream that cannot be decrypted (Resolve::stream_data fails) ---------------------------

UNREADABLE_KINDS = ["smask", "entry", "image", "smask-form-nested"]


def plant_unreadable(doc, rng, kind):
    """a stream the selected page reaches -> (page index, object number of the stream to damage)"""
    doc.features.add("unreadable:" + kind)
    pi = rng.randrange(len(doc.pages))
    page = doc.objs[doc.pages[pi]]
    form = lambda res=None: doc.add(Stream(dict({"Type": Name("XObject"), "Subtype": Name("Form"), "FormType": 1, "BBox": [0, 0, 1, 1]},
                                                **({"Resources": res} if res else {})), b"0 0 1 1 re f"))
    mask = lambda g: {"Type": Name("ExtGState"), "SMask": {"Type": Name("Mask"), "S": Name("Luminosity"), "G": g}}
    if kind == "smask":
        x = form()
        add_resource(doc, page, "ExtGState", "GSU", mask(x), b"/GSU gs 0 0 3 3 re f")
    elif kind == "smask-form-nested":
        x = form()
        add_resource(doc, page, "ExtGState", "GSU", doc.add(mask(form({"XObject": {"In": x}}))), b"/GSU gs 0 0 3 3 re f")
    elif kind == "entry":
        x = doc.add(Stream({"Kind": Name("Private")}, b"private data"))
        page["PieceInfo"] = {"App": {"LastModified": b"D:20200101", "Private": x}}
    elif kind == "image":
        x = doc.add(Stream(_image_dict(2, 2, Name("DeviceRGB")), rnd_bytes(rng, 12)))
        add_resource(doc, page, "XObject", "XU", x, b"q /XU Do Q")
    else:
        raise ValueError(kind)
    return pi, x.num


def write_encrypted(doc, rng, damaged, nbytes, method="AESV2"):
    """the document under the standard security handler (AESV2, empty user password), classic table; the encrypted data of
    stream `damaged` cut to `nbytes` bytes (not a whole number of cipher blocks after the IV: it cannot be decrypted)"""
    from oracle import security as S
    doc.features.add("file:encrypted-" + method)
    h = S.Handler(4, "AESV2", 16, b"", b"owner", -4, b"0123456789abcdef") if method == "AESV2" else \
        S.Handler(3, "V2", 16, b"", b"owner", -4, b"0123456789abcdef")
    ivs = iter(lambda: rnd_bytes(rng, 16), None)
    enc = S.protect(dict(doc.objs), h, ivs)
    if nbytes is not None:
        st = enc[damaged]
        enc[damaged] = Stream(st.d, (st.data + rnd_bytes(rng, 32))[:nbytes])
    entries = {n: Obj(v) for n, v in enc.items()}
    entries[doc.n + 1] = Obj(h.encrypt_dict())
    tr = {"Root": Ref(doc.root), "ID": [h.id0, h.id0], "Encrypt": Ref(doc.n + 1)}
    return write_file([Revision(entries, fmt="table", trailer=tr)])[0]
