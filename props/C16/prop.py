"""C16 — every encoder is inverted by its decoder and emits the standard format."""
from vplib.api import Case, ok, err
from oracle import codecs as C

ID = "C16"
LEVEL = "proof"
DESIGN_REF = "DESIGN.md §9 C16"
COQ_TARGETS = ["Properties/C16", "Pins/C16"]
THEOREMS = [("PdfV.Properties.C16", n) for n in
            ["C16_hex", "C16_a85", "C16_a85_group", "C16_flate", "C16_lzw", "C16_lzw_early_refused"]]
ANCHORS = ["enc.rs"]
TRUSTED_BASE = ["coqc 8.16.1 kernel (vm_compute used for table lemmas; no native_compute)",
                "gen/extract.py (regenerates the byte tables of enc.rs into Gen/Generated.v)",
                "Extraction + ExtrOcamlBasic, ocamlfind ocamlopt 4.13.1, coq/driver/main.ml",
                "harness pdfh (Rust), tools/vplib (comparison), tools/oracle/codecs.py (reference decoders; python zlib)"]
ASSUMPTIONS = ["oracle premise of C16_flate: libflate's zlib decoder inverts libflate's finished zlib encoder (tested on every case)",
               "oracle premise of C16_lzw: weezl's decoder inverts weezl's encoder for Msb/8 (tested on every case)",
               "Rust u8/u32/u64 arithmetic as written into the model (shifts, wrapping adds, try_from)"]
RULE = ("byte strings: all of length <= 1, a sample (quick) or all (thorough) of length 2, single-value runs 1..300, "
        "zero runs around group boundaries, random/structured data up to 64 KiB; each through hex, ASCII85 (model + reference "
        "decoder + real decoder), Flate (python zlib + real decoder) and LZW EarlyChange 0 (reference decoder + real decoder); "
        "non-trivial = at least 2 data bytes; distinct by (mode, filter, data)")

LZW0 = b"lzw:1:1:1:8:0"
LZW1 = b"lzw:1:1:1:8:1"


def _dec_check(refdec, d):
    def chk(r):
        if r[0] != "OK":
            return "encoder failed: %s %s" % (r[0], r[1])
        try:
            got = refdec(r[1][0] if r[1] else b"")
        except Exception as e:
            return "reference decoder rejects the encoder's output: %r" % (e,)
        if got != d:
            return "reference decoder returns different data (%d bytes instead of %d)" % (len(got), len(d))
        return None
    return chk


def cases_for(d, tags=()):
    out = []
    out.append(Case("hexenc", [d], check=_dec_check(C.hex_decode, d), tags=["hex"] + list(tags)))
    out.append(Case("a85enc", [d], check=_dec_check(C.a85_decode, d), tags=["a85"] + list(tags)))
    out.append(Case("enc", [b"flate", d], check=_dec_check(C.zlib_decode, d), model=False, tags=["flate"] + list(tags)))
    out.append(Case("enc", [LZW0, d], check=_dec_check(lambda e: C.lzw_decode(e, 0), d), model=False, tags=["lzw"] + list(tags)))
    for spec in (b"hex", b"a85", b"flate", LZW0):
        out.append(Case("encdec", [spec, d], expect=ok(d), model=False, tags=["encdec:" + spec.decode().split(":")[0]] + list(tags)))
    return out


def datas(rng, tier):
    yield b""
    for a in range(256):
        yield bytes([a])
    if tier == "thorough":
        for a in range(256):
            for b in range(256):
                yield bytes([a, b])
    else:
        for _ in range(300):
            yield bytes([rng.randrange(256), rng.randrange(256)])
        for a in (0, 1, 0x7e, 0x80, 255):
            for b in (0, 1, 0x3e, 255):
                yield bytes([a, b])
    for v in (0, 1, 0x20, 0x7a, 255):
        for n in list(range(1, 13)) + [127, 128, 129, 130, 255, 256, 257, 300]:
            yield bytes([v]) * n
    # zero groups at and off the 4-byte grid
    for pre in range(0, 5):
        for z in (3, 4, 5, 8, 9):
            for post in range(0, 3):
                yield bytes([7] * pre) + bytes(z) + bytes([9] * post)
    # groups near 2^32 and 85-power boundaries
    for v in (0xffffffff, 0xfffffffe, 85 ** 4, 85 ** 4 - 1, 85 ** 3, 85 ** 2, 85, 84, 1 << 24, (1 << 24) - 1, 1 << 16, 1 << 8):
        yield v.to_bytes(4, "big")
        yield v.to_bytes(4, "big") + b"\x01"
        yield v.to_bytes(4, "big")[:3]
    n_rand = 250 if tier == "quick" else 6000
    for i in range(n_rand):
        n = rng.choice([3, 4, 5, 6, 7, 8, 9, 15, 16, 17, 31, 64, 100]) if i % 3 else rng.randint(0, 400)
        kind = rng.randrange(4)
        if kind == 0:
            yield bytes(rng.randrange(256) for _ in range(n))
        elif kind == 1:
            yield bytes(rng.choice([0, 0, 0, 255, rng.randrange(256)]) for _ in range(n))
        elif kind == 2:
            yield bytes(rng.choice(b"abc ") for _ in range(n))
        else:
            b = bytearray()
            while len(b) < n:
                b += bytes([rng.randrange(256)]) * rng.randint(1, 9)
            yield bytes(b[:n])
    for n in ([4096, 65536] if tier == "quick" else [4096, 20000, 65536, 65535, 65537]):
        yield bytes(rng.randrange(256) for _ in range(n))
        yield bytes(rng.randrange(3) for _ in range(n))


def generate(rng, tier):
    seen = set()
    for d in datas(rng, tier):
        if d in seen:
            continue
        seen.add(d)
        for c in cases_for(d):
            if len(d) > 20000 and c.mode in ("hexenc", "a85enc"):
                c.model = len(d) <= 70000      # the extracted model is linear; keep it
            yield c
    # the encoder refuses EarlyChange 1 (an error value, C16_lzw_early_refused)
    yield Case("enc", [LZW1, b"abc"], expect=err(), model=False, tags=["lzw-early-refused"])


def nontrivial(c):
    return len(c.fields[-1]) >= 2


def classify(case, impl, model):
    return None


def witness_case(f, c):
    d = c.fields[-1]
    if c.mode == "encdec":
        c.expect = ok(d)
        c.model = False
    return c
MODES = ["hexenc", "a85enc", "hexdec", "a85dec"]
