"""C05 — stream filters decode what standard encoders produce; corrupt data never panics."""
import zlib

from vplib.api import Case, ok
from oracle import codecs as C
from oracle import pdfwriter as W

ID = "C05"
LEVEL = "proof"
DESIGN_REF = "DESIGN.md §9 C05, §12.C05"
COQ_TARGETS = ["Properties/C05", "Pins/C05"]
THEOREMS = [("PdfV.Properties.C05", n) for n in [
    "C05_hex", "C05_a85", "C05_a85_group", "C05_rle", "C05_paeth", "C05_png_row", "C05_geometry", "C05_png",
    "C05_tiff_row", "C05_tiff", "C05_flate", "C05_lzw", "C05_chain", "C05_pairing", "C05_stream", "C05_no_panic", "C05_full"]]
ANCHORS = ["enc.rs", "stream.rs"]
MODES = ["hexdec", "a85dec", "rledec", "unpredict", "decchain", "streamdata"]
TRUSTED_BASE = [
    "coqc 8.16.1 kernel (vm_compute for table lemmas and finite per-byte sweeps; no native_compute)",
    "gen/extract.py + gen/extract_codec.py (regenerate the tables of enc.rs / stream.rs into Gen/Generated.v)",
    "Extraction + ExtrOcamlBasic, ocamlfind ocamlopt 4.13.1, coq/driver/main.ml",
    "harness pdfh (Rust), tools/vplib (comparison), tools/oracle/codecs.py + pdfwriter.py (reference encoders written from ISO 32000-1 §7.4, PNG §9, TIFF 6.0 §14; python zlib)"]
ASSUMPTIONS = [
    "oracle premise of C05_flate/C05_chain/C05_stream: libflate's zlib decoder returns y on a zlib stream of y; on a raw deflate stream of y its zlib decoder fails and its raw decoder returns y (tested on every flate case against python zlib)",
    "oracle premise of C05_lzw/C05_chain/C05_stream: weezl's decoder (Msb, 8-bit symbols, size switch selected by EarlyChange) returns y on the §7.4.4.2 LZW encoding of y (tested on every lzw case against the reference encoder)",
    "oracle premise of C05_no_panic: libflate and weezl return a value or an error on every input (observed on every corrupted flate/lzw case)",
    "Rust u8/u16/i16/usize arithmetic as written into the model (wrapping adds, shifts, checked_mul, slice indexing as explicit Panic sites)",
    "decode parameters are i32 values (the model's Z fields are not range-restricted; the theorems hold for all Z)"]
RULE = ("data (empty, all 1-byte, sampled 2-byte, runs, zero groups, random/structured up to 64 KiB) x filter x parameters: "
        "ASCIIHex / ASCII85 / RunLength in random conforming spellings (case, the six white-space bytes anywhere, odd digit count, z, "
        "every tail length, literal/repeat partitions, with and without EOD); PNG predictors 10..15 with a filter type per row and TIFF "
        "predictor 2 over colours 1..4 x bits 1,2,4,8,16 x columns 1..17 behind Flate (zlib or raw framing) or LZW (EarlyChange 0/1); "
        "raw deflate streams whose first two bytes pass the zlib header test (first block stored with chosen padding bits and LEN, then stored "
        "or Huffman blocks; tools/oracle/codecs.py deflate_raw_zlib_lookalike, cross-checked with python's inflater), alone and behind hex / a85; "
        "chains of up to 3 filters; the same chains named by a stream dictionary (name or array, DecodeParms dictionary or array with nulls) "
        "read through Stream::data; every encoding also truncated and corrupted (judged only by: no PANIC/ABORT/TIMEOUT). "
        "Expected value = the data the reference encoder started from. non-trivial = at least 2 payload bytes; distinct by (mode, fields)")
CASE_TIMEOUT = 20.0
MODEL_TIMEOUT = 120.0

TEXT = ("hex", "a85", "rle")


# ------------------------------------------------------------------------------------------------
# geometry helpers

def geom_for(rb, rng):
    """(colors, bpc, columns) whose row length is rb bytes"""
    for _ in range(40):
        colors = rng.randint(1, 4)
        bpc = rng.choice([1, 2, 4, 8, 16])
        unit = colors * bpc
        lo = (8 * (rb - 1)) // unit + 1
        hi = (8 * rb) // unit
        if hi >= max(lo, 1):
            cols = rng.randint(max(lo, 1), hi)
            assert C.row_bytes(colors, bpc, cols) == rb
            return colors, bpc, cols
    return 1, 8, rb


def row_len_for(n, rng):
    """a row length dividing n (n > 0)"""
    divs = [d for d in range(1, min(n, 40) + 1) if n % d == 0]
    return rng.choice(divs)


def predict(data, pred, colors, bpc, cols, rng):
    if pred == 2:
        return C.tiff_predict(data, colors, bpc, cols)
    if pred >= 10:
        rb = C.row_bytes(colors, bpc, cols)
        rows = len(data) // rb
        # the /Predictor value 10..14 names the filter an encoder intends to use, 15 "optimum"; the
        # row tags decide (ISO 32000-1 §7.4.4.4), so any tag sequence is conforming
        fts = [rng.randrange(5) for _ in range(max(rows, 1))]
        if rng.random() < 0.3:
            fts = [pred - 10 if pred < 15 else rng.randrange(5)] * max(rows, 1)
        return C.png_predict(data, colors, bpc, cols, fts)
    return data


class Stage:
    """one filter of a chain with its parameters"""
    def __init__(self, name, pred=1, colors=1, cols=1, bpc=8, early=1, raw=False):
        self.name, self.pred, self.colors, self.cols, self.bpc, self.early, self.raw = name, pred, colors, cols, bpc, early, raw

    def spec(self):
        if self.name in TEXT:
            return self.name.encode()
        return ("%s:%d:%d:%d:%d:%d" % (self.name, self.pred, self.colors, self.cols, self.bpc, self.early)).encode()

    def encode(self, data, rng):
        """-> (encoded, oracle table entries)"""
        if self.name == "hex":
            odd = rng.random() < 0.5
            return C.hex_encode(data, rng, odd_elide=odd, eod=(rng.random() < 0.8)), []
        if self.name == "a85":
            return C.a85_encode(data, rng, use_z=(rng.random() < 0.8), ws=C.WS), []
        if self.name == "rle":
            return C.rle_encode(data, rng, eod=(rng.random() < 0.7)), []
        mid = predict(data, self.pred, self.colors, self.bpc, self.cols, rng)
        if self.name == "flate":
            if self.raw:
                e = C.deflate_raw_encode(mid, rng.choice([1, 6, 9]))
                try:
                    zlib.decompress(e)
                    self.raw = False        # (never seen) raw data that also parses as zlib: use zlib framing
                except zlib.error:
                    return e, [(b"r", e, b"K" + mid)]
            e = C.zlib_encode(mid, rng.choice([0, 1, 6, 9]))
            return e, [(b"z", e, b"K" + mid)]
        e = C.lzw_encode(mid, self.early)
        return e, [(b"L" if self.early else b"l", e, b"K" + mid)]

    def parm_dict(self):
        """the entries that differ from the defaults (plus, sometimes, explicit defaults)"""
        d = {}
        for k, v, dflt in (("Predictor", self.pred, 1), ("Colors", self.colors, 1), ("BitsPerComponent", self.bpc, 8),
                           ("Columns", self.cols, 1), ("EarlyChange", self.early, 1)):
            if v != dflt:
                d[k] = v
        return d


def random_stage(n, rng, kinds=("hex", "a85", "rle", "flate", "lzw")):
    """a stage able to encode n bytes"""
    name = rng.choice(kinds)
    if name in TEXT:
        return Stage(name)
    early = rng.choice([0, 1]) if name == "lzw" else 1
    raw = name == "flate" and rng.random() < 0.3
    r = rng.random()
    if r < 0.35:
        return Stage(name, early=early, raw=raw)
    pred = 2 if r < 0.55 else rng.choice([10, 11, 12, 13, 14, 15])
    rb = row_len_for(n, rng) if n else rng.randint(1, 9)
    colors, bpc, cols = geom_for(rb, rng)
    return Stage(name, pred, colors, cols, bpc, early, raw)


def lookalike_cases(rng, tier):
    """Flate in raw framing whose first two bytes pass the zlib header test (RFC 1950 2.2): a conforming raw deflate stream may
    begin so (a stored block's padding bits are free), the zlib attempt then fails only inside the body, and the data must
    still decode as raw deflate.  Streams by the spec-side writer C.deflate_raw_zlib_lookalike, checked here against python's
    raw inflater (= the payload) and python's zlib reader (= error) before they are used; oracle table kind `r` as for every
    raw-framing case."""
    n = 40 if tier == "quick" else 800
    made = 0
    for i in range(4 * n):
        if made >= n:
            break
        ln = rng.choice([29, 1, 2, 30, 61, 92, 255, 256, 257, 300, 1000, rng.randint(1, 600), rng.randint(1, 70000 if i % 10 == 0 else 3000)])
        d = bytes(rng.randrange(256) for _ in range(ln)) if rng.random() < 0.6 else bytes(rng.choice(b"BT /F1 12 Tf (ab) Tj ET\n") for _ in range(ln))
        if i % 4 == 0:
            st = random_stage(len(d), rng, kinds=("flate",))
        else:
            st = Stage("flate")
        st.raw = True
        mid = predict(d, st.pred, st.colors, st.bpc, st.cols, rng)
        tail = rng.choice(["stored", "stored", "huffman"])
        e = C.deflate_raw_zlib_lookalike(mid, rng, tail)
        if e is None or not C.zlib_header_like(e[0], e[1]):
            continue
        if zlib.decompressobj(-15).decompress(e) != mid:
            raise AssertionError("raw-deflate writer: python's inflater disagrees")
        try:
            zlib.decompress(e)
            continue                      # (chance) the body also parses as zlib data
        except zlib.error:
            pass
        made += 1
        stages, table, cur = [st], [(b"r", e, b"K" + mid)], e
        if i % 3 == 0:                    # behind a text filter
            o = Stage(rng.choice(["hex", "a85"]))
            cur, _ = o.encode(e, rng)
            stages.insert(0, o)
        yield chain_case(stages, cur, table, d, tags=["raw-zlib-lookalike", "tail-" + tail, "fdict-bit" if e[1] & 0x20 else "no-fdict-bit",
                                                      "pred%d" % st.pred])
    # the analysis' example: 08 1D 00 E2 FF + 29 bytes + an empty final stored block
    d = b"A" * 29
    e = C.deflate_stored_block(d, False, 1) + C.deflate_stored_block(b"", True, 0)
    assert e[:5] == bytes([0x08, 0x1D, 0x00, 0xE2, 0xFF]) and zlib.decompressobj(-15).decompress(e) == d
    st = Stage("flate", raw=True)
    yield chain_case([st], e, [(b"r", e, b"K" + d)], d, tags=["raw-zlib-lookalike", "fixed"])


def table_fields(table):
    out = [str(len(table)).encode()]
    for k, i, a in table:
        out += [k, i, a]
    return out


def build_chain(d, k, rng, kinds=("hex", "a85", "rle", "flate", "lzw")):
    """k stages chosen from the innermost (decoded last) outwards so that each geometry fits the bytes it
    encodes; -> (stages in decode order, encoded, table)"""
    stages, table, cur = [], [], d
    for _ in range(k):
        if len(cur) > 300000:
            break
        st = random_stage(len(cur), rng, kinds)
        stages.insert(0, st)
        cur, t = st.encode(cur, rng)
        table += t
    return stages, cur, table


def chain_case(stages, e, table, data, tags=()):
    specs = [s.spec() for s in stages]
    return Case("decchain", specs + [e], mfields=table_fields(table) + specs + [e], expect=ok(data),
                tags=["chain%d" % len(stages)] + [s.name for s in stages] + list(tags))


def mutate(e, rng):
    """truncations and corruptions of an encoding"""
    out = []
    n = len(e)
    if n:
        for _ in range(2):
            out.append(e[:rng.randrange(n)])
        out.append(e[:n - 1])
        for _ in range(2):
            b = bytearray(e)
            b[rng.randrange(n)] ^= 1 << rng.randrange(8)
            out.append(bytes(b))
        b = bytearray(e)
        b[rng.randrange(n)] = rng.choice([0, 0x7e, 0x3e, 0x7a, 0x80, 0xff, 0x75, 0x76])
        out.append(bytes(b))
        i = rng.randrange(n + 1)
        out.append(e[:i] + bytes([rng.randrange(256)]) + e[i:])
        i = rng.randrange(n)
        out.append(e[:i] + e[i + 1:])
    out.append(e + bytes([rng.randrange(256)]))
    return out


# ------------------------------------------------------------------------------------------------
# data

def datas(rng, tier):
    yield b""
    for a in range(256):
        yield bytes([a])
    if tier == "thorough":
        for a in range(256):
            for b in range(0, 256, 5):
                yield bytes([a, (b + a) % 256])
    else:
        for _ in range(120):
            yield bytes([rng.randrange(256), rng.randrange(256)])
    for v in (0, 1, 0x20, 0x7a, 255):
        for n in list(range(1, 10)) + [127, 128, 129, 130, 255, 256, 257, 300]:
            yield bytes([v]) * n
    for pre in range(0, 5):
        for z in (3, 4, 5, 8):
            yield bytes([7] * pre) + bytes(z) + bytes([9] * (pre % 3))
    for v in (0xffffffff, 85 ** 4, 85 ** 4 - 1, 85 ** 3, 85, 84, 1 << 24, (1 << 24) - 1):
        yield v.to_bytes(4, "big")
        yield v.to_bytes(4, "big")[:3]
    n_rand = 260 if tier == "quick" else 5000
    for i in range(n_rand):
        n = rng.choice([3, 4, 5, 6, 7, 8, 9, 12, 15, 16, 17, 24, 30, 31, 36, 48, 60, 64, 100]) if i % 3 else rng.randint(0, 400)
        kind = rng.randrange(4)
        if kind == 0:
            yield bytes(rng.randrange(256) for _ in range(n))
        elif kind == 1:
            yield bytes(rng.choice([0, 0, 0, 255, rng.randrange(256)]) for _ in range(n))
        elif kind == 2:
            yield bytes(rng.choice(b"abc ") for _ in range(n))
        else:
            b = bytearray()
            while len(b) < n:
                b += bytes([rng.randrange(256)]) * rng.randint(1, 140 if i % 7 == 0 else 9)
            yield bytes(b[:n])
    for n in ([4096, 30000] if tier == "quick" else [4096, 20000, 65536]):
        yield bytes(rng.randrange(256) for _ in range(n))
        yield bytes(rng.randrange(3) for _ in range(n))


# ------------------------------------------------------------------------------------------------
# cases

def text_cases(d, rng, big):
    out = []
    reps = 1 if big else 2
    for _ in range(reps):
        for odd in (False, True):
            e = C.hex_encode(d, rng, odd_elide=odd, eod=(rng.random() < 0.8))
            is_odd = odd and bool(d) and d[-1] & 15 == 0
            out.append(Case("hexdec", [e], expect=ok(d), tags=["hex", "hex-odd" if is_odd else "hex-even"]))
        e = C.a85_encode(d, rng, use_z=(rng.random() < 0.8), ws=C.WS)
        out.append(Case("a85dec", [e], expect=ok(d), tags=["a85", "a85-tail%d" % (len(d) % 4)] + (["a85-z"] if b"z" in e else [])))
        e = C.rle_encode(d, rng, eod=(rng.random() < 0.7))
        out.append(Case("rledec", [e], expect=ok(d), tags=["rle"]))
    # the deterministic spellings too (longest runs, upper-case-free)
    out.append(Case("hexdec", [C.hex_encode(d)], expect=ok(d), tags=["hex"]))
    out.append(Case("a85dec", [C.a85_encode(d)], expect=ok(d), tags=["a85"]))
    out.append(Case("rledec", [C.rle_encode(d)], expect=ok(d), tags=["rle"]))
    return out


def unpredict_case(pred, colors, cols, bpc, data, rng, tags=()):
    mid = predict(data, pred, colors, bpc, cols, rng)
    p = [str(x).encode() for x in (pred, colors, cols, bpc)]
    return Case("unpredict", p + [zlib.compress(mid)], mfields=p + [mid], expect=ok(data),
                tags=["unpredict", "pred%d" % pred, "bpc%d" % bpc, "colors%d" % colors] + list(tags)), mid


def raw_unpredict(pred, colors, cols, bpc, mid, tags=("malformed",)):
    """no expectation: the data need not be an encoding (never PANIC/ABORT/TIMEOUT; model agreement)"""
    p = [str(x).encode() for x in (pred, colors, cols, bpc)]
    return Case("unpredict", p + [zlib.compress(mid)], mfields=p + [mid], kind="malformed", tags=list(tags))


def geometry_cases(rng, tier):
    out = []
    # every geometry of the design grid once with each predictor family
    grid = [(c, b, w) for c in (1, 2, 3, 4) for b in (1, 2, 4, 8, 16) for w in range(1, 18)]
    if tier == "quick":
        grid = rng.sample(grid, 110) + [(1, 8, 1), (3, 8, 5), (4, 16, 17), (1, 1, 1), (1, 1, 17), (3, 4, 3), (3, 2, 7)]
    for (c, b, w) in grid:
        rb = C.row_bytes(c, b, w)
        for pred in ((2, rng.choice([10, 11, 12, 13, 14, 15])) if tier == "quick" else (2, 10, 11, 12, 13, 14, 15)):
            rows = rng.choice([1, 2, 3, 5])
            data = bytes(rng.randrange(256) for _ in range(rb * rows))
            if rng.random() < 0.25:
                data = bytes(rng.choice([0, 255, 128, 1]) for _ in range(rb * rows))
            cs, mid = unpredict_case(pred, c, w, b, data, rng)
            out.append(cs)
            if rng.random() < 0.5:
                for m in mutate(mid, rng)[:4]:
                    out.append(raw_unpredict(pred, c, w, b, m))
            if rng.random() < 0.2:     # decoded with a different geometry than encoded
                out.append(raw_unpredict(pred, rng.randint(1, 4), rng.randint(1, 17), rng.choice([1, 2, 4, 8, 16]), mid))
    # every PNG row filter in every row position, with rows that exercise the carry of each predictor
    for ft in range(5):
        for pos in range(3):
            fts = [rng.randrange(5) for _ in range(3)]
            fts[pos] = ft
            for (c, b, w) in ((1, 8, 4), (3, 8, 2), (2, 16, 2), (3, 4, 3)):
                rb = C.row_bytes(c, b, w)
                data = bytes(rng.choice([0, 1, 127, 128, 254, 255, rng.randrange(256)]) for _ in range(rb * 3))
                mid = C.png_predict(data, c, b, w, fts)
                p = [str(x).encode() for x in (15, c, w, b)]
                out.append(Case("unpredict", p + [zlib.compress(mid)], mfields=p + [mid], expect=ok(data), tags=["unpredict", "png-ft%d-row%d" % (ft, pos)]))
    # predictors that select nothing: data returned as it is whatever the geometry says
    for pred in (1, 0, 3, 9, -1, -2147483648):
        d = bytes(rng.randrange(256) for _ in range(7))
        p = [str(x).encode() for x in (pred, rng.choice([1, 0, -5]), rng.choice([1, 0, 2147483647]), rng.choice([8, 3, 0]))]
        out.append(Case("unpredict", p + [zlib.compress(d)], mfields=p + [d], expect=ok(d) if pred == 1 else None, kind="structured" if pred == 1 else "malformed", tags=["pred-none"]))
    # rows cut at every position, exhaustive over the length (never a panic; model agreement)
    for (pred, c, w, b, mid) in C.short_row_sweep():
        out.append(raw_unpredict(pred, c, w, b, mid, tags=("malformed", "short-row")))
    # hostile geometry (C05-h): never a panic, abort or absurd allocation
    I = 2147483647
    for pred in (2, 10, 12, 15, I):
        for (c, w, b) in ((-1, 2, 8), (2, -1, 8), (0, 1, 8), (1, 0, 8), (I, I, 8), (I, I, 16), (I, 1, 16), (1, I, 16), (1 << 20, I, 8),
                          (1, 1, 0), (1, 1, 3), (1, 1, -8), (1, 1, 32), (I, 2, 1), (-2147483648, -2147483648, 8), (4, I, 1)):
            for d in (b"", b"\x00", bytes(range(40))):
                out.append(raw_unpredict(pred, c, w, b, d, tags=("hostile-geometry",)))
    return out


def stream_case(stages, e, table, data, rng, tags=()):
    """the chain named by a stream dictionary, read through Stream::data"""
    names = {"hex": "ASCIIHexDecode", "a85": "ASCII85Decode", "rle": "RunLengthDecode", "lzw": "LZWDecode", "flate": "FlateDecode"}
    fnames = [names[s.name] for s in stages]
    pds = [None if s.name in TEXT else s.parm_dict() for s in stages]
    # /Filter: one filter may be a bare name; otherwise an array (also for zero or one)
    if len(stages) == 0:
        fshape = rng.choice("na")
    elif len(stages) == 1:
        fshape = rng.choice("sa")
    else:
        fshape = "a"
    d = {}
    if fshape == "s":
        d["Filter"] = W.Name(fnames[0])
    elif fshape == "a":
        d["Filter"] = [W.Name(n) for n in fnames]
    elif rng.random() < 0.5:
        d["Filter"] = None
    # /DecodeParms: omitted when every filter has default parameters; a dictionary for a single filter;
    # else an array with null (or an empty dictionary) for filters without parameters
    need = any(p for p in pds)
    if not need and rng.random() < 0.6:
        pshape, parms = "n", []
    elif len(stages) == 1 and rng.random() < 0.6 and pds[0] is not None:
        pshape, parms = "d", [dict(pds[0])]
    else:
        pshape = "a"
        parms = [(dict(p) if (p or rng.random() < 0.3) else None) if p is not None else (None if rng.random() < 0.8 else {}) for p in pds]
    # explicit default entries are allowed
    for p, s in zip(parms, stages):
        if p is not None and s.name not in TEXT and rng.random() < 0.3:
            for k, v in (("Predictor", s.pred), ("Colors", s.colors), ("BitsPerComponent", s.bpc), ("Columns", s.cols), ("EarlyChange", s.early)):
                if rng.random() < 0.5:
                    p[k] = v
    if pshape == "d":
        d["DecodeParms"] = parms[0]
    elif pshape == "a":
        d["DecodeParms"] = parms
    elif rng.random() < 0.3:
        d["DecodeParms"] = None
    objs = W.minimal_catalog()
    num = 4
    objs[num] = W.Stream(d, e)
    file, _ = W.simple_file(objs, fmt=rng.choice(["table", "stream"]))

    def pfield(p):
        if p is None:
            return b""
        if not p:
            return b":"
        return ":".join("%s:%d" % (k, v) for k, v in p.items()).encode()
    mf = table_fields(table) + [fshape.encode(), pshape.encode(), str(len(fnames)).encode()] + [n.encode() for n in fnames] \
        + [str(len(parms)).encode()] + [pfield(p) for p in parms] + [e]
    return Case("streamdata", [file, str(num).encode()], mfields=mf, expect=ok(data),
                tags=["stream", "fshape-" + fshape, "pshape-" + pshape, "chain%d" % len(stages)] + list(tags))


def generate(rng, tier):
    seen = set()
    n_chain = 0
    for d in datas(rng, tier):
        if d in seen:
            continue
        seen.add(d)
        big = len(d) > 2000
        for c in text_cases(d, rng, big):
            yield c
        # single compressed stages
        for name in ("flate", "lzw"):
            for _ in range(1 if (big or len(d) < 2) else 2):
                stages, e, table = build_chain(d, 1, rng, kinds=(name,))
                st = stages[0]
                yield chain_case(stages, e, table, d, tags=["single", "pred%d" % st.pred, "bpc%d" % st.bpc])
                if len(d) <= 400 and rng.random() < 0.5:
                    for m in mutate(e, rng):
                        yield Case("decchain", [st.spec(), m], model=False, kind="malformed", tags=["malformed", name])
        # malformed text encodings (model runs them too: the error paths correspond)
        if len(d) <= 400:
            for name in TEXT:
                st = Stage(name)
                e, _ = st.encode(d, rng)
                for m in mutate(e, rng)[: (9 if len(d) < 40 else 3)]:
                    yield Case({"hex": "hexdec", "a85": "a85dec", "rle": "rledec"}[name], [m], kind="malformed", tags=["malformed", name])
        # chains of 2 and 3
        if len(d) <= 5000 and (len(d) >= 2 or rng.random() < 0.1):
            for k in (2, 3):
                stages, e, table = build_chain(d, k, rng)
                yield chain_case(stages, e, table, d)
                if rng.random() < 0.35:
                    pure = all(s.name in TEXT for s in stages)
                    specs = [s.spec() for s in stages]
                    for m in mutate(e, rng)[:5]:
                        yield Case("decchain", specs + [m], mfields=(table_fields([]) + specs + [m]) if pure else None,
                                   model=pure, kind="malformed", tags=["malformed", "chain"])
        # stream level
        if len(d) <= 3000 and (len(d) >= 2 or rng.random() < 0.2):
            stages, e, table = build_chain(d, rng.choice([0, 1, 1, 2, 2, 3]), rng)
            yield stream_case(stages, e, table, d, rng)
    for c in geometry_cases(rng, tier):
        yield c
    for c in lookalike_cases(rng, tier):
        yield c
    # every RunLength header value 0..255 followed by enough / not enough data
    for h in range(256):
        body = bytes(rng.randrange(256) for _ in range(130))
        try:
            yield Case("rledec", [bytes([h]) + body + b"\x80"], expect=ok(C.rle_decode(bytes([h]) + body + b"\x80")), tags=["rle-header"])
        except C.DecodeError:
            yield Case("rledec", [bytes([h]) + body + b"\x80"], kind="malformed", tags=["rle-header", "malformed"])
        yield Case("rledec", [bytes([h]) + body[: rng.randrange(0, 129)]], kind="malformed", tags=["rle-header", "malformed"])
        yield Case("rledec", [bytes([h])], kind="malformed", tags=["rle-header", "malformed"])
    # every byte as a lone ASCIIHex / ASCII85 symbol, and in the middle of a valid text
    for b in range(256):
        yield Case("hexdec", [bytes([b])], kind="malformed", tags=["malformed", "hex"])
        yield Case("hexdec", [b"4" + bytes([b]) + b"1>"], kind="malformed", tags=["malformed", "hex"])
        yield Case("a85dec", [b"87cU" + bytes([b]) + b"RD]j7BEbo80~>"], kind="malformed", tags=["malformed", "a85"])
        yield Case("a85dec", [bytes([b]) + b"~>"], kind="malformed", tags=["malformed", "a85"])


def always(case, r):
    """the last sentence of the property: whatever the bytes, never a panic (nor abort, nor hang)"""
    if r[0] in ("PANIC", "ABORT", "TIMEOUT"):
        return "decoder must return a value or an error, got %s %s" % (r[0], r[1][:120])
    return None


def nontrivial(c):
    return len(c.fields[-1] if c.mode != "streamdata" else c.fields[0]) >= 2


def classify(case, impl, model):
    return None          # no open finding: every defect found for C05 has been repaired


def witness_case(f, c):
    w = f["witness"]
    if "expect_hex" in w:
        c.expect = ok(bytes.fromhex(w["expect_hex"]))
    c.model = w.get("model", True)
    return c


def coverage_extra(cases, impl, model):
    heads = set()
    for c in cases:
        if c.mode == "rledec" and c.fields[0]:
            heads.add(c.fields[0][0])
    tags = {}
    for c in cases:
        for t in c.tags:
            if t.startswith(("png-ft", "a85-tail", "fshape", "pshape", "pred", "bpc", "chain")):
                tags[t] = tags.get(t, 0) + 1
    missed = [t for t in ["a85-tail0", "a85-tail1", "a85-tail2", "a85-tail3", "fshape-n", "fshape-s", "fshape-a", "pshape-n", "pshape-d", "pshape-a"]
              + ["png-ft%d-row%d" % (a, b) for a in range(5) for b in range(3)] if t not in tags]
    return {"coverage_obligations": {"rle_first_header_values": len(heads), "tags": dict(sorted(tags.items())), "missed": missed}}
