"""C18 — references to missing or free objects read as null."""
from vplib.api import Case
from oracle import typed as T
from oracle.canon import canon
from oracle.pdfwriter import Name, Ref, Revision, Obj, Free, write_file

ID = "C18"
LEVEL = "proof"
DESIGN_REF = "DESIGN.md §9 C18, §12.C18"
COQ_TARGETS = ["Properties/C18", "Pins/C18"]
THEOREMS = [("PdfV.Properties.C18", n) for n in
            ["C18_missing_recognised", "C18_existing_object_not_missing", "C18_option_null", "C18_optional_null", "C18_deferred", "C18_required_err",
             "C18_element_skipped", "C18_element_null", "C18_enums_resolve"]]
ANCHORS = ["object/mod.rs", "file.rs", "pdf_derive"]
MODES = ["dangling"]
TRUSTED_BASE = ["coqc 8.16.1 kernel (vm_compute for the table lemma over the generated error-path constants)",
                "gen/extract_typed.py (Option reader arms, is_missing_object, resolve_ref / xref get / Resolve::get wrappers, ParseOptions, schemas)",
                "Extraction + ExtrOcamlBasic, ocamlfind ocamlopt 4.13.1, coq/driver/main.ml",
                "harness pdfh (modes/typed.rs), tools/oracle/pdfwriter.py (files with free entries, gaps and a short /Size), tools/oracle/typed.py"]
ASSUMPTIONS = ["the cross-reference table is modelled at the level of XRefTable::new / resolve_ref (entry kinds), the file parser belongs to C01/C02",
               "dictionary key order is not observable", "hand-written types other than Date/Rectangle/Matrix are not planted"]
RULE = ("exhaustive over (derived struct, optional field whose type the model reads, dangling kind in {free entry, gap below /Size, "
        "number = /Size, number > /Size}, holder in {the field itself, element of its array (optional and required arrays; compared "
        "with the array without that element)}, "
        "option set in {strict, tolerant}) in thorough, a stratified sample in quick; every case is a real file written by the "
        "specification-side writer; judged relationally as the property says (the dictionary with the planted reference must read "
        "exactly like the dictionary without the key) and against the Coq model; required fields must give an error naming the field; "
        "two-level shapes (nested_cases, nested_page_cases): an optional entry (strict) or an array element (both option sets) designates an object that EXISTS and "
        "whose own required entry dangles - expected: an error naming that entry, never an absent entry or a dropped element; "
        "non-trivial = every case; distinct by input line")

_S = None


def S():
    global _S
    if _S is None:
        _S = T.schemas()
    return _S


def gen(rng):
    """the writer of a name tree is todo!() (finding C15-c): a planted name tree would turn every write half of a case
    into that panic, which is not what this property is about"""
    G = T.Gen(S(), rng)
    G.skip_hands = {"NameTree<Primitive>"}
    return G


RESOLVING = {0, 1, 2, 3, 4, 5, 6, 8, 21, 22, 23, 25, 26}
DEFERRING = {7, 9, 27}
KINDS = ["free", "gap", "at-size", "beyond", "freed", "freed-samegen", "freed-xs", "freed-xs-samegen", "gen-mismatch"]


def holder_class(G, t):
    """how the reader of type t treats a reference"""
    c = t[0]
    if c in RESOLVING:
        return "resolving"
    if c in DEFERRING:
        return "deferring"
    if c == 30:
        return "resolving"
    if c == 24:
        return holder_class(G, t[1:])
    if c in (31, 32):
        return "resolving"              # derived enums resolve before matching (fix C18-c)
    if c == 33:
        h = G.S.hands[t[1]]
        return {"Date": "resolving", "Rectangle": "resolving", "Matrix": "resolving"}.get(h)
    return None


def build_file(objs, kind="free", stale=0):
    """objects 1..n, then: n+1 free, n+2 the victim, n+3 defined  ->  (file bytes, model entries, /Size, the dangling reference)

    The ways a reference dangles (ISO 32000-1 7.3.10 with 7.5.4, 7.5.6, 7.5.8):
      free            n+1 is a free entry of the only revision
      gap             n+2 has no entry at all below /Size
      at-size/beyond  numbers >= /Size
      freed*          n+2 is defined (with a well-typed value) in the first revision and marked free by an incremental
                      update: classic table or cross-reference stream (-xs), generation bumped or not (-samegen)
      gen-mismatch    n+2 is in use with generation 0, the reference says generation 1
    """
    n = len(objs)
    entries = {i + 1: Obj(o) for i, o in enumerate(objs)}
    entries[n + 1] = Free(gen=1)
    entries[n + 3] = Obj(0)
    model = [b"0 x"] + [b"%d " % (i + 1) + canon(o) for i, o in enumerate(objs)] + [b"%d x" % (n + 1), b"%d " % (n + 3) + canon(0)]
    if kind.startswith("freed"):
        fmt = "stream" if "-xs" in kind else "table"
        e1 = dict(entries)
        e1[n + 2] = Obj(stale)
        rev1 = Revision(e1, fmt=fmt, trailer={})
        rev2 = Revision({n + 2: Free(gen=0 if kind.endswith("samegen") else 1)}, fmt=fmt, trailer={})
        data, info = write_file([rev1, rev2])
        return data, model + [b"%d x" % (n + 2)], info["revisions"][-1]["size"], Ref(n + 2, 0)
    if kind == "gen-mismatch":
        entries[n + 2] = Obj(stale)
        data, info = write_file([Revision(entries, fmt="table", trailer={}, size=n + 4)])
        return data, model + [b"%d " % (n + 2) + canon(stale)], n + 4, Ref(n + 2, 1)
    data, info = write_file([Revision(entries, fmt="table", trailer={}, size=n + 4)])
    num = {"free": n + 1, "gap": n + 2, "at-size": n + 4, "beyond": n + 7}[kind]
    return data, model, n + 4, Ref(num, 0)


def content_type(t):
    """the type of the object a reference in a holder of type t designates"""
    while t and t[0] in (24, 25, 26):
        t = t[1:]
    return t


def check_optional(cls, rw, indirect=()):
    def strip(x):
        """the written dictionary without its `indirect` entries (their reference numbers are allocation order)"""
        if len(x) < 3 or not indirect:
            return x
        d = T.uncanon(x[1])
        return [x[0], canon({k: v for k, v in d.items() if k not in indirect}), x[2]]

    def chk(r):
        if r == ("ERR", "UnknownType"):
            return None
        if r[0] != "OK":
            return "%s %s" % (r[0], r[1])
        f = r[1]
        if b"|" not in f:
            return "malformed result"
        k = f.index(b"|")
        a, b = f[:k], f[k + 1:]
        if not b or b[0] != b"ok":
            return None                      # the base dictionary itself is not accepted: nothing is claimed
        if a[0] != b"ok":
            return "dangling reference in an optional entry is an error: " + a[0].decode("latin-1")
        if cls == "resolving" and strip(a) != strip(b):
            return "entry not treated as absent: %r vs %r" % (a[1][:80], b[1][:80])
        return None
    return chk


def check_required(fname):
    def chk(r):
        if r == ("ERR", "UnknownType"):
            return None
        if r[0] != "OK":
            return "%s %s" % (r[0], r[1])          # PANIC / ABORT: never allowed
        f = r[1]
        a = f[:f.index(b"|")] if b"|" in f else f
        if a[0] == b"ok":
            return "required entry with a dangling reference accepted"
        txt = a[0].decode("latin-1")
        if ("FP(%s)>" % fname) not in txt and ("Missing(%s)" % fname) not in txt:
            return "error does not name the entry %s: %s" % (fname, txt)
        return None
    return chk


def cases_for(rng, sidx, tier):
    s = S().structs[sidx]
    name = s["name"]
    rwt = s["read"] and s["write"]
    fields = [f for f in s["fields"] if not f["flags"] & 5]
    for f in fields:
        G = gen(rng)
        opt = f["ty"][0] == 20
        inner = f["ty"][1:] if opt else f["ty"]
        cls = holder_class(G, inner)
        if cls is None:
            continue
        holders = ["field"]
        if opt and inner[0] == 21 and holder_class(G, inner[1:]) == "resolving":
            holders.append("element")
        if not opt and (f["default"][0] != 0 or f["ty"][0] in (21, 22)):
            if f["ty"][0] == 21 and holder_class(G, f["ty"][1:]) == "resolving":
                holders = ["element-required"]
            else:
                continue
        combos = [(k, h, o) for k in KINDS for h in holders for o in ("s", "t")]
        if tier == "quick":
            combos = rng.sample(combos, min(len(combos), 3 if opt else 2))
        for kind, holder, o in combos:
            G = gen(rng)
            d = G.struct(sidx, force={f["name"]: False}, extras=False)
            model = not T.required_unmodelled(G, sidx) and G.modelled([30, sidx])
            # the object the reference used to designate (freed / generation mismatch): well-typed for the holder, so
            # that a reader which wrongly follows the reference accepts it and the entry visibly reappears
            hty = inner if holder == "field" else (inner[1:] if opt else f["ty"][1:])
            stale = None
            if cls == "resolving":
                for _ in range(6):
                    stale = G.prim(content_type(hty), 2, allow_ref=False)
                    if isinstance(stale, Ref) or (holder == "field" and inner[0] == 21 and stale == []):
                        stale = None
                    if stale is not None:
                        break
            if stale is None:
                stale = {"a": 1}
                if kind == "gen-mismatch":
                    model = False        # the reader does load the object (finding C18-e); its type is outside the model
            data, mentries, size, ref = build_file(G.objs, kind, stale)
            planted = ref if holder == "field" else [ref]
            keyf = f["key"].encode()
            if holder != "field":
                # array elements: the comparison dictionary carries the array without the planted element (the element
                # type never reads the null object in the declared models; were it an Option, null would stay in place)
                ety = inner[1:] if opt else f["ty"][1:]
                others = []
                if rng.random() < 0.6:
                    for _ in range(rng.choice([1, 1, 2])):
                        v = G.prim(ety, 3, allow_ref=False)
                        if v is not None and not isinstance(v, (list, Ref)):
                            others.append(v)
                pos = rng.randrange(len(others) + 1)
                planted = others[:pos] + [ref] + others[pos:]
                alt = others[:pos] + ([None] if ety[0] == 20 else []) + others[pos:]
                keyf = keyf + b"=" + canon(alt)
            head = [o.encode(), name.encode(), canon(d), keyf, canon(planted)]
            tags = ["struct:" + name, "kind:" + kind, "holder:" + holder, "opts:" + o, "class:" + cls]
            indirect = [g["key"] for g in fields if g["flags"] & 2]
            if opt and holder in ("field", "element"):
                chk = check_optional(cls if holder == "field" else "resolving", rwt, indirect)
                tags.append("optional")
            elif holder == "element-required":
                chk = check_optional("resolving", rwt, indirect)
                tags.append("container-element")
            else:
                if cls != "resolving":
                    continue                 # a required Ref/Lazy/Primitive keeps the reference unread; enums: not judged here
                chk = check_required(f["name"])
                tags.append("required")
            yield Case("dangling", head + [data], mfields=head + [b"%d" % size] + mentries, check=chk, model=model, tags=tags)


def check_nested_required(fname):
    """two levels: the holder's reference designates an object that EXISTS; that object's required entry dangles.  The property's second
    sentence: an error naming the entry - the existing object must not be taken for a missing one (no None, no dropped element)"""
    def chk(r):
        if r == ("ERR", "UnknownType"):
            return None
        if r[0] != "OK":
            return "%s %s" % (r[0], r[1])
        f = r[1]
        if b"|" not in f:
            return "malformed result"
        k = f.index(b"|")
        a, b = f[:k], f[k + 1:]
        if not b or b[0] != b"ok":
            return None
        if a[0] == b"ok":
            return ("an existing object whose required entry %s refers to a missing object was read as if the object itself were missing "
                    "(entry absent / element dropped): no error reported" % fname)
        txt = a[0].decode("latin-1")
        if ("FP(%s)>" % fname) not in txt and ("Missing(%s)" % fname) not in txt:
            return "error does not name the entry %s: %s" % (fname, txt)
        return None
    return chk


def nested_cases(rng, tier):
    """holder (optional entry in strict mode, array element in both modes) -> existing object of a derived struct -> required entry
    that refers to a free / undefined / beyond-/Size object (the class of seeded/C18f)"""
    St = S().structs
    out = []
    for sidx, s in enumerate(St):
        if not s["read"] or s["name"] in ("RawFunction", "Function2"):
            continue
        for f in [f for f in s["fields"] if not f["flags"] & 5]:
            G = gen(rng)
            opt = f["ty"][0] == 20
            inner = f["ty"][1:] if opt else f["ty"]
            vec = inner[0] == 21
            ety = inner[1:] if vec else inner
            if not (opt or vec) or holder_class(G, ety) != "resolving" or ety[0] not in (25, 26):
                continue                       # the holder must follow a reference (MaybeRef / RcRef) to reach the inner object
            ct = content_type(ety)
            if not ct or ct[0] != 30:
                continue
            bidx = ct[1]
            B = St[bidx]
            if not B["read"] or B["attrs"].get("is_stream"):
                continue
            reqs = [g for g in B["fields"] if not g["flags"] & 5 and g["ty"][0] not in (20, 21, 22) and g["default"][0] == 0
                    and holder_class(G, g["ty"]) == "resolving" and G.modelled(g["ty"])]
            if not reqs:
                continue
            out.append((sidx, f, opt, vec, bidx, reqs))
    if tier == "quick" and len(out) > 24:
        out = rng.sample(out, 24)
    for sidx, f, opt, vec, bidx, reqs in out:
        s = S().structs[sidx]
        for kind in (KINDS[:4] if tier != "quick" else [rng.choice(KINDS[:4])]):
            for o in ("s", "t"):
                if o == "t" and not vec:
                    continue                   # tolerant options swallow every error of an optional entry
                G = gen(rng)
                g = rng.choice(reqs)
                d = G.struct(sidx, force={f["name"]: False}, extras=False)
                bd = G.struct(bidx, depth=1, extras=False)
                n = len(G.objs) + 1            # number of the inner object once appended
                num = {"free": n + 1, "gap": n + 2, "at-size": n + 4, "beyond": n + 7}[kind]
                bd[g["key"]] = Ref(num, 0)
                G.objs.append(bd)
                data, mentries, size, ref = build_file(G.objs, kind, {"a": 1})
                if (ref.num, ref.gen) != (num, 0):
                    continue
                planted = [Ref(n, 0)] if vec else Ref(n, 0)
                keyf = f["key"].encode() + (b"=" + canon([]) if vec else b"")
                head = [o.encode(), s["name"].encode(), canon(d), keyf, canon(planted)]
                tags = ["struct:" + s["name"], "kind:" + kind, "holder:nested-" + ("element" if vec else "field"), "opts:" + o, "class:resolving", "nested-required"]
                yield Case("dangling", head + [data], mfields=head + [b"%d" % size] + mentries, check=check_nested_required(g["name"]), model=False, tags=tags)


def nested_page_cases(rng, tier):
    """the same two-level shape through a hand-written reader: an annotation's optional /P designates a page object that exists and whose
    required /Parent refers to nothing (strict options: tolerant ones swallow every error of an optional entry)"""
    St = S().structs
    aidx = [i for i, s in enumerate(St) if s["name"] == "Annot"]
    if not aidx:
        return
    for kind in KINDS[:4]:
        G = gen(rng)
        d = G.struct(aidx[0], force={"page": False}, extras=False)
        n = len(G.objs) + 1
        num = {"free": n + 1, "gap": n + 2, "at-size": n + 4, "beyond": n + 7}[kind]
        G.objs.append({"Type": Name("Page"), "Parent": Ref(num, 0)})
        data, mentries, size, ref = build_file(G.objs, kind, {"a": 1})
        if (ref.num, ref.gen) != (num, 0):
            continue
        head = [b"s", b"Annot", canon(d), b"P", canon(Ref(n, 0))]
        tags = ["struct:Annot", "kind:" + kind, "holder:nested-field", "opts:s", "class:resolving", "nested-required", "hand:PageRc"]
        yield Case("dangling", head + [data], mfields=head + [b"%d" % size] + mentries, check=check_nested_required("parent"), model=False, tags=tags)


def generate(rng, tier):
    for i, s in enumerate(S().structs):
        if not s["read"] or s["name"] in ("RawFunction", "Function2"):
            continue
        yield from cases_for(rng, i, tier)
    yield from nested_cases(rng, tier)
    yield from nested_page_cases(rng, tier)


def nontrivial(c):
    return True


def same(a, b):
    from vplib.api import same_result
    if a == ("ERR", "UnknownType"):
        return True
    return same_result(a, b)


def classify(case, impl, model):
    if "kind:gen-mismatch" in case.tags:
        return "C18-e"       # the generation number of a reference is ignored (resolve_ref looks the object up by number)
    return None              # C18-b, C18-c, C18-d are repaired


def witness_case(f, c):
    if f["id"] == "C18-a":
        c.check = check_optional("resolving", True)
    elif f["id"].startswith("C18-b"):
        c.check = check_optional("resolving", True)
    elif f["id"] in ("C18-c", "C18-d"):
        c.check = check_optional("resolving", True)
    elif f["id"] == "C18-e":
        c.check = check_optional("resolving", True)
        c.tags.add("kind:gen-mismatch")
    return c


def coverage_extra(cases, impl, model):
    h = {}
    for c in cases:
        key = "|".join(sorted(t for t in c.tags if t.split(":")[0] in ("kind", "holder", "opts", "class")))
        h[key] = h.get(key, 0) + 1
    return {"combinations": h, "structs": len(set(t for c in cases for t in c.tags if t.startswith("struct:")))}
