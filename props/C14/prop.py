"""C14 — hostile but well-formed object graphs end in an error, not a crash.

Proof part: guarded recursion over arbitrary finite graphs, the repaired name/number tree walks, one theorem per
numeric-parameter site (Properties/C14.v).  Tie: gen/extract_safety.py (guards and budgets read from the source),
correspondence of every site model with the code through the num_* modes.  Exploration part: planted hostile graphs
walked through the public read interface (mode walk, each in a child process)."""
import json, os, zlib
from vplib.api import Case, ok, err
from oracle import safety_num as S
from oracle.canon import canon
from oracle.pdfwriter import Name, Ref

ID = "C14"
LEVEL = "proof"
DESIGN_REF = "DESIGN.md §9 C14, §12.C14"
COQ_TARGETS = ["Properties/C14", "Pins/C14"]
_TH = ["C14_guarded_walk", "C14_tree_walk_unguarded_refuted", "C14_tree_walk_total", "C14_tree_walk_linear", "C14_colorspace_total",
       "C14_ps_exec", "C14_ps_run", "C14_ps_body", "C14_fn2_load", "C14_differences",
       # imported from the owning areas (their lemmas on their models of the current code)
       "C14_objstm_slice", "C14_objstm_header", "C14_objstm_member", "C14_xref_section", "C14_xref_section_cost", "C14_widths", "C14_type0",
       "C14_crypt_key_length", "C14_page_counts", "C14_decoders", "C14_predictor", "C14_import_total", "C14_guard_per_thread",
       "C14_fax_total", "C14_fax_bounded", "C14_full", "C14_guards_in_source", "C14_fax_guards_in_source", "C14_budgets_in_source"]
THEOREMS = [("PdfV.Properties.C14", n) for n in _TH]
ANCHORS = ["object/types.rs", "object/color.rs", "object/function.rs", "object/mod.rs", "crypt.rs", "encoding.rs", "enc.rs"]
MODES = ["num_ps", "num_diff", "num_fnload", "num_tree", "num_fax", "unpredict"]
CASE_TIMEOUT = 12.0
MODEL_TIMEOUT = 15.0
LEVEL_TEXT = ("partial proof: machine-checked theorems for the recursion guard over arbitrary finite graphs, the repaired tree "
              "walks, the numeric-parameter sites of function.rs / encoding.rs / fax geometry (own models), and — imported from the areas that own "
              "and repaired them — object streams, xref streams, CID /W, crypt key length, page counts, every decoder, the importer; the remainder of "
              "typed loading is explored (planted graphs), not proved")
LEVEL_NOTE = ("PROVED (Coq, universally quantified): guarded recursion terminates within depth |graph|+1 and never trips its "
              "assertion; NameTree/NumberTree walks visit each node once, depth <= 32; PostScript calculator (roll/index/parse), "
              "function type 2, /Differences, CCITTFax geometry (repaired): no panic for any parameters — C14_full proves the full statement for the own sites. "
              "IMPORTED (theorems of other areas about their models of the repaired code, re-exported): object-stream offsets and members, xref "
              "section counts, CID /W and Type0, crypt key length, page counts, predictor geometry and every decoder, importer termination. "
              "EXPLORED (evidence only): everything else reached by typed loading of planted hostile graphs — every reference-typed "
              "field pointed at every object, nesting beyond the budgets, boundary values in every numeric field (fields taken from "
              "the #[derive(Object)] items of the source), each case in a child process with an 8 MiB stack.")
TRUSTED_BASE = ["coqc 8.16.1 kernel (vm_compute for witnesses and table lemmas; no native_compute)",
                "gen/extract_safety.py + gen/extract.py (read budgets and the presence/shape of the guards from the Rust source)",
                "Extraction + ExtrOcamlBasic, ocamlfind ocamlopt 4.13.1, coq/driver/main.ml",
                "harness pdfh (modes num_*, walk), tools/vplib, tools/oracle/safety_num.py (PostScript reference, file builders), "
                "tools/oracle/hostile.py (planted graphs), tools/oracle/pdfwriter.py"]
ASSUMPTIONS = ["Rust integer semantics as written into the checked primitives of Safety/Numeric.v (debug profile: overflow panics; "
               "`as usize` of i32 wraps, of f32 saturates; slice index and assert! panic)",
               "C14_ps_exec holds for ANY rounding function (oracle `rnd`); the executable model uses round-to-nearest-even to 24 bits",
               "the own site models are tied to the code by correspondence on generated parameters (every run), not by proof; the imported "
               "theorems speak about models of other areas (ObjStm, XRef, Font, Crypt, PageTree, Codec, Import, Cache) whose correspondence is "
               "re-established by those areas' checks (C11, C02, C19, C06, C07, C05, C20, C13) — here their sites are exercised spec-only (no panic)",
               "C14_crypt_key_length: MD5 returns 16 bytes (premise); C14_decoders: libflate / weezl return a value or an error (premise)",
               "graph model: the typed load of an object gets a finite list of other objects (C14_guarded_walk quantifies over all such graphs)"]
RULE = ("per numeric site: boundary values {-1,0,1,2^31-1,2^31,2^32-1,2^32,2^63,2^64-1,2^64} and random values in every parameter, "
        "random PostScript programs over the implemented operators, random page trees with lying counts, random name/number tree "
        "graphs (trees, DAGs, cycles, chains deeper than the budget); judged against a python reference where the standard defines "
        "the answer (PostScript, /Differences, slices) and always against `no panic / abort / time-out`, and against the Coq model; "
        "planted graphs from tools/oracle/hostile.py walked in a child process; non-trivial = a parameter list or file of >= 2 bytes")

B = [-1, 0, 1, 2, 2**31 - 1, 2**31, 2**32 - 1, 2**32, 2**63, 2**64 - 1, 2**64]
B32 = [-2**31, -1, 0, 1, 2, 255, 256, 2**31 - 1]


def d(n):
    return b"%d" % n


def always(case, r):
    if case.mode == "walk":
        if r[0] != "OK":
            return "walk harness: %s %s" % (r[0], r[1] if isinstance(r[1], str) else "")
        st = r[1][0].decode("latin1") if r[1] else "?"
        return None if st.startswith("CLEAN") else st
    if r[0] in ("PANIC", "ABORT", "TIMEOUT"):
        return "%s %s" % (r[0], r[1])
    return None


def same(a, b):
    if a is None or b is None:
        return False
    # the model predicts a resource blow-up: the implementation runs out of time or memory
    if b[0] == "OK" and b[1] == [b"BLOWUP"]:
        return a[0] in ("TIMEOUT", "ABORT")
    # num_fax: the model answers for the geometry only; GEOM = the external decoder is called, the outcome is a value or an error
    if b[0] == "OK" and b[1] == [b"GEOM"]:
        return a[0] in ("OK", "ERR")
    if a[0] != b[0]:
        return False
    if a[0] == "OK":
        return a[1] == b[1]
    return True




# ------------------------------------------------------------------------------------------------ generators
def gen_ps(rng, n):
    ops = ["add", "sub", "mul", "abs", "dup", "exch", "roll", "index", "cvr", "pop"]
    lits = [0, 1, 2, 3, 4, 5, -1, -2, -3, 7, 100, 2**31 - 1, 2**31, -2**31, 2**32 - 1, 2**63, 2**64 - 1, 2**64, -2**64, 10**30, -10**30]
    for i in range(n):
        k = rng.randint(0, 12)
        toks = []
        for _ in range(k):
            r = rng.random()
            if r < 0.45:
                toks.append(str(rng.choice(lits) if rng.random() < 0.5 else rng.randint(-6, 6)))
            elif r < 0.75:
                toks.append(rng.choice(["roll", "index", "roll", "index", "pop", "dup", "exch"]))
            else:
                toks.append(rng.choice(ops))
        inputs = [rng.choice([0, 1, 2, 3, -1, 5, 2**24 + 1, 2**31 - 1]) for _ in range(rng.randint(0, 3))]
        n_out = 0
        exp, model = None, True
        # recompute with the stack length as n_out
        res = _ps_stack(toks, inputs)
        if res == "err":
            n_out, exp = rng.randint(0, 3), err()
        elif res is None:
            n_out, exp, model = rng.randint(0, 3), None, False
        else:
            n_out = len(res) if rng.random() < 0.8 else len(res) + 1
            exp = ok(",".join(str(int(v)) for v in res).encode()) if n_out == len(res) else err()
        prog = ("{ " + " ".join(toks) + " }").encode()
        if rng.random() < 0.1:
            prog = rng.choice([b"} " + prog, prog[:-1], prog[2:], b"}{", b"{}", b"xx { 1 } yy } zz", b""])
            exp, model = None, True
            if b"{" in prog and b"}" in prog and prog.index(b"{") < prog.rindex(b"}"):
                pass
        yield Case("num_ps", [prog, ",".join(map(str, inputs)).encode(), d(n_out)], expect=exp, model=model, tags=["site:ps"])


def _ps_stack(toks, inputs):
    try:
        return S.ps_reference(toks, inputs, None)
    except S.PsError as e:
        return "err"


def gen_diff(rng, n):
    for i in range(n):
        items, spec, gid, k = [], {}, 0, 0
        for _ in range(rng.randint(0, 10)):
            if rng.random() < 0.4:
                c = rng.choice(B32) if rng.random() < 0.5 else rng.randint(0, 300)
                items.append("i%d" % c)
                gid = c % 2**32
            else:
                items.append("n")
                spec[gid] = k
                k += 1
                gid = (gid + 1) % 2**32
        ks = sorted(spec)
        yield Case("num_diff", [",".join(items).encode()], expect=ok(d(len(ks)), ",".join(map(str, ks)).encode()), tags=["site:differences"])


def gen_fn(rng, n):
    def arr(k):
        return [float(rng.randint(0, 3)) for _ in range(k)]
    for i in range(n):
        dl = rng.choice([0, 1, 2, 2, 2, 3, 4])
        rl = rng.choice([None, None, 0, 1, 2, 4, 5])
        c0 = rng.choice([None, 0, 1, 3])
        c1 = rng.choice([None, 0, 1, 2])
        dct = {"FunctionType": 2, "N": rng.choice([1, 2, 0, -1]), "Domain": arr(dl)}
        if rl is not None:
            dct["Range"] = arr(rl)
        if c0 is not None:
            dct["C0"] = arr(c0)
        if c1 is not None:
            dct["C1"] = arr(c1)
        o = lambda v: b"-" if v is None else d(v)
        yield Case("num_fnload", [canon(dct)], mfields=[d(dl), o(rl), o(c0), o(c1)], tags=["site:fn2"])
        yield Case("num_fnapply", [canon(dct), rng.choice([b"", b"0", b"1", b"0,1", b"-1"]), d(rng.choice([0, 1, 2, 3]))], model=False, tags=["site:fn2-apply"])
    # sampled (type 0) and calculator (type 4) streams: load and apply with extreme parameters
    big = [0.0, 1.0, -1.0, 1e30, -1e30, 3.0e38, 0.5]
    for i in range(n):
        m = rng.choice([1, 1, 2, 3, 4])
        dct = {"FunctionType": 0, "Domain": [rng.choice([0.0, 1.0, -1.0, 5.0]) for _ in range(2 * m - rng.choice([0, 0, 0, 1]))],
               "Range": [0.0, 1.0] * rng.choice([0, 1, 1, 2]), "Size": [rng.choice([0, 1, 2, 3, 2**31 - 1]) for _ in range(m)],
               "BitsPerSample": rng.choice([8, 1, 0, 32]), "Order": rng.choice([1, 1, 1, 3, 0, 2])}
        if rng.random() < 0.6:
            dct["Encode"] = [rng.choice(big) for _ in range(rng.choice([2 * m, 2 * m, 1, 0]))]
        if rng.random() < 0.3:
            dct["Decode"] = [rng.choice(big) for _ in range(rng.choice([2, 4, 1]))]
        for k in rng.sample(sorted(dct), rng.choice([0, 0, 0, 1])):
            if k != "FunctionType":
                del dct[k]
        data = bytes(rng.randrange(256) for _ in range(rng.choice([0, 1, 2, 4, 8, 27])))
        p = b"p" + canon(dict(dct, Length=len(data))) + data.hex().encode() + b";"
        xs = ",".join(str(rng.choice([0, 1, -1, 2, 1000, 2**31 - 1])) for _ in range(rng.choice([m, m, m, 0, m + 1]))).encode()
        yield Case("num_fnload", [p], model=False, tags=["site:fn0-load"])
        yield Case("num_fnapply", [p, xs, d(rng.choice([0, 1, 1, 2, 3]))], model=False, tags=["site:fn0-apply"])
    for prog in [b"{ dup }", b"} {", b"{", b"}", b"", b"{ 1 2 3 100 1 roll }", b"{ 99999999999 index }", b"{ 1 1 -9223372036854775808 roll }"]:
        for rngk in ([0.0, 1.0], None):
            dct = {"FunctionType": 4, "Domain": [0.0, 1.0]}
            if rngk:
                dct["Range"] = rngk
            p = b"p" + canon(dict(dct, Length=len(prog))) + prog.hex().encode() + b";"
            yield Case("num_fnload", [p], model=False, tags=["site:fn4-load"])
            yield Case("num_fnapply", [p, b"1", b"2"], model=False, tags=["site:fn4-apply"])


def gen_fn0_exhaustive():
    """sampled functions (type 0), every small shape: m = 1..3 inputs, 0..2 outputs (an empty /Range is accepted by the loader),
    1..2 samples per dimension, /Order 1 and 3, the sample table complete or empty, input vectors of the matching length (grid
    corners and a mixed point) and of a non-matching one, the output slice of the matching length and one longer — so that the
    indexing code of every arm of SampledFunction::apply is reached, also with n_out = 0.  A value or an error, never a panic."""
    for m in (1, 2, 3):
        for k_out in (0, 1, 2):
            for size in (1, 2):
                for order in (1, 3):
                    full = k_out * size ** m
                    for dlen in sorted(set([full, 0, max(0, full - 1)])):
                        dct = {"FunctionType": 0, "Domain": [0.0, 1.0] * m, "Range": [0.0, 1.0] * k_out, "Size": [size] * m,
                               "BitsPerSample": 8, "Order": order}
                        data = bytes((37 * j + 11) % 256 for j in range(dlen))
                        p = b"p" + canon(dict(dct, Length=len(data))) + data.hex().encode() + b";"
                        for xs in ([0] * m, [1] * m, [0, 1, 1][:m], [1, 0, 1][:m], [0] * (m - 1), [1] * (m + 1)):
                            for n_out in (k_out, k_out + 1):
                                yield Case("num_fnapply", [p, ",".join(map(str, xs)).encode(), d(n_out)], model=False,
                                           tags=["site:fn0-apply", "fn0:exhaustive"])


def gen_objstm(rng, n):
    for i in range(n):
        k = rng.choice([0, 1, 2, 3, 5])
        offs = sorted(rng.randint(0, 12) for _ in range(k))
        if rng.random() < 0.4 and k:
            offs[rng.randrange(k)] = rng.choice([x for x in B if x >= 0])
        hdr = " ".join("%d %d" % (j + 1, o) for j, o in enumerate(offs))
        if rng.random() < 0.1:
            hdr = hdr[:max(0, len(hdr) - rng.randint(1, 4))]
        body = b"1 2 3 4 5 6 7 8"
        nn = rng.choice([k, k, k, k + 1, 0, 2**31 - 1, -1])
        first = rng.choice([len(hdr) + 1, len(hdr) + 1, 0, 2**31 - 1, -1, 3])
        idx = rng.choice([0, 1, k - 1 if k else 0, k, 2**32, 2**64 - 1])
        data = hdr.encode() + b" " + body
        yield Case("num_objstm", [d(nn), d(first), data, d(idx)], model=False, tags=["site:objstm"])


def gen_widths(rng, n):
    def enc(items):
        w, m = [], []
        for it in items:
            if isinstance(it, list):
                w.append([500] * len(it) if it else [])
                m.append("a%d" % len(it))
            else:
                w.append(it)
                m.append("i%d" % it)
        return canon(w), ",".join(m).encode()
    small = [0, 1, 2, 5, 100, 4000]
    for i in range(n):
        items = []
        for _ in range(rng.randint(0, 4)):
            c1 = rng.choice(small + [-1, 65535, 65536, 2**31 - 1])
            if rng.random() < 0.5:
                items += [c1, [0] * rng.choice([0, 1, 2, 3])]
            else:
                c2 = rng.choice([c1, c1 + 3, c1 - 1, 0, 70000, 300, -1, 65535, 2**31 - 1]) if rng.random() < 0.9 else min(2**31 - 1, c1 + 2**20)
                items += [c1, c2, rng.choice([500, 0, -1])]
        if rng.random() < 0.15 and items:
            items = items[:-1]
        w, m = enc(items)
        yield Case("num_widths", [w, b"1000"], model=False, tags=["site:widths"])


def gen_crypt(rng, n):
    for i in range(n):
        v = rng.choice([0, 1, 2, 3, 4, 5, 6, 7])
        r = rng.choice([0, 1, 2, 3, 4, 5, 6, 7, 2**31 - 1])
        ln = rng.choice([b"-", b"0", b"1", b"7", b"8", b"40", b"64", b"128", b"256", b"2147483647"])
        cfm = rng.choice([b"-", b"V2", b"AESV2", b"AESV3", b"None"])
        cfl = rng.choice([b"-", b"0", b"1", b"5", b"16", b"32", b"536870911", b"536870912", b"2147483647"])
        yield Case("num_crypt", [d(v), d(r), ln, cfm, cfl], model=False, tags=["site:crypt"])


def gen_pages(rng, n):
    def tree(depth):
        ks = []
        for _ in range(rng.randint(1, 3)):
            if depth > 0 and rng.random() < 0.4:
                sub = tree(depth - 1)
                honest = sum(1 if x == "L" else x[1] for x in sub)
                cnt = min(2**31 - 1, honest if rng.random() < 0.6 else rng.choice([0, 1, 2, 2**31 - 1, honest + 1]))   # /Count is an i32 token
                ks.append(("T", cnt, sub))
            else:
                ks.append("L")
        return ks
    for i in range(n):
        t = tree(rng.choice([0, 1, 2, 3]))
        if rng.random() < 0.1:
            t = [("T", 1, t)]
            for _ in range(rng.choice([14, 15, 16, 17, 20])):
                t = [("T", 1, t)]
        f = S.page_tree_file(t)
        for nr in set([0, 1, rng.randint(0, 6), rng.choice([2**31 - 1, 2**32 - 1, 2**31 - 2, 2**32 - 3])]):
            yield Case("num_pages", [f, d(nr)], model=False, tags=["site:pages"])


def gen_tree(rng, n):
    for i in range(n):
        k = rng.randint(1, 7)
        nodes, adj = {}, []
        nums = list(range(10, 10 + k))
        shape = rng.choice(["tree", "tree", "dag", "cycle", "self", "chain"])
        if shape == "chain":
            k = rng.choice([30, 31, 32, 33, 34, 40])
            nums = list(range(10, 10 + k))
            for j, x in enumerate(nums):
                nodes[x] = ("kids", [nums[j + 1]]) if j + 1 < k else ("leaf", 1)
        else:
            for j, x in enumerate(nums):
                later = nums[j + 1:]
                if not later or rng.random() < 0.3:
                    nodes[x] = ("leaf", rng.randint(0, 3))
                else:
                    kids = rng.sample(later, rng.randint(1, min(3, len(later))))
                    if shape == "dag" and rng.random() < 0.5:
                        kids.append(rng.choice(later))
                    if shape == "cycle" and rng.random() < 0.5:
                        kids.append(rng.choice(nums[:j + 1]))
                    if shape == "self" and rng.random() < 0.3:
                        kids.append(x)
                    nodes[x] = ("kids", kids)
            if nodes[10][0] == "leaf" and k > 1:
                nodes[10] = ("kids", [nums[1]])
        kind = rng.choice(["names", "labels"])
        f = S.tree_file(nodes, root_kind=kind)
        g = ";".join("%d:%s" % (x, ".".join(map(str, v[1]))) for x, v in nodes.items() if v[0] == "kids").encode()
        # the catalog refers to node 10: the walk starts AT its kids; a leaf root has none
        yield Case("num_tree", [f], mfields=[g or b"0:", b"10"], tags=["site:tree", "tree:" + shape])


def gen_unpredict(rng, n):
    # the row model materialises a row of `stride` bytes: keep non-overflowing strides small (huge ones are the overflow class)
    for i in range(n):
        p = rng.choice([1, 2, 10, 11, 12, 15, -1, 2**31 - 1])
        c, cols = rng.choice([(1, 1), (3, 2), (1, 5), (4, 3), (0, 5), (1, 0), (0, -1), (-1, -1), (1, -1), (-1, 1), (2, -1), (-1, 3),
                              (2**31 - 1, -1), (-1, 2**31 - 1), (-2**31, -2**31)])
        if p in (1, 2, 10) and rng.random() < 0.5:
            c, cols = rng.choice([(2**31 - 1, 1), (1, 2**31 - 1), (1, -2**31)])      # predictor <= 10: geometry computed, rows untouched
        bpc = rng.choice([8, 8, 8, 1, 2, 4, 16, 0, -1, 3, 2**31 - 1])
        data = bytes(rng.choice([0, 1, 2, 3, 4, 7]) if j % 3 == 0 else rng.randrange(256) for j in range(rng.choice([0, 1, 6, 13, 40])))
        # mode of the Codec area (harness codec.rs, model Codec/Run.v: run_unpredict): predictor colors columns bpc data
        yield Case("unpredict", [d(p), d(c), d(cols), d(bpc), zlib.compress(data)], mfields=[d(p), d(c), d(cols), d(bpc), data], kind="malformed", tags=["site:predictor"])


def gen_short_rows():
    """predictor rows cut at every position (exhaustive over the length; the class of seeded/C14f: one byte short of a row)"""
    from oracle import codecs as C
    for (p, c, cols, bpc, data) in C.short_row_sweep():
        yield Case("unpredict", [d(p), d(c), d(cols), d(bpc), zlib.compress(data)], mfields=[d(p), d(c), d(cols), d(bpc), data], kind="malformed",
                   tags=["site:predictor", "short-row"])


def gen_fax(rng, n):
    eofb = b"\x00\x10\x01"
    for i in range(n):
        k = rng.choice([-1, -1, -1, 0, 1, 4, -2**31, 2**31 - 1])
        cols = rng.choice([0, 1, 8, 1728, 65535, 2**16, 2**16 + 8, 2**31 - 1, 2**32 - 1])
        rows = rng.choice([0, 1, 2, 100, 65535, 2**16, 2**32 - 1])
        data = rng.choice([eofb, eofb, b"", bytes(rng.randrange(256) for _ in range(rng.choice([3, 16]))), b"\xff" * 8 + eofb])
        if 0 < cols < 2**16 and rows < 2**16 and cols * max(rows, 8 * len(data)) > 2**26:
            rows = rng.choice([0, 1, 2])                 # the padded-rows blow-up (C14-r) is the witness; keep the stream cheap
            if cols * 8 * len(data) > 2**26:
                cols = 1728
        bad = k >= 0 or not (0 < cols < 2**16) or rows >= 2**16
        yield Case("num_fax", [d(k), d(cols), d(rows), data], expect=err() if bad else None, tags=["site:fax", "fax:refused" if bad else "fax:decoded"])


def xref_stream_file(w, index, data, size=5, extra=b""):
    """a file whose only cross-reference section is an xref stream with the given /W, /Index and raw data"""
    out = bytearray(b"%PDF-1.5\n")
    offs = {}
    for num, body in ((1, b"<< /Type /Catalog /Pages 2 0 R >>"), (2, b"<< /Type /Pages /Kids [3 0 R] /Count 1 >>"),
                      (3, b"<< /Type /Page /Parent 2 0 R /MediaBox [0 0 9 9] >>")):
        offs[num] = len(out)
        out += b"%d 0 obj\n" % num + body + b"\nendobj\n"
    sx = len(out)
    out += b"4 0 obj\n<< /Type /XRef /Size %d /Root 1 0 R /W [%s] /Index [%s] /Length %d %s>>\nstream\n" % (
        size, b" ".join(d(x) for x in w), b" ".join(d(x) for x in index), len(data), extra)
    out += data + b"\nendstream\nendobj\nstartxref\n%d\n%%%%EOF\n" % sx
    return bytes(out), offs, sx


def gen_xref(rng, n):
    for i in range(n):
        w = [rng.choice([0, 1, 2, 4, 8, 9, 2**31 - 1]) for _ in range(rng.choice([3, 3, 3, 2, 4]))]
        idx = [0, rng.choice([0, 1, 5, 6, 2**16, 2**31 - 1])]
        if rng.random() < 0.2:
            idx += [rng.choice([5, 2**31 - 1]), rng.choice([1, 2**31 - 1])]
        data = bytes(rng.choice([0, 1, 1, 2]) if j % 4 == 0 else rng.randrange(64) for j in range(rng.choice([0, 4, 20, 24, 40])))
        f, _, _ = xref_stream_file(w, idx, data, size=rng.choice([5, 0, 2**31 - 1]))
        # zero-width rows with a huge count (the former C14-k / C01-b) are part of the stream now: they must be refused quickly
        yield Case("num_xref", [rng.choice([b"s", b"t"]), f], model=False, tags=["site:xref"])


def generate(rng, tier):
    k = 1 if tier == "quick" else 8
    gens = [gen_ps(rng, 500 * k), gen_diff(rng, 150 * k), gen_fn(rng, 100 * k), gen_objstm(rng, 250 * k), gen_widths(rng, 250 * k),
            gen_crypt(rng, 250 * k), gen_pages(rng, 80 * k), gen_tree(rng, 150 * k), gen_unpredict(rng, 200 * k), gen_fax(rng, 200 * k),
            gen_xref(rng, 150 * k), gen_short_rows(), gen_fn0_exhaustive(), gen_annot_pages(), gen_big()]
    for g in gens:
        for c in g:
            yield c
    try:
        from oracle import hostile
        planted = hostile.planted(rng, tier)
    except Exception as e:       # the generator of planted graphs is part of the check: its absence is a machinery defect
        raise
    # every planted file of the tier (quick: ~4 400 files in one cross-reference style; thorough: four styles, capped).  The numeric
    # fields that reach sites repaired by other areas (SITE_TAGS) come first: the theorems about those sites are imported by
    # Properties/C14.v, and the walk is what exercises them on THIS property's inputs.
    planted = list(planted)
    planted = [p for p in planted if p[0].startswith(SITE_TAGS)] + [p for p in planted if not p[0].startswith(SITE_TAGS)]
    planted = planted[:(6000 if tier == "quick" else 30000)]
    for j, (tag, data) in enumerate(planted):
        # (the shapes of the cross-reference chain behind a prefix run in every configuration under C01; here one each)
        o, ch = b"st"[j % 2:j % 2 + 1], b"cn"[(j // 2) % 2:(j // 2) % 2 + 1]
        yield Case("walk", [o, ch, data], model=False, tags=["planted", tag.split("=")[0][:60]], note=tag)
    # a clique of ten Type0 fonts each naming all ten as /DescendantFonts (3 kB): the first recursive-reference error has to end
    # the load; a reader that drops failing elements and carries on walks every simple path of the clique (10! loads) —
    # the two-object cycles above cannot tell the two apart (mutation sweep, survivor #0063)
    N, Ref = hostile.N, hostile.Ref
    t0 = {"Type": N("Font"), "Subtype": N("Type0"), "BaseFont": N("X"), "Encoding": N("Identity-H")}
    clique = hostile._r(hostile._mini({4 + i: dict(t0, DescendantFonts=[Ref(4 + j) for j in range(10)]) for i in range(10)}, res={"Font": {"F": Ref(4)}}))
    for o in (b"s", b"t"):
        for ch in (b"c", b"n"):
            yield Case("walk", [o, ch, clique], model=False, tags=["planted", "cycle:descendant-clique"], note="cycle:descendant-clique")


def _hist(r):
    """call histogram of a walk: kind -> (ok, err, panic)"""
    out = {}
    if r[0] == "OK" and len(r[1]) > 3:
        for l in r[1][3].decode("latin1").split("\n"):
            w = l.split(" ")
            if len(w) == 4:
                out[w[0]] = tuple(int(x) for x in w[1:])
    return out


def annot_own_page(r):
    """Table 164: /P is an indirect reference to the page object with which the annotation is associated — an annotation that
    names its own page loads, and the page read through it is that page"""
    if r[0] != "OK":
        return None                      # (reported by `always`)
    h = _hist(r)
    if h.get("page.annots.load", (0, 0, 0))[0] < 1:
        return "the annotations of a page whose annotation names this very page as /P do not load (%s)" % (h.get("page.annots.load"),)
    if h.get("page.annot.page.own", (0, 0, 0))[0] < 1:
        return "an annotation whose /P is its own page was loaded without it: no page is read through Annot.page (%s)" % (
            {k: v for k, v in h.items() if k.startswith("page.annot")},)
    return None


def gen_annot_pages():
    """planted fragment: Page /Annots [A], A /P -> every object of the fragment; the walker dereferences Annot.page"""
    from oracle import hostile
    for tag, data in hostile.annot_page_cases():
        own = tag.endswith("own-page")
        for o in (b"s", b"t"):
            for ch in (b"c", b"n"):
                yield Case("walk", [o, ch, data], model=False, check=annot_own_page if own else None, tags=["planted", "annot-p", tag], note=tag)


def gen_big():
    """one big instance of every typed kind the walker loads (hostile.big_instances), caches on and off: the heap-size estimates
    behind the size-weighted object cache run only there"""
    from oracle import hostile
    for tag, data in hostile.big_instances():
        for o in (b"s", b"t"):
            for ch in (b"c", b"n"):
                yield Case("walk", [o, ch, data], model=False, tags=["planted", "big", tag], note=tag)


# planted numeric fields that reach sites repaired (and proved) by other areas
SITE_TAGS = ("num:objstm-", "num:ObjStmInfo.", "num:XRefInfo.", "num:CIDFont.W", "num:CIDFont.DW", "num:Type0Font.", "num:CryptDict.", "num:CryptFilter.",
             "num:PagesNode.Count", "num:PageTree.Count", "num:LZWFlateParams", "num:CCITTFaxDecodeParams", "num:filter-data:RunLengthDecode", "num:Trailer.", "num:TFont.",
             # … and the sites of this area
             "num:PostScript", "num:Sampled", "num:Function2", "num:RawFunction", "num:Encoding.Differences", "num:NameTree", "num:NumberTree")


def nontrivial(c):
    return sum(len(f) for f in c.fields) >= 2


# ------------------------------------------------------------------------------------------------ known findings
def _findings():
    p = os.path.join(os.path.dirname(__file__), "..", "..", "known_findings", "C14.json")
    try:
        return json.load(open(p)).get("findings", [])
    except Exception:
        return []


def _site_of(case, impl):
    """(kind, text) describing where the implementation failed"""
    if case.mode == "walk":
        st = impl[1][0].decode("latin1") if impl[0] == "OK" and impl[1] else "%s %s" % (impl[0], impl[1])
        detail = impl[1][2].decode("latin1") if impl[0] == "OK" and len(impl[1]) > 2 else ""
        # append the panic message to each `site@call` line (field 4: site TAB message): findings are matched on file + message
        msgs = {}
        if impl[0] == "OK" and len(impl[1]) > 4:
            for l in impl[1][4].decode("latin1").split("\n"):
                if "\t" in l:
                    k, v = l.split("\t", 1)
                    msgs.setdefault(k, v)
        detail = "\n".join((l + " :: " + msgs.get(l.split("@", 1)[0], "")) if "@" in l and not l.startswith(("ABORT", "TIMEOUT")) else l
                           for l in detail.split("\n"))
        return st, detail
    return "%s %s" % (impl[0], impl[1]), ""


def _match(text, mode, tags=()):
    for f in _findings():
        if f.get("status") != "open":
            continue
        for s in f.get("sites", []):
            if s.get("mode") and s["mode"] != mode:
                continue
            if s.get("tag_prefix") and not any(t.startswith(s["tag_prefix"]) for t in tags):
                continue
            if s["file"] in text and all(m in text for m in s.get("msg", [])):
                return f["id"]
    return None


def classify(case, impl, model):
    st, detail = _site_of(case, impl)
    if case.mode != "walk":
        return _match(st, case.mode)
    # a walk: every distinct panic site must be a listed one; ABORT / TIMEOUT are matched on the status line
    # a panic inside a cached computation leaves the cache cell in progress: a later call on the same object waits for ever
    # ("TIMEOUT deadlock …" line after the panic line) — a consequence of the panic, attributed with it
    lines = [l for l in detail.split("\n") if l.strip() and not l.startswith("TIMEOUT deadlock")]
    if st.startswith("PANIC") and lines:
        ids = [_match(l, "walk", case.tags) for l in lines]
        return ids[0] if all(ids) else None
    return _match(st + "\n" + detail, "walk", case.tags)


def witness_case(f, c):
    if c.mode not in MODES or (c.mode == "num_fnload" and c.mfields is None) or f["id"] == "C14-r":
        c.model = False
    if f.get("status") == "fixed":
        c.check = None
    return c


def coverage_extra(cases, impl, model):
    sites, outcomes = {}, {}
    for c, r in zip(cases, impl):
        for t in c.tags:
            if t.startswith("site:") or t == "planted":
                sites[t] = sites.get(t, 0) + 1
                if r is not None:
                    k = t + ":" + (r[0] if c.mode != "walk" else (r[1][0].decode("latin1").split(" ")[0] if r[0] == "OK" and r[1] else r[0]))
                    outcomes[k] = outcomes.get(k, 0) + 1
    walk = {}
    for c, r in zip(cases, impl):
        if c.mode == "walk" and r is not None and r[0] == "OK" and r[1]:
            st = r[1][0].decode("latin1")
            if not st.startswith("CLEAN"):
                e = walk.setdefault(st, {"n": 0, "tags": []})
                e["n"] += 1
                for t in c.tags:
                    if t != "planted" and t not in e["tags"] and len(e["tags"]) < 6:
                        e["tags"].append(t)
    return {"site_cases": sites, "site_outcomes": outcomes, "walk_failures": walk,
            "proved_vs_explored": {"proved": "Properties/C14.v (%d theorems, 13 imported)" % len(_TH), "explored": "mode walk on planted graphs; modes num_fax, num_xref, num_fnapply, fn0/fn4 load, num_objstm, num_widths, num_crypt, num_pages (no model here)"}}
