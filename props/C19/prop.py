"""C19 — glyph widths and Unicode maps follow the font dictionaries exactly."""
import itertools

from vplib.api import Case, ok, err
from oracle import cmap as S
from oracle import pdfwriter as W
from oracle.pdfwriter import Name, Ref, Stream

ID = "C19"
LEVEL = "proof"
DESIGN_REF = "DESIGN.md §9 C19, §12.C19"
COQ_TARGETS = ["Properties/C19", "Pins/C19"]
THEOREMS = [("PdfV.Properties.C19", n) for n in [
    "C19_get_set", "C19_set_ok", "C19_cid_widths", "C19_cid_widths_last_wins", "C19_widths_no_panic",
    "C19_type0_no_panic", "C19_simple_widths", "C19_utf16_rt", "C19_cmap_read", "C19_cmap_rt", "C19_cmap_write",
    "C19_cmap_rt_created", "C19_cmap_read_spelled", "C19_lexer_shared", "C19_hexstr_shared",
    "C19_simple_widths_any", "C19_simple_widths_negative"]]
ANCHORS = ["font:"]
MODES = ["widths", "cmap_write", "cmap_read", "cmap_rt", "utf16dec"]
TRUSTED_BASE = ["coqc 8.16.1 kernel (vm_compute for table lemmas and witnesses; no native_compute)",
                "gen/extract_font.py (regenerates the lexer byte classes, CMap keywords, writer literals and MAX_CID from the Rust source)",
                "Extraction + ExtrOcamlBasic, ocamlfind ocamlopt 4.13.1, coq/driver/main.ml",
                "harness pdfh (Rust: harness/src/modes/font.rs), tools/vplib (comparison)",
                "tools/oracle/cmap.py (exact binary32 rounding, W-array / Widths meaning, CMap renderer, denotation and strict reader), "
                "tools/oracle/pdfwriter.py (files around the font dictionaries), python's utf-16-be codec and zlib"]
ASSUMPTIONS = ["number -> f32 conversion (`i32 as f32`, str::parse::<f32>) is an oracle: every number reaches the model with its binary32 bit "
               "pattern computed by exact rational rounding; the implementation's bits are compared with it on every case",
               "the derive(Object) glue that turns the font dictionary into CIDFont / TFont (keys /W /DW /FirstChar /Widths /FontDescriptor) "
               "is not modelled; it is exercised by every `widths` case and judged against the specification oracle",
               "the model covers hex strings and arrays of hex strings inside bfchar/bfrange sections; any other construct there "
               "(literal strings, other array elements) makes the model answer Err 99 and the case is then judged without a model",
               "HashMap<u16, SmallString> is represented by its content sorted by code; usize is 64 bits"]
RULE = ("widths: W arrays of 0-12 groups (both forms, lists inline or by reference) over codes 0..65535 with disjoint ranges, "
        "every permutation of the groups when there are at most 4, integer and real widths, DW present or absent, CIDFontType0/2 directly "
        "and through Type0; queried at every group boundary +-1, inside, 0, 65535, 65536 and far outside; zero-length list groups `c [ ]` "
        "(direct and by reference, at code 0 and elsewhere, alone and at every position among ordinary groups); overlapping groups (model only); "
        "simple fonts with/without FirstChar, Widths, FontDescriptor, MissingWidth; hostile arrays (negative / huge codes, empty lists, "
        "missing operands, wrong types, dangling references) judged by 'no panic, no hang' and against the model.  "
        "CMaps: maps of 0-300 entries (runs, isolated codes, supplementary planes, empty strings) through write_cmap "
        "(judged by a strict CMap reader written from the specification), write->read, and conformant CMap texts with both range "
        "forms and spelling variation (hex case, white-space, comments, 1-byte codes, section counts, prologue) through parse_cmap "
        "and Font::to_unicode; the spellings of C19_cmap_read_spelled the renderer does not produce (no white-space between delimited tokens, "
        "odd digit counts, NUL / form feed / comments between operands, sections after endcmap, data ending inside a comment); "
        "section keywords inside literal strings (finding C19-f); simple fonts with ill-formed dictionaries (FirstChar > LastChar, negative "
        "or extreme FirstChar, Widths shorter / longer than the range); UTF-16BE byte strings; mutated texts (model + no panic).  "
        "non-trivial = a width case with at least one group or a map/text with at least 2 entries; distinct by full input")
CASE_TIMEOUT = 20.0

F32_1000 = S.f32_bits(1000)
PANICKY = ("PANIC", "ABORT", "TIMEOUT")


# ---------------------------------------------------------------------------------------------------
# numbers

def num(rng, kind=None):
    """a PDF number for a width: (python value for the writer, f32 bits)"""
    kind = kind or rng.choice(["i", "i", "r", "r", "big", "neg", "frac"])
    if kind == "i":
        v = rng.choice([0, 1, 250, 500, 600, 1000, rng.randrange(0, 2000)])
    elif kind == "r":
        v = rng.randrange(0, 200000) / 100.0
    elif kind == "frac":
        v = rng.choice([0.1, 0.3, 333.333, 1e-3, 722.7, 0.5, 16777217.0, 123456.789])
    elif kind == "big":
        v = rng.choice([16777217, 2147483647, 33554431, 100000000])
    else:
        v = rng.choice([-1, -500, -0.5, -12.25])
    return v, S.num_bits(W.ser(v))


def rec(v):
    """10-byte record of a number for the model: tag sign mag4 bits4"""
    if isinstance(v, bool) or v is None or isinstance(v, (Name, Ref, bytes, list, dict)):
        return b"x" + bytes(9)
    bits = S.num_bits(W.ser(v))
    if isinstance(v, int):
        return b"i" + (b"\x01" if v < 0 else b"\x00") + abs(v).to_bytes(4, "big") + bits.to_bytes(4, "big")
    return b"r" + bytes(5) + bits.to_bytes(4, "big")


def item_field(v, objects):
    """model field of one element of the /W vector"""
    if isinstance(v, bool) or v is None:
        return b"x"
    if isinstance(v, int):
        return rec(v)
    if isinstance(v, float):
        return b"r" + S.num_bits(W.ser(v)).to_bytes(4, "big")
    if isinstance(v, list):
        return b"a" + b"".join(rec(x) for x in v)
    if isinstance(v, Ref):
        t = objects.get(v.num)
        if isinstance(t, list):
            return b"R" + b"".join(rec(x) for x in t)
        return b"Q"
    return b"x"


def codes_field(codes):
    return b"".join(c.to_bytes(4, "big") for c in codes)


# ---------------------------------------------------------------------------------------------------
# files around a font dictionary

def descriptor(missing=None):
    d = {"Type": Name("FontDescriptor"), "FontName": Name("F"), "Flags": 4, "FontBBox": [0, 0, 1000, 1000], "ItalicAngle": 0}
    if missing is not None:
        d["MissingWidth"] = missing
    return d


def font_file(font, extra=None, fmt="table"):
    objs = W.minimal_catalog()
    objs[4] = font
    objs.update(extra or {})
    data, _ = W.simple_file(objs, fmt=fmt)
    return data


def cid_font(w, dw=None, subtype="CIDFontType2", fd=None):
    d = {"Type": Name("Font"), "Subtype": Name(subtype), "BaseFont": Name("F"),
         "CIDSystemInfo": {"Registry": b"Adobe", "Ordering": b"Identity", "Supplement": 0},
         "FontDescriptor": fd if fd is not None else descriptor()}
    if dw is not None:
        d["DW"] = dw
    if w is not None:
        d["W"] = w
    return d


def affordable(w):
    """the list model appends in O(n): a `first last w` range of more than 3000 codes is left to the specification oracle"""
    w = w or []
    i = 0
    while i + 1 < len(w):
        a, b = w[i], w[i + 1]
        if isinstance(a, bool) or not isinstance(a, int):
            break
        if isinstance(b, (list, Ref)):
            i += 2
        elif isinstance(b, int) and not isinstance(b, bool):
            if 0 <= a and b <= 65535 and b - a > 3000:
                return False
            i += 3
        else:
            break
    return True


def cid_case(rng, w, dw, codes, expect_bits=None, extra=None, type0=False, tags=(), kind="structured", model=True, subtype="CIDFontType2"):
    extra = dict(extra or {})
    model = model and affordable(w)
    font = cid_font(w, dw, subtype=subtype, fd=rng.choice([None, Ref(6)]) if rng else None)
    if isinstance(font["FontDescriptor"], Ref):
        extra[6] = descriptor()
    if type0:
        extra[5] = font
        top = {"Type": Name("Font"), "Subtype": Name("Type0"), "BaseFont": Name("F"), "Encoding": Name("Identity-H"),
               "DescendantFonts": [Ref(5)]}
    else:
        top = font
    data = font_file(top, extra, fmt=(rng.choice(["table", "stream"]) if rng else "table"))
    dwbits = F32_1000 if dw is None else S.num_bits(W.ser(dw))
    mf = [b"Tc" if type0 else b"c", b"%d" % dwbits, codes_field(codes), b"", b""] + [item_field(v, extra) for v in (w or [])]
    exp = None
    if expect_bits is not None:
        exp = ok(b"S", b"".join(b.to_bytes(4, "big") for b in expect_bits))
    return Case("widths", [data, b"4", codes_field(codes)], expect=exp, mfields=mf, tags=list(tags), kind=kind, model=model)


def probe_codes(groups, rng):
    cs = {0, 1, 255, 256, 65535, 65536, 70000, 2 ** 31 - 1, 2 ** 32 - 1}
    for g in groups:
        a, b = g.codes()
        for c in (a - 1, a, a + 1, (a + b) // 2, b - 1, b, b + 1):
            if c >= 0:
                cs.add(c)
    for _ in range(4):
        cs.add(rng.randrange(0, 65536))
    return sorted(cs)


def w_array(groups, extra, next_obj):
    """python value of the /W array (+ referenced list objects)"""
    out = []
    for g in groups:
        if isinstance(g, S.GList):
            vals = [v for v, _ in g.ws]
            if g.byref:
                n = next_obj[0]
                next_obj[0] += 1
                extra[n] = vals
                out += [g.first, Ref(n)]
            else:
                out += [g.first, vals]
        else:
            out += [g.first, g.last, g.w[0]]
    return out


def spec_groups(groups):
    """the same groups with widths replaced by their f32 bits"""
    out = []
    for g in groups:
        if isinstance(g, S.GList):
            out.append(S.GList(g.first, [b for _, b in g.ws]))
        else:
            out.append(S.GRange(g.first, g.last, g.w[1]))
    return out


def disjoint_groups(rng, n, max_range=400):
    """n groups over disjoint code ranges inside 0..65535"""
    groups, used = [], []
    tries = 0
    while len(groups) < n and tries < 200:
        tries += 1
        ln = rng.choice([1, 1, 2, 3, 5, 17, rng.randint(1, 40), rng.randint(1, max_range)])
        a = rng.choice([0, rng.randrange(0, 300), rng.randrange(0, 65536), 65535, 65536 - ln])
        a = max(0, min(a, 65536 - ln))
        b = a + ln - 1
        if any(not (b < x or y < a) for x, y in used):
            continue
        used.append((a, b))
        if rng.random() < 0.5:
            groups.append(S.GList(a, [num(rng) for _ in range(min(ln, 60))], byref=rng.random() < 0.2))
            used[-1] = (a, a + len(groups[-1].ws) - 1)
        else:
            groups.append(S.GRange(a, b, num(rng)))
    return groups


def widths_cases(rng, tier):
    n_rand = 60 if tier == "quick" else 1500
    # every permutation of up to 4 groups (insertion order is the point of the table's growth cases)
    for n in (0, 1, 2, 3, 4):
        for rep in range(2 if tier == "quick" else 12):
            groups = disjoint_groups(rng, n, max_range=120)
            dw = rng.choice([None, 500, 0, 777.5, 1000])
            for perm in itertools.permutations(groups):
                perm = list(perm)
                extra, nxt = {}, [7]
                w = w_array(perm, extra, nxt)
                codes = probe_codes(perm, rng)
                sg = spec_groups(perm)
                dwb = F32_1000 if dw is None else S.num_bits(W.ser(dw))
                yield cid_case(rng, w, dw, codes, [S.w_spec(sg, dwb, c) for c in codes], extra,
                               type0=rng.random() < 0.3, tags=["cid", "perm%d" % n],
                               subtype=rng.choice(["CIDFontType2", "CIDFontType0"]))
    # adjacent groups in ascending / descending / interleaved order: append, prepend, gap, overwrite-free
    for order in ("asc", "desc", "mid"):
        gs = [S.GRange(10, 19, num(rng)), S.GList(20, [num(rng) for _ in range(5)]), S.GRange(25, 25, num(rng)),
              S.GList(30, [num(rng)]), S.GRange(0, 9, num(rng))]
        if order == "desc":
            gs = sorted(gs, key=lambda g: -g.first)
        elif order == "asc":
            gs = sorted(gs, key=lambda g: g.first)
        extra = {}
        codes = list(range(0, 40))
        yield cid_case(rng, w_array(gs, extra, [7]), 300, codes, [S.w_spec(spec_groups(gs), S.f32_bits(300), c) for c in codes],
                       extra, tags=["cid", "adjacent-" + order])
    for i in range(n_rand):
        groups = disjoint_groups(rng, rng.randint(1, 12), max_range=rng.choice([40, 400, 2000]))
        rng.shuffle(groups)
        dw = rng.choice([None, 500, 1000, 0.5, 1234])
        extra = {}
        w = w_array(groups, extra, [7])
        codes = probe_codes(groups, rng)
        dwb = F32_1000 if dw is None else S.num_bits(W.ser(dw))
        yield cid_case(rng, w, dw, codes, [S.w_spec(spec_groups(groups), dwb, c) for c in codes], extra,
                       type0=rng.random() < 0.3, tags=["cid", "random"])
    # the whole code space in one range (too slow for the list model: implementation against the specification only)
    g = [S.GRange(0, 65535, num(rng, "i"))]
    codes = [0, 1, 30000, 65535, 65536]
    yield cid_case(rng, w_array(g, {}, [7]), None, codes, [S.w_spec(spec_groups(g), F32_1000, c) for c in codes], tags=["cid", "full-range"], model=False)
    g = [S.GRange(60000, 65535, num(rng, "i")), S.GList(0, [num(rng) for _ in range(3)])]
    codes = [0, 2, 3, 59999, 60000, 65535, 65536]
    yield cid_case(rng, w_array(g, {}, [7]), 10, codes, [S.w_spec(spec_groups(g), S.f32_bits(10), c) for c in codes], tags=["cid", "wide-gap"], model=False)
    # overlapping groups: outside the property's domain; the model (last assignment wins) is the only judge
    for i in range(20 if tier == "quick" else 300):
        groups = []
        for _ in range(rng.randint(2, 5)):
            a = rng.randrange(0, 40)
            if rng.random() < 0.5:
                groups.append(S.GList(a, [num(rng) for _ in range(rng.randint(1, 8))]))
            else:
                groups.append(S.GRange(a, a + rng.randint(0, 12), num(rng)))
        extra = {}
        yield cid_case(rng, w_array(groups, extra, [7]), 1, list(range(0, 64)), None, extra, tags=["cid", "overlap"])


def zero_length_cases(rng, tier):
    """`first [ ]` — a list group of no widths, written directly and through a reference, at code 0 and elsewhere, alone and
    between ordinary groups: it covers the empty code range (Font/Spec.v wf_group admits it), assigns nothing, and every other
    group keeps its widths (§9.7.4.3); expected values from S.w_spec as for every well-formed array"""
    def case(groups, dw, tags):
        extra = {}
        w = w_array(groups, extra, [7])
        codes = probe_codes(groups, rng)
        dwb = F32_1000 if dw is None else S.num_bits(W.ser(dw))
        return cid_case(rng, w, dw, codes, [S.w_spec(spec_groups(groups), dwb, c) for c in codes], extra, type0=rng.random() < 0.3,
                        tags=["cid", "zero-length-list"] + tags, subtype=rng.choice(["CIDFontType2", "CIDFontType0"]))
    for byref in (False, True):
        how = ["by-reference" if byref else "direct"]
        for a in (0, 1, 10, 300, 65535):
            z = lambda: S.GList(a, [], byref=byref)
            at = ["at-0" if a == 0 else "at-nonzero"]
            yield case([z()], 250, how + at + ["alone"])
            others = [S.GList(10, [num(rng), num(rng)]), S.GRange(20, 22, num(rng))]
            for pos in range(3):
                gs = list(others)
                gs.insert(pos, z())
                yield case(gs, rng.choice([None, 250, 0.5]), how + at + ["pos%d" % pos])
        yield case([S.GList(0, [], byref=byref), S.GList(0, [num(rng)], byref=not byref), S.GList(1, [], byref=byref)], 7, how + ["at-0", "twice"])
    for i in range(24 if tier == "quick" else 600):
        groups = disjoint_groups(rng, rng.randint(0, 6), max_range=rng.choice([40, 400]))
        rng.shuffle(groups)
        tags = set()
        for _ in range(rng.randint(1, 3)):
            a = rng.choice([0, 0, rng.randrange(1, 300), rng.randrange(1, 65536)])
            byref = rng.random() < 0.5
            groups.insert(rng.randint(0, len(groups)), S.GList(a, [], byref=byref))
            tags |= {"by-reference" if byref else "direct", "at-0" if a == 0 else "at-nonzero"}
        yield case(groups, rng.choice([None, 500, 1000, 0.5]), sorted(tags) + ["random"])


def hostile_cases(rng, tier):
    """well-formed object graphs, ill-formed W arrays: an error or a table, never a panic / hang"""
    n = Name("X")
    fixed = [
        [0, -1, 500], [5, -7, 500], [0, []], [0, [], 1, [2]], [3, []], [-1, [5]], [0], [0, 5], [0, 5, n], [n, [1]], [0, n],
        [0, [1, n, 2]], [0, 70000, 1], [70000, [1]], [65535, [1, 2]], [65530, [1, 2, 3, 4, 5, 6]], [65535, [1]], [65535, 65535, 9],
        [2147483647, [1]], [0, 2147483647, 1], [2147483647, 2147483647, 1], [10, 5, 3], [1.5, [1]], [0, 1.5, 3],
        [0, Ref(9)], [0, Ref(8)], [0, Ref(7)], [0, [Ref(7)]], [None, [1]], [0, None], [[1], [2]], [0, [[1]]], [0, 0, [1]],
        [0, True, 1], [0, [1, 2], 1], [5, [1, 2], 4, 4, 7, 0, [3]], [65536, 65536, 1], [0, 65536, 1], [-5, -2, 1],
    ]
    extra = {7: [1, 2.5, 3], 8: {"A": 1}}       # 7: an array, 8: not an array, 9: missing
    for w in fixed:
        yield cid_case(rng, w, 1000, [0, 1, 2, 3, 4, 5, 6, 7, 10, 65534, 65535, 65536, 70000], None, extra, tags=["hostile"], kind="malformed",
                       type0=rng.random() < 0.2)
    pool = [0, 1, 2, 5, 100, 65535, 65536, -1, -100, 2147483647, 1.5, n, None, True, [], [1], [1, 2, 3], [n], Ref(7), Ref(8), Ref(9), [[1]]]
    for i in range(60 if tier == "quick" else 2000):
        w = [rng.choice(pool) for _ in range(rng.randint(0, 7))]
        # keep the model affordable: a `first last w` range of at most 65536 codes is fine once, not repeatedly
        yield cid_case(rng, w, rng.choice([None, 5]), [0, 1, 2, 3, 5, 100, 101, 65535, 65536], None, extra, tags=["hostile", "random"], kind="malformed")
    # Type0 without descendants
    top = {"Type": Name("Font"), "Subtype": Name("Type0"), "BaseFont": Name("F"), "Encoding": Name("Identity-H"), "DescendantFonts": []}
    yield Case("widths", [font_file(top), b"4", codes_field([0, 1])], expect=ok(b"N"), mfields=[b"T", b"0", codes_field([0, 1])],
               tags=["hostile", "type0-empty"], kind="malformed")
    # the /W key itself: absent, null, a lone number, a reference to the array
    yield cid_case(rng, None, 250, [0, 7, 65535], [S.f32_bits(250)] * 3, tags=["cid", "no-W"])
    data = font_file(cid_font(Ref(7), 250), {7: [3, [1, 2]]})
    yield Case("widths", [data, b"4", codes_field([2, 3, 4, 5])],
               expect=ok(b"S", b"".join(S.f32_bits(x).to_bytes(4, "big") for x in (250, 1, 2, 250))),
               mfields=[b"c", b"%d" % S.f32_bits(250), codes_field([2, 3, 4, 5]), b"", b"", item_field(3, {}), item_field([1, 2], {})],
               tags=["cid", "W-by-reference"])


def simple_case(rng, subtype, first, ws, fd, missing, codes, tags=(), last=None):
    font = {"Type": Name("Font"), "Subtype": Name(subtype), "BaseFont": Name("F")}
    extra = {}
    if first is not None:
        font["FirstChar"] = first
    if ws is not None:
        font["Widths"] = [v for v, _ in ws]
        if first is not None:
            font["LastChar"] = first + len(ws) - 1 if last is None else last
    if fd:
        d = descriptor(missing[0] if missing is not None else None)
        if fd == "ref":
            extra[6] = d
            font["FontDescriptor"] = Ref(6)
        else:
            font["FontDescriptor"] = d
    data = font_file(font, extra)
    mbits = (missing[1] if missing is not None else 0) if fd else None
    mf = [b"s", (b"%d" % mbits) if mbits is not None else b"", codes_field(codes),
          (b"%d" % first) if first is not None else b"",
          (b"a" + b"".join(b.to_bytes(4, "big") for _, b in ws)) if ws is not None else b""]
    if first is None:
        exp = ok(b"N")
    elif first < 0:
        exp = None
    else:
        bits = [b for _, b in (ws or [])]
        exp = ok(b"S", b"".join(S.simple_spec(first, bits, mbits or 0, c).to_bytes(4, "big") for c in codes))
    return Case("widths", [data, b"4", codes_field(codes)], expect=exp, mfields=mf, tags=["simple"] + list(tags),
                kind="structured" if (first is None or first >= 0) else "malformed")


def simple_cases(rng, tier):
    for i in range(40 if tier == "quick" else 800):
        first = rng.choice([0, 1, 32, 32, 65, 200, 255, rng.randrange(0, 256)])
        n = rng.choice([0, 1, 2, 10, 95, 224, rng.randint(0, 256)])
        ws = [num(rng) for _ in range(n)]
        fd = rng.choice([None, "inline", "ref"])
        missing = rng.choice([None, num(rng, "i"), num(rng, "r")])
        codes = sorted({0, 1, first - 1 if first else 0, first, first + 1, first + n // 2, max(first + n - 1, 0), first + n, first + n + 1,
                        255, 256, 1000, 65535, rng.randrange(0, 300)})
        yield simple_case(rng, rng.choice(["Type1", "TrueType"]), first, ws, fd, missing, codes)
    yield simple_case(rng, "Type1", None, [num(rng)], None, None, [0, 1], tags=["no-firstchar"])
    yield simple_case(rng, "TrueType", None, None, "inline", num(rng), [0, 1], tags=["no-firstchar"])
    yield simple_case(rng, "Type1", 32, None, "inline", num(rng, "i"), [0, 31, 32, 33], tags=["no-widths"])
    yield simple_case(rng, "Type1", -3, [num(rng) for _ in range(5)], None, None, [0, 1, 2, 3, 100], tags=["negative-firstchar"])
    # ill-formed dictionaries: /FirstChar > /LastChar, negative /FirstChar, /Widths shorter or longer than the declared
    # range, extreme codes.  font.rs never reads /LastChar; the table is /Widths placed at FirstChar (WidthProofs.simple_widths_any);
    # negative FirstChar: model + 'no panic' only
    shapes = [(70, 65, 2), (70, 65, 0), (65, 70, 2), (65, 70, 0), (65, 66, 6), (0, 255, 3), (255, 0, 1), (32, 31, 95),
              (-1, 5, 7), (-3, -1, 3), (-2147483648, 0, 2), (-2147483648, -2147483648, 1), (2147483647, 2147483647, 1),
              (2147483647, 0, 3), (10, -5, 2), (0, -1, 0), (0, 2147483647, 2)]
    for first, last, n in shapes + [(rng.randrange(-5, 260), rng.randrange(-5, 260), rng.randrange(0, 12))
                                    for _ in range(12 if tier == "quick" else 300)]:
        ws = [num(rng) for _ in range(n)]
        cs = {0, 1, 2, 5, 31, 32, 64, 65, 66, 67, 69, 70, 71, 72, 254, 255, 256, 65535, 2147483646, 2147483647, 2147483648, 4294967295}
        if first >= 0:
            cs |= {c for c in (first - 1, first, first + 1, first + n - 1, first + n, first + n + 1) if 0 <= c < 2 ** 32}
        if 0 <= last < 2 ** 32 - 1:
            cs |= {last, last + 1}
        yield simple_case(rng, rng.choice(["Type1", "TrueType"]), first, ws, rng.choice([None, "inline", "ref"]),
                          rng.choice([None, num(rng, "i")]), sorted(cs), tags=["illformed-range"], last=last)
    # fonts of other subtypes have no width table
    for st in ("Type3", "MMType1"):
        font = {"Type": Name("Font"), "Subtype": Name(st), "BaseFont": Name("F"), "FirstChar": 0, "Widths": [1, 2]}
        yield Case("widths", [font_file(font), b"4", codes_field([0, 1])], expect=ok(b"N"),
                   mfields=[b"o", b"", codes_field([0, 1])], tags=["other-subtype"])


# ---------------------------------------------------------------------------------------------------
# CMaps

def uchar(rng):
    k = rng.randrange(10)
    if k < 5:
        return chr(rng.randrange(0x20, 0x7f))
    if k < 7:
        return chr(rng.choice([rng.randrange(0xa0, 0xd800), rng.randrange(0xe000, 0x10000), 0xd7ff, 0xe000, 0xffff, 0xff, 0x100]))
    if k < 9:
        return chr(rng.choice([0x10000, 0x10ffff, 0x1f600, 0x1d11e, rng.randrange(0x10000, 0x110000), 0x103ff, 0x10400]))
    return chr(rng.choice([0, 9, 10, 13, 0x3e, 0x3c, 0x5d]))


def utext(rng, allow_empty=True):
    n = rng.choice([1, 1, 1, 2, 3, rng.randint(1, 6)] + ([0] if allow_empty else []))
    return "".join(uchar(rng) for _ in range(n))


def random_map(rng, size):
    m = {}
    while len(m) < size:
        k = rng.randrange(6)
        c = rng.choice([rng.randrange(0, 65536), rng.randrange(0, 300), 0, 65535, 255, 256])
        if k < 3:
            m[c] = utext(rng)
        else:
            for j in range(rng.choice([2, 3, 4, 10, rng.randint(2, 40)])):
                if c + j <= 65535 and len(m) < size + 40:
                    m[c + j] = utext(rng)
    return m


def write_check(m):
    def chk(r):
        if r[0] != "OK":
            return "write_cmap failed: %s %s" % (r[0], r[1])
        text = r[1][0] if r[1] else b""
        try:
            got = S.read_strict(text)
        except (S.CMapSyntaxError, UnicodeDecodeError) as e:
            return "the written text is not a CMap: %s" % (e,)
        if got != m:
            return "the written text denotes a different map (%d entries instead of %d)" % (len(got), len(m))
        return None
    return chk


def map_cases(m, tags=()):
    fields = S.enc_map(m)
    return [Case("cmap_write", fields, check=write_check(m), tags=["write"] + list(tags)),
            Case("cmap_rt", fields, expect=ok(*fields), tags=["rt"] + list(tags))]


def cmap_cases(rng, tier):
    yield from map_cases({})
    yield from map_cases({1: "A", 2: "B"}, ["run2"])
    yield from map_cases({65535: "z"})
    yield from map_cases({65534: "y", 65535: "z"}, ["run-at-top"])
    yield from map_cases({0: "", 1: "", 5: ""}, ["empty-text"])
    yield from map_cases({c: chr(0x1f600 + c) for c in range(0, 300)}, ["long-run"])
    yield from map_cases({c: "x" for c in range(0, 600, 2)}, ["isolated"])
    yield from map_cases({7: "a", 9: "b", 10: "c", 11: "d", 13: "e", 20: "f", 21: "g", 30: "h"}, ["mixed-groups"])
    for i in range(60 if tier == "quick" else 1500):
        size = rng.choice([1, 2, 3, 5, 10, 30, rng.randint(1, 300)])
        yield from map_cases(random_map(rng, size), ["random"])


def random_sections(rng):
    secs = []
    for _ in range(rng.randint(1, 5)):
        if rng.random() < 0.5:
            es = [S.BfChar(rng.choice([rng.randrange(0, 65536), rng.randrange(0, 256)]), utext(rng)) for _ in range(rng.randint(0, 12))]
            secs.append(("char", es))
        else:
            es = []
            for _ in range(rng.randint(0, 8)):
                lo = rng.choice([rng.randrange(0, 65536), rng.randrange(0, 256), 65535, 0])
                if rng.random() < 0.5:
                    t = utext(rng, allow_empty=False)
                    room = 255 - S.utf16be(t)[-1]
                    hi = min(65535, lo + rng.randint(0, min(room, 30)))
                    es.append(S.BfRangeS(lo, hi, t))
                else:
                    hi = min(65535, lo + rng.randint(0, 20))
                    es.append(S.BfRangeA(lo, hi, [utext(rng) for _ in range(hi - lo + 1)]))
            secs.append(("range", es))
    return secs


def read_case(secs, text, tags=(), kind="structured"):
    m = S.denote(secs)
    return Case("cmap_read", [text], expect=ok(*S.enc_map(m)), tags=["read"] + list(tags), kind=kind)


def text_cases(rng, tier):
    plain = S.Spelling()
    fixed = [
        [("char", [S.BfChar(1, "A")])],
        [("char", [S.BfChar(0x41, "A"), S.BfChar(0x42, "\U0001f600")])],
        [("range", [S.BfRangeS(0, 0x5e, " ")])],
        [("range", [S.BfRangeS(0x10, 0x12, "\U0001d11e")])],
        [("range", [S.BfRangeA(5, 7, ["a", "bc", ""])])],
        [("range", [S.BfRangeS(0xff, 0x101, "a"), S.BfRangeA(0xffff, 0xffff, ["￿"])]), ("char", [S.BfChar(0x100, "replaced")])],
        [("char", []), ("range", [])],
        [("range", [S.BfRangeS(3, 3, "ÿ")])],
        [("range", [S.BfRangeS(0, 2, "ý"), S.BfRangeS(0x20, 0x21, "aþ")])],
        [("range", [S.BfRangeS(65535, 65535, "q"), S.BfRangeS(0, 1, "Ā")])],
    ]
    for secs in fixed:
        for hdr in (True, False):
            yield read_case(secs, S.render(secs, plain, header=hdr, footer=hdr, counts=hdr), ["fixed"])
    for i in range(80 if tier == "quick" else 3000):
        secs = random_sections(rng)
        sp = S.Spelling(rng)
        yield read_case(secs, S.render(secs, sp, header=rng.random() < 0.7, footer=rng.random() < 0.7, counts=rng.random() < 0.8), ["random"])
    # through the public path: a font whose /ToUnicode stream holds the text
    for i in range(6 if tier == "quick" else 60):
        secs = random_sections(rng)
        text = S.render(secs, S.Spelling(rng))
        import zlib
        if rng.random() < 0.5:
            st = Stream({"Filter": Name("FlateDecode")}, zlib.compress(text))
        else:
            st = Stream({}, text)
        font = {"Type": Name("Font"), "Subtype": Name("Type1"), "BaseFont": Name("F"), "ToUnicode": Ref(7)}
        yield Case("font_tounicode", [font_file(font, {7: st}), b"4"], expect=ok(*S.enc_map(S.denote(secs))), model=False, tags=["to_unicode"])
    # spellings covered by C19_cmap_read_spelled that the renderer above does not produce
    for i in range(12 if tier == "quick" else 300):
        secs = random_sections(rng)
        sp = S.Spelling(rng)
        body = S.render(secs, sp, header=rng.random() < 0.5, footer=False, counts=rng.random() < 0.5)
        k = i % 4
        if k == 0:      # sections after endcmap are not read
            text = body + b"endcmap\n1 beginbfchar\n<0001> <0041>\nendbfchar\n"
            tag = "after-endcmap"
        elif k == 1:    # the data end inside a comment
            text = body + b"% the end"
            tag = "open-comment"
        elif k == 2:    # no white-space at all where delimiters separate the tokens; odd digit count in a one-byte code
            text = body + b"beginbfchar<4><0041><5 ><00 42>endbfchar beginbfrange<6><61>[<0043><0044>]<7><71><0045>endbfrange"
            secs = secs + [("char", [S.BfChar(0x40, "A"), S.BfChar(0x50, "B")]),
                           ("range", [S.BfRangeA(0x60, 0x61, ["C", "D"]), S.BfRangeS(0x70, 0x71, "E")])]
            tag = "no-space"
        else:           # NUL and form feed as separators, comments between the operands
            text = body + b"beginbfchar\x00<0001>%c\r<0041>\x0c<0002>\x00\x0c%%\n%\n<0042>\tendbfchar\x00"
            secs = secs + [("char", [S.BfChar(1, "A"), S.BfChar(2, "B")])]
            tag = "nul-ff"
        yield read_case(secs, text, ["spelled", tag])
    # finding C19-f: a section keyword inside a PostScript literal string of the prologue is acted on
    for pre, post in ((b"", b""), (S.HEADER, S.FOOTER), (b"/Note ", b" def\n")):
        text = pre + b"(beginbfchar <0041> <0042> endbfchar)" + post
        yield Case("cmap_read", [text], expect=ok(*S.enc_map(S.read_strict(text))), tags=["read", "kw-in-string"], kind="malformed")
    # mutated texts: outside the property's domain; judged by the model and by 'no panic'
    for i in range(60 if tier == "quick" else 2500):
        secs = random_sections(rng)
        t = bytearray(S.render(secs, S.Spelling(rng), header=False, footer=False, counts=False))
        for _ in range(rng.randint(1, 3)):
            if not t:
                break
            k = rng.randrange(5)
            p = rng.randrange(len(t))
            if k == 0:
                t[p] = rng.choice(b"<>[] \n%0aZ,/()")
            elif k == 1:
                del t[p]
            elif k == 2:
                t[p:p] = bytes([rng.choice(b"<>[] \n%0aZ,")])
            elif k == 3:
                del t[p:]
            else:
                t[p:p] = rng.choice([b"beginbfchar ", b"beginbfrange ", b"endcmap ", b"<00> ", b"<000102> ", b"[ ", b"<> "])
        yield Case("cmap_read", [bytes(t)], tags=["read", "mutated"], kind="malformed")
    for t in (b"", b"beginbfchar", b"beginbfchar <", b"beginbfchar <0", b"beginbfrange <00> <01> [", b"beginbfrange <00> <01> <",
              b"beginbfchar <01> <0041> % no newline", b"% only a comment", b"beginbfrange <01> <02> <> <03> <0041>",
              b"beginbfchar <010203> <0041>", b"beginbfrange <02> <01> <0041>", b"beginbfrange <00> <ff> <00fe>",
              b"beginbfchar <01> <d800> <02> <0042>", b"beginbfchar <01> <41>", b"beginbfrange <01> <03> [<0041>] <05> <05> <0042>",
              b"beginbfrange <01> [<0041>] beginbfchar <02> <0042>", b"endcmap beginbfchar <02> <0042>",
              b"beginbfchar <0> <4>", b"beginbfchar <01><0041><02><0042>endbfchar", b"beginbfchar\x00<01>\x0c<0041>"):
        yield Case("cmap_read", [t], tags=["read", "edge"], kind="malformed")


def utf16_cases(rng, tier):
    for s in ("", "A", "é中", "\U0001f600", "a\U0010ffffb", "퟿", "\U00010000"):
        b = S.utf16be(s)
        yield Case("utf16dec", [b], expect=ok(b"".join(ord(c).to_bytes(3, "big") for c in s)), tags=["utf16"])
    for i in range(150 if tier == "quick" else 5000):
        if rng.random() < 0.6:
            s = "".join(uchar(rng) for _ in range(rng.randint(0, 8)))
            b = S.utf16be(s)
            yield Case("utf16dec", [b], expect=ok(b"".join(ord(c).to_bytes(3, "big") for c in s)), tags=["utf16"])
        else:
            us = [rng.choice([0xd800, 0xdbff, 0xdc00, 0xdfff, 0x41, 0xd7ff, 0xe000, rng.randrange(0, 65536)]) for _ in range(rng.randint(0, 5))]
            b = b"".join(u.to_bytes(2, "big") for u in us) + (b"\x00" if rng.random() < 0.2 else b"")
            exp = None
            if len(b) % 2 == 0:
                try:
                    s = b.decode("utf-16-be")
                    exp = ok(b"".join(ord(c).to_bytes(3, "big") for c in s))
                except UnicodeDecodeError:
                    exp = err()
            yield Case("utf16dec", [b], expect=exp, tags=["utf16", "units"], kind="structured" if exp and exp[0] == "OK" else "malformed")


def generate(rng, tier):
    yield from widths_cases(rng, tier)
    yield from zero_length_cases(rng, tier)
    yield from simple_cases(rng, tier)
    yield from hostile_cases(rng, tier)
    yield from cmap_cases(rng, tier)
    yield from text_cases(rng, tier)
    yield from utf16_cases(rng, tier)


def always(case, r):
    if r[0] in PANICKY:
        return "the implementation must not panic, abort or hang: %s %s" % (r[0], r[1])
    return None


def same(a, b):
    if b is not None and b[0] == "ERR" and b[1].strip() == "99":
        return True          # construct outside the model: no model answer for this case
    if a is None or b is None or a[0] != b[0]:
        return False
    return a[1] == b[1] if a[0] == "OK" else True


def nontrivial(c):
    if c.mode == "widths":
        return c.mfields is not None and len(c.mfields) > 5
    if c.mode in ("cmap_write", "cmap_rt"):
        return len(c.fields) >= 2
    return len(c.fields[0]) >= 8


def classify(case, impl, model):
    if case.mode == "cmap_read" and "kw-in-string" in case.tags:
        return "C19-f"
    return None


def witness_case(f, c):
    if c.mode == "cmap_rt":
        m = dict(S.dec_entry(x) for x in c.fields)
        c.expect = ok(*S.enc_map(m))
    elif c.mode == "cmap_write":
        m = dict(S.dec_entry(x) for x in c.fields)
        c.check = write_check(m)
    elif c.mode == "cmap_read":
        c.expect = ok(*S.enc_map(S.read_strict(c.fields[0])))
    elif c.mode == "widths" and "expect_hex" in f.get("witness", {}):
        c.expect = ok(*[bytes.fromhex(x) for x in f["witness"]["expect_hex"]])
    return c


def coverage_extra(cases, impl, model):
    uns = sum(1 for m in model if m is not None and m[0] == "ERR" and m[1].strip() == "99")
    growth = {}
    return {"model_unsupported_constructs": uns,
            "width_cases": sum(1 for c in cases if c.mode == "widths"),
            "cmap_cases": sum(1 for c in cases if c.mode.startswith("cmap") or c.mode == "font_tounicode")}
