"""C01 — reading arbitrary bytes never panics, aborts or hangs (exploration half: the `walk` mode)."""
import json, os, re

from vplib.api import Case
from vplib import core
from oracle import hostile as H

ID = "C01"
LEVEL = "proof"
DESIGN_REF = "DESIGN.md §9 C01, §12.C01"
COQ_TARGETS = ["Properties/C01", "Pins/C01"]
THEOREMS = [("PdfV.Properties.C01", n) for n in
            ["C01_lexer_step", "C01_lex_total", "C01_string_lex_total", "C01_hexstring_lex_total", "C01_parse_total", "C01_parse_progress",
             "C01_parse_fuel_linear", "C01_parse_indirect_total", "C01_parse_seq_total", "C01_decoders_total", "C01_decode_hex_total",
             "C01_decode_85_total", "C01_rle_total", "C01_objstm_member_total", "C01_xref_stream_total", "C01_full"]]
ANCHORS = ["lexer/", "parser/", "enc.rs"]
MODES = ["lex", "strlex", "hexlex", "parse", "parse_seq", "parse_indirect", "hexdec", "a85dec", "rledec", "unpredict"]
MODEL_TIMEOUT = 30.0
CASE_TIMEOUT = 120
TRUSTED_BASE = ["coqc 8.16.1 kernel (front-end theorems, once listed in THEOREMS)",
                "harness pdfh (Rust): mode `walk` re-executes itself under /usr/bin/prlimit (8 MiB stack, 4 GiB address space, CPU limit 5 s + 2 us/byte), "
                "the child wraps every public call in catch_unwind and prints a transcript; the parent classifies exit status / signal / watchdog",
                "tools/oracle/hostile.py (mutation, grammar and planting generators), tools/oracle/pdfwriter.py (spec-side file writer), tools/vplib",
                "the list of public read calls exercised by harness/src/modes/safety.rs (reported as coverage.call_hist)"]
ASSUMPTIONS = ["proved part (Coq model): the front end — lexer, string lexers, parser with MAX_DEPTH, indirect objects (proved in Safety/FrontProofs.v); every stream decoder, "
               "filter chain and stream dictionary (imported: the Codec area's lemmas behind C05_no_panic, libflate / weezl as total oracles); object-stream members "
               "(ObjStm model) and cross-reference stream sections (XRef model, the lemma behind C02_stream_no_panic) — never reach a Panic site and never run out of fuel "
               "on any byte string; the imported models are kept faithful by the checks of their own areas (C05, C11, C02)",
               "explored part: everything above Primitive (typed loading, fonts, colour spaces, functions, images, trees, scan) is exercised by the walk on "
               "mutated, grammar-generated and planted files; absence of a panic there is evidence, not proof",
               "external decoders (libflate, weezl, fax, jpeg-decoder) are run as they are; a panic inside them is reported with the crate-relative site",
               "resource bound judged by CPU time (5 s + 2 us per input byte, +1 s) and a wall-clock watchdog; a time-out counts only if reproduced three times"]
RULE = ("every repository fixture (valid files, past fuzz crashes, password-protected files) unmodified x {strict, tolerant} x {cached, uncached}; "
        "byte / token / structure mutants of those fixtures and of oracle-written valid files in every cross-reference style (classic table, xref stream, "
        "object streams, incremental update, RC4-encrypted); grammar-generated typed documents (page tree with inherited attributes, Type1/TrueType/Type0 fonts, "
        "images under every filter, forms, colour spaces with type 0/2/4 functions, name and number trees, outlines, forms, annotations); a malformed stream "
        "(truncation at every 1/16th, giant numbers, unbalanced delimiters, empty file, header only); every planted hostile graph of the single-style set (cycles, depth, boundary "
        "numbers in every numeric field, object-stream indices around /N, page counts that sum beyond u32; C14's thorough tier adds the other styles).  Each case runs in a child process; judged by status CLEAN (no panic, no abort, no time-out). "
        "Non-trivial = file of at least 16 bytes; distinct by (options, cache, file bytes)")
LEVEL_TEXT = "front end proved in the Coq model; typed loading explored by the walk"
LEVEL_NOTE = ("partial: the theorems cover bytes -> primitives (own proofs), decoded stream data under every modelled filter, object-stream members and xref-stream "
              "sections (theorems imported from the Codec / ObjStm / XRef areas); every call above that level "
              "(typed objects, fonts, colour spaces, functions, images, trees, scan, external decoders) is covered by exploration only")

CONFIGS = [(b"s", b"c"), (b"s", b"n"), (b"t", b"c"), (b"t", b"n")]
XREF_SHAPES = ("cycle:prev", "cycle:xref", "cycle:startxref", "cycle:objstm", "cycle:length")


def _case(data, cfg, tags, kind="structured", note=""):
    return Case("walk", [cfg[0], cfg[1], data], model=False, tags=tags, kind=kind, note=note)


def _walk_generate(rng, tier):
    quick = tier == "quick"
    corpus = H.corpus_files()
    blobs = [b for _, b in corpus]
    seen = set()

    def emit(data, cfg, tags, kind="structured", note=""):
        key = (cfg, data)
        if key in seen:
            return None
        seen.add(key)
        return _case(data, cfg, tags, kind, note)

    # 1. fixtures, unmodified, every configuration
    for name, data in corpus:
        for cfg in CONFIGS:
            c = emit(data, cfg, ["corpus", "cfg:" + (cfg[0] + cfg[1]).decode()], "corpus", name)
            if c:
                yield c
    # 2. grammar files, every style
    valid = H.valid_files(rng, 3 if quick else 12)
    for i, (name, data) in enumerate(valid):
        for cfg in (CONFIGS if not quick else [CONFIGS[i % 4], CONFIGS[(i + 1) % 4]]):
            c = emit(data, cfg, ["grammar", "style:" + name.split("-", 1)[1]], note=name)
            if c:
                yield c
    # 3. malformed stream
    for i, (tag, data) in enumerate(H.malformed(rng)):
        for cfg in ([CONFIGS[i % 4]] if quick else CONFIGS):
            c = emit(data, cfg, ["malformed", tag.split("-")[0]], "malformed", tag)
            if c:
                yield c
    # 4. mutants
    n_corpus, n_valid = (2400, 1600) if quick else (24000, 16000)
    weights = [1.0 / (1.0 + len(b) / 40000.0) for b in blobs]
    vblobs = [b for _, b in valid]
    k = 0
    for _ in range(n_corpus):
        j = rng.choices(range(len(blobs)), weights)[0]
        m = H.mutate(rng, blobs[j], blobs)
        k += 1
        c = emit(m, CONFIGS[k % 4], ["mutant", "mutant:corpus"], note="mutant of " + corpus[j][0])
        if c:
            yield c
    for _ in range(n_valid):
        j = rng.randrange(len(vblobs))
        m = H.mutate(rng, vblobs[j], vblobs)
        k += 1
        c = emit(m, CONFIGS[k % 4], ["mutant", "mutant:grammar"], note="mutant of " + valid[j][0])
        if c:
            yield c
    # 5. planted graphs: the whole single-style set (≈ 4 400 files, a few seconds; C14's thorough tier adds the other cross-reference styles).
    #    These are the inputs that reach the numeric sites repaired by other areas (CID /W, crypt lengths, page counts, predictor geometry,
    #    object-stream indices around /N, xref-stream widths), whose theorems Properties/C01.v / C14.v import.
    pick = list(H.planted(rng, "quick"))
    for i, (tag, data) in enumerate(pick):
        # the shapes of the cross-reference chain itself, with bytes before the header: every configuration (a /Prev loop that the
        # guard misses spins in `load` whatever the options are, but the time-out must be seen in each)
        if tag.endswith("+prefix:1byte") and tag.startswith(XREF_SHAPES):
            cfgs = CONFIGS
        else:
            cfgs = [CONFIGS[i % 4] if tag.split(":")[0] != "deep" else CONFIGS[(i % 2) * 2 + 1]]
        for cfg in cfgs:
            c = emit(data, cfg, ["planted", "planted:" + tag.split(":")[0]] + (["prefixed"] if "+prefix:" in tag else []), note=tag)
            if c:
                yield c


def nontrivial(c):
    return len(c.fields[2]) >= 16 if c.mode == "walk" else sum(len(f) for f in c.fields) >= 2


def _status(result):
    if result[0] != "OK" or not result[1]:
        return "%s %s" % (result[0], result[1])
    return result[1][0].decode("utf-8", "replace")


def always(case, result):
    if case.mode != "walk":
        return ("%s %s" % (result[0], result[1])) if result[0] in ("PANIC", "ABORT", "TIMEOUT") else None
    st = _status(result)
    return None if st == "CLEAN" else st


# ---- known findings are identified by panic site (file:line) or, for aborts / time-outs, by a pattern on the terminal line

_F = None


def _findings():
    global _F
    if _F is None:
        _F = [f for f in core.load_findings(ID) if f.get("status") == "open"]
    return _F


def _lines(result):
    if result[0] != "OK" or len(result[1]) < 3:
        return [_status(result)]
    det = result[1][2].decode("utf-8", "replace")
    return [l for l in det.split("\n") if l] or [_status(result)]


def _msgs(result):
    """panic site -> message (field 4 of a walk result)"""
    out = {}
    if result[0] == "OK" and len(result[1]) > 4:
        for l in result[1][4].decode("utf-8", "replace").split("\n"):
            if "\t" in l:
                k, v = l.split("\t", 1)
                out.setdefault(k, v)
    return out


def _match(line, msgs=None):
    """finding id for one detail line (`site@call` | `ABORT …` | `TIMEOUT …`).  A panic is attributed by source FILE and
    panic MESSAGE (entries `panics`: {"file", "msg": [substrings]}), not by line number: an edit that only moves lines
    must not turn a listed panic into an unlisted one; a different kind of panic in the same file is still unlisted."""
    for f in sorted(_findings(), key=lambda f: bool(f.get("after_panic"))):
        if "@" in line and not line.startswith(("ABORT", "TIMEOUT")):
            site = line.split("@", 1)[0]
            if site in f.get("sites", []):
                return f["id"]
            msg = (msgs or {}).get(site, "")
            for pz in f.get("panics", []):
                if site.rsplit(":", 1)[0] == pz["file"] and all(m in msg for m in pz.get("msg", [])) and pz.get("msg"):
                    return f["id"]
        else:
            for pat in f.get("terminal", []):
                if re.search(pat, line):
                    return f["id"]
    return None


def classify(case, impl, model):
    if case.mode != "walk":
        return None           # front-end modes: no panic is listed any more (C01-a, RunLength, is repaired)
    lines = _lines(impl)
    msgs = _msgs(impl)
    ids = [_match(l, msgs) for l in lines]
    # a hang that follows a caught panic is attributable (to the entry marked after_panic) only if a panic precedes it
    panicked = any("@" in l and not l.startswith(("ABORT", "TIMEOUT")) for l in lines)
    for l, i in zip(lines, ids):
        f = next((f for f in _findings() if f["id"] == i), None)
        if f is not None and f.get("after_panic") and l.startswith("TIMEOUT") and not panicked:
            return None
    if not ids or any(i is None for i in ids):
        return None           # a panic / abort / time-out at a site that is not listed: VIOLATION
    # a finding that lists the planted shapes it is about (`tag_prefixes`) is attributed only to those files (or its witness):
    # a stack overflow reached through any OTHER shape (e.g. a colour space that names itself as its alternate) is a new violation
    for i in ids:
        f = next((f for f in _findings() if f["id"] == i), None)
        pre = (f or {}).get("tag_prefixes")
        shape = getattr(case, "note", "") or ""          # the planted file's tag (e.g. `cycle:type0-own-descendant+prefix:1byte`)
        if pre and not (shape.startswith(tuple(pre)) or any(t == "witness:" + i for t in case.tags)):
            return None
    return ids[0]


def witness_case(f, c):
    c.model = False
    return c


def coverage_extra(cases, impl, model):
    calls = 0
    sites, status_hist, call_hist = {}, {}, {}
    reached = {}
    for c, r in zip(cases, impl):
        if r is None or c.mode != "walk":
            continue
        st = _status(r)
        key = st.split(" in ")[0] if st.startswith(("ABORT", "TIMEOUT")) else st.split(" ")[0]
        status_hist[key] = status_hist.get(key, 0) + 1
        if r[0] != "OK" or len(r[1]) < 4:
            continue
        m = re.search(r"calls=(\d+)", r[1][1].decode())
        calls += int(m.group(1)) if m else 0
        for l in _lines(r):
            if "@" in l and not l.startswith(("ABORT", "TIMEOUT")):
                s = l.split("@", 1)[0]
                sites[s] = sites.get(s, 0) + 1
            elif l != "CLEAN":
                s = l.split(" in ")[0]
                sites[s] = sites.get(s, 0) + 1
        for l in r[1][3].decode("utf-8", "replace").split("\n"):
            p = l.split(" ")
            if len(p) == 4:
                # collapse the prefix (page.res / catalog.pages.res / obj.as …) so that the table stays readable
                name = re.sub(r"^(page\.res|catalog\.pages\.res|forms\.dr|obj\.as|page\.annot\.ap\.\w+\.form\.res|page\.res\.xobject\.form\.res|page\.res\.pattern\.res)\.", "", p[0])
                e = call_hist.setdefault(name, [0, 0, 0])
                for i in range(3):
                    e[i] += int(p[i + 1])
                reached[name] = reached.get(name, 0) + 1
    top = sorted(call_hist.items(), key=lambda kv: -sum(kv[1]))[:120]
    return {"walk_calls": calls, "panic_sites": dict(sorted(sites.items())), "status_hist": status_hist,
            "call_hist": {k: {"ok": v[0], "err": v[1], "panic": v[2], "cases": reached[k]} for k, v in top}}


# ---- the proved half, tied to the code: arbitrary bytes through the front-end entry points, implementation against the Coq models
#      (Lex/Syn/Codec) whose totality Properties/C01.v proves; judged by `no panic / abort / time-out` and by equality with the model
_SOUP = [b"<<", b">>", b"[", b"]", b"(", b")", b"<", b">", b"/", b"/Na#6de", b"/A#", b"#", b"%c\n", b"%c\r", b"\\", b"\\(", b"\\12", b"\\r\n", b"R", b"obj", b"endobj",
         b"stream\n", b"stream\r\n", b"endstream", b"/Length", b"1", b"0", b"-1", b"+7", b"2147483648", b"99999999999999999999", b"1.5", b"-.5", b".", b"-",
         b"true", b"false", b"null", b"4E", b"~>", b"z", b"\x00", b"\x0c", b" ", b"\n", b"\r", b"\t", b"\xff", b"\x80"]


def _soup(rng, n):
    out = bytearray()
    for _ in range(n):
        r = rng.random()
        if r < 0.7:
            out += rng.choice(_SOUP)
        elif r < 0.85:
            out += bytes([rng.randrange(256)])
        else:
            out += rng.choice([b" ", b"\n", b""])
        if rng.random() < 0.5:
            out += b" "
    return bytes(out)


def front_cases(rng, tier):
    n = 450 if tier == "quick" else 6000
    datas = [b"", b"(", b"<", b"<<", b"[", b"/", b"#", b"%", b"\\", b"(\\", b"<4", b"1 0 obj", b"1 0 obj <<>> stream\n", b"[" * 30, b"<<" * 30, b"(" * 40 + b")" * 39]
    # nesting around MAX_DEPTH (dictionaries, arrays, mixed), and every way a stream header can end at the end of the buffer
    for depth in (18, 19, 20, 21, 22, 25, 60):
        datas.append(b"<</K " * depth + b"1" + b">>" * depth)
        datas.append(b"[" * depth + b"]" * depth)
        datas.append(b"[<</K " * depth + b"0" + b">>]" * depth)
        datas.append(b"<</K " * depth)
    for tail in (b"stream", b"stream\r", b"stream\n", b"stream\r\n", b"stream\rx", b"stream ", b"stream\r\nabc", b"stream\nabcendstream", b"stream\r\nabc\nendstream endobj"):
        for ln in (b"0", b"3", b"9 0 R", b"-1", b"99999999999"):
            datas.append(b"<</Length " + ln + b">> " + tail)
            datas.append(b"<</Length " + ln + b">>" + tail)
    for i in range(n):
        k = rng.choice([1, 2, 3, 5, 8, 13, 30, 80])
        datas.append(_soup(rng, k) if i % 4 else bytes(rng.randrange(256) for _ in range(k)))
    for d in datas:
        yield Case("lex", [d], tags=["front:lex"], kind="malformed")
        yield Case("parse", [rng.choice([b"1023", b"1023", b"4", b"32", b"512", b"0"]), d, b""], tags=["front:parse"], kind="malformed")
        yield Case("parse_seq", [d], tags=["front:parse_seq"], kind="malformed")
        yield Case("parse_indirect", [rng.choice([b"s", b"t"]), rng.choice([b"", b"1 0 obj ", b"7 0 obj\n"]) + d, rng.choice([b"", b"9:3", b"9:-1"])], tags=["front:indirect"], kind="malformed")
        if d.startswith(b"<</Length"):
            for pre in (b"1 0 obj ", b"1 0 obj\n"):
                for tbl in (b"", b"9:3", b"9:0"):
                    yield Case("parse_indirect", [b"s", pre + d, tbl], tags=["front:indirect-stream"], kind="malformed")
        yield Case("strlex", [d], tags=["front:strlex"], kind="malformed")
        yield Case("hexlex", [d], tags=["front:hexlex"], kind="malformed")
        yield Case("hexdec", [d], tags=["front:hexdec"], kind="malformed")
        yield Case("a85dec", [d], tags=["front:a85dec"], kind="malformed")
        yield Case("rledec", [d], tags=["front:rledec"], kind="malformed")


def short_row_cases():
    """decoded stream data under a predictor, cut at every position (mode and model of the Codec area: the tie of C01_decoders_total's
    row loop to enc.rs: unpredict on exactly the inputs that matter for safety; the class of seeded/C01f)"""
    import zlib
    from oracle import codecs as C
    for (p, c, cols, bpc, data) in C.short_row_sweep():
        f = [str(x).encode() for x in (p, c, cols, bpc)]
        yield Case("unpredict", f + [zlib.compress(data)], mfields=f + [data], kind="malformed", tags=["front:unpredict", "short-row"])


def generate(rng, tier):
    for c in front_cases(rng, tier):
        yield c
    for c in short_row_cases():
        yield c
    for c in _walk_generate(rng, tier):
        yield c


# model results carry reals as the decimal text handed to str::parse::<f32>: D<text>; -> r<bits> (as in props/C03)
from vplib.api import same_result
from oracle import f32 as _f32
_REAL_RE = re.compile(rb"D([^;]*);")


def _norm(r):
    if r is None or r[0] != "OK":
        return r

    def sub(m):
        try:
            return b"r%08x" % _f32.dec_to_bits(m.group(1).decode("latin-1"))
        except Exception:
            return m.group(0)
    return ("OK", [_REAL_RE.sub(sub, f) for f in r[1]])


def same(a, b):
    return same_result(_norm(a), _norm(b))
