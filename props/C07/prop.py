"""C07 — page n is the n-th leaf of the page tree; inheritable attributes come from the nearest ancestor."""
from vplib.api import Case, ok, err
from oracle import pagetree as PT

ID = "C07"
LEVEL = "proof"
DESIGN_REF = "DESIGN.md §9 C07, §12.C07"
COQ_TARGETS = ["Properties/C07", "Pins/C07"]
THEOREMS = [("PdfV.Properties.C07", n) for n in
            ["C07_page", "C07_count", "C07_pages", "C07_inherit", "C07_full", "C07_depth_budget", "C07_keys", "C07_no_panic"]]
ANCHORS = ["types.rs:PageTree", "types.rs:PagesNode", "types.rs:struct Page", "file.rs:File::num_pages"]
MODES = ["page_query", "page_iter", "page_spec"]
TRUSTED_BASE = ["coqc 8.16.1 kernel (vm_compute for table lemmas and examples; no native_compute)",
                "gen/extract_pagetree.py (regenerates depth budget, loop constants, /Type dispatch and dictionary keys of types.rs / file.rs)",
                "Extraction + ExtrOcamlBasic, ocamlfind ocamlopt 4.13.1, coq/driver/main.ml",
                "harness pdfh (Rust, modes/pagetree.rs), tools/vplib (comparison), tools/oracle/pagetree.py (tree -> expectation, from ISO 32000-1 §7.7.3) "
                "and tools/oracle/pdfwriter.py (tree -> file)",
                "the store abstraction: the model reads the object store of the generated tree, the implementation reads the file; "
                "file -> objects is the subject of C02/C03/C11"]
ASSUMPTIONS = ["u32 arithmetic of page_limited as written into the model (checked sub / add with panic sites, proved unreachable)",
               "StorageResolver::get is modelled as store look-up + eager /Parent loading with the 'Recursive reference' chain; caches are transparent (C12)",
               "derive(Object) readers of PageTree / Page are modelled by the record `obj` (keys pinned by the generated-table lemma C07_keys)"]
RULE = ("random ordered trees (<= 60 nodes, <= 12 /Pages levels, fan-out 0..6, empty intermediate nodes), random placement of "
        "MediaBox / CropBox / Resources (direct, indirect, inherited, absent; a share of the resource dictionaries with a /ColorSpace "
        "sub-dictionary of well-formed DeviceN (4 and 5 elements, type 2 / 4 / 0 tint transforms), Separation, Indexed (string and stream "
        "look-up), ICCBased, CalGray, CalRGB, Lab, Pattern and device spaces: the page is still the i-th leaf with these resources, and "
        "page_cs (no model) reads every colour space back as written; files in which one non-root last-kid node's resources hold a stitching "
        "(type 3) tint transform: tag stitching-tint-transform, open finding C07-b), random object numbering, direct or object-stream storage, "
        "classic or stream xref, cached and uncached File; each file: num_pages and get_page(i) for i in 0..count+2 (page_query) or the "
        "pages() iterator (page_iter), judged against the leaf list computed from the tree and against the model on the tree's store; "
        "plus out-of-domain stores (untrue counts, foreign /Parent links, /Kids cycles, 13..20 levels, page numbers near 2^32) judged "
        "against the model and 'no panic'; non-trivial = at least 2 leaves; distinct by file bytes")

COV = {"leaf_pos": {}, "descent_pos": {}, "depth": {}, "source": {a: {} for a in PT.ATTRS}, "storage": {}, "queries": 0,
       "empty_intermediate_trees": 0, "out_of_domain": {}}


def _bump(d, k, n=1):
    d[k] = d.get(k, 0) + n


def _pos(i, n):
    if n == 1:
        return "only"
    return "first" if i == 0 else "last" if i == n - 1 else "middle"


def measure(root):
    ls = PT.leaves(root)
    COV["queries"] += len(ls) + 2
    if any((not n.leaf) and not n.kids and n is not root for n in PT.nodes(root)):
        COV["empty_intermediate_trees"] += 1
    for lf, anc in ls:
        _bump(COV["depth"], str(len(anc)))
        par = anc[0]
        _bump(COV["leaf_pos"], _pos([id(k) for k in par.kids].index(id(lf)), len(par.kids)))
        child = lf
        for a in anc:
            if child is not lf:
                _bump(COV["descent_pos"], _pos([id(k) for k in a.kids].index(id(child)), len(a.kids)))
            child = a
        for attr in PT.ATTRS:
            v, d = PT.first_some(attr, [lf] + anc)
            if v is None:
                _bump(COV["source"][attr], "nobody")
            else:
                _bump(COV["source"][attr], {0: "self", 1: "parent", 2: "grand-parent"}.get(d, "further"))
                if d == len(anc) and d > 0:
                    _bump(COV["source"][attr], "root")


def mk_query(data, root, cached, extra=(), judged=True, tags=(), nq=None):
    nq = PT.nleaves(root) + 2 if nq is None else nq
    ex = ",".join(str(x) for x in extra).encode()
    fields = [b"c" if cached else b"u", b"%d" % nq, data] + ([ex] if ex else [])
    mfields = [PT.store_text(root), b"%d" % root.num, b"%d" % nq] + ([ex] if ex else [])
    exp = ok(*PT.expected_query(root, nq)) if judged else None
    return Case("page_query", fields, expect=exp, mfields=mfields, tags=list(tags),
                kind="structured" if judged else "malformed")


def mk_spec(data, root, cached, tags=()):
    """the same query answered by the Coq specification object (leaves / first_some) on the model side"""
    c = mk_query(data, root, cached, tags=list(tags) + ["coq-spec"])
    c.mode = "page_spec"
    return c


def mk_iter(data, root, cached, judged=True, tags=()):
    exp = ok(*PT.expected_iter(root)) if judged else None
    return Case("page_iter", [b"c" if cached else b"u", data], expect=exp,
                mfields=[PT.store_text(root), b"%d" % root.num], tags=list(tags), kind="structured" if judged else "malformed")


def mk_cs(data, root, cached, tags=()):
    """the resources a page is answered with, looked into: the colour spaces named by the /ColorSpace sub-dictionary of the
    page's own or inherited /Resources, each described as it was written (mode page_cs; no Coq runner — the model moves
    resources as opaque tokens —, judged from the tree only)"""
    nq = PT.nleaves(root) + 1
    want = PT.expected_cs_query(root, nq)

    def chk(r):
        if r[0] != "OK":
            return "a well-formed file must load: %s %s" % (r[0], r[1])
        if len(r[1]) != len(want):
            return "expected %d fields, got %d" % (len(want), len(r[1]))
        if r[1][0] != want[0]:
            return "num_pages: expected %s, got %s" % (want[0].decode(), r[1][0].decode("latin-1"))
        for i, (g, e) in enumerate(zip(r[1][1:], want[1:])):
            if g != e:
                g, e = g.decode("latin-1"), e.decode("latin-1")
                if g.startswith("!") and not e.startswith("!"):
                    return ("get_page(%d) of a well-formed page tree must return the leaf %s (its resources name well-formed colour spaces), got the error %s"
                            % (i, e.split(" ")[0], g))
                ge, ee = g.split(";"), e.split(";")
                d = [(a, b) for a, b in zip(ge, ee) if a != b][:1] or [(g[:200], e[:200])]
                return "get_page(%d): the page's (own or inherited) resources must hold the colour spaces as written: expected %s, read %s" % (i, d[0][1][:300], d[0][0][:300])
        return None
    return Case("page_cs", [b"c" if cached else b"u", b"%d" % nq, data], check=chk, model=False, tags=list(tags) + ["colour-spaces"])


def colour_shape(rng):
    """every colour-space family and spelling (tools/oracle/pagetree.py: cs_all_families) in resources a page owns (direct and
    indirect) and in resources it inherits from its parent and from the root; returns (file, root)"""
    L, T = PT.leaf, PT.tree
    own, own_r, inh = L(res=("D", "Own"), mb=(0, 0, 10, 10)), L(), L()
    mid = T([inh, L(res=("D", ""))], res=("D", "Mid"))
    root = T([own, mid, own_r, L()], mb=(0, 0, 612, 792), res=("D", "Root"))
    PT.finish(root)
    n = len(PT.nodes(root))
    PT.number(root, rng, first=1)
    nxt = [n + 2]

    def next_free():
        v = nxt[0]
        nxt[0] += 1
        return v
    rnum = next_free()
    own_r.res = ("R", rnum)
    for x in (own, own_r, mid, root):
        x.cs = PT.colour_spaces(rng, next_free, everything=True)
    data = PT.render(root, rng, n + 1, {rnum: "QR"}, {}, compress=rng.choice([0.0, 0.5, 1.0]))
    return data, root


# ---- finding C07-b (open): a tint transform of function type 3 (stitching) makes the pages below it unloadable ---------------
STITCH_TAG = "stitching-tint-transform"
_STITCH = {}          # case key -> (expected fields, indices of the pages the open finding is allowed to fail on)


def stitching_case(rng, shape, cached, tags=()):
    """a well-formed tree in which ONE node B - not the root, the last of its parent's /Kids - has a /Resources dictionary whose
    /ColorSpace names a Separation / DeviceN with a stitching (type 3) tint transform.  By the statement every page is returned
    with its own or inherited resources (the check below is the ordinary page_cs check).  The library has no reader for type 3
    functions and reads /Resources eagerly, so it fails to load B: the open finding C07-b covers exactly the pages that are B or
    lie below B (B is loaded on their way; it precedes no sibling, so no other page passes through it) and, when B is a kid of
    the root, the query one past the last page."""
    PT.finish(shape)
    n = len(PT.nodes(shape))
    PT.number(shape, rng, first=1)
    nxt = [n + 1]

    def next_free():
        v = nxt[0]
        nxt[0] += 1
        return v
    cat = next_free()
    res_objs, boxrefs = PT.decorate(shape, rng, next_free)
    if shape.res is None:
        shape.res = ("D", "Root")
    if shape.mb is None:
        shape.mb = (0, 0, 612, 792)
    cands = [x for x in PT.nodes(shape) if x.parent is not None and x.parent.kids[-1] is x and PT.nleaves(x) > 0]
    if not cands:
        return None
    b = rng.choice(cands)
    b.res = ("D", "St%d" % b.num)
    b.cs = PT.colour_spaces(rng, next_free, stitching=True)
    data = PT.render(shape, rng, cat, res_objs, boxrefs, compress=rng.choice([0.0, 0.0, 0.5, 1.0]))
    below = {id(lf) for lf, _ in PT.leaves(b)}
    failing = {i for i, (lf, _) in enumerate(PT.leaves(shape)) if id(lf) in below}
    if b.parent is shape:
        failing.add(PT.nleaves(shape))     # the query one past the last page walks all of the root's kids, B included, before it can say PageOutOfBounds
    c = mk_cs(data, shape, cached, tags=list(tags) + [STITCH_TAG])
    _STITCH[c.key()] = (PT.expected_cs_query(shape, PT.nleaves(shape) + 1), failing)
    return c


def stitching_witness():
    """the stored witness of C07-b: three pages, the second and third below a /Pages node whose resources hold a stitching function"""
    import random
    L, T = PT.leaf, PT.tree
    shape = T([L(res=("D", "A")), T([L(res=("D", "Own")), L()])], mb=(0, 0, 612, 792), res=("D", "Root"))
    return stitching_case(random.Random(707), shape, False, tags=["fixed:stitching"])


def stitching_cases(rng, tier):
    yield stitching_witness()
    made = 0
    for i in range(200):
        if made >= (8 if tier == "quick" else 120):
            break
        c = stitching_case(rng, PT.gen_shape(rng, max_nodes=25, target_h=rng.choice([1, 2, 3, 4])), bool(i % 2), tags=["random"])
        if c is not None:
            made += 1
            yield c


def example_tree():
    """the tree of Example C07_nonvacuous (PageTree/Proofs.v): uneven, three levels, an empty intermediate node"""
    L, T = PT.leaf, PT.tree
    return T([L(res=("D", "A")),
              T([L(), T([]), L(cb=(1, 1, 5, 5))], mb=(0, 0, 100, 100)),
              T([]),
              T([T([L(mb=(0, 0, 7, 7)), L()], cb=(2, 2, 8, 8))]),
              L()],
             mb=(0, 0, 612, 792), res=("D", "R"))


def fixed_shapes():
    L, T = PT.leaf, PT.tree
    yield "example", example_tree()
    yield "single", T([L(mb=(0, 0, 1, 1), res=("D", ""))])
    yield "empty-root", T([])
    yield "only-empty-nodes", T([T([]), T([T([])])], mb=(0, 0, 3, 3))
    yield "no-attrs", T([L(), T([L(), L()]), L()])
    # a 12-level spine with a leaf at every level
    t = T([L()])
    for i in range(11):
        t = T([L(), t, L()] if i % 2 else [t, L()])
    yield "spine12", t
    yield "wide", T([L() for _ in range(6)] + [T([L() for _ in range(6)])], res=("D", "W"), mb=(0, 0, 9, 9))


def render_plain(rng, shape, compress=0.0):
    PT.finish(shape)
    n = len(PT.nodes(shape))
    PT.number(shape, rng, first=1)
    data = PT.render(shape, rng, n + 1, {}, {}, compress=compress)
    return data


def out_of_domain(rng, tier):
    """stores the property does not speak about: judged against the model and 'no panic' only"""
    n = 60 if tier == "quick" else 1500
    for i in range(n):
        kind = i % 5
        shape = PT.gen_shape(rng, max_nodes=30, target_h=rng.choice([1, 2, 3, 4, 6]))
        data_root = None
        if kind == 0:       # untrue counts (kept below 2^31: larger values do not load as u32)
            PT.finish(shape)
            ts = [x for x in PT.nodes(shape) if not x.leaf]
            for t in rng.sample(ts, min(len(ts), rng.randint(1, 3))):
                true = PT.nleaves(t)
                t.count = rng.choice([0, max(0, true - 1), true + 1, true + rng.randint(2, 9), 2147483647, rng.randint(0, 2147483647)])
            tag = "untrue-count"
        elif kind == 1:     # /Parent of some nodes names another /Pages node (acyclic: an ancestor or the root)
            PT.finish(shape)
            tag = "foreign-parent"
        elif kind == 2:     # a /Kids entry names an ancestor (cycle): ends at the depth budget
            PT.finish(shape)
            tag = "kids-cycle"
        elif kind == 3:     # deeper than the property asks for: 13..20 levels
            shape = PT.gen_shape(rng, max_nodes=40, max_height=20, target_h=rng.randint(13, 20))
            PT.finish(shape)
            for t in PT.nodes(shape):
                if not t.leaf and not t.kids:
                    t.kids.append(PT.leaf())     # make the deep levels reachable
            PT.finish(shape)
            tag = "deep"
        else:               # three sub-trees claiming 2^31-1 pages each; page numbers near 2^32
            shape = PT.tree([PT.tree([PT.leaf()]) for _ in range(rng.randint(2, 4))] + [PT.leaf()], mb=(0, 0, 1, 1))
            PT.finish(shape)
            for t in shape.kids:
                if not t.leaf:
                    t.count = rng.choice([2147483647, 2147483646, 2147483647, 1 << 30])
            tag = "huge-count"
        nn = len(PT.nodes(shape))
        PT.number(shape, rng, first=1)
        ns = PT.nodes(shape)
        if kind == 1:
            ts = [x for x in ns if not x.leaf]
            for x in rng.sample(ns, min(len(ns), rng.randint(1, 4))):
                if x is shape:
                    continue
                # an ancestor (keeps the chain acyclic) or any tree that is not a descendant
                cands = []
                a = x.parent
                while a is not None:
                    cands.append(a)
                    a = a.parent
                x.parent_num = rng.choice(cands).num
        if kind == 2:
            ts = [x for x in ns if not x.leaf and x.parent is not None]
            if ts:
                x = rng.choice(ts)
                anc = []
                a = x
                while a is not None:
                    anc.append(a)
                    a = a.parent
                x.kid_nums = [k.num for k in x.kids]
                x.kid_nums.insert(rng.randint(0, len(x.kid_nums)), rng.choice(anc).num)
        for x in ns:
            for a in ("mb", "res"):
                if rng.random() < 0.3:
                    setattr(x, a, PT.rand_rect(rng) if a == "mb" else ("D", "K%d" % x.num))
        data = PT.render(shape, rng, nn + 1, {}, {}, compress=rng.choice([0.0, 0.5]))
        _bump(COV["out_of_domain"], tag)
        extra = ()
        nq = min(PT.nleaves(shape) + 3, 80)
        if kind in (0, 4):
            extra = (4294967295, 4294967294, 4294967293, 2147483647, 2147483646, 2147483648, rng.randint(0, 4294967295))
        yield mk_query(data, shape, cached=bool(i % 2), extra=extra, judged=False, tags=["ood:" + tag], nq=nq)


def generate(rng, tier):
    for k in COV:
        if isinstance(COV[k], dict):
            for kk in list(COV[k]):
                if isinstance(COV[k][kk], dict):
                    COV[k][kk] = {}
                else:
                    del COV[k][kk]
        else:
            COV[k] = 0
    for a in PT.ATTRS:
        COV["source"][a] = {}
    # hand-made shapes, each in four storage variants
    for name, shape in fixed_shapes():
        for v, compress in enumerate((0.0, 1.0)):
            data = render_plain(rng, shape, compress)
            measure(shape)
            yield mk_query(data, shape, cached=bool(v), tags=["fixed:" + name])
            yield mk_iter(data, shape, cached=not v, tags=["fixed:" + name])
            yield mk_spec(data, shape, cached=bool(v), tags=["fixed:" + name])
    # every colour-space family in own and inherited resources: the page is still returned, with these resources
    for v in range(2 if tier == "quick" else 20):
        data, root = colour_shape(rng)
        yield mk_query(data, root, cached=bool(v % 2), tags=["fixed:colour"])
        yield mk_cs(data, root, cached=not (v % 2), tags=["fixed:colour"])
        yield mk_iter(data, root, cached=bool(v % 2), tags=["fixed:colour"])
    n = 300 if tier == "quick" else 30000
    n_cs = 0
    for i in range(n):
        if i < 48:
            shape = PT.gen_shape(rng, target_h=1 + i % 12)        # every height 1..12, four times
        else:
            shape = PT.gen_shape(rng)
        data, root = PT.build_case(rng, shape)
        measure(root)
        h = PT.height(root)
        tags = ["h:%d" % h]
        yield mk_query(data, root, cached=bool(i % 2), tags=tags)
        if i % 4 == 0:
            yield mk_iter(data, root, cached=bool((i // 4) % 2), tags=tags)
        if i % 3 == 0:
            yield mk_spec(data, root, cached=not (i % 2), tags=tags)
        if any(x.cs is not None for x in PT.nodes(root)) and (tier != "quick" or n_cs < 60):
            n_cs += 1
            yield mk_cs(data, root, cached=bool(n_cs % 2), tags=tags)
    for c in stitching_cases(rng, tier):
        yield c
    for c in out_of_domain(rng, tier):
        yield c


def nontrivial(c):
    # at least two leaves: the store text of the model names them
    return (c.mfields[0].count(b" L ") if c.mfields else 0) >= 2


def always(case, r):
    if r[0] in ("PANIC", "ABORT", "TIMEOUT"):
        return "the page API must not panic, abort or hang (C07_no_panic): %s %s" % (r[0], r[1])
    return None


def classify(case, impl, model):
    """C07-b (class stitching-tint-transform): the case is one of stitching_case's files AND the answer is wrong in exactly the way
    the finding describes: the right page count, `!Other` for precisely the pages at or below the node whose resources hold the
    type 3 function (and for the out-of-range query when that node is a kid of the root), the specified answer for every other page.  Anything else on these files stays a violation."""
    if STITCH_TAG in case.tags and case.key() in _STITCH and impl and impl[0] == "OK":
        want, failing = _STITCH[case.key()]
        got = impl[1]
        if failing and len(got) == len(want) and got[0] == want[0] and \
                all((g == b"!Other") if (i in failing) else (g == e) for i, (g, e) in enumerate(zip(got[1:], want[1:]))):
            return "C07-b"
    return None


def witness_case(f, c):
    if f["id"] == "C07-b":
        w = stitching_witness()
        w.kind, w.note = "witness", f["id"]
        # attributed through classify() like every generated case of the class (not through the witness tag), so that a
        # different wrong answer on the witness is still a violation
        if w.fields != c.fields or w.mode != c.mode:
            w.check = lambda r: "stored witness of C07-b differs from the regenerated one (machinery)"
        return w
    # C07-a (fixed): the answer is an ordinary result, not a panic; the model predicts it exactly
    c.check = lambda r: None if r[0] in ("OK", "ERR") else "panic / abort on untrue counts: %s %s" % (r[0], r[1])
    return c


def coverage_extra(cases, impl, model):
    return {"c07_coverage": COV}
