"""C12 — caches are invisible: cached and uncached documents answer identically."""
import itertools, os
from vplib.api import Case, ok
from vplib import core
from oracle import cachedocs as D
from oracle.pdfwriter import Name, Ref, Obj, Comp, Revision, write_file

ID = "C12"
LEVEL = "proof"
DESIGN_REF = "DESIGN.md §9 C12, §12.C12"
COQ_TARGETS = ["Properties/C12", "Pins/C12"]
THEOREMS = [("PdfV.Properties.C12", n) for n in
            ["C12_invisible", "C12_order_independent", "C12_get_is_denotation", "C12_cyclic_refuted",
             "C12_a_refuted_before_fix", "C12_b_refuted_before_fix", "C12_split_table", "C12_codecs_table",
             "C12_typed_get_any_history", "C12_error_entries_irrelevant", "C12_value_entries_typed",
             "C12_stream_entries_full", "C12_partial_decode", "C12_serving_cached_errors_refuted"]]
ANCHORS = ["types.rs:ImageXObject::raw_image_data", "file.rs:StorageResolver"]
MODES = ["cache_history"]
TRUSTED_BASE = ["coqc 8.16.1 kernel (vm_compute for table lemmas and witnesses; no native_compute)",
                "gen/extract_cache.py (regenerates the rposition split table and the accepted codec list of raw_image_data)",
                "Extraction + ExtrOcamlBasic, ocamlfind ocamlopt 4.13.1, coq/driver/main.ml",
                "harness pdfh (modes/cache.rs: Node<0..2> test types, digests), tools/vplib, tools/oracle/cachedocs.py + pdfwriter.py + codecs.py (python zlib)"]
ASSUMPTIONS = ["document abstraction: a typed load is an interaction tree `prog ty r` whose only effects are nested typed gets (resolve + from_primitive read no other mutable state)",
               "C12_invisible premise `acyclic`: eager nested loads follow a rank (no reference cycle among eagerly loaded objects); the cyclic case is refuted (C12-c)",
               "Storage::decode is a function of (reference, filter list): raw bytes + enc::decode per filter (Section functions raw/appf/imgc)",
               "SyncCache is used sequentially here (Vacant -> compute -> Computed); eviction by globalcache's cleaner is not triggered and not modelled"]
RULE = ("files: Node documents (harness object types with nested typed loads, type-dependent failures, error-swallowing parents; acyclic and cyclic; "
        "split documents: for every error kind - missing object (free / beyond the table / NullRef), wrong type, parse error, EOF, MaxDepth, missing entry, "
        "recursion, other - a reference that fails with it when loaded as one type (eagerly, or by the type's own check) and loads as another, with every "
        "ordering of the typed loads and retried loads), "
        "library documents (catalog, two pages, font, content stream, objects holding a dangling reference, images and streams with filter chains such as [/ASCIIHexDecode /DCTDecode], "
        "[/ASCII85Decode /FlateDecode]); call sequences: per object every ordering of up to 3 distinct call kinds (typed get as each type, raw resolve, "
        "stream data, raw image data, image data, page look-up), random sequences up to length 12; each under {both, object only, stream only, no} caches; "
        "expected answers computed by the python oracle from the file's construction (and, for library-typed values, from the uncached run); "
        "non-trivial = at least 2 calls; distinct by (cfg, file, calls)")
CASE_TIMEOUT = 10.0

FIX = os.environ.get("VP_C12_FIXFLAGS", "11")      # model flags fix_a fix_b (11 = the code after the fix: commits)
CFGS = ["11", "10", "01", "00"]
IMG = {"Type": Name("XObject"), "Subtype": Name("Image"), "Width": 2, "Height": 4, "ColorSpace": Name("DeviceGray"), "BitsPerComponent": 8}


# ------------------------------------------------------------------------------------------------------------
class Scenario:
    def __init__(self, name, opts, data, calls, nodedoc=None, streams=None, tags=(), model=True):
        self.name, self.opts, self.data, self.calls = name, opts, data, calls
        self.nodedoc, self.streams, self.tags, self.model = nodedoc, streams or {}, list(tags), model
        self.flat = {}          # (ty, r) -> answer of the uncached run (library types)

    def calls_field(self):
        return "\n".join("%d %d %d" % c for c in self.calls).encode()

    def needs(self):
        """library-typed gets / comps whose uncached answer instantiates the model"""
        need = []
        for (k, ty, r) in self.calls:
            key = (1 if k == 1 else 0, ty, r)
            if ty > 2 and key not in need:
                need.append(key)
        return need

    def alone(self, call):
        k, ty, r = call
        if ty <= 2 and k == 0:
            return self.nodedoc.alone_get(ty, r) if self.nodedoc else ("e", D.E_FREE)
        g = self.flat.get((ty, r))
        if k in (0, 1):
            return g
        if g is None or g[0] == "e":
            return g
        s = self.streams.get(r)
        if s is None:
            return None
        return {2: s.alone_data, 3: s.alone_raw, 4: s.alone_image}[k]()

    def model_fields(self, cfg):
        srows, arows, irows = [], [], []
        for r, s in sorted(self.streams.items()):
            a, b, c = s.model_rows(r)
            srows.append(a)
            arows += [x for x in b if x not in arows]
            irows += c
        flat = ["%d %d %d %d" % (ty, r, 0 if a[0] == "o" else 1, a[1]) for (ty, r), a in sorted(self.flat.items())]
        return [(cfg + FIX).encode(), self.nodedoc.rows() if self.nodedoc else b"", "\n".join(srows).encode(),
                "\n".join(arows).encode(), "\n".join(irows).encode(), "\n".join(flat).encode(), self.calls_field()]


def spec_check(expected, calls):
    def chk(r):
        if r[0] != "OK":
            return "history did not run: %s %s" % (r[0], r[1])
        got = [f.decode() for f in r[1]]
        if len(got) != len(expected):
            return "%d answers for %d calls" % (len(got), len(expected))
        for i, (g, e) in enumerate(zip(got, expected)):
            if e is None:
                continue
            if g != "%s%d" % e:
                return "call %d %r answered %s, alone on an uncached document it answers %s%d" % (i, calls[i], g, e[0], e[1])
        return None
    return chk


# ------------------------------------------------------------------------------------------------------------
# Node documents

def rand_nodedoc(rng, n, cyclic=False):
    ids = list(range(4, 4 + n))
    nodes = {}
    for i in ids:
        lower = [j for j in ids if j < i]
        cand = ids if cyclic else lower
        deps = []
        for _ in range(rng.choice([0, 0, 1, 1, 2, 3])):
            if cand:
                deps.append((rng.randrange(3), rng.choice(cand)))
        if rng.random() < 0.15:
            deps.append((rng.randrange(3), 4 + n))          # a free object
        nodes[i] = dict(v=rng.randrange(1000), swallow=rng.random() < 0.6,
                        e0=rng.choice([0, 0, 0, 1, 2, 4, 3, 6]), e1=rng.choice([0, 0, 0, 1, 2, 4]), deps=deps)
    return D.NodeDoc(nodes, free=[4 + n])


def ring_nodedoc(rng, k):
    """k objects that eagerly load each other in a ring and survive the nested error, one entry object, one leaf"""
    ids = list(range(4, 4 + k))
    nodes = {}
    for j, i in enumerate(ids):
        nodes[i] = dict(v=rng.randrange(1000), swallow=True, e0=0, e1=0, deps=[(0, ids[(j + 1) % k])])
    nodes[4 + k] = dict(v=rng.randrange(1000), swallow=rng.random() < 0.5, e0=0, e1=0, deps=[(0, rng.choice(ids))])
    nodes[5 + k] = dict(v=rng.randrange(1000), swallow=True, e0=rng.choice([0, 2]), e1=0, deps=[])
    nodes[ids[0]]["deps"].append((rng.randrange(2), 5 + k))
    return D.NodeDoc(nodes, free=[6 + k])


def orderings(kinds, upto=3):
    for k in range(1, upto + 1):
        for p in itertools.permutations(kinds, k):
            yield list(p)


def node_scenarios(rng, tier):
    out = []
    n_docs = 6 if tier == "quick" else 40
    n_split = 2 if tier == "quick" else 8
    for di in range(-n_split, n_docs):
        cyc = di % 3 == 2 and di >= 0
        if di < 0:
            # for every error kind a reference that fails with it as one type and loads as another (D.split_doc);
            # every second one also with an object that follows a reference to itself ("Recursive reference")
            nd = D.split_doc(rng, selfloop=di % 2 == 1)
        else:
            nd = ring_nodedoc(rng, 2 + (di // 3) % 2) if cyc else rand_nodedoc(rng, rng.randint(3, 7))
        data = nd.build()
        ids = nd.all_ids()
        tags = ["node", "cyclic" if not nd.acyclic() else "acyclic"] + (["split"] if di < 0 else [])
        # per object: every ordering of the distinct typed gets (3 types) up to length 3
        for r in ids:
            for o in orderings([0, 1, 2]):
                out.append(Scenario("node", b"s", data, [(0, ty, r) for ty in o], nodedoc=nd, tags=tags + ["exhaustive"]))
            if di < 0 and nd.type_dependent(r):
                # ... and retried loads: fail, fail again, succeed, fail again (and the other way round)
                bad = [ty for ty in range(3) if nd.alone_get(ty, r)[0] == "e"]
                good = [ty for ty in range(3) if nd.alone_get(ty, r)[0] == "o"]
                for b in bad:
                    for g in good:
                        for seq in ([b, b, g, b, g], [g, b, g, g, b]):
                            out.append(Scenario("node", b"s", data, [(0, ty, r) for ty in seq], nodedoc=nd, tags=tags + ["retry"]))
        if cyc:
            # every ordering of up to 3 distinct objects (one type): the order-dependence of C12-c
            for o in orderings(sorted(nd.nodes), 3):
                out.append(Scenario("node", b"s", data, [(0, 0, r) for r in o], nodedoc=nd, tags=tags + ["exhaustive"]))
        for _ in range(30 if tier == "quick" else 120):
            L = rng.randint(2, 12)
            calls = [(0, rng.randrange(3), rng.choice(ids)) for _ in range(L)]
            out.append(Scenario("node", b"s", data, calls, nodedoc=nd, tags=tags + ["random"]))
    return out


# ------------------------------------------------------------------------------------------------------------
# library documents

CHAINS = [["ASCIIHexDecode", "DCTDecode"], ["ASCII85Decode", "FlateDecode"], ["FlateDecode"], ["ASCIIHexDecode"],
          ["ASCIIHexDecode", "ASCII85Decode"], ["RunLengthDecode", "DCTDecode"], ["ASCIIHexDecode", "JPXDecode"],
          ["FlateDecode", "ASCIIHexDecode"], ["FlateDecode", "FlateDecode"], [], ["LZWDecode", "DCTDecode"],
          ["ASCII85Decode", "ASCIIHexDecode", "FlateDecode"], ["DCTDecode"], ["ASCIIHexDecode", "FlateDecode", "DCTDecode"],
          # every representation filter as the last one (the split point is the end of the list)
          ["RunLengthDecode"], ["LZWDecode"], ["ASCII85Decode"], ["FlateDecode", "RunLengthDecode"], ["ASCIIHexDecode", "LZWDecode"],
          ["CCITTFaxDecode"], ["ASCIIHexDecode", "JBIG2Decode"]]


def library_doc(rng, chains, compressed=False, all_images=False, updated=False):
    streams = {}
    objs = {
        1: {"Type": Name("Catalog"), "Pages": Ref(2)},
        2: {"Type": Name("Pages"), "Kids": [Ref(3), Ref(4)], "Count": 2},
        3: {"Type": Name("Page"), "Parent": Ref(2), "MediaBox": [0, 0, 612, 792],
            "Resources": {"Font": {"F1": Ref(5)}}, "Contents": Ref(6)},
        4: {"Type": Name("Page"), "Parent": Ref(2), "MediaBox": [0, 0, 200, 200], "Resources": Ref(7)},
        5: {"Type": Name("Font"), "Subtype": Name("Type1"), "BaseFont": Name("Helvetica")},
        7: {"XObject": {"I1": Ref(8)}},
    }
    streams[6] = D.StreamObj(b"BT /F1 12 Tf (hi) Tj ET", [rng.choice(["FlateDecode", "ASCIIHexDecode"])])
    n = 8
    for ch in chains:
        payload = bytes(rng.randrange(256) for _ in range(rng.randint(1, 40)))
        extra = dict(IMG) if (all_images or rng.random() < 0.8) else {}
        streams[n] = D.StreamObj(payload, ch, extra)
        n += 1
    for r, s in streams.items():
        objs[r] = s.value()
    # objects that hold a dangling reference (object 990 is not in the cross-reference table): loaded as the type
    # that follows it (a page its /Parent, a font its /FontDescriptor, a catalog its /Pages) the load fails with a
    # missing-object error, loaded as a dictionary or raw it succeeds; and an object of the wrong type for all of them
    objs[n] = {"Type": Name("Page"), "Parent": Ref(990), "MediaBox": [0, 0, 10, 10], "Resources": {}}
    objs[n + 1] = {"Type": Name("Font"), "Subtype": Name("TrueType"), "BaseFont": Name("Arial"), "FontDescriptor": Ref(990)}
    objs[n + 2] = {"Type": Name("Catalog"), "Pages": Ref(990)}
    objs[n + 3] = [Ref(n), Ref(990), 7]
    # objects whose VALUE is a bare reference (`N 0 obj 5 0 R endobj`), singly and as a chain of two: loaded as Primitive the
    # answer is the reference itself, loaded as a dictionary / font / catalog the reference is followed — every order of those loads
    objs[n + 4] = Ref(5)
    objs[n + 5] = Ref(n + 4)
    objs[n + 6] = Ref(1)
    if compressed:
        entries = {}
        for num, v in objs.items():
            entries[num] = Obj(v) if num in streams or num == 1 else Comp(v)
        xnum = max(objs) + 1
        revs = [Revision(entries, fmt="stream", trailer={"Root": Ref(1)}, xref_num=xnum)]
        if updated:
            # an incremental update whose cross-reference stream REDEFINES the number of the first one (legal: the update replaces
            # that object): the stream cache is keyed by object number (finding C12-d)
            revs.append(Revision({5: Obj(dict(objs[5], BaseFont=Name("Courier")))}, fmt="stream", trailer={"Root": Ref(1)}, xref_num=xnum))
        data, _ = write_file(revs)
    else:
        data = D.build_file(objs)
    return data, streams, sorted(objs)


STREAM_KINDS = [(0, 14), (0, 15), (0, 16), (0, 17), (1, 100), (2, 14), (2, 15), (3, 15), (4, 15)]
OBJ_KINDS = [(0, 10), (0, 11), (0, 13), (0, 17), (0, 18), (1, 100)]


def library_scenarios(rng, tier):
    out = []
    n_docs = 3 if tier == "quick" else 12
    for di in range(n_docs + 1):
        compressed = di % 3 == 2 or di == n_docs
        updated = di == n_docs              # one more document: compressed, with an update that re-uses the xref stream's number
        chains = [rng.choice(CHAINS) for _ in range(rng.randint(3, 5))]
        if di < 3:
            chains = CHAINS[di::3]          # every chain appears in the first three documents
        data, streams, ids = library_doc(rng, chains, compressed, all_images=di < 3, updated=updated)
        opts = b"t" if di % 2 else b"s"
        tags = ["library", "compressed" if compressed else "direct"] + (["updated-same-xref-number"] if updated else [])
        model = not compressed
        for r in sorted(streams):
            if tier == "thorough":
                seqs = list(orderings(STREAM_KINDS))
            else:
                seqs = list(orderings(STREAM_KINDS, 2)) + [rng.sample(STREAM_KINDS, 3) for _ in range(40)]
            for o in seqs:
                out.append(Scenario("lib", opts, data, [(k, ty, r) for (k, ty) in o], streams=streams, tags=tags + ["exhaustive"], model=model))
        dangling = [i for i in ids if i > max(streams)]
        for r in [1, 2, 3, 4, 5, 7] + dangling:
            for o in orderings(OBJ_KINDS, 3 if r in dangling else 2):
                out.append(Scenario("lib", opts, data, [(k, ty, r) for (k, ty) in o], streams=streams, tags=tags + ["exhaustive"], model=model))
        for _ in range(60 if tier == "quick" else 400):
            calls = []
            for _ in range(rng.randint(2, 12)):
                x = rng.random()
                if x < 0.55:
                    k, ty = rng.choice(STREAM_KINDS)
                    calls.append((k, ty, rng.choice(sorted(streams))))
                elif x < 0.85:
                    k, ty = rng.choice(OBJ_KINDS)
                    calls.append((k, ty, rng.choice(ids)))
                else:
                    calls.append((1, 101, rng.randrange(3)))       # page look-up (2 = out of bounds)
            out.append(Scenario("lib", opts, data, calls, streams=streams, tags=tags + ["random"], model=model))
    return out


# ------------------------------------------------------------------------------------------------------------
def uncached_answers(scens):
    """phase 1: the uncached run's answers for the library-typed gets/comps each scenario needs"""
    pdfh = os.path.join(core.HARNESS, "target", "debug", "pdfh")
    jobs, lines, cache = [], [], {}
    for s in scens:
        need = s.needs()
        if not need:
            continue
        key = (s.opts, s.data, tuple(need))
        if key not in cache:
            cache[key] = len(lines)
            calls = "\n".join("%d %d %d" % c for c in need).encode()
            lines.append(Case("cache_history", [b"00", s.opts, s.data, calls]).line())
        jobs.append((s, need, cache[key]))
    res = core.run_parallel(pdfh, lines, per_case_timeout=CASE_TIMEOUT) if lines else []
    for s, need, i in jobs:
        r = res[i]
        if r is None or r[0] != "OK" or len(r[1]) != len(need):
            s.model = False
            continue
        for (k, ty, rr), a in zip(need, r[1]):
            a = a.decode()
            if a[0] in "oe":
                s.flat[(ty, rr)] = (a[0], int(a[1:]))
            else:
                s.model = False


def cases_of(s):
    expected = [s.alone(c) for c in s.calls]
    for cfg in CFGS:
        tags = list(s.tags) + ["cfg:" + cfg, "oc" if cfg[0] == "1" else "no-oc", "sc" if cfg[1] == "1" else "no-sc"]
        yield Case("cache_history", [(cfg + FIX).encode(), s.opts, s.data, s.calls_field()],
                   mfields=s.model_fields(cfg) if s.model else None, model=s.model,
                   check=spec_check(expected, s.calls), tags=tags, note=s.name)


def generate(rng, tier):
    scens = node_scenarios(rng, tier) + library_scenarios(rng, tier)
    uncached_answers(scens)
    seen = set()
    for s in scens:
        key = (s.opts, s.data, tuple(s.calls))
        if key in seen:
            continue
        seen.add(key)
        for c in cases_of(s):
            yield c


def nontrivial(c):
    return c.fields[3].count(b"\n") >= 1


def classify(case, impl, model):
    # C12-c: eager reference cycles — an entry computed while the guard stack was not empty is served later
    # (an object that follows a reference to itself - the split documents - is answered as alone: not this class)
    if "cyclic" in case.tags and "oc" in case.tags and "split" not in case.tags:
        return "C12-c"
    return None


def witness_case(f, c):
    # witnesses carry their expected answers (known by construction) in the finding entry
    exp = f.get("expected")
    if exp:
        e = [(x[0], int(x[1:])) for x in exp]
        calls = [tuple(int(y) for y in row.split()) for row in c.fields[3].decode().split("\n")]
        c.check = spec_check(e, calls)
    if f.get("tags"):
        c.tags |= set(f["tags"])
    if f.get("model") is False:
        c.model = False          # documents outside the model's reach (compressed objects): judged by the specification side only
    return c


def coverage_extra(cases, impl, model):
    kinds = {}
    for c in cases:
        for row in c.fields[3].decode().split("\n"):
            p = row.split()
            if len(p) == 3:
                k = {"0": "get", "1": "resolve/page", "2": "stream data", "3": "raw image data", "4": "image data"}[p[0]] + (":ty%s" % p[1])
                kinds[k] = kinds.get(k, 0) + 1
    return {"call_kinds": kinds}
