"""C09 — a reload sees exactly the saved modifications and nothing else changes."""
import json, os
from vplib.api import Case, ok, err
from oracle.pdfwriter import Name, Ref, Stream, Obj, Free, Comp, Revision, write_file, minimal_catalog
from oracle.canon import canon

ID = "C09"
LEVEL = "proof"
DESIGN_REF = "DESIGN.md §9 C09, §12.C09"
COQ_TARGETS = ["Properties/C09", "Pins/C09"]
THEOREMS = [("PdfV.Properties.C09", n) for n in
            ["C09_read_your_writes", "C09_get_coherent", "C09_byte_len_fits", "C09_xref_roundtrip", "C09_prefix",
             "C09_save_layout", "C09_parse_ser", "C09_reload", "C09_reload_stream", "C09_locate_xref", "C09_load_table", "C09_reload_untouched", "C09_failed_save_recovers", "C09_second_save",
             "C09_wf_preserved", "C09_create_nested", "C09_create_is_create_with", "C09_create_with", "C09_conservative_closed", "C09_byte_len_boundaries"]]
ANCHORS = ["file.rs", "xref.rs"]
if os.environ.get("VP_DEV"):
    COQ_TARGETS, THEOREMS = ["Storage/Run"], []
MODES = ["storage_history"]
TRUSTED_BASE = ["coqc 8.16.1 kernel (vm_compute for table lemmas and witnesses; no native_compute)",
                "gen/extract_storage.py (regenerates the literals of save / write_stream / byte_len / XRefTable::new from file.rs, xref.rs)",
                "Extraction + ExtrOcamlBasic, ocamlfind ocamlopt 4.13.1, coq/driver/main.ml",
                "harness pdfh (harness/src/modes/storage.rs), tools/vplib, tools/oracle/pdfwriter.py + canon.py (base files and expected values by construction)"]
ASSUMPTIONS = ["(discharged) parse_ser is now the theorem C09_parse_ser: Syn.Parser.parse_indirect_object on `id gen obj\\n` ++ Syn.Serialize.ser(v) ++ `\\nendobj\\n` returns (id, gen, v) for every storable v (C04 composed with C03)",
               "oracle premise parse_stable (C09_reload_untouched only): an object that parses inside a buffer parses to the same value when bytes are appended to the buffer (tested: untouched objects after every save)",
               "Rust usize/u64 arithmetic as written into the model (no overflow below 2^64)"]
RULE = ("base files written by the specification-side writer (classic table / xref stream, compressed objects in an object stream, "
        "bytes before the header, generations > 0, one or two revisions, optional /Info), histories of 1-25 operations over "
        "{create, create of a value whose conversion creates one / two further objects through the updater (ops N, M: harness types Nested, Nested2), "
        "update, promise, fulfil, resolve, get, save} with 1-3 saves, failing saves induced by an unfulfilled promise or an "
        "in-file stream value, references drawn from base objects of every storage form and from the references handed out; every "
        "case cached and uncached; judged against the overlay-map specification using the very references the implementation returned; "
        "storage_save_to (no model): histories with and without a save under an open promise on a File opened through FileOptions, saved "
        "with File::save_to on a temporary path holding the previous revision: a failing save is an error and leaves the file as it was, a "
        "successful one leaves exactly the bytes Storage::save yields for the same history; "
        "non-trivial = at least one write and one save; distinct by (options, base, history)")
CASE_TIMEOUT = 20.0
MODEL_TIMEOUT = 120.0

XREF_PREFIX = b"s{54797065:N58526566;"


# ------------------------------------------------------------------------------------------------
# values of the storable domain (what the current serialiser and parser round-trip: C04's `storable`)

NAME_CHARS = "ABCDEFGHIJKLMNOPQRSTUVWXYZabcdefghijklmnopqrstuvwxyz0123456789_.-"


# values written through create/update/fulfil (not the base files, which the specification-side writer spells) range over
# C04's whole storable domain: names with white-space, delimiters, '#' and non-ASCII letters, strings with CR/LF/NUL
_WIDE = [False]
WIDE_NAME_CHARS = NAME_CHARS + " #/()<>[]{}%\t\u00e9\u4e2d"


def gen_name(rng):
    if _WIDE[0] and rng.randrange(3) == 0:
        return Name("".join(rng.choice(WIDE_NAME_CHARS) for _ in range(rng.randint(1, 8))))
    return Name("".join(rng.choice(NAME_CHARS) for _ in range(rng.randint(1, 8))))


def gen_hvalue(rng, refs):
    _WIDE[0] = True
    try:
        return gen_value(rng, refs, top=True)
    finally:
        _WIDE[0] = False


def gen_string(rng):
    n = rng.randint(0, 12)
    kind = rng.randrange(4)
    if _WIDE[0] and rng.randrange(4) == 0:
        return bytes(rng.choice(b"ab\r\n\t\x00\\()\x7f") for _ in range(n))
    if kind == 0:
        return bytes(rng.choice(b"abc ()\\xyz012") for _ in range(n))
    if kind == 1:
        return bytes(rng.choice([rng.randrange(32, 127), rng.randrange(128, 256)]) for _ in range(n))
    if kind == 2:
        return bytes(rng.randrange(32, 127) for _ in range(n))
    return bytes(rng.choice(b"(()") for _ in range(n))


REALS = [0.5, -0.5, 2.25, -3.75, 100.125, 1.5, 0.25, 12.5]


def gen_value(rng, refs, depth=0, top=False):
    k = rng.randrange(12 if depth < 3 else 7)
    if k == 0:
        return rng.choice([0, 1, -1, 42, 2147483647, -2147483648, rng.randint(-10 ** 6, 10 ** 6)])
    if k == 1:
        return rng.choice([True, False])
    if k == 2:
        return gen_name(rng)
    if k == 3:
        return gen_string(rng)
    if k == 4:
        return Ref(*rng.choice(refs)) if refs else 7
    if k == 5:
        return rng.choice(REALS)
    if k == 6:
        return None if top else rng.randint(0, 99)
    if k in (7, 8):
        return [gen_value(rng, refs, depth + 1) for _ in range(rng.randint(0, 4))]
    if k in (9, 10) or not top:
        d = {}
        for _ in range(rng.randint(0, 4)):
            d[gen_name(rng).s.decode()] = gen_value(rng, refs, depth + 1)
        return d
    d = {}
    for _ in range(rng.randint(0, 2)):
        d[gen_name(rng).s.decode()] = gen_value(rng, refs, depth + 1)
    d.pop("Length", None)
    data = bytes(rng.randrange(256) for _ in range(rng.randint(0, 40))) if rng.randrange(3) else rng.choice([b"", b"endstream", b"\nendobj\n", b"startxref\n0\n%%EOF\n"])
    return Stream(d, data)


# ------------------------------------------------------------------------------------------------
# base files

class Base:
    def __init__(self, data, objects, infra, size, label, info=None):
        self.data, self.objects, self.infra, self.size, self.label, self.info = data, objects, infra, size, label, info
        # objects: num -> (gen, value) of every in-use ordinary object; infra: numbers of xref streams / object streams


def make_base(rng, fmt, comp, prefix, two_revs, info, gens):
    objs = minimal_catalog()
    n_extra = rng.randint(2, 6)
    num = 4
    entries = {}
    values = {}
    for n, v in objs.items():
        entries[n] = Obj(v)
        values[n] = (0, v)
    refs = [(1, 0), (2, 0), (3, 0)]
    for _ in range(n_extra):
        v = gen_value(rng, refs, top=True)
        if v is None:
            v = {"K": 1}
        g = rng.choice([0, 0, 1, 3]) if gens else 0
        if comp and not isinstance(v, Stream) and isinstance(v, (dict, list)) and rng.randrange(2):
            entries[num] = Comp(v)
            values[num] = (0, v)
        else:
            entries[num] = Obj(v, gen=g)
            values[num] = (g, v)
        refs.append((num, values[num][0]))
        num += 1
    if comp and not any(isinstance(e, Comp) for e in entries.values()):
        entries[num] = Comp({"Cmp": [1, 2, 3]})
        values[num] = (0, {"Cmp": [1, 2, 3]})
        num += 1
    tr = {"Root": Ref(1)}
    inf = None
    if info:
        inf = {}
        for k in ["Title", "Author", "Subject", "Keywords", "Creator", "Producer"]:
            if rng.randrange(2):
                inf[k] = bytes(rng.randrange(32, 127) for _ in range(rng.randint(0, 10)))
        entries[num] = Obj(inf)
        values[num] = (0, inf)
        tr["Info"] = Ref(num)
        num += 1
    if rng.randrange(3) == 0:
        tr["ID"] = [bytes(rng.randrange(256) for _ in range(16)), bytes(rng.randrange(256) for _ in range(16))]
    revs = [Revision(entries, fmt=fmt, trailer=tr)]
    if two_revs:
        # a second revision that replaces one direct object and adds one (never a compressed entry over a direct one: that is C02's)
        upd = {}
        cands = [n for n, e in entries.items() if isinstance(e, Obj) and n > 3 and not ("Info" in tr and tr["Info"].num == n)]
        if cands:
            n = rng.choice(cands)
            v = {"Rev2": rng.randint(0, 9)}
            upd[n] = Obj(v, gen=values[n][0])
            values[n] = (values[n][0], v)
        upd[num] = Obj([1, Name("second")])
        values[num] = (0, [1, Name("second")])
        num += 1
        revs.append(Revision(upd, fmt=fmt, trailer=tr))
    data, inf_ = write_file(revs, prefix=prefix)
    size = inf_["revisions"][-1]["size"]
    infra = set()
    for rv in inf_["revisions"]:
        for n, t in rv["table"].items():
            if n not in values and t[0] == "n":
                infra.add(n)
    label = "%s%s%s%s%s%s" % (fmt, "+comp" if comp else "", "+junk" if prefix else "", "+2rev" if two_revs else "", "+info" if info else "", "+gen" if gens else "")
    return Base(data, values, infra, size, label, inf)


BASE_KINDS = [
    # fmt, comp, prefix, two_revs, info, gens
    ("table", False, b"", False, False, False),
    ("stream", False, b"", False, False, False),
    ("stream", True, b"", False, False, False),
    ("table", False, b"%junk before the header\n\x00\x01", False, False, False),
    ("stream", True, b"garbage\n", False, False, False),
    ("table", False, b"", True, False, True),
    ("stream", False, b"", True, False, False),
    ("table", False, b"", False, True, False),
    ("stream", True, b"", False, True, True),
]


# ------------------------------------------------------------------------------------------------
# histories + the overlay-map specification

class Hist:
    """ops as text lines for the harness + what the specification needs to judge the outputs"""
    def __init__(self, base):
        self.base = base
        self.lines = []
        self.ops = []       # (kind, args) mirrored for the checker

    def add(self, line, kind, *args):
        self.lines.append(line)
        self.ops.append((kind,) + args)

    def text(self):
        return b"\n".join(self.lines)


def cv(v):
    return canon(v)


def gen_history(rng, base, n_ops, n_saves, fail_mode):
    """fail_mode: None | 'promise' | 'infile' — a failing save somewhere, repaired afterwards"""
    h = Hist(base)
    nh = 0                       # number of references handed out so far
    handles = []                 # ("new"|"base", handle index)   every handed-out reference
    pending = []                 # handle indices of unfulfilled promises
    base_ids = sorted(base.objects)
    in_stream = [n for n in base_ids if isinstance(base.objects[n][1], Stream)]
    updatable = [n for n in base_ids if n > 3 and base.infra.isdisjoint([n])]
    # infrastructure objects are read first so that "unchanged" can be judged
    for n in sorted(base.infra):
        h.add(b"R %d,0" % n, "Rinfra", n)
    def refs_pool():
        return [(n, base.objects[n][0]) for n in base_ids]
    def some_ref():
        if handles and rng.randrange(2):
            return ("h", rng.randrange(nh))
        n = rng.choice(base_ids + sorted(base.infra) if rng.randrange(8) == 0 and base.infra else base_ids)
        g = base.objects[n][0] if n in base.objects else 0
        return ("b", n, g)
    def rtxt(r):
        return b"h%d" % r[1] if r[0] == "h" else b"%d,%d" % (r[1], r[2])
    save_at = sorted(rng.sample(range(1, n_ops + 1), min(n_saves, n_ops)))
    if n_ops not in save_at:
        save_at[-1:] = [n_ops]
    fail_at = save_at[0] if fail_mode else None
    broken = None                # reference made unsavable / promise left open
    touched = set()              # base objects written so far
    hbase = {}                   # handle index -> base object number it denotes
    for i in range(1, n_ops + 1):
        if i in save_at:
            if i == fail_at:
                if fail_mode == "promise":
                    h.add(b"P", "P"); pending.append(nh); broken = ("h", nh); nh += 1; handles.append("p")
                elif [n for n in in_stream if n not in touched] and updatable:
                    src = rng.choice([n for n in in_stream if n not in touched])
                    tgt = rng.choice([n for n in updatable if n != src] or updatable)
                    touched.add(tgt)
                    broken = ("b", tgt, base.objects[tgt][0])
                    h.add(b"U %s @%d,%d" % (rtxt(broken), src, base.objects[src][0]), "Uinfile", broken, src); nh += 1; handles.append("u")
                else:
                    h.add(b"P", "P"); pending.append(nh); broken = ("h", nh); nh += 1; handles.append("p")
                    fail_mode = "promise"
                h.add(b"S", "S")
                h.add(b"R " + rtxt(some_ref()), "R", None)
                # repair: replace the offending value / fulfil the promise, then save again
                v = gen_hvalue(rng, refs_pool())
                if fail_mode == "promise":
                    pending.remove(broken[1])
                    h.add(b"F %s %s" % (rtxt(broken), cv(v)), "F", broken, v); nh += 1; handles.append("u")
                else:
                    h.add(b"U %s %s" % (rtxt(broken), cv(v)), "U", broken, v); nh += 1; handles.append("u")
                h.add(b"S", "S")
            else:
                for p in list(pending):
                    v = gen_hvalue(rng, refs_pool())
                    h.add(b"F h%d %s" % (p, cv(v)), "F", ("h", p), v); nh += 1; handles.append("u")
                    pending.remove(p)
                h.add(b"S", "S")
            continue
        k = rng.randrange(10)
        if k <= 1 and rng.randrange(8) == 0:
            # two levels of conversion-created objects: three references (parent, middle, leaf)
            v = gen_hvalue(rng, refs_pool())
            h.add(b"M " + cv(v), "M", v); nh += 3; handles.extend(["c", "c", "c"])
        elif k <= 1 and rng.randrange(4) == 0:
            # create of a value whose conversion creates a child through the updater: two references (parent, child)
            v = gen_hvalue(rng, refs_pool())
            h.add(b"N " + cv(v), "N", v); nh += 2; handles.append("c"); handles.append("c")
        elif k <= 1:
            v = gen_hvalue(rng, refs_pool())
            h.add(b"C " + cv(v), "C", v); nh += 1; handles.append("c")
        elif k <= 4 and (updatable or handles):
            # update: base objects of every storage form, or a reference handed out earlier
            cands = [("b", n, base.objects[n][0]) for n in updatable]
            cands += [("h", j) for j in range(nh) if j not in pending]
            r = rng.choice(cands)
            if r[0] == "b":
                touched.add(r[1]); hbase[nh] = r[1]
            elif r[1] in hbase:
                touched.add(hbase[r[1]]); hbase[nh] = hbase[r[1]]
            v = gen_hvalue(rng, refs_pool())
            h.add(b"U %s %s" % (rtxt(r), cv(v)), "U", r, v); nh += 1; handles.append("u")
            if rng.random() < 0.35:
                # a typed read right after the write (and before the next write of the same reference) — what a cached document may get wrong
                h.add(b"G " + rtxt(r), "G", None)
        elif k == 5:
            h.add(b"P", "P"); pending.append(nh); nh += 1; handles.append("p")
        elif k == 6 and pending:
            p = pending.pop(rng.randrange(len(pending)))
            v = gen_hvalue(rng, refs_pool())
            h.add(b"F h%d %s" % (p, cv(v)), "F", ("h", p), v); nh += 1; handles.append("u")
        elif k in (7, 8):
            h.add(b"R " + rtxt(some_ref()), "R", None)
        else:
            h.add(b"G " + rtxt(some_ref()), "G", None)
    return h


def parse_ref(b):
    if not b.startswith(b"R"):
        return None
    try:
        a, g = b[1:].split(b",")
        return (int(a), int(g))
    except ValueError:
        return None


def check_history(base, h, want_tags=None):
    """the specification: an overlay map keyed by the references the implementation handed out"""
    lines = h.lines

    def chk(res):
        if res[0] != "OK":
            return "history did not run: %s %s" % (res[0], res[1])
        out = list(res[1])
        pos = 0
        overlay = {}             # id -> python value   (last value written)
        gens = {n: g for n, (g, _) in base.objects.items()}
        for n in base.infra:
            gens[n] = 0
        handed = []
        promised = set()
        unsavable = set()
        infra_val = {}
        used = set(base.objects) | set(base.infra)
        last_size = base.size

        def take():
            nonlocal pos
            if pos >= len(out):
                raise IndexError
            pos += 1
            return out[pos - 1]

        def expected_of(n):
            if n in overlay:
                return cv(overlay[n]) if not isinstance(overlay[n], bytes) or True else None
            if n in base.objects:
                return cv(base.objects[n][1])
            return None

        def resolve_ref_arg(txt):
            if txt.startswith(b"h"):
                return handed[int(txt[1:])]
            a, g = txt.split(b",")
            return (int(a), int(g))

        try:
            for line, op in zip(lines, h.ops):
                kind = op[0]
                if kind == "Rinfra":
                    infra_val[op[1]] = take()
                    if infra_val[op[1]].startswith(b"!"):
                        return "infrastructure object %d of the base file does not resolve: %r" % (op[1], infra_val[op[1]])
                elif kind == "C":
                    r = parse_ref(take())
                    if r is None:
                        return "create did not return a reference (%s)" % line[:40]
                    if r[0] in used or r[0] in promised or r[0] == 0:
                        return "create handed out number %d which is already in use" % r[0]
                    if r[1] != 0:
                        return "create handed out generation %d" % r[1]
                    used.add(r[0]); gens[r[0]] = 0
                    overlay[r[0]] = op[1]
                    handed.append(r)
                elif kind == "N":
                    r = parse_ref(take())
                    if r is None:
                        return "create (nested) did not return a reference (%s)" % line[:40]
                    c = parse_ref(take())
                    if c is None:
                        return "the child created by the conversion has no reference"
                    if c[0] == r[0]:
                        return "create handed out number %d for the parent and for the child its conversion created" % r[0]
                    for x, who in ((r, "parent"), (c, "child")):
                        if x[0] in used or x[0] in promised or x[0] == 0:
                            return "create (nested, %s) handed out number %d which is already in use" % (who, x[0])
                        if x[1] != 0:
                            return "create (nested, %s) handed out generation %d" % (who, x[1])
                        used.add(x[0]); gens[x[0]] = 0
                    overlay[c[0]] = op[1]
                    overlay[r[0]] = {"Child": Ref(c[0], c[1])}
                    handed.append(r); handed.append(c)
                elif kind == "M":
                    got = [parse_ref(take()) for _ in range(3)]
                    if any(x is None for x in got):
                        return "create (two levels) did not return three references"
                    if len({x[0] for x in got}) != 3:
                        return "create handed out the same number twice among parent, middle and leaf: %r" % (got,)
                    for x in got:
                        if x[0] in used or x[0] in promised or x[0] == 0 or x[1] != 0:
                            return "create (two levels) handed out %r which is already in use" % (x,)
                        used.add(x[0]); gens[x[0]] = 0
                    overlay[got[2][0]] = op[1]
                    overlay[got[1][0]] = {"Child": Ref(got[2][0], 0)}
                    overlay[got[0][0]] = {"Child": Ref(got[1][0], 0)}
                    handed.extend(got)
                elif kind == "P":
                    r = parse_ref(take())

                    if r is None or r[0] in used or r[0] in promised or r[0] == 0 or r[1] != 0:
                        return "promise handed out %r" % (r,)
                    promised.add(r[0]); gens[r[0]] = 0
                    handed.append(r)
                elif kind in ("U", "F", "Uinfile"):
                    arg = resolve_ref_arg(line.split(b" ")[1])
                    r = parse_ref(take())
                    if r is None:
                        return "update/fulfil of %r did not return a reference" % (arg,)
                    if r[0] != arg[0]:
                        return "update of %r returned a different object number %r: the caller's reference keeps the old value" % (arg, r)
                    if r[1] != gens.get(arg[0], 0):
                        return "update of %r returned generation %d" % (arg, r[1])
                    handed.append(r)
                    if kind == "Uinfile":
                        src = op[2]
                        if src in overlay and src not in unsavable:
                            overlay[arg[0]] = overlay[src]
                            unsavable.discard(arg[0])
                        else:
                            overlay[arg[0]] = base.objects[src][1]
                            unsavable.add(arg[0])
                    else:
                        overlay[arg[0]] = op[2]
                        unsavable.discard(arg[0])
                    if arg[0] in promised:
                        promised.discard(arg[0]); used.add(arg[0])
                elif kind in ("R", "G"):
                    arg = resolve_ref_arg(line.split(b" ")[1])
                    got = take()
                    n = arg[0]
                    if n in overlay:
                        if got != cv(overlay[n]):
                            return "%s %r after a write returned %r, last value written is %r" % (kind, arg, got[:80], cv(overlay[n])[:80])
                    elif n in base.objects:
                        if got != cv(base.objects[n][1]):
                            return "%s of untouched object %d returned %r, the file says %r" % (kind, n, got[:80], cv(base.objects[n][1])[:80])
                    elif n in infra_val and n not in overlay:
                        pass
                    elif n in promised:
                        if not got.startswith(b"!"):
                            return "an unfulfilled promise resolved to %r" % got[:60]
                elif kind == "S":
                    st = take()
                    should_fail = bool(promised) or bool(unsavable)
                    if should_fail:
                        if not st.startswith(b"!"):
                            return "save succeeded although %s" % ("a promise is unfulfilled" if promised else "a value cannot be serialised")
                        continue
                    if st != b"ok":
                        return "save failed: %r" % st
                    if take() != b"1":
                        return "the previous bytes are not a prefix of the saved file"
                    szf = take()
                    if szf.startswith(b"!"):
                        return "the saved file cannot be reloaded: %r" % szf
                    size = int(szf)
                    listing = [take() for _ in range(size)]
                    trailer = take()
                    for n in overlay:
                        if n >= size:
                            return "object %d was written but /Size is %d" % (n, size)
                    for n in range(size):
                        got = listing[n]
                        if n in overlay:
                            if got != cv(overlay[n]):
                                return "after reload object %d is %r, last value written is %r" % (n, got[:80], cv(overlay[n])[:80])
                        elif n in base.objects:
                            if got != cv(base.objects[n][1]):
                                return "after reload untouched object %d is %r, before it was %r" % (n, got[:80], cv(base.objects[n][1])[:80])
                        elif n in infra_val:
                            if got != infra_val[n]:
                                return "after reload infrastructure object %d changed" % n
                        elif n in base.infra:
                            if got.startswith(b"!"):
                                return "after reload infrastructure object %d no longer resolves" % n
                        else:
                            # nothing else may appear, except the bookkeeping objects of the save itself
                            if not (got.startswith(b"!") or got.startswith(XREF_PREFIX) or (base.info is not None and got == cv(base.info))):
                                return "after reload object %d, which nobody created, is %r" % (n, got[:80])
                    last_size = size
                    # everything the save allocated is in use from now on
                    for n in range(size):
                        if not listing[n].startswith(b"!"):
                            used.add(n)
            if pos != len(out):
                return "unexpected extra output fields (%d of %d consumed)" % (pos, len(out))
        except IndexError:
            return "output ended early (%d fields)" % len(out)
        return None
    return chk


def mk_case(opt, base, h, tags):
    return Case("storage_history", [opt, base.data, h.text()], check=check_history(base, h),
                tags=list(tags) + ["base:" + base.label, "cache:" + opt.decode()])


def check_save_to(h):
    """mode storage_save_to: the history on a File opened through FileOptions, every save through File::save_to on a path that holds
    the previously saved revision.  From the statement: a save with an unfulfilled promise fails - it must be reported as an error
    and must not replace what was saved before; a save that succeeds leaves on disk exactly the bytes Storage::save yields for
    the same history (those bytes are judged by check_history on the twin storage_history case)."""
    expect_fail, pending, nh = [], set(), 0
    for op in h.ops:
        k = op[0]
        if k == "P":
            pending.add(nh)
        elif k == "F":
            pending.discard(op[1][1])
        elif k == "S":
            expect_fail.append(bool(pending))
        if k in ("C", "U", "Uinfile", "P", "F"):
            nh += 1
        elif k == "N":
            nh += 2
        elif k == "M":
            nh += 3

    def chk(r):
        if r[0] != "OK":
            return "%s %s" % (r[0], r[1])
        f = r[1]
        if len(f) != 3 * len(expect_fail):
            return "expected %d saves, got %d fields" % (len(expect_fail), len(f))
        for i, fail in enumerate(expect_fail):
            res, twin, same = (x.decode("latin-1") for x in f[3 * i:3 * i + 3])
            size = same[2:] if same.startswith("0:") else "the expected number of"
            if fail:
                if not res.startswith("!"):
                    return ("save %d: File::save_to with an unfulfilled promise must return an error (Storage::save: %s), got %s; the file on disk now has %s bytes"
                            % (i, twin, res, size))
                if same != "1":
                    return "save %d: a failed File::save_to replaced the previously saved file (now %s bytes)" % (i, size)
            else:
                if res != "ok" or twin != "ok":
                    return "save %d: a save with no open promise must succeed: File::save_to %s, Storage::save %s" % (i, res, twin)
                if same != "1":
                    return "save %d: the bytes File::save_to left on disk (%s bytes) are not the bytes Storage::save yields for the same history" % (i, size)
        return None
    return chk


def save_to_cases(rng, tier):
    n = 3 if tier == "quick" else 40
    for kind in BASE_KINDS:
        for i in range(n):
            base = make_base(rng, *kind)
            n_saves = rng.choice([1, 2, 3])
            fail = "promise" if i % 3 != 1 else None
            h = gen_history(rng, base, rng.randint(max(2, n_saves), 14), n_saves, fail)
            opt = b"c" if (i + len(kind)) % 2 else b"u"
            yield Case("storage_save_to", [opt, base.data, h.text()], check=check_save_to(h), model=False,
                       tags=["save_to", "saves:%d" % n_saves, "fail:%s" % fail, "base:" + base.label, "cache:" + opt.decode()])
            if fail and i == 0:
                # the failing save alone: promise, save (fails), fulfil, save
                h2 = Hist(base)
                h2.add(b"P", "P")
                h2.add(b"S", "S")
                h2.add(b"F h0 i42", "F", ("h", 0), 42)
                h2.add(b"S", "S")
                for o in (b"u", b"c"):
                    yield Case("storage_save_to", [o, base.data, h2.text()], check=check_save_to(h2), model=False,
                               tags=["save_to", "fail:promise", "minimal", "base:" + base.label, "cache:" + o.decode()])


def generate(rng, tier):
    n_hist = 14 if tier == "quick" else 220
    for kind in BASE_KINDS:
        for i in range(n_hist):
            base = make_base(rng, *kind)
            n_saves = rng.choice([1, 1, 2, 3])
            n_ops = rng.randint(max(2, n_saves), 25 if i % 3 else 8)
            fail = rng.choice([None, None, "promise", "infile"])
            h = gen_history(rng, base, n_ops, n_saves, fail)
            tags = ["saves:%d" % n_saves, "fail:%s" % fail]
            for opt in (b"u", b"c"):
                yield mk_case(opt, base, h, tags)
    # targeted histories for each mechanism (witnesses of the repaired defects live in known_findings)
    for kind in BASE_KINDS:
        base = make_base(rng, *kind)
        comp = [n for n, (g, v) in base.objects.items() if n > 3]
        for n in comp[:4]:
            g = base.objects[n][0]
            h = Hist(base)
            for m in sorted(base.infra):
                h.add(b"R %d,0" % m, "Rinfra", m)
            v1, v2 = {"A": 1, "B": 2}, {"A": 3}
            h.add(b"G %d,%d" % (n, g), "G", None)
            h.add(b"U %d,%d %s" % (n, g, cv(v1)), "U", ("b", n, g), v1)
            h.add(b"G %d,%d" % (n, g), "G", None)
            h.add(b"U %d,%d %s" % (n, g, cv(v2)), "U", ("b", n, g), v2)
            h.add(b"R %d,%d" % (n, g), "R", None)
            h.add(b"G %d,%d" % (n, g), "G", None)      # a typed read after a REPEATED write, before any save
            h.add(b"C i42", "C", 42)
            h.add(b"C " + cv(Name("bare")), "C", Name("bare"))
            h.add(b"S", "S")
            h.add(b"U h2 " + cv([1, 2]), "U", ("h", 2), [1, 2])
            h.add(b"S", "S")
            h.add(b"G h2", "G", None)
            for opt in (b"u", b"c"):
                yield mk_case(opt, base, h, ["targeted"])
        # typed reads between repeated writes of references that came from create and from promise + fulfil
        h = Hist(base)
        for m in sorted(base.infra):
            h.add(b"R %d,0" % m, "Rinfra", m)
        w = [{"K": i, "L": [i, Name("n%d" % i)]} for i in range(6)]
        h.add(b"C " + cv(w[0]), "C", w[0])                       # h0
        h.add(b"G h0", "G", None)
        h.add(b"U h0 " + cv(w[1]), "U", ("h", 0), w[1])          # h1
        h.add(b"G h0", "G", None)
        h.add(b"G h1", "G", None)
        h.add(b"P", "P")                                          # h2
        h.add(b"F h2 " + cv(w[2]), "F", ("h", 2), w[2])          # h3
        h.add(b"G h2", "G", None)
        h.add(b"U h2 " + cv(w[3]), "U", ("h", 2), w[3])          # h4
        h.add(b"G h2", "G", None)
        h.add(b"R h2", "R", None)
        h.add(b"U h0 " + cv(w[4]), "U", ("h", 0), w[4])          # h5
        h.add(b"G h0", "G", None)
        h.add(b"S", "S")
        h.add(b"G h0", "G", None)
        h.add(b"G h2", "G", None)
        h.add(b"U h2 " + cv(w[5]), "U", ("h", 2), w[5])          # h6
        h.add(b"G h2", "G", None)
        h.add(b"U h2 " + cv(w[0]), "U", ("h", 2), w[0])          # h7
        h.add(b"G h2", "G", None)
        h.add(b"S", "S")
        for opt in (b"u", b"c"):
            yield mk_case(opt, base, h, ["targeted", "read-between-repeated-writes"])
    yield from save_to_cases(rng, tier)


def nontrivial(c):
    t = c.fields[2]
    return b"S" in t.split(b"\n") and any(l[:1] in (b"C", b"U", b"F") for l in t.split(b"\n"))


def classify(case, impl, model):
    return None


def always(case, r):
    if r[0] in ("PANIC", "ABORT", "TIMEOUT"):
        return "the implementation %s on a well-formed history: %s" % (r[0], r[1])
    return None


_W = {}


def uncanon(b):
    """canon text -> python value (inverse of oracle.canon.canon)"""
    import struct
    pos = 0

    def hexrun():
        nonlocal pos
        st = pos
        while pos < len(b) and b[pos:pos + 1] in b"0123456789abcdef" and b[pos:pos + 1] != b"":
            pos += 1
        if (pos - st) % 2:
            pos -= 1
        return bytes.fromhex(b[st:pos].decode())

    def num():
        nonlocal pos
        st = pos
        if b[pos:pos + 1] == b"-":
            pos += 1
        while pos < len(b) and b[pos:pos + 1].isdigit():
            pos += 1
        return int(b[st:pos])

    def dic():
        nonlocal pos
        d = {}
        pos += 1
        while b[pos:pos + 1] != b"}":
            if b[pos:pos + 1] == b" ":
                pos += 1
            k = hexrun().decode()
            pos += 1
            d[k] = val()
        pos += 1
        return d

    def val():
        nonlocal pos
        c = b[pos:pos + 1]
        if c == b"{":
            return dic()
        pos += 1
        if c == b"n":
            return None
        if c == b"t":
            return True
        if c == b"f":
            return False
        if c == b"i":
            return num()
        if c == b"r":
            v = struct.unpack(">f", bytes.fromhex(b[pos:pos + 8].decode()))[0]
            pos += 8
            return v
        if c in (b"N", b"S"):
            x = hexrun()
            pos += 1
            return Name(x) if c == b"N" else x
        if c == b"R":
            i = num()
            pos += 1
            return Ref(i, num())
        if c == b"[":
            out = []
            while b[pos:pos + 1] != b"]":
                if b[pos:pos + 1] == b" ":
                    pos += 1
                out.append(val())
            pos += 1
            return out
        if c == b"s":
            d = dic()
            data = hexrun()
            pos += 1
            ln = d.pop("Length", None)
            return Stream(d, data, raw_len=ln)
        raise ValueError(b[pos - 1:pos + 10])
    v = val()
    if pos != len(b):
        raise ValueError("trailing")
    return v


def witness_base(kind):
    """the fixed base file of the recorded witnesses (build/scratch/probe2.py: base())"""
    fmt, comp, prefix = kind
    objs = minimal_catalog()
    objs[4] = {"A": 1, "B": [1, 2, Name("x")]}
    objs[5] = Stream({"K": 7}, b"hello stream")
    rev = Revision({n: Obj(v) for n, v in objs.items()}, fmt=fmt, trailer={"Root": Ref(1)})
    values = {n: (0, v) for n, v in objs.items()}
    if comp:
        rev.entries[6] = Comp({"C": 1}); rev.entries[7] = Comp([1, 2])
        values[6] = (0, {"C": 1}); values[7] = (0, [1, 2])
    data, info = write_file([rev], prefix=bytes.fromhex(prefix))
    infra = set(n for n, t in info["revisions"][-1]["table"].items() if n not in values and t[0] == "n")
    return Base(data, values, infra, info["revisions"][-1]["size"], "witness")


def hist_of_text(base, text):
    h = Hist(base)
    for line in text.split(b"\n"):
        if not line:
            continue
        op = line[:1]
        if op == b"C":
            v = uncanon(line[2:])
            h.add(line, "C", v)
        elif op in (b"U", b"F"):
            _, r, vt = line.split(b" ", 2)
            ref = ("h", int(r[1:])) if r.startswith(b"h") else ("b",) + tuple(int(x) for x in r.split(b","))
            if vt.startswith(b"@"):
                h.add(line, "Uinfile", ref, int(vt[1:].split(b",")[0]))
            else:
                h.add(line, op.decode(), ref, uncanon(vt))
        elif op == b"P":
            h.add(line, "P")
        elif op in (b"R", b"G"):
            h.add(line, op.decode(), None)
        elif op == b"S":
            h.add(line, "S")
    return h


def witness_case(f, c):
    # the recorded witnesses are judged by the same specification as every generated history
    base = witness_base(f["witness"]["base_kind"])
    if base.data != c.fields[1]:
        c.check = lambda r: "the witness base file can no longer be reconstructed"
        return c
    h = hist_of_text(base, c.fields[2])
    c.check = check_history(base, h)
    return c


def coverage_extra(cases, impl, model):
    ops = {}
    prev = {}
    for c in cases:
        last = None
        for l in c.fields[2].split(b"\n"):
            k = l[:1].decode() if l else ""
            if not k:
                continue
            ops[k] = ops.get(k, 0) + 1
            if last is not None:
                prev[last + k] = prev.get(last + k, 0) + 1
            last = k
    allpairs = [a + b for a in "CUPFRGS" for b in "CUPFRGS"]
    return {"op_histogram": ops, "op_pairs_covered": len([p for p in allpairs if p in prev]), "op_pairs_total": len(allpairs),
            "op_pairs_missed": [p for p in allpairs if p not in prev][:20]}
