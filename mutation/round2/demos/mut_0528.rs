// Mutant 0528: ColorSpace::DeviceN heap-size estimate subtracts the tint function's size.
// A DeviceN space whose tint function is bigger than names+alternate underflows (panic with
// overflow checks) when the object cache weighs the loaded Resources.
use pdf::file::FileOptions;

fn build() -> Vec<u8> {
    let c0: String = (0..400).map(|_| "0 ").collect();
    let objs = vec![
        "<< /Type /Catalog /Pages 2 0 R >>".to_string(),
        "<< /Type /Pages /Kids [3 0 R] /Count 1 >>".to_string(),
        "<< /Type /Page /Parent 2 0 R /MediaBox [0 0 10 10] /Resources 4 0 R >>".to_string(),
        "<< /ColorSpace << /CS0 [/DeviceN [/A] /DeviceGray 5 0 R] >> >>".to_string(),
        format!("<< /FunctionType 2 /Domain [0 1] /N 1 /C0 [{}] >>", c0),
    ];
    let mut out = b"%PDF-1.4\n".to_vec();
    let mut offs = vec![];
    for (i, o) in objs.iter().enumerate() {
        offs.push(out.len());
        out.extend_from_slice(format!("{} 0 obj\n{}\nendobj\n", i + 1, o).as_bytes());
    }
    let xref = out.len();
    out.extend_from_slice(format!("xref\n0 {}\n0000000000 65535 f \n", objs.len() + 1).as_bytes());
    for o in offs {
        out.extend_from_slice(format!("{:010} 00000 n \n", o).as_bytes());
    }
    out.extend_from_slice(format!("trailer\n<< /Size {} /Root 1 0 R >>\nstartxref\n{}\n%%EOF\n", objs.len() + 1, xref).as_bytes());
    out
}

#[test]
fn devicen_with_large_tint_function_loads_with_caches() {
    let file = FileOptions::cached().load(build()).unwrap();
    let page = file.get_page(0).unwrap();
    let res = page.resources().unwrap();
    let cs = res.color_spaces.get("CS0").expect("CS0");
    match cs {
        pdf::object::ColorSpace::DeviceN { names, .. } => assert_eq!(names.len(), 1),
        other => panic!("unexpected {:?}", other),
    }
}
