use pdf::enc::{encode, StreamFilter, LZWFlateParams};
use pdf::object::{Stream, NoResolve, NoUpdate, Object, ObjectWrite};
use pdf::primitive::Primitive;

fn mk() -> (Primitive, Vec<u8>) {
    let z = encode(&[1, 1, 1], &StreamFilter::FlateDecode(LZWFlateParams::default())).unwrap();
    let p = LZWFlateParams { predictor: 2, columns: 3, ..LZWFlateParams::default() };
    let s = Stream::from_compressed((), z, vec![StreamFilter::FlateDecode(p)]);
    let d = s.data(&NoResolve).unwrap().to_vec();
    (s.to_primitive(&mut NoUpdate).unwrap(), d)
}
#[test]
fn semantic() {
    let (p, d) = mk();
    let s2 = Stream::<()>::from_primitive(p, &NoResolve).unwrap();
    assert_eq!(s2.data(&NoResolve).unwrap().to_vec(), d);
    assert_eq!(d, vec![1, 2, 3]);
    let p2 = s2.to_primitive(&mut NoUpdate).unwrap();
    let (p1, _) = mk();
    assert_eq!(format!("{:?}", p1), format!("{:?}", p2));
}
#[test]
fn form() {
    let (p, _) = mk();
    match p { Primitive::Stream(s) => assert!(matches!(s.info.get("DecodeParms"), Some(Primitive::Dictionary(_))), "{:?}", s.info.get("DecodeParms")), _ => panic!() }
}
