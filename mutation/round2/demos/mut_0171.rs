// mutant 0171: inflate_bytes_zlib swallows the error of read_to_end and returns the partial output as Ok.
// flate_decode tries zlib framing first and falls back to raw deflate only when the zlib attempt FAILS.  A valid raw
// deflate stream (RFC 1951) whose first block is a non-final stored block with a non-zero padding bit (the bits up to the
// byte boundary "are ignored") and whose LEN makes the first two bytes a valid zlib header (0x08 0x1D: CM=8, check
// 0x081D % 31 == 0) gets past zlib::Decoder::new; the zlib body then fails, the original falls back to the raw decoder and
// returns the 29 bytes; the mutant returns the empty partial output of the failed zlib attempt.
use pdf::enc::{decode, StreamFilter, LZWFlateParams};

#[test]
fn raw_deflate_that_looks_like_zlib_header() {
    let data = vec![b'A'; 29];
    let mut raw = vec![0x08u8, 29, 0, 0xE2, 0xFF];       // BFINAL=0 BTYPE=00, padding bit 3 set; LEN=29, NLEN=!29
    raw.extend_from_slice(&data);
    raw.extend_from_slice(&[0x01, 0, 0, 0xFF, 0xFF]);      // final empty stored block
    let out = decode(&raw, &StreamFilter::FlateDecode(LZWFlateParams::default())).expect("decodes");
    assert_eq!(out, data);
}
