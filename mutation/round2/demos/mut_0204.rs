// mutant 0204: SampledFunction::apply (3 inputs) `self.data.get(idx .. end - 1)`.
// A type-0 function with three inputs and an EMPTY /Range (zero outputs) is accepted by the loader; applying it with an
// empty output slice gives n_out = 0, idx = 0, end = 0, so the mutant evaluates `0 - 1` on usize: arithmetic-overflow
// panic in any build with overflow checks (cargo test / the harness' dev profile).  Original: Ok(()).
use pdf::object::{Function, NoResolve, NoUpdate, Object, Stream};
use pdf::primitive::{Dictionary, Primitive};

fn arr(v: &[f32]) -> Primitive { Primitive::Array(v.iter().map(|&x| Primitive::Number(x)).collect()) }

#[test]
fn sampled_3d_zero_outputs_does_not_panic() {
    let mut d = Dictionary::new();
    d.insert("FunctionType", Primitive::Integer(0));
    d.insert("Domain", arr(&[0.0, 1.0, 0.0, 1.0, 0.0, 1.0]));
    d.insert("Range", Primitive::Array(vec![]));
    d.insert("Size", Primitive::Array(vec![Primitive::Integer(2); 3]));
    d.insert("BitsPerSample", Primitive::Integer(8));
    d.insert("Length", Primitive::Integer(8));
    let mut s = Stream::new((), vec![1u8, 2, 3, 4, 5, 6, 7, 8]).to_pdf_stream(&mut NoUpdate).unwrap();
    s.info = d;
    let f = Function::from_primitive(Primitive::Stream(s), &NoResolve).expect("loads");
    assert_eq!((f.input_dim(), f.output_dim()), (3, 0));
    let mut out: [f32; 0] = [];
    let r = std::panic::catch_unwind(move || f.apply(&[0.0, 0.5, 1.0], &mut out).is_ok());
    assert_eq!(r.ok(), Some(true), "apply must return a value or an error, not panic");
}

// secondary (function evaluation, no property speaks about it): the last output component is dropped
#[test]
fn sampled_3d_last_component() {
    let mut d = Dictionary::new();
    d.insert("FunctionType", Primitive::Integer(0));
    d.insert("Domain", arr(&[0.0, 1.0, 0.0, 1.0, 0.0, 1.0]));
    d.insert("Range", arr(&[0.0, 1.0]));
    d.insert("Size", Primitive::Array(vec![Primitive::Integer(2); 3]));
    d.insert("BitsPerSample", Primitive::Integer(8));
    d.insert("Length", Primitive::Integer(8));
    let mut s = Stream::new((), vec![255u8; 8]).to_pdf_stream(&mut NoUpdate).unwrap();
    s.info = d;
    let f = Function::from_primitive(Primitive::Stream(s), &NoResolve).expect("loads");
    let mut out = [0.0f32; 1];
    f.apply(&[0.0, 0.0, 0.0], &mut out).unwrap();
    assert!((out[0] - 1.0).abs() < 1e-5, "got {}", out[0]);
}
