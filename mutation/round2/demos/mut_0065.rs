// Mutant 0065 (pdf_derive/src/lib.rs:739): the derived writer no longer emits the `Key = "Value"` entries of
// #[pdf(Subtype = "...")].  A value built in code (empty `other`) is written without /Subtype and cannot be read back.
use pdf::object::*;
use pdf::primitive::Primitive;

fn name_of<'a>(d: &'a pdf::primitive::Dictionary, k: &str) -> Option<&'a str> {
    d.get(k).and_then(|p| p.as_name().ok())
}

#[test]
fn image_dict_built_in_code_round_trips() {
    let v = ImageDict { width: 2, height: 3, ..Default::default() };
    let p = v.to_primitive(&mut NoUpdate).unwrap();
    let d = p.clone().into_dictionary().unwrap();
    assert_eq!(name_of(&d, "Subtype"), Some("Image"));
    let back = ImageDict::from_primitive(p.clone(), &NoResolve).expect("written ImageDict reads back");
    assert_eq!(back.to_primitive(&mut NoUpdate).unwrap(), p);
}

#[test]
fn form_dict_built_in_code_round_trips() {
    let v = FormDict { bbox: Rectangle { left: 0., bottom: 0., right: 10., top: 10. }, ..Default::default() };
    let p: Primitive = v.to_primitive(&mut NoUpdate).unwrap();
    let d = p.clone().into_dictionary().unwrap();
    assert_eq!(name_of(&d, "Subtype"), Some("Form"));
    let back = FormDict::from_primitive(p.clone(), &NoResolve).expect("written FormDict reads back");
    assert_eq!(back.to_primitive(&mut NoUpdate).unwrap(), p);
}
