// Mutant 0496: File::save_to swallows a failing Storage::save (writes an empty file, returns Ok).
// History: promise (left open) -> save_to (must fail, must not clobber the previous revision on disk)
//          -> fulfil -> save_to (succeeds, reloads).
use pdf::file::FileOptions;
use pdf::object::{Updater, Resolve};
use pdf::primitive::Primitive;

#[test]
fn failing_save_to_is_reported_and_leaves_previous_revision() {
    let src = concat!(env!("CARGO_MANIFEST_DIR"), "/../files/example.pdf");
    let original = std::fs::read(src).unwrap();
    let out = std::env::temp_dir().join(format!("mut_0496_{}.pdf", std::process::id()));
    std::fs::write(&out, &original).unwrap();

    let mut file = FileOptions::uncached().load(original.clone()).unwrap();
    let promise = file.promise::<Primitive>();
    let r = file.save_to(&out);
    let on_disk = std::fs::read(&out).unwrap();
    assert!(r.is_err(), "save with an open promise must fail, got Ok; file on disk has {} bytes", on_disk.len());
    assert_eq!(on_disk, original, "a failed save must not replace the previous revision");

    // repair and retry
    let rc = file.fulfill(promise, Primitive::Integer(42)).unwrap();
    file.save_to(&out).unwrap();
    let saved = std::fs::read(&out).unwrap();
    std::fs::remove_file(&out).ok();
    assert!(saved.starts_with(&original));
    let re = FileOptions::uncached().load(saved).unwrap();
    assert_eq!(re.resolver().resolve(rc.get_ref().get_inner()).unwrap(), Primitive::Integer(42));
}
