// mutant 0305: font.rs:334 saturating_sub -> wrapping_sub in the `first <ref to list>` branch of Font::widths
use pdf::file::FileOptions;
use pdf::font::Font;
use pdf::object::{Object, PlainRef, Resolve};

fn build(objs: &[(u32, &str)]) -> Vec<u8> {
    let mut out = b"%PDF-1.7\n".to_vec();
    let mut offs = vec![];
    for (n, body) in objs {
        offs.push((*n, out.len()));
        out.extend_from_slice(format!("{} 0 obj\n{}\nendobj\n", n, body).as_bytes());
    }
    let size = objs.iter().map(|o| o.0).max().unwrap() + 1;
    let xref = out.len();
    out.extend_from_slice(format!("xref\n0 {}\n", size).as_bytes());
    for i in 0..size {
        match offs.iter().find(|o| o.0 == i) {
            Some((_, off)) => out.extend_from_slice(format!("{:010} 00000 n \n", off).as_bytes()),
            None => out.extend_from_slice(b"0000000000 65535 f \n"),
        }
    }
    out.extend_from_slice(format!("trailer\n<< /Size {} /Root 1 0 R >>\nstartxref\n{}\n%%EOF\n", size, xref).as_bytes());
    out
}

#[test]
fn cid_widths_with_empty_referenced_list_at_code_0() {
    let data = build(&[
        (1, "<< /Type /Catalog /Pages 2 0 R >>"),
        (2, "<< /Type /Pages /Kids [] /Count 0 >>"),
        (4, "<< /Type /Font /Subtype /CIDFontType2 /BaseFont /F /CIDSystemInfo << /Registry (Adobe) /Ordering (Identity) /Supplement 0 >> \
             /FontDescriptor << /Type /FontDescriptor /FontName /F /Flags 4 /FontBBox [0 0 1000 1000] /ItalicAngle 0 >> /DW 250 /W [0 7 0 R 10 [500 600] 20 22 700] >>"),
        (7, "[]"),
    ]);
    let file = FileOptions::uncached().load(data).expect("load");
    let r = file.resolver();
    let p = r.resolve(PlainRef { id: 4, gen: 0 }).expect("resolve font");
    let font = Font::from_primitive(p, &r).expect("font");
    let w = font.widths(&r).expect("widths() must not fail: `0 []` assigns no code").expect("some widths");
    assert_eq!(w.get(0), 250.0);
    assert_eq!(w.get(10), 500.0);
    assert_eq!(w.get(11), 600.0);
    assert_eq!(w.get(21), 700.0);
    assert_eq!(w.get(23), 250.0);
}
