// mutant 0150: PdfStream::deep_clone swallows a failure of Cloner::stream_data (-> empty stream data).
// Source: files/encrypted_aes_128.pdf (AESV2) plus an incremental update that
//   * replaces the page's content stream (obj 3) by "/GS0 gs\n" (made with CBC malleability: only the IV is changed),
//   * gives the page an ExtGState /GS0 with a soft mask whose group /G = obj 8 is a form XObject whose encrypted data is
//     5 bytes long, i.e. cannot be decrypted
//     (AES needs at least the 16 byte IV): reading that stream's data is an error (DecryptionFailure).
// Importing the page must therefore fail (the resource cannot be copied).  With the mutant the import "succeeds"
// and the new document contains a soft-mask group whose stream data is empty.
use pdf::file::FileOptions;
use pdf::object::*;
use pdf::primitive::Primitive;
use pdf::build::{CatalogBuilder, Importer, PageBuilder, PdfBuilder};
use std::path::Path;

fn find(h: &[u8], n: &[u8], from: usize) -> usize {
    (from..h.len() - n.len()).find(|&i| &h[i..i + n.len()] == n).unwrap()
}

#[test]
fn import_of_page_with_undecryptable_resource_stream() {
    let path = Path::new(env!("CARGO_MANIFEST_DIR")).parent().unwrap().join("files").join("encrypted_aes_128.pdf");
    let orig = std::fs::read(path).unwrap();

    // plaintext of the first block of the original content stream (obj 3)
    let p1: Vec<u8> = {
        let f = FileOptions::uncached().load(orig.clone()).unwrap();
        let r = f.resolver();
        match r.resolve(PlainRef { id: 3, gen: 0 }).unwrap() {
            Primitive::Stream(s) => s.raw_data(&r).unwrap()[..16].to_vec(),
            _ => panic!("obj 3 is not a stream"),
        }
    };
    let s = find(&orig, b"stream\r\n", 117) + 8;
    let iv = &orig[s..s + 16];
    let c1 = &orig[s + 16..s + 32];
    let mut want = b"/GS0 gs\n".to_vec();
    want.extend_from_slice(&[8u8; 8]); // PKCS#7 padding
    let iv2: Vec<u8> = (0..16).map(|i| iv[i] ^ p1[i] ^ want[i]).collect();

    let mut d = orig.clone();
    let mut offs = vec![];
    offs.push((3, d.len()));
    d.extend_from_slice(b"3 0 obj\n<</Length 32>>\nstream\n");
    d.extend_from_slice(&iv2);
    d.extend_from_slice(c1);
    d.extend_from_slice(b"\nendstream\nendobj\n");
    offs.push((6, d.len()));
    d.extend_from_slice(b"6 0 obj\n<</Type /Page/Parent 2 0 R/Resources <</ExtGState <</GS0 <</Type/ExtGState/SMask <</Type/Mask/S/Luminosity/G 8 0 R>>>>>>>>/MediaBox [ 0 0 180 240 ]/Contents 3 0 R>>\nendobj\n");
    offs.push((8, d.len()));
    d.extend_from_slice(b"8 0 obj\n<</Type/XObject/Subtype/Form/BBox [0 0 1 1]/Length 5>>\nstream\nABCDE\nendstream\nendobj\n");
    let xref = d.len();
    d.extend_from_slice(b"xref\n");
    for (id, off) in offs {
        d.extend_from_slice(format!("{} 1\n{:010} 00000 n\r\n", id, off).as_bytes());
    }
    d.extend_from_slice(format!("trailer\n<</Size 9/Root 1 0 R/ID [ <E6BD677BF08513BD60C4834FE38C16C2> <E6BD677BF08513BD60C4834FE38C16C2> ]/Encrypt 7 0 R/Prev 814>>\nstartxref\n{}\n%%EOF\n", xref).as_bytes());

    let old = FileOptions::uncached().load(d).unwrap();
    let page = old.get_page(0).unwrap();
    // the page itself is fine: its operations are readable
    let ops = page.contents.as_ref().unwrap().operations(&old.resolver()).unwrap();
    assert_eq!(ops.len(), 1, "{:?}", ops);
    // the data of the soft-mask group cannot be read in the source
    let src_data = match old.resolver().resolve(PlainRef { id: 8, gen: 0 }).unwrap() {
        Primitive::Stream(s) => s.raw_data(&old.resolver()),
        _ => panic!("obj 8 is not a stream"),
    };
    assert!(src_data.is_err());

    let mut builder = PdfBuilder::new(FileOptions::uncached());
    let res = {
        let mut imp = Importer::new(old.resolver(), &mut builder.storage);
        PageBuilder::clone_page(&page, &mut imp)
    };
    match res {
        Err(_) => {} // import fails: nothing is claimed
        Ok(pb) => {
            let bytes = builder.build(CatalogBuilder::from_pages(vec![pb])).unwrap();
            let newf = FileOptions::uncached().load(bytes).unwrap();
            let p = newf.get_page(0).unwrap();
            let res = p.resources().unwrap();
            let gs = res.graphics_states.get("GS0").expect("GS0 present");
            let g = gs.smask.as_ref().expect("SMask").clone().into_dictionary().unwrap().get("G").expect("G").clone();
            let copied = match g.resolve(&newf.resolver()).unwrap() {
                Primitive::Stream(s) => s.raw_data(&newf.resolver()).unwrap(),
                p => panic!("copy of the soft-mask group is not a stream: {:?}", p),
            };
            panic!("import succeeded although the data of the soft-mask group of resource /GS0 is unreadable in the source; the copy has {} bytes of data: {:?}", copied.len(), &copied[..]);
        }
    }
}
