// mutant 0165: PageRc::from_primitive arms swapped (a /Pages node is accepted as a "page", a real page is rejected).
// PageRc::from_primitive is the reader of Annot /P (`page: Option<PageRc>`).
use pdf::file::FileOptions;
use pdf::object::*;

fn build(annot_p: u32) -> Vec<u8> {
    let objs: Vec<String> = vec![
        "<< /Type /Catalog /Pages 2 0 R >>".into(),
        "<< /Type /Pages /Kids [3 0 R] /Count 1 /MediaBox [0 0 200 200] >>".into(),
        "<< /Type /Page /Parent 2 0 R /MediaBox [0 0 100 100] /Annots [4 0 R] >>".into(),
        format!("<< /Type /Annot /Subtype /Text /Rect [0 0 10 10] /P {} 0 R >>", annot_p),
    ];
    let mut out = b"%PDF-1.4\n".to_vec();
    let mut offs = vec![];
    for (i, o) in objs.iter().enumerate() {
        offs.push(out.len());
        out.extend_from_slice(format!("{} 0 obj\n{}\nendobj\n", i + 1, o).as_bytes());
    }
    let xref = out.len();
    out.extend_from_slice(format!("xref\n0 {}\n0000000000 65535 f \n", objs.len() + 1).as_bytes());
    for o in &offs { out.extend_from_slice(format!("{:010} 00000 n \n", o).as_bytes()); }
    out.extend_from_slice(format!("trailer\n<< /Size {} /Root 1 0 R >>\nstartxref\n{}\n%%EOF\n", objs.len() + 1, xref).as_bytes());
    out
}

// well-formed: the annotation's /P is its page.  original: Some(page) with the page's own media box; mutant: Err (strict)
#[test]
fn annot_p_points_to_page() {
    let file = FileOptions::uncached().load(build(3)).unwrap();
    let r = file.resolver();
    let page = file.get_page(0).unwrap();
    let annots = page.annotations.load(&r).expect("annotations load");
    let a = &annots[0];
    let p = a.page.as_ref().expect("/P present");
    assert_eq!(p.media_box.map(|b| b.right), Some(100.0));
}

// hostile graph (C14): /P points to the /Pages node.  original: error value; mutant: Ok(PageRc(Tree)) whose Deref is
// `unreachable!()` -> panic on the first field access.
#[test]
fn annot_p_points_to_pages_node() {
    let file = FileOptions::uncached().load(build(2)).unwrap();
    let r = file.resolver();
    let page = file.get_page(0).unwrap();
    let res = std::panic::catch_unwind(std::panic::AssertUnwindSafe(|| {
        match page.annotations.load(&r) {
            Ok(annots) => annots.iter().map(|a| a.page.as_ref().map(|p| p.media_box.is_some())).collect::<Vec<_>>(),
            Err(_) => vec![],
        }
    }));
    assert!(res.is_ok(), "reading Annot./P of a hostile graph panicked");
}
