// C15 sentence 1 on the hand-written Encoding model: write(read(write(v))) == write(v),
// and an Encoding with /Differences keeps them through write -> read.
use pdf::encoding::{Encoding, BaseEncoding};
use pdf::object::{Object, ObjectWrite, NoResolve, NoUpdate};

#[test]
fn encoding_with_differences_roundtrips() {
    let mut v = Encoding { base: BaseEncoding::WinAnsiEncoding, differences: Default::default() };
    v.differences.insert(65, "Alpha".into());
    v.differences.insert(66, "Beta".into());
    v.differences.insert(200, "Gamma".into());
    let p1 = v.to_primitive(&mut NoUpdate).unwrap();
    let v2 = Encoding::from_primitive(p1.clone(), &NoResolve).unwrap();
    assert_eq!(v2.base, v.base);
    assert_eq!(v2.differences, v.differences, "differences lost in write -> read");
    let p2 = v2.to_primitive(&mut NoUpdate).unwrap();
    assert_eq!(p1, p2, "second write differs from first");
}

#[test]
fn encoding_without_differences_roundtrips() {
    let v = Encoding::standard();
    let p1 = v.to_primitive(&mut NoUpdate).unwrap();
    let v2 = Encoding::from_primitive(p1.clone(), &NoResolve).unwrap();
    let p2 = v2.to_primitive(&mut NoUpdate).unwrap();
    assert_eq!(p1, p2);
    assert!(v2.differences.is_empty());
}
