// C20: importing a page keeps, for every resource the page's operations use, the resource's content (dictionaries, stream data).
// The page draws a form XObject whose own /Resources hold a tiling pattern (a content stream); the imported pattern must
// have the same operation sequence as the original one.
use pdf::build::{CatalogBuilder, Importer, PageBuilder, PdfBuilder};
use pdf::content::serialize_ops;
use pdf::file::FileOptions;
use pdf::object::{Pattern, Resolve, XObject};

fn build(objs: &[(u32, String)]) -> Vec<u8> {
    let mut out = b"%PDF-1.7\n".to_vec();
    let max = objs.iter().map(|o| o.0).max().unwrap();
    let mut offs = vec![None; max as usize + 1];
    for (n, body) in objs {
        offs[*n as usize] = Some(out.len());
        out.extend_from_slice(format!("{} 0 obj\n{}\nendobj\n", n, body).as_bytes());
    }
    let xref = out.len();
    out.extend_from_slice(format!("xref\n0 {}\n", max + 1).as_bytes());
    for (i, o) in offs.iter().enumerate() {
        match o {
            Some(p) => out.extend_from_slice(format!("{:010} 00000 n \n", p).as_bytes()),
            None => out.extend_from_slice(format!("{:010} {:05} f \n", 0, if i == 0 { 65535 } else { 0 }).as_bytes()),
        }
    }
    out.extend_from_slice(format!("trailer\n<< /Size {} /Root 1 0 R >>\nstartxref\n{}\n%%EOF\n", max + 1, xref).as_bytes());
    out
}

fn stream(dict: &str, body: &str) -> String {
    format!("<< {} /Length {} >>\nstream\n{}\nendstream", dict, body.len(), body)
}

fn pattern_ops(file: &pdf::file::File<Vec<u8>, pdf::file::NoCache, pdf::file::NoCache, pdf::file::NoLog>) -> String {
    let r = file.resolver();
    let page = file.get_page(0).unwrap();
    let res = page.resources().unwrap();
    let fm = *res.xobjects.get("Fm0").expect("Fm0");
    let x = r.get(fm).unwrap();
    let form = match *x { XObject::Form(ref f) => f, _ => panic!("not a form") };
    let fres = form.dict().resources.as_ref().expect("form resources");
    let pat = *fres.pattern.get("P0").expect("P0");
    let p = r.get(pat).unwrap();
    match *p {
        Pattern::Stream(_, ref ops) => String::from_utf8(serialize_ops(ops).unwrap()).unwrap(),
        _ => panic!("not a pattern stream"),
    }
}

#[test]
fn import_keeps_pattern_operation_order() {
    let src = build(&[
        (1, "<< /Type /Catalog /Pages 2 0 R >>".into()),
        (2, "<< /Type /Pages /Kids [3 0 R] /Count 1 >>".into()),
        (3, "<< /Type /Page /Parent 2 0 R /MediaBox [0 0 10 10] /Resources << /XObject << /Fm0 5 0 R >> >> /Contents 4 0 R >>".into()),
        (4, stream("", "q /Fm0 Do Q")),
        (5, stream("/Type /XObject /Subtype /Form /BBox [0 0 10 10] /Resources << /Pattern << /P0 6 0 R >> >>", "/Pattern cs /P0 scn 0 0 5 5 re f")),
        (6, stream("/PatternType 1 /PaintType 1 /TilingType 1 /BBox [0 0 4 4] /XStep 4 /YStep 4 /Resources 7 0 R", "1 w 0 0 m 4 4 l S")),
        (7, "<< >>".into()),
    ]);
    let old = FileOptions::uncached().load(src).unwrap();
    let want = pattern_ops(&old);

    let mut builder = PdfBuilder::new(FileOptions::uncached());
    let mut pages = vec![];
    {
        let mut imp = Importer::new(old.resolver(), &mut builder.storage);
        let page = old.get_page(0).unwrap();
        pages.push(PageBuilder::clone_page(&page, &mut imp).unwrap());
        let _ = imp.finish();
    }
    let data = builder.build(CatalogBuilder::from_pages(pages)).unwrap();
    let newf = FileOptions::uncached().load(data).unwrap();
    assert_eq!(pattern_ops(&newf), want);
}
