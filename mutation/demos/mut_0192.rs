// Primitive::as_usize must accept 0.
// C11: a stream whose /Length is a reference to the integer 0 has the same (empty) data as with a direct /Length 0.
// C19: a composite-font /W array whose first group starts at code 0 assigns those widths.
use pdf::file::FileOptions;
use pdf::object::{Resolve, PlainRef, Ref, RcRef};
use pdf::primitive::Primitive;
use pdf::font::Font;

fn build(objs: &[(u32, &str)]) -> Vec<u8> {
    let mut out = b"%PDF-1.7\n".to_vec();
    let max = objs.iter().map(|o| o.0).max().unwrap();
    let mut offs = vec![None; max as usize + 1];
    for (n, body) in objs {
        offs[*n as usize] = Some(out.len());
        out.extend_from_slice(format!("{} 0 obj\n{}\nendobj\n", n, body).as_bytes());
    }
    let xref = out.len();
    out.extend_from_slice(format!("xref\n0 {}\n", max + 1).as_bytes());
    for (i, o) in offs.iter().enumerate() {
        match o {
            Some(p) => out.extend_from_slice(format!("{:010} 00000 n \n", p).as_bytes()),
            None => out.extend_from_slice(format!("{:010} {:05} f \n", 0, if i == 0 { 65535 } else { 0 }).as_bytes()),
        }
    }
    out.extend_from_slice(format!("trailer\n<< /Size {} /Root 1 0 R >>\nstartxref\n{}\n%%EOF\n", max + 1, xref).as_bytes());
    out
}

const CAT: (u32, &str) = (1, "<< /Type /Catalog /Pages 2 0 R >>");
const PAGES: (u32, &str) = (2, "<< /Type /Pages /Kids [] /Count 0 >>");

#[test]
fn empty_stream_indirect_length() {
    let data = build(&[CAT, PAGES,
        (10, "<< /K 1 /Length 11 0 R >>\nstream\n\nendstream"),
        (11, "0"),
        (12, "<< /K 1 /Length 0 >>\nstream\n\nendstream"),
    ]);
    let file = FileOptions::uncached().load(data).unwrap();
    let r = file.resolver();
    let direct = r.resolve(PlainRef { id: 12, gen: 0 }).unwrap();
    let indirect = r.resolve(PlainRef { id: 10, gen: 0 }).expect("stream with /Length -> 0 must resolve");
    match (direct, indirect) {
        (Primitive::Stream(a), Primitive::Stream(b)) => {
            assert_eq!(&*a.raw_data(&r).unwrap(), b"");
            assert_eq!(&*b.raw_data(&r).unwrap(), b"");
        }
        o => panic!("{:?}", o),
    }
}

#[test]
fn cid_widths_from_code_zero() {
    let data = build(&[CAT, PAGES,
        (5, "<< /Type /Font /Subtype /Type0 /BaseFont /Foo /Encoding /Identity-H /DescendantFonts [6 0 R] >>"),
        (6, "<< /Type /Font /Subtype /CIDFontType2 /BaseFont /Foo /CIDSystemInfo << /Registry (Adobe) /Ordering (Identity) /Supplement 0 >> /FontDescriptor 7 0 R /DW 1000 /W [0 [500 600] 10 12 250] >>"),
        (7, "<< /Type /FontDescriptor /FontName /Foo /Flags 4 /FontBBox [0 0 1000 1000] /ItalicAngle 0 /Ascent 800 /Descent -200 /CapHeight 700 /StemV 80 >>"),
    ]);
    let file = FileOptions::uncached().load(data).unwrap();
    let r = file.resolver();
    let font: RcRef<Font> = r.get(Ref::new(PlainRef { id: 5, gen: 0 })).unwrap();
    let w = font.widths(&r).expect("W array starting at code 0 is well-formed").unwrap();
    assert_eq!(w.get(0), 500.0);
    assert_eq!(w.get(1), 600.0);
    assert_eq!(w.get(2), 1000.0);
    assert_eq!(w.get(11), 250.0);
}
