// mutant 0533: CidToGidMap::Table writer emits the table reversed
use pdf::font::CidToGidMap;
use pdf::object::{Object, ObjectWrite, NoResolve, NoUpdate};
use pdf::primitive::Primitive;

fn stream_bytes(p: &Primitive) -> Vec<u8> {
    let s: pdf::object::Stream<()> = pdf::object::Stream::from_primitive(p.clone(), &NoResolve).unwrap();
    s.data(&NoResolve).unwrap().to_vec()
}

#[test]
fn cid_to_gid_table_write_read_write() {
    let v = CidToGidMap::Table(vec![1, 2, 0x0304]);
    let p1 = v.to_primitive(&mut NoUpdate).unwrap();
    let b1 = stream_bytes(&p1);
    // C15 sentence 1: read back, write again -> identical primitive form
    let v2 = CidToGidMap::from_primitive(p1, &NoResolve).unwrap();
    let p2 = v2.to_primitive(&mut NoUpdate).unwrap();
    assert_eq!(stream_bytes(&p2), b1, "C15: second write differs from first write");
    // and the written form is the big-endian table in order (ISO 32000-1 Table 117 /CIDToGIDMap)
    assert_eq!(b1, vec![0, 1, 0, 2, 3, 4]);
}
