// Survivor 0066: deep_clone_op, Op::BeginMarkedContent: `properties.deep_clone(cloner)?` -> `.unwrap_or_default()`.
// A loadable document whose page content has `/Span << /K 99 0 R >> BDC ... EMC` with 99 0 undefined.
// C20: *when importing the page succeeds*, the new document's page has the same operation sequence.
// Unchanged library: the property list cannot be copied, the import fails (property holds vacuously).
// Mutant: the import succeeds and the BDC operator silently loses its property list.
use pdf::build::{CatalogBuilder, Importer, PageBuilder, PdfBuilder};
use pdf::content::serialize_ops;
use pdf::file::FileOptions;

fn build() -> Vec<u8> {
    let content = "/Span << /K 99 0 R >> BDC 0 0 m 10 10 l S EMC";
    let bodies = vec![
        "<< /Type /Catalog /Pages 2 0 R >>".to_string(),
        "<< /Type /Pages /Kids [3 0 R] /Count 1 >>".to_string(),
        "<< /Type /Page /Parent 2 0 R /MediaBox [0 0 100 100] /Resources << >> /Contents 4 0 R >>".to_string(),
        format!("<< /Length {} >>\nstream\n{}\nendstream", content.len(), content),
    ];
    let mut out = b"%PDF-1.4\n".to_vec();
    let mut offs = Vec::new();
    for (i, b) in bodies.iter().enumerate() {
        offs.push(out.len());
        out.extend_from_slice(format!("{} 0 obj\n{}\nendobj\n", i + 1, b).as_bytes());
    }
    let xref = out.len();
    out.extend_from_slice(format!("xref\n0 {}\n0000000000 65535 f \n", offs.len() + 1).as_bytes());
    for o in &offs {
        out.extend_from_slice(format!("{:010} 00000 n \n", o).as_bytes());
    }
    out.extend_from_slice(format!("trailer\n<< /Size {} /Root 1 0 R >>\nstartxref\n{}\n%%EOF\n", offs.len() + 1, xref).as_bytes());
    out
}

#[test]
fn imported_page_keeps_its_operation_sequence() {
    let old = FileOptions::uncached().load(build()).expect("source loads");
    let page = old.get_page(0).expect("page 0");
    let old_ops = page.contents.as_ref().unwrap().operations(&old.resolver()).expect("source ops parse");
    let old_text = String::from_utf8_lossy(&serialize_ops(&old_ops).unwrap()).into_owned();
    assert!(old_text.contains("BDC"), "source ops: {}", old_text);

    let mut builder = PdfBuilder::new(FileOptions::uncached());
    let cloned = {
        let mut imp = Importer::new(old.resolver(), &mut builder.storage);
        PageBuilder::clone_page(&page, &mut imp)
    };
    let pb = match cloned {
        Err(e) => { eprintln!("import refused: {}", e); return; }   // property holds vacuously
        Ok(pb) => pb,
    };
    let data = builder.build(CatalogBuilder::from_pages(vec![pb])).expect("build");
    let newf = FileOptions::uncached().load(data).expect("reload");
    let p = newf.get_page(0).expect("new page");
    let new_ops = p.contents.as_ref().unwrap().operations(&newf.resolver()).expect("new ops");
    let new_text = String::from_utf8_lossy(&serialize_ops(&new_ops).unwrap()).into_owned();
    assert_eq!(old_text, new_text, "import succeeded but the operation sequence changed");
}
