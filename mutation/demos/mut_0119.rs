// Survivor 0119: StreamFilter::from_kind_and_params maps the name CCITTFaxDecode to the JBIG2Decode variant and vice versa.
// (1) C15: a stream dictionary with /Filter /CCITTFaxDecode (or /JBIG2Decode) read as Stream<()> and written back
//     names the same filter and keeps its /DecodeParms.
// (2) C20: an image XObject with /Filter /CCITTFaxDecode used by a page keeps its /Filter (and parameters) when the
//     page is imported into a new document (the XObject is copied through the typed reader / writer).
use pdf::build::{CatalogBuilder, Importer, PageBuilder, PdfBuilder};
use pdf::file::FileOptions;
use pdf::object::{NoUpdate, PlainRef, Ref, Resolve, Stream};
use pdf::primitive::Primitive;

fn source_pdf() -> Vec<u8> {
    let objs: Vec<String> = vec![
        "<< /Type /Catalog /Pages 2 0 R >>".into(),
        "<< /Type /Pages /Kids [3 0 R] /Count 1 >>".into(),
        "<< /Type /Page /Parent 2 0 R /MediaBox [0 0 200 200] /Contents 4 0 R /Resources << /XObject << /Im1 5 0 R >> >> >>".into(),
        "<< /Length 8 >>\nstream\n/Im1 Do\n\nendstream".into(),
        "<< /Type /XObject /Subtype /Image /Width 8 /Height 1 /ImageMask true /BitsPerComponent 1 /Filter /CCITTFaxDecode /DecodeParms << /K -1 /Columns 8 /Rows 1 >> /Length 4 >>\nstream\nabcd\nendstream".into(),
        "<< /Filter /JBIG2Decode /Length 4 >>\nstream\nabcd\nendstream".into(),
    ];
    let mut out = b"%PDF-1.4\n".to_vec();
    let mut offs = vec![];
    for (i, o) in objs.iter().enumerate() {
        offs.push(out.len());
        out.extend_from_slice(format!("{} 0 obj\n{}\nendobj\n", i + 1, o).as_bytes());
    }
    let xref = out.len();
    out.extend_from_slice(format!("xref\n0 {}\n0000000000 65535 f \n", objs.len() + 1).as_bytes());
    for o in &offs {
        out.extend_from_slice(format!("{:010} 00000 n \n", o).as_bytes());
    }
    out.extend_from_slice(format!("trailer\n<< /Size {} /Root 1 0 R >>\nstartxref\n{}\n%%EOF\n", objs.len() + 1, xref).as_bytes());
    out
}

#[test]
fn stream_filter_name_survives_read_write() {
    let f = FileOptions::uncached().load(source_pdf()).unwrap();
    for (id, name) in [(5u64, "CCITTFaxDecode"), (6, "JBIG2Decode")] {
        let s = f.resolver().get::<Stream<()>>(Ref::new(PlainRef { id, gen: 0 })).unwrap();
        let w = s.to_pdf_stream(&mut NoUpdate).unwrap();
        assert_eq!(w.info.get("Filter").and_then(|p| p.as_name().ok()), Some(name), "filter of object {} after read -> write", id);
    }
    let s = f.resolver().get::<Stream<()>>(Ref::new(PlainRef { id: 5, gen: 0 })).unwrap();
    let w = s.to_pdf_stream(&mut NoUpdate).unwrap();
    let parms = w.info.get("DecodeParms").expect("DecodeParms kept").clone().into_dictionary().unwrap();
    assert_eq!(parms.get("K").and_then(|p| p.as_integer().ok()), Some(-1));
    assert_eq!(parms.get("Columns").and_then(|p| p.as_integer().ok()), Some(8));
}

#[test]
fn imported_ccitt_image_keeps_its_filter() {
    let old = FileOptions::uncached().load(source_pdf()).unwrap();
    let mut builder = PdfBuilder::new(FileOptions::uncached());
    let mut pages = vec![];
    {
        let mut imp = Importer::new(old.resolver(), &mut builder.storage);
        let page = old.get_page(0).unwrap();
        pages.push(PageBuilder::clone_page(&page, &mut imp).unwrap());
        let _ = imp.finish();
    }
    let data = builder.build(CatalogBuilder::from_pages(pages)).unwrap();
    let newf = FileOptions::uncached().load(data).unwrap();
    let page = newf.get_page(0).unwrap();
    let res = page.resources().unwrap();
    let r = *res.xobjects.get("Im1").expect("Im1 imported");
    let raw = newf.resolver().resolve(r.get_inner()).unwrap();
    let info = match raw { Primitive::Stream(s) => s.info, p => panic!("not a stream: {:?}", p) };
    assert_eq!(info.get("Filter").and_then(|p| p.as_name().ok()), Some("CCITTFaxDecode"), "image /Filter changed by the import");
    let parms = info.get("DecodeParms").expect("DecodeParms kept").clone().into_dictionary().unwrap();
    assert_eq!(parms.get("K").and_then(|p| p.as_integer().ok()), Some(-1));
}
