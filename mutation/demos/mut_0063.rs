// Survivor 0063: PdfError::is_missing_object `_ => true`.
// N Type0 fonts, each listing all N fonts as /DescendantFonts (a reference cycle through descendant fonts:
// C14's domain; also C01).  Unchanged library: the first "Recursive reference" error propagates up and the
// load returns Err after O(N) work.  Mutant: the Vec<T> reader treats *every* failing reference element as a
// missing object and drops it, so an uncached load explores every simple path of the complete graph
// (~ e * N! font loads): time out of all proportion to the 2 kB file.
use std::sync::mpsc;
use std::time::{Duration, Instant};
use pdf::file::FileOptions;
use pdf::font::Font;
use pdf::object::{PlainRef, Ref, Resolve};

fn build(n: usize) -> Vec<u8> {
    let mut out = b"%PDF-1.4\n".to_vec();
    let mut offs = Vec::new();
    let mut add = |out: &mut Vec<u8>, id: usize, body: String| {
        offs.push(out.len());
        out.extend_from_slice(format!("{} 0 obj\n{}\nendobj\n", id, body).as_bytes());
    };
    add(&mut out, 1, "<< /Type /Catalog /Pages 2 0 R >>".into());
    add(&mut out, 2, "<< /Type /Pages /Kids [] /Count 0 >>".into());
    let kids: String = (0..n).map(|i| format!("{} 0 R ", 3 + i)).collect();
    for i in 0..n {
        add(&mut out, 3 + i, format!("<< /Type /Font /Subtype /Type0 /BaseFont /F /DescendantFonts [ {}] >>", kids));
    }
    let xref = out.len();
    out.extend_from_slice(format!("xref\n0 {}\n0000000000 65535 f \n", n + 3).as_bytes());
    for o in &offs {
        out.extend_from_slice(format!("{:010} 00000 n \n", o).as_bytes());
    }
    out.extend_from_slice(format!("trailer\n<< /Size {} /Root 1 0 R >>\nstartxref\n{}\n%%EOF\n", n + 3, xref).as_bytes());
    out
}

fn load_font(n: usize) -> (bool, Duration) {
    let data = build(n);
    let file = FileOptions::uncached().load(data).expect("file loads");
    let t = Instant::now();
    let r = file.resolver().get::<Font>(Ref::new(PlainRef { id: 3, gen: 0 }));
    (r.is_ok(), t.elapsed())
}

#[test]
fn descendant_font_cycle_is_answered_in_proportion_to_the_file() {
    // growth, for the record
    for n in [4usize, 6, 8] {
        let (ok, dt) = load_font(n);
        eprintln!("n={} ok={} {:?}", n, ok, dt);
    }
    let n = 12; // file size < 3 kB
    eprintln!("file size for n={}: {} bytes", n, build(n).len());
    let (tx, rx) = mpsc::channel();
    std::thread::spawn(move || { let _ = tx.send(load_font(n)); });
    match rx.recv_timeout(Duration::from_secs(20)) {
        Ok((ok, dt)) => eprintln!("n={} ok={} {:?}", n, ok, dt),
        Err(_) => panic!("loading one font of a {}-object cycle did not return within 20 s", n),
    }
}
