// mutant 0476: Encoding::to_primitive branch inverted — /Differences dropped on write, empty ones invented.
use pdf::encoding::Encoding;
use pdf::font::Font;
use pdf::object::{NoResolve, NoUpdate, Object, ObjectWrite};
use pdf::parser::parse;
use pdf::primitive::Primitive;

fn show(p: &Primitive) -> String {
    let mut v = Vec::new();
    p.serialize(&mut v).unwrap();
    String::from_utf8_lossy(&v).into_owned()
}

#[test]
fn encoding_second_write_identical_and_differences_kept() {
    let src = b"<</BaseEncoding /WinAnsiEncoding /Differences [65 /B /C 200 /Euro]>>";
    let p = parse(src, &NoResolve, pdf::parser::ParseFlags::ANY).unwrap();
    let e1 = Encoding::from_primitive(p, &NoResolve).unwrap();
    assert_eq!(e1.differences.len(), 3);
    let w1 = e1.to_primitive(&mut NoUpdate).unwrap();
    let e2 = Encoding::from_primitive(w1.clone(), &NoResolve).unwrap();
    let w2 = e2.to_primitive(&mut NoUpdate).unwrap();
    // C15 sentence 1: the re-read value writes to the identical primitive form
    assert_eq!(show(&w1), show(&w2));
    // the value itself survives
    assert_eq!(e2.differences, e1.differences);
}

#[test]
fn font_keeps_encoding_entry() {
    // Font keeps unrecognised entries (_other): C15 sentence 2 — every input entry preserved
    let src = b"<</Type /Font /Subtype /Type1 /BaseFont /Helvetica /Encoding <</BaseEncoding /WinAnsiEncoding /Differences [65 /B]>> >>";
    let p = parse(src, &NoResolve, pdf::parser::ParseFlags::ANY).unwrap();
    let f = Font::from_primitive(p, &NoResolve).unwrap();
    let w = f.to_primitive(&mut NoUpdate).unwrap();
    let d = w.into_dictionary().unwrap();
    let enc = d.get("Encoding").expect("Encoding entry").clone();
    let s = show(&enc);
    assert!(s.contains("Differences") && s.contains("/B"), "Encoding entry written back as {}", s);
}
