// Survivor 0121: ColorSpace::to_primitive writes /DeviceRGB for DeviceCMYK and /DeviceCMYK for DeviceRGB.
// (1) C15: write -> read -> write of the hand-written ColorSpace model gives the identical primitive, and the written
//     name is the one of the value.
// (2) C20: an RGB image XObject used by a page still has /ColorSpace /DeviceRGB after the page is imported.
use pdf::build::{CatalogBuilder, Importer, PageBuilder, PdfBuilder};
use pdf::file::FileOptions;
use pdf::object::{ColorSpace, NoResolve, NoUpdate, Object, ObjectWrite, Resolve};
use pdf::primitive::Primitive;

#[test]
fn device_colour_spaces_roundtrip() {
    for (v, name) in [(ColorSpace::DeviceRGB, "DeviceRGB"), (ColorSpace::DeviceCMYK, "DeviceCMYK")] {
        let p1 = v.to_primitive(&mut NoUpdate).unwrap();
        assert_eq!(p1.as_name().unwrap(), name, "written name of {:?}", v);
        let v2 = ColorSpace::from_primitive(p1.clone(), &NoResolve).unwrap();
        let p2 = v2.to_primitive(&mut NoUpdate).unwrap();
        assert_eq!(p1, p2, "second write differs from first");
    }
}

fn source_pdf() -> Vec<u8> {
    let objs: Vec<String> = vec![
        "<< /Type /Catalog /Pages 2 0 R >>".into(),
        "<< /Type /Pages /Kids [3 0 R] /Count 1 >>".into(),
        "<< /Type /Page /Parent 2 0 R /MediaBox [0 0 200 200] /Contents 4 0 R /Resources << /XObject << /Im1 5 0 R >> >> >>".into(),
        "<< /Length 8 >>\nstream\n/Im1 Do\n\nendstream".into(),
        "<< /Type /XObject /Subtype /Image /Width 1 /Height 1 /ColorSpace /DeviceRGB /BitsPerComponent 8 /Length 3 >>\nstream\nabc\nendstream".into(),
    ];
    let mut out = b"%PDF-1.4\n".to_vec();
    let mut offs = vec![];
    for (i, o) in objs.iter().enumerate() {
        offs.push(out.len());
        out.extend_from_slice(format!("{} 0 obj\n{}\nendobj\n", i + 1, o).as_bytes());
    }
    let xref = out.len();
    out.extend_from_slice(format!("xref\n0 {}\n0000000000 65535 f \n", objs.len() + 1).as_bytes());
    for o in &offs {
        out.extend_from_slice(format!("{:010} 00000 n \n", o).as_bytes());
    }
    out.extend_from_slice(format!("trailer\n<< /Size {} /Root 1 0 R >>\nstartxref\n{}\n%%EOF\n", objs.len() + 1, xref).as_bytes());
    out
}

#[test]
fn imported_rgb_image_stays_rgb() {
    let old = FileOptions::uncached().load(source_pdf()).unwrap();
    let mut builder = PdfBuilder::new(FileOptions::uncached());
    let mut pages = vec![];
    {
        let mut imp = Importer::new(old.resolver(), &mut builder.storage);
        let page = old.get_page(0).unwrap();
        pages.push(PageBuilder::clone_page(&page, &mut imp).unwrap());
        let _ = imp.finish();
    }
    let data = builder.build(CatalogBuilder::from_pages(pages)).unwrap();
    let newf = FileOptions::uncached().load(data).unwrap();
    let page = newf.get_page(0).unwrap();
    let res = page.resources().unwrap();
    let r = *res.xobjects.get("Im1").expect("Im1 imported");
    let raw = newf.resolver().resolve(r.get_inner()).unwrap();
    let info = match raw { Primitive::Stream(s) => s.info, p => panic!("not a stream: {:?}", p) };
    assert_eq!(info.get("ColorSpace").and_then(|p| p.as_name().ok()), Some("DeviceRGB"), "image /ColorSpace changed by the import");
}
