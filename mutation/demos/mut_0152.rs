// C09: before any save every read through the same open document already reflects each write,
// and after save + reload the created reference resolves to the value written (stream data included).
// A stream created with one filter (data already encoded with it) must decode through that filter
// when read back from the pending change, exactly as it does after the file is saved and reloaded.
use pdf::file::FileOptions;
use pdf::object::{Resolve, Stream, Updater, Ref};
use pdf::enc::StreamFilter;

fn base() -> Vec<u8> {
    let mut out = b"%PDF-1.7\n".to_vec();
    let o1 = out.len(); out.extend_from_slice(b"1 0 obj\n<< /Type /Catalog /Pages 2 0 R >>\nendobj\n");
    let o2 = out.len(); out.extend_from_slice(b"2 0 obj\n<< /Type /Pages /Kids [] /Count 0 >>\nendobj\n");
    let x = out.len();
    out.extend_from_slice(format!("xref\n0 3\n0000000000 65535 f \n{:010} 00000 n \n{:010} 00000 n \ntrailer\n<< /Size 3 /Root 1 0 R >>\nstartxref\n{}\n%%EOF\n", o1, o2, x).as_bytes());
    out
}

#[test]
fn pending_stream_with_one_filter_decodes() {
    let mut file = FileOptions::uncached().load(base()).unwrap();
    let s: Stream<()> = Stream::from_compressed((), b"414243>".to_vec(), vec![StreamFilter::ASCIIHexDecode]);
    let r = file.create(s).unwrap();
    let plain = r.get_ref().get_inner();

    // read before save, through the same open document
    let before = {
        let res = file.resolver();
        let st = res.get::<Stream<()>>(Ref::new(plain)).unwrap();
        Stream::data(&*st, &res).unwrap().to_vec()
    };
    // save and reload
    let bytes = file.save_to_vec_for_test();
    let re = FileOptions::uncached().load(bytes).unwrap();
    let res = re.resolver();
    let st = res.get::<Stream<()>>(Ref::new(plain)).unwrap();
    let after = Stream::data(&*st, &res).unwrap().to_vec();
    assert_eq!(after, b"ABC");
    assert_eq!(before, after);
}

trait SaveVec { fn save_to_vec_for_test(&mut self) -> Vec<u8>; }
impl SaveVec for pdf::file::File<Vec<u8>, pdf::file::NoCache, pdf::file::NoCache, pdf::file::NoLog> {
    fn save_to_vec_for_test(&mut self) -> Vec<u8> {
        let p = std::env::temp_dir().join(format!("mut_0152_{}.pdf", std::process::id()));
        self.save_to(&p).unwrap();
        let v = std::fs::read(&p).unwrap();
        let _ = std::fs::remove_file(&p);
        v
    }
}
