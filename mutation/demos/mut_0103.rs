// Survivor 0103: Encoding::to_primitive drops the first code of /Differences.
// (1) C15 (value level): an Encoding with /Differences keeps its code -> glyph-name map through write -> read.
// (2) C20: a page whose content uses an ExtGState with a /Font entry (typed Ref<Font>, cloned through the typed
//     Font writer) keeps the font's /Encoding /Differences when the page is imported into a new document.
use pdf::build::{CatalogBuilder, Importer, PageBuilder, PdfBuilder};
use pdf::encoding::{BaseEncoding, Encoding};
use pdf::file::FileOptions;
use pdf::object::{NoResolve, NoUpdate, Object, ObjectWrite, Resolve};

#[test]
fn encoding_differences_survive_write_read() {
    let mut v = Encoding { base: BaseEncoding::WinAnsiEncoding, differences: Default::default() };
    v.differences.insert(65, "Alpha".into());
    v.differences.insert(66, "Beta".into());
    v.differences.insert(200, "Gamma".into());
    let p1 = v.to_primitive(&mut NoUpdate).unwrap();
    let v2 = Encoding::from_primitive(p1.clone(), &NoResolve).unwrap();
    assert_eq!(v2.differences, v.differences, "code -> glyph name map changed in write -> read");
}

fn source_pdf() -> Vec<u8> {
    let objs: Vec<String> = vec![
        "<< /Type /Catalog /Pages 2 0 R >>".into(),
        "<< /Type /Pages /Kids [3 0 R] /Count 1 >>".into(),
        "<< /Type /Page /Parent 2 0 R /MediaBox [0 0 200 200] /Contents 4 0 R /Resources << /ExtGState << /GS1 6 0 R >> >> >>".into(),
        "<< /Length 8 >>\nstream\n/GS1 gs\n\nendstream".into(),
        "<< /Type /Font /Subtype /Type1 /BaseFont /Helvetica /Encoding << /Type /Encoding /BaseEncoding /WinAnsiEncoding /Differences [65 /Alpha /Beta 200 /Gamma] >> >>".into(),
        "<< /Type /ExtGState /Font [5 0 R 12] >>".into(),
    ];
    let mut out = b"%PDF-1.4\n".to_vec();
    let mut offs = vec![];
    for (i, o) in objs.iter().enumerate() {
        offs.push(out.len());
        out.extend_from_slice(format!("{} 0 obj\n{}\nendobj\n", i + 1, o).as_bytes());
    }
    let xref = out.len();
    out.extend_from_slice(format!("xref\n0 {}\n0000000000 65535 f \n", objs.len() + 1).as_bytes());
    for o in &offs {
        out.extend_from_slice(format!("{:010} 00000 n \n", o).as_bytes());
    }
    out.extend_from_slice(format!("trailer\n<< /Size {} /Root 1 0 R >>\nstartxref\n{}\n%%EOF\n", objs.len() + 1, xref).as_bytes());
    out
}

fn gs_font_differences(file: &pdf::file::File<Vec<u8>, pdf::file::NoCache, pdf::file::NoCache, pdf::file::NoLog>) -> Vec<(u32, String)> {
    let page = file.get_page(0).unwrap();
    let res = page.resources().unwrap();
    let gs = res.graphics_states.get("GS1").expect("GS1 present");
    let (font_ref, _size) = gs.font.expect("ExtGState has /Font");
    let font = file.resolver().get(font_ref).unwrap();
    let enc = font.encoding().expect("font has /Encoding");
    let mut d: Vec<(u32, String)> = enc.differences.iter().map(|(k, v)| (*k, v.as_str().to_string())).collect();
    d.sort();
    d
}

#[test]
fn imported_extgstate_font_keeps_differences() {
    let old = FileOptions::uncached().load(source_pdf()).unwrap();
    let want = gs_font_differences(&old);
    assert_eq!(want, vec![(65, "Alpha".to_string()), (66, "Beta".to_string()), (200, "Gamma".to_string())]);

    let mut builder = PdfBuilder::new(FileOptions::uncached());
    let mut pages = vec![];
    {
        let mut imp = Importer::new(old.resolver(), &mut builder.storage);
        let page = old.get_page(0).unwrap();
        pages.push(PageBuilder::clone_page(&page, &mut imp).unwrap());
        let _ = imp.finish();
    }
    let data = builder.build(CatalogBuilder::from_pages(pages)).unwrap();
    let newf = FileOptions::uncached().load(data).unwrap();
    assert_eq!(gs_font_differences(&newf), want, "font /Encoding /Differences changed by the import");
}
