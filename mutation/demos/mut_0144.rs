// C20: importing a page keeps, for every resource the page uses, the resource's content.
// The image uses /ColorSpace [/Indexed /DeviceRGB 1 <000000FFFFFF>]: the copy must carry an equal colour space
// (the 6-byte palette as a string; a stream is never a legal direct array element, PDF 32000 7.3.8).
use pdf::build::{CatalogBuilder, Importer, PageBuilder, PdfBuilder};
use pdf::file::FileOptions;
use pdf::object::{Resolve, XObject, ColorSpace};
use pdf::primitive::Primitive;

fn build(objs: &[(u32, String)]) -> Vec<u8> {
    let mut out = b"%PDF-1.7\n".to_vec();
    let max = objs.iter().map(|o| o.0).max().unwrap();
    let mut offs = vec![None; max as usize + 1];
    for (n, body) in objs {
        offs[*n as usize] = Some(out.len());
        out.extend_from_slice(format!("{} 0 obj\n{}\nendobj\n", n, body).as_bytes());
    }
    let xref = out.len();
    out.extend_from_slice(format!("xref\n0 {}\n", max + 1).as_bytes());
    for (i, o) in offs.iter().enumerate() {
        match o {
            Some(p) => out.extend_from_slice(format!("{:010} 00000 n \n", p).as_bytes()),
            None => out.extend_from_slice(format!("{:010} {:05} f \n", 0, if i == 0 { 65535 } else { 0 }).as_bytes()),
        }
    }
    out.extend_from_slice(format!("trailer\n<< /Size {} /Root 1 0 R >>\nstartxref\n{}\n%%EOF\n", max + 1, xref).as_bytes());
    out
}

fn stream(dict: &str, body: &str) -> String {
    format!("<< {} /Length {} >>\nstream\n{}\nendstream", dict, body.len(), body)
}

#[test]
fn import_keeps_small_indexed_palette_as_string() {
    let src = build(&[
        (1, "<< /Type /Catalog /Pages 2 0 R >>".into()),
        (2, "<< /Type /Pages /Kids [3 0 R] /Count 1 >>".into()),
        (3, "<< /Type /Page /Parent 2 0 R /MediaBox [0 0 10 10] /Resources << /XObject << /Im0 5 0 R >> >> /Contents 4 0 R >>".into()),
        (4, stream("", "q 2 0 0 2 0 0 cm /Im0 Do Q")),
        (5, stream("/Type /XObject /Subtype /Image /Width 2 /Height 2 /ColorSpace [/Indexed /DeviceRGB 1 <000000FFFFFF>] /BitsPerComponent 8", "\x00\x01\x01\x00")),
    ]);
    let old = FileOptions::uncached().load(src).unwrap();
    let mut builder = PdfBuilder::new(FileOptions::uncached());
    let mut pages = vec![];
    {
        let mut imp = Importer::new(old.resolver(), &mut builder.storage);
        let page = old.get_page(0).unwrap();
        pages.push(PageBuilder::clone_page(&page, &mut imp).unwrap());
        let _ = imp.finish();
    }
    let data = builder.build(CatalogBuilder::from_pages(pages)).unwrap();
    let newf = FileOptions::uncached().load(data).unwrap();
    let r = newf.resolver();
    let page = newf.get_page(0).unwrap();
    let im = *page.resources().unwrap().xobjects.get("Im0").expect("Im0");
    // raw form of the copied image dictionary
    let raw = r.resolve(im.get_inner()).expect("copied image object parses");
    let dict = match raw { Primitive::Stream(s) => s.info, o => panic!("{:?}", o) };
    let cs = dict.get("ColorSpace").expect("ColorSpace").clone().resolve(&r).unwrap().into_array().unwrap();
    assert_eq!(cs.len(), 4);
    match &cs[3] {
        Primitive::String(s) => assert_eq!(s.as_bytes(), &[0u8, 0, 0, 255, 255, 255]),
        o => panic!("palette of the copy is not the source's string: {}", o.get_debug_name()),
    }
    // typed view agrees
    match *r.get(im).unwrap() {
        XObject::Image(ref img) => match img.color_space {
            Some(ColorSpace::Indexed(_, hival, ref lookup)) => { assert_eq!(hival, 1); assert_eq!(&**lookup, &[0u8, 0, 0, 255, 255, 255]); }
            ref o => panic!("{:?}", o),
        },
        _ => panic!("not an image"),
    }
}
