// C20: importing a page keeps, for every resource the page uses, the resource's stream data.
// (also C09: a typed stream written through the updater reads back with the same decoded data)
// The image below uses /Filter [/ASCIIHexDecode /FlateDecode] with /DecodeParms [null << /Predictor 12 /Colors 3 /Columns 1 >>].
use pdf::build::{CatalogBuilder, Importer, PageBuilder, PdfBuilder};
use pdf::file::FileOptions;
use pdf::object::{Resolve, XObject};

fn build(objs: &[(u32, String)]) -> Vec<u8> {
    let mut out = b"%PDF-1.7\n".to_vec();
    let max = objs.iter().map(|o| o.0).max().unwrap();
    let mut offs = vec![None; max as usize + 1];
    for (n, body) in objs {
        offs[*n as usize] = Some(out.len());
        out.extend_from_slice(format!("{} 0 obj\n{}\nendobj\n", n, body).as_bytes());
    }
    let xref = out.len();
    out.extend_from_slice(format!("xref\n0 {}\n", max + 1).as_bytes());
    for (i, o) in offs.iter().enumerate() {
        match o {
            Some(p) => out.extend_from_slice(format!("{:010} 00000 n \n", p).as_bytes()),
            None => out.extend_from_slice(format!("{:010} {:05} f \n", 0, if i == 0 { 65535 } else { 0 }).as_bytes()),
        }
    }
    out.extend_from_slice(format!("trailer\n<< /Size {} /Root 1 0 R >>\nstartxref\n{}\n%%EOF\n", max + 1, xref).as_bytes());
    out
}

fn stream(dict: &str, body: &str) -> String {
    format!("<< {} /Length {} >>\nstream\n{}\nendstream", dict, body.len(), body)
}

fn image_data(file: &pdf::file::File<Vec<u8>, pdf::file::NoCache, pdf::file::NoCache, pdf::file::NoLog>) -> Vec<u8> {
    let r = file.resolver();
    let page = file.get_page(0).unwrap();
    let res = page.resources().unwrap();
    let im = *res.xobjects.get("Im0").expect("Im0");
    let x = r.get(im).unwrap();
    match *x {
        XObject::Image(ref img) => img.inner.data(&r).expect("image data decodes").to_vec(),
        _ => panic!("not an image"),
    }
}

#[test]
fn import_keeps_decode_parms() {
    // zlib (stored block) of the PNG-predicted rows [2, 1,2,3] [2, 1,1,1]  (filter type 2 = Up) -> RGB pixels (1,2,3) (2,3,4)
    let hex = "7801010800F7FF02010203020101010048000E>";
    let content = "q 2 0 0 2 0 0 cm /Im0 Do Q";
    let src = build(&[
        (1, "<< /Type /Catalog /Pages 2 0 R >>".into()),
        (2, "<< /Type /Pages /Kids [3 0 R] /Count 1 >>".into()),
        (3, "<< /Type /Page /Parent 2 0 R /MediaBox [0 0 10 10] /Resources << /XObject << /Im0 5 0 R >> >> /Contents 4 0 R >>".into()),
        (4, stream("", content)),
        (5, stream("/Type /XObject /Subtype /Image /Width 1 /Height 2 /ColorSpace /DeviceRGB /BitsPerComponent 8 \
                    /Filter [/ASCIIHexDecode /FlateDecode] /DecodeParms [null << /Predictor 12 /Colors 3 /Columns 1 >>]", hex)),
    ]);
    let old = FileOptions::uncached().load(src).unwrap();
    let want = image_data(&old);
    assert_eq!(want, vec![1u8, 2, 3, 2, 3, 4]);

    let mut builder = PdfBuilder::new(FileOptions::uncached());
    let mut pages = vec![];
    {
        let mut imp = Importer::new(old.resolver(), &mut builder.storage);
        let page = old.get_page(0).unwrap();
        pages.push(PageBuilder::clone_page(&page, &mut imp).unwrap());
        let _ = imp.finish();
    }
    let data = builder.build(CatalogBuilder::from_pages(pages)).unwrap();
    let newf = FileOptions::uncached().load(data).unwrap();
    assert_eq!(image_data(&newf), want);
}
