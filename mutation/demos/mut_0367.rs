// C06: a wrong password is rejected with an invalid-password error (through the public open path FileOptions::load / open).
use pdf::error::PdfError;
use pdf::file::FileOptions;

fn kind(e: &PdfError) -> String {
    match e {
        PdfError::InvalidPassword => "InvalidPassword".into(),
        PdfError::Try { source, .. } => kind(source),
        PdfError::Shared { source } => kind(source),
        PdfError::FromPrimitive { source, .. } => kind(source),
        PdfError::MissingEntry { typ, field } => format!("MissingEntry({}.{})", typ, field),
        e => format!("Other({:?})", e),
    }
}

#[test]
fn wrong_password_is_invalid_password() {
    let dir = concat!(env!("CARGO_MANIFEST_DIR"), "/../files/password_protected/");
    for name in ["passwords_rc4_rev2.pdf", "passwords_rc4_rev3.pdf", "passwords_aes_128.pdf", "passwords_aes_256.pdf", "passwords_aes_256_hardened.pdf"] {
        let data = std::fs::read(format!("{}{}", dir, name)).unwrap();
        // the right password opens the file
        assert!(FileOptions::uncached().password(b"userpassword").load(data.clone()).is_ok(), "{}", name);
        // a wrong one is rejected as InvalidPassword
        match FileOptions::uncached().password(b"definitely wrong").load(data.clone()) {
            Ok(_) => panic!("{}: opened with a wrong password", name),
            Err(e) => assert_eq!(kind(&e), "InvalidPassword", "{}", name),
        }
        match FileOptions::cached().password(b"definitely wrong").load(data) {
            Ok(_) => panic!("{}: opened with a wrong password", name),
            Err(e) => assert_eq!(kind(&e), "InvalidPassword", "{}", name),
        }
    }
}
