// C08: every operator of the operator table (here BI .. ID .. EI) parses to the operation the specification defines,
// operands (the image data) in order, and nothing leaks into the following operators.
use pdf::content::{parse_ops, Op};
use pdf::object::NoResolve;

#[test]
fn inline_image_data_and_following_ops() {
    let stream = b"q BI /W 4 /H 2 /BPC 8 /CS /G ID 01234567\nEI Q";
    let ops = parse_ops(stream, &NoResolve).unwrap();
    assert_eq!(ops.len(), 3, "ops: {:?}", ops);
    assert!(matches!(ops[0], Op::Save));
    match &ops[1] {
        Op::InlineImage { image } => {
            let data = image.inner.data(&NoResolve).unwrap();
            assert_eq!(&data[..], b"01234567");
        }
        o => panic!("unexpected op {:?}", o),
    }
    assert!(matches!(ops[2], Op::Restore));
}

// C01 side: a short content stream must give a value or an error, never a panic (the mutant underflows in seek_substr).
#[test]
fn short_inline_image_no_panic() {
    let r = parse_ops(b"BI ID\nEI", &NoResolve);
    println!("{:?}", r.as_ref().map(|v| v.len()));
}
