// C09: "before any save every read through the same open document already reflects each write" (stream data included).
// A stream written through the updater with /Filter /ASCIIHexDecode and already-encoded data must read back, through the
// same open document, with the decoded data.  (Also an inline image with a filter: its data is the decoded data.)
use pdf::file::FileOptions;
use pdf::object::{Resolve, Ref, Stream, Updater};
use pdf::enc::StreamFilter;
use pdf::content::{Content, Op};

fn build(objs: &[(u32, &str)]) -> Vec<u8> {
    let mut out = b"%PDF-1.7\n".to_vec();
    let max = objs.iter().map(|o| o.0).max().unwrap();
    let mut offs = vec![None; max as usize + 1];
    for (n, body) in objs {
        offs[*n as usize] = Some(out.len());
        out.extend_from_slice(format!("{} 0 obj\n{}\nendobj\n", n, body).as_bytes());
    }
    let xref = out.len();
    out.extend_from_slice(format!("xref\n0 {}\n", max + 1).as_bytes());
    for (i, o) in offs.iter().enumerate() {
        match o {
            Some(p) => out.extend_from_slice(format!("{:010} 00000 n \n", p).as_bytes()),
            None => out.extend_from_slice(format!("{:010} {:05} f \n", 0, if i == 0 { 65535 } else { 0 }).as_bytes()),
        }
    }
    out.extend_from_slice(format!("trailer\n<< /Size {} /Root 1 0 R >>\nstartxref\n{}\n%%EOF\n", max + 1, xref).as_bytes());
    out
}

#[test]
fn written_filtered_stream_reads_back_decoded_before_save() {
    let data = build(&[(1, "<< /Type /Catalog /Pages 2 0 R >>"), (2, "<< /Type /Pages /Kids [] /Count 0 >>")]);
    let mut file = FileOptions::uncached().load(data).unwrap();
    let s: Stream<()> = Stream::from_compressed((), b"48656C6C6F>".to_vec(), vec![StreamFilter::ASCIIHexDecode]);
    let rc = file.create(s).unwrap();
    let id = rc.get_ref().get_inner();
    let r = file.resolver();
    // the handle that create returned
    let s0: &Stream<()> = &*rc; assert_eq!(&*Stream::data(s0, &r).unwrap(), b"Hello");
    // a fresh typed load of the same reference from the open document (pending change)
    let back = r.get(Ref::<Stream<()>>::new(id)).unwrap();
    let s1: &Stream<()> = &*back; assert_eq!(&*Stream::data(s1, &r).unwrap(), b"Hello");
}

#[test]
fn inline_image_with_filter() {
    let data = build(&[(1, "<< /Type /Catalog /Pages 2 0 R >>"), (2, "<< /Type /Pages /Kids [] /Count 0 >>")]);
    let file = FileOptions::uncached().load(data).unwrap();
    let r = file.resolver();
    let ops = pdf::content::parse_ops(b"BI /W 1 /H 1 /BPC 8 /CS /G /F /AHx ID 41>\nEI\n", &r).unwrap();
    let mut seen = false;
    for op in ops {
        if let Op::InlineImage { image } = op {
            assert_eq!(&*image.inner.data(&r).unwrap(), b"A");
            seen = true;
        }
    }
    assert!(seen);
    let _ = std::marker::PhantomData::<Content>;
}
