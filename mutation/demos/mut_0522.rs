// mutant 0522: ColorSpace DeviceN reads its optional attributes dictionary from array index 3 (the tint
// function) instead of index 4.  A DeviceN space whose tint transform is a stream function (type 4 or 0,
// the usual case) then fails with UnexpectedPrimitive{expected Dictionary, found Stream}; because
// Page.resources / Resources.color_spaces are read eagerly, get_page() on a well-formed one-page file fails.
use pdf::file::FileOptions;
use pdf::object::{ColorSpace, Resolve};

fn build() -> Vec<u8> {
    let ps = "{ pop pop 0 0 0 0 }";
    let objs: Vec<String> = vec![
        "<< /Type /Catalog /Pages 2 0 R >>".into(),
        "<< /Type /Pages /Kids [3 0 R] /Count 1 >>".into(),
        "<< /Type /Page /Parent 2 0 R /MediaBox [0 0 100 100] /Resources << /ColorSpace << /CS0 [/DeviceN [/Cyan /Spot] /DeviceCMYK 4 0 R] /CS1 [/DeviceN [/Cyan /Spot] /DeviceCMYK 4 0 R << /Subtype /NChannel >>] >> >> >>".into(),
        format!("<< /FunctionType 4 /Domain [0 1 0 1] /Range [0 1 0 1 0 1 0 1] /Length {} >>\nstream\n{}\nendstream", ps.len(), ps),
    ];
    let mut out = b"%PDF-1.4\n".to_vec();
    let mut offs = vec![];
    for (i, o) in objs.iter().enumerate() {
        offs.push(out.len());
        out.extend_from_slice(format!("{} 0 obj\n{}\nendobj\n", i + 1, o).as_bytes());
    }
    let xref = out.len();
    out.extend_from_slice(format!("xref\n0 {}\n0000000000 65535 f \n", objs.len() + 1).as_bytes());
    for o in &offs { out.extend_from_slice(format!("{:010} 00000 n \n", o).as_bytes()); }
    out.extend_from_slice(format!("trailer\n<< /Size {} /Root 1 0 R >>\nstartxref\n{}\n%%EOF\n", objs.len() + 1, xref).as_bytes());
    out
}

#[test]
fn devicen_with_stream_tint_function() {
    let file = FileOptions::uncached().load(build()).expect("load");
    assert_eq!(file.num_pages(), 1);
    let page = file.get_page(0).expect("get_page(0) on a well-formed page tree");
    let res = page.resources().expect("resources");
    match res.color_spaces.get("CS0").expect("CS0") {
        ColorSpace::DeviceN { attr, .. } => assert!(attr.is_none(), "4-element DeviceN has no attributes dict, got {:?}", attr),
        o => panic!("CS0 = {:?}", o),
    }
    match res.color_spaces.get("CS1").expect("CS1") {
        ColorSpace::DeviceN { attr, .. } => assert!(attr.as_ref().map_or(false, |d| d.get("Subtype").is_some()), "attr = {:?}", attr),
        o => panic!("CS1 = {:?}", o),
    }
    let _ = file.resolver().resolve(pdf::object::PlainRef { id: 4, gen: 0 }).expect("obj 4");
}
