// C08: writing a content stream and parsing it returns the same sequence of operations.
use pdf::content::{serialize_ops, parse_ops, Op};
use pdf::object::{NoResolve, RenderingIntent};

#[test]
fn ri_roundtrip() {
    for (intent, name) in [
        (RenderingIntent::AbsoluteColorimetric, "AbsoluteColorimetric"),
        (RenderingIntent::RelativeColorimetric, "RelativeColorimetric"),
        (RenderingIntent::Perceptual, "Perceptual"),
        (RenderingIntent::Saturation, "Saturation"),
    ] {
        let bytes = serialize_ops(&[Op::RenderingIntent { intent }]).unwrap();
        let _ = name;
        let back = parse_ops(&bytes, &NoResolve).unwrap();
        assert_eq!(back.len(), 1);
        match back[0] {
            Op::RenderingIntent { intent: i2 } => assert_eq!(format!("{:?}", i2), format!("{:?}", intent)),
            ref o => panic!("unexpected op {:?}", o),
        }
    }
}
