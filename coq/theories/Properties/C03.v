(** Properties/C03.v — "Every spec-conformant spelling of an object parses to the value it denotes".
    Only statements; each closed by [exact] of a lemma proved elsewhere.  Layers:
      bytes —(Lex/LexProofs: white-space, comments, token boundaries)→ lexemes and string bodies
            —(Lex/NumProofs, Syn/NameProofs, Lex/StrProofs: every ISO way of writing a number, name, string)→ items
            —(Syn/ParserProofs: the object grammar incl. the `n g R` look-ahead)→ values. *)
From PdfV Require Import Base.Prelude Gen.Generated Lex.Lexer Lex.StrLexer Lex.LexProofs Lex.NumProofs Lex.StrProofs
  Syn.Prim Syn.Utf8 Syn.Parser Syn.Spells Syn.ParserProofs Syn.NameProofs Syn.RenderProofs Syn.StreamProofs.

(** the full statement (names of arbitrary bytes): refuted by C03_name_not_utf8_refuted below — finding C03-h *)
Definition C03_full_statement : Prop :=
  forall s e, name_enc s e -> name_word (SLASH :: e) s.

(** tokens: after any white-space (the six ISO white-space bytes) and comments (ended by CR or LF), the lexer returns
    the next regular token / name / delimiter token and stops exactly behind it *)
Theorem C03_token_regular : forall sp tok rest p,
  sep sp -> tok <> [] -> Forall (fun b => is_reg b = true) tok -> boundary rest ->
  next_word (mkLx p (sp ++ tok ++ rest)) = Ok (tok, p + lenN sp, mkLx (p + lenN sp + lenN tok) rest).
Proof. exact next_word_regular. Qed.
Print Assumptions C03_token_regular.

Theorem C03_token_name : forall sp enc rest p,
  sep sp -> Forall (fun b => is_reg b = true) enc -> boundary rest ->
  next_word (mkLx p (sp ++ (SLASH :: enc) ++ rest)) = Ok (SLASH :: enc, p + lenN sp, mkLx (p + lenN sp + 1 + lenN enc) rest).
Proof. exact next_word_name. Qed.
Print Assumptions C03_token_name.

Theorem C03_white_space_is_iso : forall b, b < 256 -> is_ws b = memN b iso_ws.
Proof. exact is_ws_iso. Qed.
Theorem C03_delimiters_are_iso : forall b, b < 256 -> is_delim b = memN b iso_delims.
Proof. exact is_delim_iso. Qed.

(** numbers *)
Theorem C03_integer : forall sg ds, sign_ok sg -> ds <> [] -> all_digits ds = true ->
  let v := Z.of_N (N_of_dec ds) in
  let z := if match sg with [c] => c =? MINUS | _ => false end then Z.opp v else v in
  (-2147483648 <= z <= 2147483647)%Z -> int_word (sg ++ ds) z.
Proof. exact int_spelling. Qed.
Print Assumptions C03_integer.

Theorem C03_real : forall sg ip fp, sign_ok sg -> all_digits ip = true -> all_digits fp = true -> ip ++ fp <> [] ->
  real_word (sg ++ ip ++ DOT :: fp).
Proof. exact real_spelling. Qed.
Print Assumptions C03_real.

(** names with #xx escapes (valid UTF-8 only: C03-h) *)
Theorem C03_name : forall s e, name_enc s e -> is_utf8 s = true -> name_word (SLASH :: e) s.
Proof. exact name_spelling. Qed.
Print Assumptions C03_name.

Theorem C03_name_not_utf8_refuted : name_enc [255] [HASH; 102; 102] /\ decode_name [HASH; 102; 102] = Err E_PARSE.
Proof. exact NameProofs.C03_name_not_utf8_refuted. Qed.

(** literal strings: escapes, octal codes (1–3 digits), line continuations, balanced parentheses, raw end-of-lines *)
Theorem C03_string : forall out text rest,
  spell_run (RPAREN :: rest) 0 out text 0 ->
  string_lex (text ++ RPAREN :: rest) = Ok (out, lenN (text ++ [RPAREN])).
Proof. exact string_lex_spelled. Qed.
Print Assumptions C03_string.

(** hexadecimal strings: white-space anywhere, either case, odd number of digits *)
Theorem C03_hexstring : forall out text rest, hex_run out text ->
  hexstring_lex (text ++ hexstr_end :: rest) = Ok (out, lenN (text ++ [hexstr_end])).
Proof. exact hexstring_lex_spelled. Qed.
Print Assumptions C03_hexstring.

(** values: every token-level spelling parses to the denoted value and the parser stops exactly behind it *)
Theorem C03_value : forall v its, spells v its ->
  forall fuel R cx depth s k s_end,
    (length its <= fuel)%nat -> vdepth v <= depth ->
    Lexes s (its ++ k) s_end -> follow_ok k s_end -> nostream_at k s_end ->
    exists s1, parse_fuel fuel R cx F_ANY depth s = Ok (v, s1) /\ Lexes s1 k s_end.
Proof. exact parse_spelled. Qed.
Print Assumptions C03_value.

(** … on bytes: separators and token boundaries as the standard allows, nesting up to MAX_DEPTH *)
Theorem C03_value_bytes : forall v its text tl R cx p,
  spells v its -> vdepth v <= MAX_DEPTH -> renders its text tl ->
  forall p', p' + lenN tl = p + lenN text ->
  follow_ok [] (mkLx p' tl) -> nostream_at [] (mkLx p' tl) ->
  parse_ctx R cx F_ANY MAX_DEPTH (mkLx p text) = Ok (v, mkLx p' tl).
Proof. exact parse_rendered. Qed.
Print Assumptions C03_value_bytes.

(** sequences: each parse consumes exactly its own text *)
Theorem C03_sequence : forall vs body, spells_list vs body ->
  forall fuel R cx depth s k s_end,
    (length body <= fuel)%nat -> ldepth vs <= depth ->
    Lexes s (body ++ k) s_end -> follow_ok k s_end -> nostream_at k s_end -> notR_at k s_end ->
    exists s1, parse_n (length vs) fuel R cx depth s = Ok (vs, s1) /\ Lexes s1 k s_end.
Proof. exact parse_sequence. Qed.
Print Assumptions C03_sequence.

(** indirect objects  n g obj … endobj  (strict and tolerant options) *)
Theorem C03_indirect : forall v its a b id gen, spells v its ->
  parse_u64 a = Ok id -> parse_u64 b = Ok gen ->
  forall R allow s k s_end,
    vdepth v <= MAX_DEPTH ->
    Lexes s (IWord a :: IWord b :: IWord kw_obj :: its ++ IWord kw_endobj :: k) s_end ->
    exists s1, parse_indirect_object R allow F_ANY s = Ok (id, gen, v, s1) /\ Lexes s1 k s_end.
Proof. exact parse_indirect_spelled. Qed.
Print Assumptions C03_indirect.

(** streams: the dictionary, the keyword `stream`, LF or CR LF, exactly /Length bytes of data, `endstream` *)
Theorem C03_stream : forall d body, spells_dict d body -> NoDup (keys d) ->
  forall fuel R id gen depth s s2 s3 s4 eol data rest,
    (length body + 2 <= fuel)%nat -> 1 + ddepth d <= depth ->
    Lexes s (IWord kw_dict_open :: body ++ [IWord kw_dict_close]) s2 ->
    next s2 = Ok (kw_stream, s3) -> stream_eol eol -> lrest s3 = eol ++ data ++ rest ->
    dict_get key_Length d = Some (PInt (Z.of_N (lenN data))) ->
    next_expect (mkLx (lpos s3 + lenN eol + lenN data) rest) kw_endstream = Ok s4 ->
    parse_fuel fuel R (Some (id, gen)) F_ANY depth s = Ok (PStream d id gen (lpos s3 + lenN eol) (lenN data), s4).
Proof. exact parse_stream_spelled. Qed.
Print Assumptions C03_stream.

Theorem C03_indirect_stream : forall d body a b id gen,
  spells_dict d body -> NoDup (keys d) -> parse_u64 a = Ok id -> parse_u64 b = Ok gen ->
  forall R allow s s2 s3 s4 s5 eol data rest,
    1 + ddepth d <= MAX_DEPTH ->
    Lexes s (IWord a :: IWord b :: IWord kw_obj :: IWord kw_dict_open :: body ++ [IWord kw_dict_close]) s2 ->
    next s2 = Ok (kw_stream, s3) -> stream_eol eol -> lrest s3 = eol ++ data ++ rest ->
    dict_get key_Length d = Some (PInt (Z.of_N (lenN data))) ->
    next_expect (mkLx (lpos s3 + lenN eol + lenN data) rest) kw_endstream = Ok s4 ->
    next_expect s4 kw_endobj = Ok s5 ->
    parse_indirect_object R allow F_ANY s = Ok (id, gen, PStream d id gen (lpos s3 + lenN eol) (lenN data), s5).
Proof. exact parse_indirect_stream_spelled. Qed.
Print Assumptions C03_indirect_stream.

(** MAX_DEPTH as generated from the source supports the nesting the property asks for *)
Theorem C03_depth_supported : 20 <= MAX_DEPTH.
Proof. vm_compute. discriminate. Qed.

(** non-vacuity: a concrete text meets the premises of C03_value_bytes *)
Example C03_nonvacuous :
  let its := [IWord kw_arr_open; IWord [49]; IWord [SLASH; 65]; IStr [120]; IWord kw_arr_close] in
  let text := [91; 49; 32; 37; 99; 13; 47; 65; 40; 120; 41; 93] in     (* "[1 %c\r/A(x)]" *)
  spells (PArr [PInt 1; PName [65]; PStr [120]]) its /\ renders its text [] /\
  parse no_resolve F_ANY text = Ok (PArr [PInt 1; PName [65]; PStr [120]]).
Proof.
  split; [|split].
  - apply (sp_arr [PInt 1; PName [65]; PStr [120]] [IWord [49]; IWord [SLASH; 65]; IStr [120]]).
    apply (sl_cons (PInt 1) _ [IWord [49]] _). { apply sp_int. split; reflexivity. }
    apply (sl_cons (PName [65]) _ [IWord [SLASH; 65]] _). { apply sp_name. exists [65]. split; reflexivity. }
    apply (sl_cons (PStr [120]) _ [IStr [120]] []). { apply sp_str. }
    constructor.
  - apply (rn_delim1 [] 91 _ _ _); try reflexivity; [constructor|].
    apply (rn_reg [] [49] _ ([32; 37; 99; 13; 47; 65; 40; 120; 41; 93]) _); try reflexivity;
      [constructor|discriminate|repeat constructor|].
    apply (rn_name [32; 37; 99; 13] [65] _ ([40; 120; 41; 93]) _); try reflexivity.
    { apply sep_ws; [reflexivity|]. apply (sep_comment [99] 13 []); [repeat constructor|reflexivity|constructor]. }
    { repeat constructor. }
    apply (rn_str [] [120; 41] [120] _ [93] _); [constructor|reflexivity|].
    apply (rn_delim1 [] 93 _ [] _); try reflexivity; [constructor|]. constructor.
  - vm_compute. reflexivity.
Qed.
