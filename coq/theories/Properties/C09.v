(** Properties/C09.v — "A reload sees exactly the saved modifications and nothing else changes".
    Only statements, each closed by [exact] of a lemma proved in Storage/Proofs.v.
    The object model is the shared one ([PdfV.Syn.Prim.prim]); where a theorem is about what a reload reads, the
    serialiser is [PdfV.Syn.Serialize.ser] and the reader [PdfV.Syn.Parser.parse_indirect_object] (as
    [Storage.Syntax.parse_obj]) and their round trip is the C04 theorem, not a premise.  Elsewhere [ser], [parse_obj],
    [member] stay quantified (the theorems hold for any). *)
From PdfV Require Import Base.Prelude Storage.Prim Storage.Model Storage.Proofs Storage.Syntax Storage.Run Storage.Tables.
From PdfV Require Import Gen.Generated Storage.Reload Storage.LoadProofs.
From PdfV Require Syn.Serialize Syn.Parser Syn.Spells Syn.SerProofs.

(** Before any save, every read through the same open document already reflects each write: the reference
    handed back names the caller's object (same number — also for objects stored in object streams), reads of
    it return the value written whatever the generation asked for, and reads of every other number are
    unchanged (as long as the written number is not the container of an object stream). *)
Theorem C09_read_your_writes : forall parse_obj member,
  (forall s old v s' r, update s old v = Ok (s', r) ->
     fst r = fst old /\ (forall f g, resolve_ref parse_obj member f s' (fst old, g) = Ok v) /\
     (not_container s (fst old) -> forall f r0, fst r0 <> fst old ->
        resolve_ref parse_obj member f s' r0 = resolve_ref parse_obj member f s r0) /\
     backend s' = backend s /\ refs s' = refs s /\ cache s' = []) /\
  (forall s v s' r, create s v = (s', r) ->
     r = (lenN (refs s), 0) /\ (forall f g, resolve_ref parse_obj member f s' (fst r, g) = Ok v) /\
     (not_container s (fst r) -> forall f r0, fst r0 <> fst r ->
        resolve_ref parse_obj member f s' r0 = resolve_ref parse_obj member f s r0) /\
     backend s' = backend s /\ cache s' = []) /\
  (forall s s' r, promise s = (s', r) ->
     r = (lenN (refs s), 0) /\ changes s' = changes s /\ backend s' = backend s /\
     (not_container s (fst r) -> forall f r0, fst r0 <> fst r ->
        resolve_ref parse_obj member f s' r0 = resolve_ref parse_obj member f s r0)).
Proof.
  intros parse_obj member. split; [|split].
  - exact (update_ryw parse_obj member).
  - exact (create_ryw parse_obj member).
  - exact (promise_frame parse_obj member).
Qed.
Print Assumptions C09_read_your_writes.

(** create of a value whose conversion to a primitive itself creates an object through the same updater (PageRc::create with
    direct contents or resources; here the harness type Nested, whose to_primitive creates the child and yields << /Child c >>):
    [create_with] reserves the parent's number before the conversion runs, so parent and child get two distinct fresh numbers,
    each reads back as its own value, and every other number reads as before.  [create] on a Primitive is the instance with
    the identity conversion. *)
Theorem C09_create_nested : forall parse_obj member s v s' rp rc,
  create_nested s v = Ok (s', (rp, rc)) ->
  rp = (lenN (refs s), 0) /\ rc = (lenN (refs s) + 1, 0) /\ fst rp <> fst rc /\
  (forall f g, resolve_ref parse_obj member f s' (fst rc, g) = Ok v) /\
  (forall f g, resolve_ref parse_obj member f s' (fst rp, g) = Ok (PDict [(k_Child, PRef (fst rc) (snd rc))])) /\
  (not_container s (fst rp) -> not_container s (fst rc) -> forall f r0, fst r0 <> fst rp -> fst r0 <> fst rc ->
     resolve_ref parse_obj member f s' r0 = resolve_ref parse_obj member f s r0) /\
  backend s' = backend s /\ cache s' = [] /\ lenN (refs s') = lenN (refs s) + 2.
Proof. exact create_nested_ryw. Qed.
Print Assumptions C09_create_nested.

(** … for ANY typed value: Updater::create where the value's ObjectWrite::to_primitive is an arbitrary conservative program over
    the storage (it may allocate and write what it allocated, to any depth — [C09_conservative_closed]): the reference handed out
    is the number reserved before the conversion ran, it reads back as the converted value, every number that existed before
    reads as before, the bytes are untouched. *)
Theorem C09_create_with : forall parse_obj member s conv s' r,
  conservative conv -> create_with s conv = Ok (s', r) ->
  r = (lenN (refs s), 0) /\
  (exists s2 p, conv (mkSt (refs s ++ [XPromised]) (changes s) (backend s) (start s) [] (cached s)) = Ok (s2, p) /\
     (forall f g, resolve_ref parse_obj member f s' (fst r, g) = Ok p) /\
     lenN (refs s) < lenN (refs s') /\ refs s' = refs s2) /\
  ((forall i sid idx, i < lenN (refs s) -> nthN (refs s) i = Some (XStream sid idx) -> sid < lenN (refs s)) ->
     forall f r0, fst r0 < lenN (refs s) -> resolve_ref parse_obj member f s' r0 = resolve_ref parse_obj member f s r0) /\
  backend s' = backend s.
Proof. intros parse_obj member. exact (create_with_ryw parse_obj member). Qed.
Print Assumptions C09_create_with.

Theorem C09_conservative_closed : (forall conv (k : N * N -> prim), conservative conv -> conservative (fun s => do r <- create_with s conv; Ok (fst r, k (snd r)))) /\
  (forall v, conservative (nested_conv v)) /\ (forall v, conservative (fun s => Ok (s, v))).
Proof.
  split; [exact create_with_conservative|]. split; [exact nested_conv_conservative|].
  intros v s1 s2 p H. inversion H; subst. split; [exists []; rewrite app_nil_r; reflexivity|]. repeat split.
Qed.
Print Assumptions C09_conservative_closed.

Theorem C09_create_is_create_with : forall s v, create_with s (fun s1 => Ok (s1, v)) = Ok (create s v).
Proof. exact create_is_create_with. Qed.
Print Assumptions C09_create_is_create_with.

Example C09_create_nested_example :
  match create_nested (mkSt [XFree 0 65535; XRaw 9 0] [] [] 0 [] false) (PInt 7) with
  | Ok (s', (p, c)) => p = (2, 0) /\ c = (3, 0) /\ clookup (changes s') 3 = Some (PInt 7, 0)
  | _ => False
  end.
Proof. vm_compute. repeat split. Qed.

(** The object cache is invisible: a typed get returns what resolve returns, and create / update / save
    start from an empty cache. *)
Theorem C09_get_coherent : forall parse_obj member s r s' v,
  cache_ok parse_obj member s -> get parse_obj member s r = (s', v) ->
  v = resolve parse_obj member s r /\ cache_ok parse_obj member s' /\ refs s' = refs s /\ changes s' = changes s /\
  backend s' = backend s /\ (forall r0, resolve parse_obj member s' r0 = resolve parse_obj member s r0).
Proof. exact get_coherent. Qed.
Print Assumptions C09_get_coherent.

Theorem C09_byte_len_fits : forall n, n < 2 ^ 64 -> n < 256 ^ byte_len n /\ byte_len n <= 8 /\ 1 <= byte_len n.
Proof. exact byte_len_fits. Qed.
Print Assumptions C09_byte_len_fits.

(** … and is minimal at every power of 256 (finite: the seven boundaries of a u64, computed): 256^k - 1 needs k bytes, 256^k and
    256^k + 1 need k + 1. *)
Theorem C09_byte_len_boundaries : forallb (fun k => (byte_len (256 ^ k - 1) =? k) && (byte_len (256 ^ k) =? k + 1) && (byte_len (256 ^ k + 1) =? k + 1))
          [1; 2; 3; 4; 5; 6; 7] = true /\ byte_len 0 = 1 /\ byte_len 1 = 1 /\ byte_len (2 ^ 64 - 1) = 8.
Proof. exact byte_len_boundaries. Qed.
Print Assumptions C09_byte_len_boundaries.

(** The cross-reference stream written by save decodes (parse_xref_section_from_stream, /W [1 a b],
    /Index [0 n]) to exactly the table that was written: every entry, in order, nothing left over. *)
Theorem C09_xref_roundtrip : forall es aw bw data,
  table_in_range es -> write_stream es (lenN es) = Ok (aw, bw, data) ->
  read_section 0 (lenN es) 1 aw bw data = Ok ((0, es), []) /\ aw <= 8 /\ bw <= 8 /\ lenN data = lenN es * (1 + aw + bw).
Proof. exact write_stream_roundtrip. Qed.
Print Assumptions C09_xref_roundtrip.

(** The bytes of the previous revision remain an unmodified prefix (successful or failed save). *)
Theorem C09_prefix : forall ser s tr s' tr' fl,
  save ser s tr = Ok (s', tr', fl) -> exists ext, backend s' = backend s ++ ext.
Proof. exact save_prefix. Qed.
Print Assumptions C09_prefix.

(** What a successful save leaves in the buffer and in the table. *)
Theorem C09_save_layout : forall ser s tr s' tr',
  wf_st s -> save ser s tr = Ok (s', tr', None) ->
  let s1 := save_pre s tr in
  (forall id p g, clookup (changes s1) id = Some (p, g) ->
     exists body pre post, ser p = Ok body /\ backend s' = pre ++ obj_bytes id g body ++ post /\
                           start s <= lenN pre /\ nthN (refs s') id = Some (XRaw (lenN pre - start s) g)) /\
  (forall i, clookup (changes s1) i = None -> i < lenN (refs s1) -> nthN (refs s') i = nthN (refs s1) i) /\
  lenN (refs s') = lenN (refs s1) + 1 /\
  (exists xpos aw bw data xd xs,
     write_stream (refs s') (lenN (refs s')) = Ok (aw, bw, data) /\
     nthN (refs s') (lenN (refs s1)) = Some (XRaw xpos 0) /\
     ser (PStreamData xd data) = Ok xs /\
     (exists pre, backend s' = pre ++ obj_header (lenN (refs s1)) 0 ++ xs ++ kw_endobj_nl ++ startxref_tail xpos /\
                  lenN pre = start s + xpos)) /\
  start s' = start s /\ cache s' = [].
Proof. exact save_layout. Qed.
Print Assumptions C09_save_layout.

(** The object framing of save is read back by the parser: `id gen obj\n` ++ serialize(v) ++ `\nendobj\n`, wherever
    it sits in the buffer and whatever follows, parses (parse_indirect_object, strict) to (id, gen, v) for every value
    of C04's storable domain.  This was the oracle premise [parse_ser] of C09_reload; it is now a theorem — the
    composition of C04 ([PdfV.Syn.SerProofs.ser_spells]) with C03 ([parse_rendered]) on the framing. *)
Theorem C09_parse_ser : forall pre id g v post,
  SerProofs.storable v -> Spells.vdepth v <= MAX_DEPTH -> id < 2 ^ 64 -> g < 2 ^ 64 ->
  forall body, Serialize.ser v = Ok body -> parse_obj (pre ++ obj_bytes id g body ++ post) (lenN pre) = Ok (id, g, v).
Proof. exact parse_obj_framed. Qed.
Print Assumptions C09_parse_ser.

(** Reload: a state over the saved bytes whose table is the saved table (C09_xref_roundtrip, C09_load_table) resolves
    every written reference — the very number the caller used, any generation — to the last value written.  No premise
    about the parser: the serialiser is [Syn.Serialize.ser], the reader [Syn.Parser.parse_indirect_object]
    ([Storage.Syntax.parse_obj]), the values those of C04's [storable] within the parser's nesting limit. *)
Theorem C09_reload : forall member s tr s' tr' s3,
  wf_st s -> save Serialize.ser s tr = Ok (s', tr', None) ->
  changes s3 = [] -> backend s3 = backend s' -> start s3 = start s ->
  (forall i, i < lenN (refs s') -> nthN (refs s3) i = nthN (refs s') i) ->
  forall id p g g', clookup (changes (save_pre s tr)) id = Some (p, g) ->
    SerProofs.storable p -> Spells.vdepth p <= MAX_DEPTH -> id < 2 ^ 64 -> g < 2 ^ 64 ->
    resolve parse_obj member s3 (id, g') = Ok p.
Proof. exact reload_sees_storable. Qed.
Print Assumptions C09_reload.

(** ... a written stream (pending data, a dictionary of the storable domain whose /Length is the direct byte count)
    to a stream with the same dictionary whose data, read from the saved bytes, is the data written. *)
Theorem C09_reload_stream : forall member s tr s' tr' s3,
  wf_st s -> save Serialize.ser s tr = Ok (s', tr', None) ->
  changes s3 = [] -> backend s3 = backend s' -> start s3 = start s ->
  (forall i, i < lenN (refs s') -> nthN (refs s3) i = nthN (refs s') i) ->
  forall id d data g g', clookup (changes (save_pre s tr)) id = Some (PStreamData d data, g) ->
    SerProofs.storable (PDict d) -> Spells.vdepth (PDict d) <= MAX_DEPTH ->
    dict_get Parser.key_Length d = Some (PInt (Z.of_N (lenN data))) -> id < 2 ^ 64 -> g < 2 ^ 64 ->
    exists st, resolve parse_obj member s3 (id, g') = Ok (PStream d id g st (lenN data)) /\
               raw_data (backend s3) (PStream d id g st (lenN data)) = Some data.
Proof. exact reload_sees_stream. Qed.
Print Assumptions C09_reload_stream.

(** The reload glue.  `startxref`: on a file that ends with the trailer save writes, locate_xref_offset finds the
    offset written there (the last `startxref`, the digits after it). *)
Theorem C09_locate_xref : forall pre xpos, locate_xref_offset (pre ++ startxref_tail xpos) = Ok xpos.
Proof. exact locate_xref_offset_tail. Qed.
Print Assumptions C09_locate_xref.

(** "Reloaded table = saved table": FileOptions::load on the bytes of a successful save — locate the header and
    `startxref`, parse the cross-reference stream object at that offset with the parser model, look up /Type /Size /W
    /Index, decode the rows, merge the section into XRefTable::new(/Size), follow /Prev (absent) — succeeds, and the
    loaded state is over the saved bytes, without pending changes, with the same header offset, and its table agrees
    with the saved table on every saved entry.  This is the hypothesis about [s3] in C09_reload, C09_reload_stream and
    C09_reload_untouched.  Side conditions: no /Prev in the trailer (an older revision may override compressed entries:
    C02's finding), table and file below the u64 / MAX_ID limits, the state's header offset is the one
    locate_start_offset finds. *)
Theorem C09_load_table : forall read_classic s tr s' tr' c,
  wf_st s -> save Serialize.ser s tr = Ok (s', tr', None) -> t_prev tr = None ->
  lenN (refs s) < 999998 -> table_in_range (refs s') ->
  Forall wf_bytes (t_id tr) -> fst (t_root tr) < 2 ^ 64 -> snd (t_root tr) < 2 ^ 64 ->
  locate_start_offset (backend s') = Ok (start s) ->
  exists s3 td, load parse_obj read_classic (backend s') c = Ok (s3, td) /\
    changes s3 = [] /\ backend s3 = backend s' /\ start s3 = start s /\
    (forall i, i < lenN (refs s') -> nthN (refs s3) i = nthN (refs s') i) /\
    dget td k_Size = Some (PInt (Z.of_N (lenN (refs s) + 2))).
Proof. exact load_saved. Qed.
Print Assumptions C09_load_table.

(** ... and every untouched directly stored object to its previous value. *)
Theorem C09_reload_untouched : forall ser parse_obj member s tr s' tr' s3,
  (forall b ext pos v, parse_obj b pos = Ok v -> parse_obj (b ++ ext) pos = Ok v) ->
  wf_st s -> save ser s tr = Ok (s', tr', None) ->
  changes s3 = [] -> backend s3 = backend s' -> start s3 = start s ->
  (forall i, i < lenN (refs s') -> nthN (refs s3) i = nthN (refs s') i) ->
  forall i g pos gen v, clookup (changes (save_pre s tr)) i = None -> nthN (refs s) i = Some (XRaw pos gen) ->
    parse_obj (backend s) (start s + pos) = Ok v ->
    resolve parse_obj member s3 (i, g) = Ok (snd v).
Proof. exact reload_keeps_untouched. Qed.
Print Assumptions C09_reload_untouched.

(** A failed save can be retried: buffer untouched, all pending values kept, table length restored, no
    entry left Promised by the save, unwritten entries unchanged, state well-formed. *)
Theorem C09_failed_save_recovers : forall ser s tr s' tr' e,
  wf_st s -> save ser s tr = Ok (s', tr', Some e) ->
  let s1 := save_pre s tr in
  backend s' = backend s /\ changes s' = changes s1 /\ lenN (refs s') = lenN (refs s1) /\ tr' = tr /\
  (forall i, clookup (changes s1) i = None -> nthN (refs s') i = nthN (refs s1) i) /\
  (forall i x, nthN (refs s') i = Some x -> nthN (refs s1) i = Some x \/ exists p g, x = XRaw p g) /\
  wf_st s'.
Proof. exact failed_save_recovers. Qed.
Print Assumptions C09_failed_save_recovers.

(** Several saves in a row: a saved state is well-formed again (so every theorem above applies to the next
    save), and each save strictly extends the buffer. *)
Theorem C09_second_save : forall ser s tr s' tr',
  wf_st s -> save ser s tr = Ok (s', tr', None) -> wf_st s' /\ backend s' <> backend s.
Proof. exact save_wf. Qed.
Print Assumptions C09_second_save.

Theorem C09_wf_preserved : forall s,
  wf_st s ->
  (forall v s' r, create s v = (s', r) -> wf_st s') /\
  (forall s' r, promise s = (s', r) -> wf_st s') /\
  (forall old v s' r, update s old v = Ok (s', r) -> wf_st s').
Proof.
  intros s H. split; [|split].
  - intros v s' r E. exact (create_wf Serialize.ser s v s' r H E).
  - intros s' r E. exact (promise_wf s s' r H E).
  - intros old v s' r E. first [exact (update_wf s old v s' r H E)|exact (update_wf Serialize.ser s old v s' r H E)].
Qed.
Print Assumptions C09_wf_preserved.

(** The full statement — "every other object reads as before" without the container side condition — is
    false of any faithful model: writing the container of an object stream changes what its members read as. *)
Definition C09_full_statement : Prop :=
  forall parse_obj member s old v s' r, update s old v = Ok (s', r) ->
    forall f r0, fst r0 <> fst old -> resolve_ref parse_obj member f s' r0 = resolve_ref parse_obj member f s r0.

Lemma C09_container_update_refuted : ~ C09_full_statement.
Proof.
  intros H.
  pose (s := mkSt [XStream 1 0; XRaw 0 0] [] [] 0 [] false).
  specialize (H (fun _ _ => Ok (0, 0, PNull)) (fun _ c _ => Ok c) s (1, 0) (PInt 1)
                (mkSt [XStream 1 0; XRaw 0 0] [(1, (PInt 1, 0))] [] 0 [] false) (1, 0) eq_refl 2%nat (0, 0)).
  cbn in H. specialize (H ltac:(discriminate)). discriminate.
Qed.

(** non-vacuity: a concrete well-formed state on which save succeeds (concrete serialiser), and on which the
    premises of C09_reload are met by the concrete reader *)
Example C09_example_state : st :=
  mkSt [XFree 0 65535; XRaw 9 0; XFree 0 65535] [(1, (PDict [([65], PInt 7)], 0))] [37; 80; 68; 70; 45; 49; 46; 55; 10] 0 [] false.
Example C09_example_wf : wf_st C09_example_state.
Proof.
  unfold wf_st, C09_example_state. cbn. split; [constructor; [intros []|constructor]|].
  split; [intros i [H|[]]; subst; reflexivity|discriminate].
Qed.
Example C09_example_save :
  match save Serialize.ser C09_example_state (mkTrailer 0 None (1, 0) None []) with
  | Ok (s', _, None) => resolve parse_obj member_c (mkSt (refs s') [] (backend s') 0 [] false) (1, 5) = Ok (PDict [([65], PInt 7)])
  | _ => False
  end.
Proof. vm_compute. reflexivity. Qed.
Example C09_example_failed_save :
  match save Serialize.ser (mkSt (refs C09_example_state) [(1, (PStream [] 1 0 0 1, 0))] (backend C09_example_state) 0 [] false)
             (mkTrailer 0 None (1, 0) None []) with
  | Ok (_, _, Some _) => True
  | _ => False
  end.
Proof. vm_compute. exact I. Qed.
