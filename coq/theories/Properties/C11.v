(** Properties/C11.v — "An object's value does not depend on how it is stored". *)
From PdfV Require Import Base.Prelude Gen.Generated Lex.Lexer Lex.LexProofs Syn.Prim Syn.Parser Syn.Spells Syn.ParserProofs Syn.RenderProofs Syn.StreamProofs
  Codec.Model Codec.Dispatch ObjStm.Model ObjStm.Proofs ObjStm.Filtered.

(** compressed storage: for every object stream whose header lists the members' offsets, member i — written in any
    conforming spelling, at any position (first, middle, last), followed by any white-space or none — resolves to the value
    its text denotes … *)
Theorem C11_member : forall R head texts i v its body ws_tail n,
  header_offsets n (mkLx 0 (head ++ concat texts)) = Ok (offs_of texts 0) ->
  nth_error texts i = Some (body ++ ws_tail) ->
  spells v its -> vdepth v <= MAX_DEPTH -> renders its (body ++ ws_tail) ws_tail ->
  Forall (fun b => is_ws b = true) ws_tail ->
  lenN (head ++ concat texts) < USIZE ->
  resolve_member R F_ANY (lenN head) (N.of_nat n) (head ++ concat texts) (N.of_nat i) = Ok v.
Proof. exact member_resolves. Qed.
Print Assumptions C11_member.

(** … which is the value the same text gives as an ordinary indirect object (C03_indirect) *)
Theorem C11_direct_twin : forall v its a b id gen, spells v its ->
  parse_u64 a = Ok id -> parse_u64 b = Ok gen ->
  forall R allow s k s_end,
    vdepth v <= MAX_DEPTH ->
    Lexes s (IWord a :: IWord b :: IWord kw_obj :: its ++ IWord kw_endobj :: k) s_end ->
    exists s1, parse_indirect_object R allow F_ANY s = Ok (id, gen, v, s1) /\ Lexes s1 k s_end.
Proof. exact parse_indirect_spelled. Qed.
Print Assumptions C11_direct_twin.

Theorem C11_member_slice : forall head texts i t,
  nth_error texts i = Some t ->
  lenN (head ++ concat texts) < USIZE ->
  let data := head ++ concat texts in
  exists st en, object_slice (lenN head) (offs_of texts 0) (lenN data) (N.of_nat i) = Ok (st, en) /\
    st <= en /\ en <= lenN data /\ take (en - st) (drop st data) = t.
Proof. exact member_slice. Qed.
Print Assumptions C11_member_slice.

Theorem C11_header : forall pairs offs,
  Forall2 (fun p o => (exists n, parse_u64 (fst p) = Ok n) /\ parse_u64 (snd p) = Ok o) pairs offs ->
  forall s k s_end, Lexes s (header_items pairs ++ k) s_end ->
  header_offsets (length pairs) s = Ok offs.
Proof. exact header_offsets_ok. Qed.
Print Assumptions C11_header.

(** second sentence: a stream's data window is the same whether /Length is a direct integer or a reference that the resolver —
    asked for an integer — resolves to that integer (the referenced integer object may be stored either way: C11_member and
    C11_direct_twin give the same value for both).  In both files the window is exactly the bytes [data] behind the end-of-line. *)
Theorem C11_stream_length : forall d1 body1 d2 body2 a b id gen,
  spells_dict d1 body1 -> NoDup (keys d1) -> spells_dict d2 body2 -> NoDup (keys d2) ->
  parse_u64 a = Ok id -> parse_u64 b = Ok gen ->
  forall R allow i g data eol rest,
    dict_get key_Length d1 = Some (PInt (Z.of_N (lenN data))) ->
    dict_get key_Length d2 = Some (PRef i g) -> R i g F_INTEGER = Ok (PInt (Z.of_N (lenN data))) ->
    1 + ddepth d1 <= MAX_DEPTH -> 1 + ddepth d2 <= MAX_DEPTH -> stream_eol eol ->
    forall s s2 s3 s4 s5 t t2 t3 t4 t5,
    Lexes s (IWord a :: IWord b :: IWord kw_obj :: IWord kw_dict_open :: body1 ++ [IWord kw_dict_close]) s2 ->
    next s2 = Ok (kw_stream, s3) -> lrest s3 = eol ++ data ++ rest ->
    next_expect (mkLx (lpos s3 + lenN eol + lenN data) rest) kw_endstream = Ok s4 -> next_expect s4 kw_endobj = Ok s5 ->
    Lexes t (IWord a :: IWord b :: IWord kw_obj :: IWord kw_dict_open :: body2 ++ [IWord kw_dict_close]) t2 ->
    next t2 = Ok (kw_stream, t3) -> lrest t3 = eol ++ data ++ rest ->
    next_expect (mkLx (lpos t3 + lenN eol + lenN data) rest) kw_endstream = Ok t4 -> next_expect t4 kw_endobj = Ok t5 ->
    exists st1 st2,
      parse_indirect_object R allow F_ANY s = Ok (id, gen, PStream d1 id gen st1 (lenN data), s5) /\
      parse_indirect_object R allow F_ANY t = Ok (id, gen, PStream d2 id gen st2 (lenN data), t5) /\
      firstn (length data) (skipn (N.to_nat (st1 - lpos s3)) (lrest s3)) = data /\
      firstn (length data) (skipn (N.to_nat (st2 - lpos t3)) (lrest t3)) = data.
Proof. exact stream_data_independent_of_length_storage. Qed.
Print Assumptions C11_stream_length.

(** … with any filter on that stream: the payload encoded by any of the crate's encoders (ASCIIHex, ASCII85 unconditionally;
    Flate, LZW under the oracle premises of C16: the external decoder inverts the external encoder) and decoded by the stream's
    filter chain gives member i the same value *)
Theorem C11_member_any_filter : forall inflate_zlib inflate_raw deflate_zlib lzw_dec lzw_enc f R head texts i v its body ws_tail n e,
    (forall y, inflate_zlib (deflate_zlib y) = Ok y) ->
    (forall y c, lzw_enc y = Ok c -> lzw_dec false c = Ok y) ->
    standard_filter f -> wf_bytes (head ++ concat texts) ->
    encode deflate_zlib lzw_enc f (head ++ concat texts) = Ok e ->
    header_offsets n (mkLx 0 (head ++ concat texts)) = Ok (offs_of texts 0) ->
    nth_error texts i = Some (body ++ ws_tail) ->
    spells v its -> vdepth v <= MAX_DEPTH -> renders its (body ++ ws_tail) ws_tail ->
    Forall (fun b => is_ws b = true) ws_tail ->
    lenN (head ++ concat texts) < USIZE ->
    resolve_member_filtered inflate_zlib inflate_raw lzw_dec [f] R F_ANY (lenN head) (N.of_nat n) e (N.of_nat i) = Ok v.
Proof. exact member_resolves_filtered. Qed.
Print Assumptions C11_member_any_filter.

Theorem C11_slice_no_panic : forall first offsets datalen index site,
  object_slice first offsets datalen index <> Panic site.
Proof. exact object_slice_no_panic. Qed.
Print Assumptions C11_slice_no_panic.

(** non-vacuity: a two-member object stream  "10 0 11 3 " ++ "42 " ++ "/A"  — the integer and the name both resolve *)
Example C11_nonvacuous :
  let data := [49;48;32;48;32;49;49;32;51;32] ++ [52;50;32] ++ [47;65] in
  resolve_member no_resolve F_ANY 10 2 data 0 = Ok (PInt 42) /\
  resolve_member no_resolve F_ANY 10 2 data 1 = Ok (PName [65]).
Proof. split; vm_compute; reflexivity. Qed.

(** … and a header that is directly followed by its first member (/First = length of the header, no white-space: legal when the
    member starts with a delimiter):  "10 0" ++ "[1]"  and  "10 0 11 4" ++ "/A 7" *)
Example C11_header_abuts_first_member :
  resolve_member no_resolve F_ANY 4 1 ([49;48;32;48] ++ [91;49;93]) 0 = Ok (PArr [PInt 1]) /\
  resolve_member no_resolve F_ANY 9 2 ([49;48;32;48;32;49;49;32;52] ++ [47;65;32;32] ++ [55]) 0 = Ok (PName [65]) /\
  resolve_member no_resolve F_ANY 9 2 ([49;48;32;48;32;49;49;32;52] ++ [47;65;32;32] ++ [55]) 1 = Ok (PInt 7).
Proof. repeat split; vm_compute; reflexivity. Qed.
