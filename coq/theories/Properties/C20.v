(** Properties/C20.v — a page imported into another document is equal and self-contained.
    Only statements and `exact`; the proofs are in Import/{ImportProofs,Theorems,PageProofs}.v. *)
From PdfV Require Import Base.Prelude Lex.Lexer Syn.Prim Gen.Generated
     Import.Model Import.Spec Import.ImportProofs Import.Theorems Import.PageProofs Import.PagePresent Import.GraphIso Import.Target.
From PdfV Require Storage.Prim Storage.Model Storage.Proofs Storage.Builder Storage.Syntax Storage.Reload.
From PdfV Require Syn.Serialize Syn.SerProofs Syn.Spells Syn.Parser.

(** closure: every reference reachable from the imported roots in the new document is defined there *)
Theorem C20_closed : forall fetch g fuel roots rs s,
  import_roots fetch g fuel roots st0 = Ok (rs, s) ->
  forall r', reach (out s) (new_refs rs) r' -> exists v, g_find (out s) (fst r') = Some v.
Proof. exact import_closed. Qed.
Print Assumptions C20_closed.

(** equality: the object stored for the image of r is r's object, references renamed by the memo, stream data kept *)
Theorem C20_equal : forall fetch g fuel roots rs s,
  import_roots fetch g fuel roots st0 = Ok (rs, s) ->
  Forall2 (root_rel (memo s)) roots rs /\
  forall r x, lookup (memo s) r = Some x ->
    exists v v', resolve g r = Ok v /\ g_find (out s) (fst x) = Some v' /\ iso fetch (memo s) v v'.
Proof.
  intros fetch g fuel roots rs s H. split; [exact (import_roots_mapped fetch g fuel roots rs s H)|exact (import_equal fetch g fuel roots rs s H)].
Qed.
Print Assumptions C20_equal.

(** shared objects are copied once: the map is a function and injective, the new objects are exactly its images *)
Theorem C20_once : forall fetch g fuel roots rs s,
  import_roots fetch g fuel roots st0 = Ok (rs, s) ->
  NoDup (map fst (memo s)) /\ NoDup (map snd (memo s)) /\ NoDup (map fst (out s)) /\
  (forall i, In i (map fst (out s)) <-> exists r, lookup (memo s) r = Some (i, 0)).
Proof. exact import_once. Qed.
Print Assumptions C20_once.

(** the copied part is exactly what the roots reach *)
Theorem C20_reachable_only : forall fetch g fuel roots rs s,
  import_roots fetch g fuel roots st0 = Ok (rs, s) ->
  (forall r x, lookup (memo s) r = Some x -> reach g roots r) /\
  (forall r, reach g roots r -> exists x, lookup (memo s) r = Some x).
Proof.
  intros fetch g fuel roots rs s H. split; [exact (import_reachable_only fetch g fuel roots rs s H)|exact (import_reachable_all fetch g fuel roots rs s H)].
Qed.
Print Assumptions C20_reachable_only.

(** clause (a) in one statement: the memo is an isomorphism of rooted graphs — a one-to-one correspondence between what
    the roots reach in the source and what the new roots reach in the new document (which is all of it), roots to roots,
    corresponding objects equal up to the renaming ([iso], and as a function: [rename]) — cycles and shared objects included *)
Theorem C20_graph_iso : forall fetch g fuel roots rs s,
  import_roots fetch g fuel roots st0 = Ok (rs, s) ->
  NoDup (map fst (memo s)) /\ NoDup (map snd (memo s)) /\
  (forall r, reach g roots r <-> exists x, lookup (memo s) r = Some x) /\
  (forall x, reach (out s) (new_refs rs) x <-> exists r, lookup (memo s) r = Some x) /\
  (forall i, In i (map fst (out s)) <-> exists r, lookup (memo s) r = Some (i, 0)) /\ NoDup (map fst (out s)) /\
  Forall2 (root_rel (memo s)) roots rs /\
  (forall r x, lookup (memo s) r = Some x ->
     exists v v', resolve g r = Ok v /\ resolve (out s) x = Ok v' /\ iso fetch (memo s) v v' /\ rename fetch (memo s) v = Some v').
Proof. exact import_graph_iso. Qed.
Print Assumptions C20_graph_iso.

(** edges correspond in both directions *)
Theorem C20_edges : forall fetch g fuel roots rs s,
  import_roots fetch g fuel roots st0 = Ok (rs, s) ->
  forall r x r2, lookup (memo s) r = Some x ->
  forall v v', resolve g r = Ok v -> resolve (out s) x = Ok v' ->
    (has_ref v r2 -> exists x2, lookup (memo s) r2 = Some x2 /\ has_ref v' x2) /\
    (forall x2, has_ref v' x2 -> exists r3, lookup (memo s) r3 = Some x2 /\ has_ref v r3).
Proof. exact import_edges. Qed.
Print Assumptions C20_edges.

(** the copy is determined by the original and the reference map *)
Theorem C20_copy_determined : forall fetch m v a b, iso fetch m v a -> iso fetch m v b -> a = b.
Proof. exact iso_det. Qed.
Print Assumptions C20_copy_determined.

(** clause (b): a stream of the source is a stream of the copy with the bytes the source resolver returns for it, the same
    keys in the same order and entry-wise equal values; a dictionary likewise *)
Theorem C20_stream_equal : forall fetch g fuel roots rs s,
  import_roots fetch g fuel roots st0 = Ok (rs, s) ->
  forall r x d i gn st ln, lookup (memo s) r = Some x -> resolve g r = Ok (PStream d i gn st ln) ->
    exists d' data, fetch i gn st ln = Ok data /\ resolve (out s) x = Ok (PStreamData d' data) /\
                    map fst d' = map fst d /\ Forall2 (iso_entry fetch (memo s)) d d'.
Proof. exact import_stream_equal. Qed.
Print Assumptions C20_stream_equal.

Theorem C20_dict_equal : forall fetch g fuel roots rs s,
  import_roots fetch g fuel roots st0 = Ok (rs, s) ->
  forall r x d, lookup (memo s) r = Some x -> resolve g r = Ok (PDict d) ->
    exists d', resolve (out s) x = Ok (PDict d') /\ map fst d' = map fst d /\ Forall2 (iso_entry fetch (memo s)) d d'.
Proof. exact import_dict_equal. Qed.
Print Assumptions C20_dict_equal.

(** clause (d): the importer's updater is the storage model of C09/C10 — reserving an id is [promise], storing the copy is
    [fulfill], starting from [Storage::empty] *)
Theorem C20_target_steps :
  target false st0 = Storage.Builder.empty_storage /\
  (forall c s m', 1 <= next s -> Storage.Model.promise (target c s) = (target c (mkSt m' (next s + 1) (out s)), (next s, 0))) /\
  (forall c s m' id v, 1 <= id -> id < next s -> ~ In id (map fst (out s)) ->
     Storage.Model.fulfill (target c s) (id, 0) v = Ok (target c (mkSt m' (next s) ((id, v) :: out s)), (id, 0))).
Proof. split; [exact target_st0|split; [exact target_reserve|exact target_store]]. Qed.
Print Assumptions C20_target_steps.

(** … the state it leaves is well-formed in C09's sense (every C09 theorem applies to its save), and no promise is left
    open: every reserved number holds the object the importer stored *)
Theorem C20_target_valid : forall fetch g fuel roots rs s,
  import_roots fetch g fuel roots st0 = Ok (rs, s) ->
  forall c, Storage.Proofs.wf_st (target c s) /\
    lenN (Storage.Model.refs (target c s)) = next s /\
    forall i, 1 <= i -> i < next s ->
      nthN (Storage.Model.refs (target c s)) i = Some Storage.Model.XPromised /\
      exists v, Storage.Model.clookup (Storage.Model.changes (target c s)) i = Some (v, 0) /\ g_find (out s) i = Some v.
Proof.
  intros fetch g fuel roots rs s H c. split; [exact (import_target_wf fetch g fuel roots rs s H c)|].
  split; [exact (target_len fetch g fuel roots rs s H c)|exact (import_no_open_promise fetch g fuel roots rs s H c)].
Qed.
Print Assumptions C20_target_valid.

(** … and re-loadable: after C09's save (shared serialiser) any state over the saved bytes whose table is the saved table
    (what C09_load_table shows [load] to return) reads under every new number the source object with its references
    renamed — for source objects of C04's storable domain within the parser's nesting limit … *)
Theorem C20_reload_object : forall fetch g fuel roots rs s,
  import_roots fetch g fuel roots st0 = Ok (rs, s) -> next s < 18446744073709551616 ->
  forall cached member tr tr' S' S3,
  Storage.Model.save Syn.Serialize.ser (target cached s) tr = Ok (S', tr', None) ->
  Storage.Model.changes S3 = [] -> Storage.Model.backend S3 = Storage.Model.backend S' -> Storage.Model.start S3 = 0 ->
  (forall i, i < lenN (Storage.Model.refs S') -> nthN (Storage.Model.refs S3) i = nthN (Storage.Model.refs S') i) ->
  forall r x v, lookup (memo s) r = Some x -> resolve g r = Ok v ->
    Syn.SerProofs.storable v -> Syn.Spells.vdepth v <= MAX_DEPTH ->
    exists v', iso fetch (memo s) v v' /\ rename fetch (memo s) v = Some v' /\
               forall g', Storage.Model.resolve Storage.Syntax.parse_obj member S3 (fst x, g') = Ok v'.
Proof. exact import_reload_object. Qed.
Print Assumptions C20_reload_object.

(** … and a copied stream reads as a stream with the renamed dictionary whose data, read from the saved bytes, is the data
    of the source stream *)
Theorem C20_reload_stream : forall fetch g fuel roots rs s,
  import_roots fetch g fuel roots st0 = Ok (rs, s) -> next s < 18446744073709551616 ->
  forall cached member tr tr' S' S3,
  Storage.Model.save Syn.Serialize.ser (target cached s) tr = Ok (S', tr', None) ->
  Storage.Model.changes S3 = [] -> Storage.Model.backend S3 = Storage.Model.backend S' -> Storage.Model.start S3 = 0 ->
  (forall i, i < lenN (Storage.Model.refs S') -> nthN (Storage.Model.refs S3) i = nthN (Storage.Model.refs S') i) ->
  forall r x d i gn st ln, lookup (memo s) r = Some x -> resolve g r = Ok (PStream d i gn st ln) ->
    Syn.SerProofs.storable (PDict d) -> Syn.Spells.vdepth (PDict d) <= MAX_DEPTH ->
    dict_get Syn.Parser.key_Length d = Some (PInt (Z.of_N ln)) ->
    exists d' data, fetch i gn st ln = Ok data /\ Forall2 (iso_entry fetch (memo s)) d d' /\ map fst d' = map fst d /\
      (lenN data = ln -> forall g', exists st',
         Storage.Model.resolve Storage.Syntax.parse_obj member S3 (fst x, g') = Ok (PStream d' (fst x) 0 st' ln) /\
         Storage.Prim.raw_data (Storage.Model.backend S3) (PStream d' (fst x) 0 st' ln) = Some data).
Proof. exact import_reload_stream. Qed.
Print Assumptions C20_reload_stream.

(** termination on every finite graph, cyclic or not, within the bound the runners use; and no panic:
    the outcome is a value or an error *)
Theorem C20_total : forall fetch g roots fuel,
  (forall i gn st ln, ok_or_err (fetch i gn st ln)) ->
  (fuel_for g (map (fun r => PRef (fst r) (snd r)) roots) <= fuel)%nat ->
  ok_or_err (import_roots fetch g fuel roots st0).
Proof. exact import_total. Qed.
Print Assumptions C20_total.

Theorem C20_never_panics : forall fetch g,
  (forall i gn st ln, ok_or_err (fetch i gn st ln)) ->
  forall U D,
  (forall r v r2, In r U -> resolve g r = Ok v -> has_ref v r2 -> In r2 U) ->
  (forall r v, resolve g r = Ok v -> (depth v <= D)%nat) ->
  forall fuel v s, (forall r, has_ref v r -> In r U) -> (depth v + missL U s * (D + 2) < fuel)%nat ->
  fine_res s (clone_prim fetch g fuel v s).
Proof. exact clone_total. Qed.
Print Assumptions C20_never_panics.

(** one operation of a page: only the operations of the code's table add a resource, only when the page defines the
    name and it is not there yet, and the value added is an [iso] copy *)
Theorem C20_page_resources : forall fetch g fuel old u new s new' s' P,
  clone_use fetch g fuel old u (new, s) = Ok (new', s') ->
  wf fetch g (fun _ => True) s -> pend s P ->
  wf fetch g (fun _ => True) s' /\ pend s' P /\ ext s s' /\
  match u with
  | UProps _ => new' = new
  | UName op name =>
      match cat_of_op op with
      | None => new' = new
      | Some cat =>
          match dict_get name (cat_get new cat), dict_get name (cat_get old cat) with
          | None, Some v => exists v0 v', src_value g cat v v0 /\ iso fetch (memo s') v0 v' /\
                                          new' = cat_set new cat (cat_get new cat ++ [(name, v')])
          | _, _ => new' = new
          end
      end
  end.
Proof. exact clone_use_spec. Qed.
Print Assumptions C20_page_resources.

(** a whole page keeps the invariant from which closure, equality and single copy follow; its untyped entries are copies *)
Theorem C20_page_pruned : forall fetch g fuel p s po s' P,
  clone_page fetch g fuel p s = Ok (po, s') -> wf fetch g (fun _ => True) s -> pend s P ->
  wf fetch g (fun _ => True) s' /\ pend s' P /\ ext s s' /\ Forall2 (iso_entry fetch (memo s')) (pg_tail p) (po_tail po).
Proof. exact clone_page_inv. Qed.
Print Assumptions C20_page_pruned.

(** clause (c) for a whole page: every resource an operation names (in a category of the code's table) and the page's
    resources define is present under that name as a copy of the source's value, and the new page's resources hold nothing else *)
Theorem C20_page_present : forall fetch g fuel p s po s' P,
  clone_page fetch g fuel p s = Ok (po, s') -> wf fetch g (fun _ => True) s -> pend s P ->
  (forall op name cat v, In (UName op name) (pg_uses p) -> cat_of_op op = Some cat ->
     dict_get name (cat_get (pg_res p) cat) = Some v ->
     exists v0 v', src_value g cat v v0 /\ dict_get name (cat_get (po_res po) cat) = Some v' /\ iso fetch (memo s') v0 v') /\
  (forall cat name v', dict_get name (cat_get (po_res po) cat) = Some v' ->
     exists v v0, dict_get name (cat_get (pg_res p) cat) = Some v /\ src_value g cat v v0 /\ iso fetch (memo s') v0 v').
Proof. exact clone_page_present. Qed.
Print Assumptions C20_page_present.

(** the tables regenerated from the Rust sources are the ones the theorems are about *)
Theorem C20_tables :
  forallb (fun x => existsb (pair_eqb x) spec_op_cats) import_op_cats = true /\
  forallb (fun x => existsb (pairN_eqb x) import_res_kinds)
          [([69;120;116;71;83;116;97;116;101], 0); ([70;111;110;116], 1); ([88;79;98;106;101;99;116], 2)] = true /\
  forallb (fun l => before 1 3 l && before 3 4 l && before 4 5 l && before 5 6 l)
          [import_plainref_order; import_ref_order; import_rcref_order] = true /\
  import_prim_arms =
    [([65;114;114;97;121], 1); ([66;111;111;108;101;97;110], 0); ([68;105;99;116;105;111;110;97;114;121], 1);
     ([73;110;116;101;103;101;114], 0); ([78;97;109;101], 0); ([78;117;108;108], 0); ([78;117;109;98;101;114], 0);
     ([82;101;102;101;114;101;110;99;101], 1); ([83;116;114;101;97;109], 1); ([83;116;114;105;110;103], 0)] /\
  1 <= import_first_id.
Proof. exact tables_ok. Qed.
Print Assumptions C20_tables.

(** before the repair (memo entry inserted after the recursive call) a one-object cycle never finished *)
Theorem C20_old_order_refuted : forall fuel, clone_old self_loop fuel (PRef 1 0) st0 = OutOfFuel.
Proof. exact old_order_refuted. Qed.
Print Assumptions C20_old_order_refuted.

(** the full statement — every category of resource the operations can name — is false of the code (finding C20-d) *)
Definition C20_full_statement : Prop := full_statement.
Theorem C20_categories_refuted : ~ C20_full_statement.
Proof. exact categories_refuted. Qed.
Print Assumptions C20_categories_refuted.

(** non-vacuity *)
Example C20_cycle_is_imported :
  import_roots (fun _ _ _ _ => Err E_REF) self_loop 5 [(1, 0)] st0
  = Ok ([PRef 1 0], mkSt [((1, 0), (1, 0))] 2 [(1, PDict [([78], PRef 1 0)])]).
Proof. exact self_loop_imported. Qed.
Example C20_diamond_is_imported :
  import_roots (fun _ _ _ _ => Err E_REF) diamond (fuel_for diamond [PRef 4 0]) [(4, 0)] st0
  = Ok ([PRef 1 0],
        mkSt [((6, 0), (4, 0)); ((7, 0), (3, 0)); ((5, 0), (2, 0)); ((4, 0), (1, 0))] 5
             [(1, PArr [PRef 2 0; PRef 4 0]); (4, PDict [([83], PRef 3 0)]); (2, PDict [([83], PRef 3 0)]);
              (3, PStreamData [([75], PRef 1 0)] [100; 97; 116; 97])]).
Proof. exact diamond_imported. Qed.
Example C20_font_is_copied :
  clone_page (fun _ _ _ _ => Err E_REF) [(7, PDict [([84], PName [70])])] 10
             (mkPage [UName [84;101;120;116;70;111;110;116] [70;49]] [([70;111;110;116], [([70;49], PRef 7 0)])] []) st0
  = Ok (mkPageOut [([70;111;110;116], [([70;49], PRef 1 0)])] [],
        mkSt [((7, 0), (1, 0))] 2 [(1, PDict [([84], PName [70])])]).
Proof. exact font_is_copied. Qed.
