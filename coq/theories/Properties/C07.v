From PdfV Require Import Base.Prelude Gen.Generated PageTree.Model.
