(** Properties/C07.v — "Page n is the n-th leaf of the page tree; attributes come from the nearest ancestor".
    Only statements, each closed by [exact] of a lemma proved in PageTree/Proofs.v.

    Reading guide: [st] is the object store (object number -> /Page or /Pages dictionary), [Node id a c kids]
    the page tree the standard sees in it ([stored]: every node is an object with that /Type, /Parent, /Kids,
    /Count and attributes), [leaves t] its pages in depth-first order, each with its own attributes and those
    of its ancestors nearest first.  [load_root], [num_pages], [get_page], [pages], [media_box], [crop_box],
    [resources] are the models of File::load (catalog /Pages), File::num_pages, File::get_page, File::pages,
    Page::media_box, Page::crop_box, Page::resources. *)
From PdfV Require Import Base.Prelude Gen.Generated PageTree.Model PageTree.Spec PageTree.Proofs PageTree.Examples.

(** Requesting page [i] of a well-formed tree (accurate counts, acyclic kids, correct parent links, within the
    depth budget) returns the i-th leaf in document order together with exactly its ancestors' attribute chain;
    an index at or beyond the number of leaves is PageOutOfBounds.  Holds for every u32 index. *)
Theorem C07_page : forall st fuel id a c kids i,
  let t := Node id a c kids in
  stored st None t -> accurate t -> acyclic t ->
  (theight t <= N.to_nat page_depth)%nat -> (theight t < fuel)%nat -> i <= u32_max ->
  exists rt, load_root st fuel id = Ok rt /\ num_pages rt = lenN (leaves t) /\
    match nth_error (leaves t) (N.to_nat i) with
    | Some (lid, la, lanc) => exists p, get_page st fuel rt i = Ok (lid, LNLeaf la p) /\ chain_attrs p = lanc
    | None => get_page st fuel rt i = Err EPageOutOfBounds
    end.
Proof. exact page_correct. Qed.
Print Assumptions C07_page.

(** The reported number of pages is the number of leaves. *)
Theorem C07_count : forall st fuel id a c kids,
  let t := Node id a c kids in
  stored st None t -> accurate t -> acyclic t ->
  (theight t <= N.to_nat page_depth)%nat -> (theight t < fuel)%nat ->
  exists rt, load_root st fuel id = Ok rt /\ num_pages rt = lenN (leaves t).
Proof. exact count_correct. Qed.
Print Assumptions C07_count.

(** The pages() iterator yields exactly the leaves, in order, each with its true ancestor chain. *)
Theorem C07_pages : forall st fuel id a c kids,
  let t := Node id a c kids in
  stored st None t -> accurate t -> acyclic t ->
  (theight t <= N.to_nat page_depth)%nat -> (theight t < fuel)%nat -> c <= u32_max ->
  exists rt, load_root st fuel id = Ok rt /\
    Forall2 (fun r l => match l with (lid, la, lanc) =>
                          exists p, r = Ok (lid, LNLeaf la p) /\ chain_attrs p = lanc end)
            (pages st fuel rt) (leaves t).
Proof. exact pages_correct. Qed.
Print Assumptions C07_pages.

(** Media box, crop box (falling back to the media box) and resources of a loaded page are the page's own entry
    when present and otherwise that of the nearest ancestor in its chain that has one; a missing media box /
    resources is MissingEntry.  (With C07_page: the chain is the true ancestor chain.) *)
Theorem C07_inherit : forall a p,
  media_box a p = spec_media_box (a :: chain_attrs p) /\
  crop_box a p = spec_crop_box (a :: chain_attrs p) /\
  resources a p = spec_resources (a :: chain_attrs p).
Proof. exact inherit_correct. Qed.
Print Assumptions C07_inherit.

(** C07_page and C07_inherit composed — the full statement of the property as the caller observes it:
    get_page(i) is the i-th leaf and its boxes / resources are the nearest ancestor's, or PageOutOfBounds. *)
Definition C07_full_statement : Prop := forall st fuel id a c kids i,
  let t := Node id a c kids in
  stored st None t -> accurate t -> acyclic t ->
  (theight t <= N.to_nat page_depth)%nat -> (theight t < fuel)%nat -> i <= u32_max ->
  exists rt, load_root st fuel id = Ok rt /\
    match nth_error (leaves t) (N.to_nat i) with
    | Some (lid, la, lanc) =>
      exists p, get_page st fuel rt i = Ok (lid, LNLeaf la p) /\
                media_box la p = spec_media_box (la :: lanc) /\
                crop_box la p = spec_crop_box (la :: lanc) /\
                resources la p = spec_resources (la :: lanc)
    | None => get_page st fuel rt i = Err EPageOutOfBounds
    end.
Theorem C07_full : C07_full_statement.
Proof. exact page_attributes_correct. Qed.
Print Assumptions C07_full.

(** Generated-table lemma: the depth budget in the source covers the dozen levels the property asks for. *)
Theorem C07_depth_budget : 12 <= page_depth.
Proof. exact page_depth_dozen. Qed.
Print Assumptions C07_depth_budget.

(** Generated-table lemma: the dictionary keys the readers of PageTree / Page use, the /Type dispatch of
    PagesNode, the field File::num_pages reads and the loop constants are the ones the model assumes. *)
Theorem C07_keys :
  pagetree_keys = [ ([80;97;114;101;110;116], [112;97;114;101;110;116]);
                    ([75;105;100;115], [107;105;100;115]);
                    ([67;111;117;110;116], [99;111;117;110;116]);
                    ([82;101;115;111;117;114;99;101;115], [114;101;115;111;117;114;99;101;115]);
                    ([77;101;100;105;97;66;111;120], [109;101;100;105;97;95;98;111;120]);
                    ([67;114;111;112;66;111;120], [99;114;111;112;95;98;111;120]) ] /\
  page_inh_keys = [ ([80;97;114;101;110;116], [112;97;114;101;110;116]);
                    ([82;101;115;111;117;114;99;101;115], [114;101;115;111;117;114;99;101;115]);
                    ([77;101;100;105;97;66;111;120], [109;101;100;105;97;95;98;111;120]);
                    ([67;114;111;112;66;111;120], [99;114;111;112;95;98;111;120]) ] /\
  pagesnode_types = [ ([80;97;103;101], 0); ([80;97;103;101;115], 1) ] /\
  num_pages_field = [116;114;97;105;108;101;114;46;114;111;111;116;46;112;97;103;101;115;46;99;111;117;110;116] /\
  page_pos_init = 0 /\ page_leaf_step = 1 /\ page_depth_step = 1.
Proof. exact keys_std. Qed.
Print Assumptions C07_keys.

(** No panic and no unbounded work, for EVERY store — untrue counts, foreign /Parent links, cycles, any depth:
    loading the root and get_page(i) end in a value or an error (the u32 subtraction and additions of
    page_limited never trap; the /Parent loader ends within |store| + 1 steps).  Belongs to C14; proved here
    because it is what justifies the repair of C07-a. *)
Theorem C07_no_panic : forall st root i, i <= u32_max ->
  no_panic (load_root st (S (length st)) root) /\
  forall rt, no_panic (get_page st (S (length st)) rt i).
Proof. exact page_api_total. Qed.
Print Assumptions C07_no_panic.

(** Non-vacuity: an uneven three-level tree with two empty intermediate nodes satisfies every premise, and the
    model's answers on it are the expected pages and attributes. *)
Example C07_nonvacuous :
  stored ex_store None ex_tree /\ accurate ex_tree /\ acyclic ex_tree /\
  (theight ex_tree <= N.to_nat page_depth)%nat /\ (theight ex_tree < S (length ex_store))%nat /\
  theight ex_tree = 3%nat /\ lenN (leaves ex_tree) = 6.
Proof. exact ex_premises. Qed.
