(** Properties/C08.v — "Content-stream operators round-trip and mean what the operator table says".
    Only statements, each closed by [exact] of a lemma proved in Content/. *)
From PdfV Require Import Base.Prelude Gen.Generated Content.Model Content.Canon Content.Proofs Content.TableProofs
  Content.Bytes Content.BytesProofs.

(** full statement of the round trip: every sequence the serializer accepts with finite operands.
    [accepted] (Content/Proofs.v) excludes exactly: inline images (serialize_ops refuses them), negative zero
    (read back value-equal, not bit-equal), enum values outside the Rust enums, and the pair
    `Leading l; MoveTextPosition (x, 0)` written as TD (leading read back as -0). *)
Definition C08_full_statement : Prop :=
  forall lex ops, lex_reads_back lex ops -> forall b, ser_ops ops = Ok b -> parse_ops lex b = Ok ops.

(** the round trip on the lexed stream, unconditional: what the written lines lex to is parsed back into
    the same operations, every shorthand (s, b, b*, quote, double quote, TD, v, y) included *)
Theorem C08_roundtrip_tokens : forall ops, accepted ops ->
  exists ts, ser_toks ops = Ok ts /\ parse_ops_toks ts = Ok ops.
Proof. exact roundtrip_tokens. Qed.
Print Assumptions C08_roundtrip_tokens.

(** the round trip on bytes; premise: the operand reader (pdf/src/parser) reads back what was written *)
Theorem C08_roundtrip : forall lex ops, accepted ops -> lex_reads_back lex ops ->
  forall b, ser_ops ops = Ok b -> parse_ops lex b = Ok ops.
Proof. exact roundtrip_bytes. Qed.
Print Assumptions C08_roundtrip.

(** the round trip on BYTES without a premise: the reader is OpBuilder::parse's token loop over the shared lexer and
    parser models (Content/Bytes.v: parse_with_lexer, falling back to Lexer::next for an operator keyword).
    [writable] (decidable; Content/BytesProofs.v) says of every operand serialize_ops writes for [ops]: integers within
    i32, reals written with a decimal point, names of valid UTF-8, strings of bytes, dictionaries without a repeated
    key, nesting within the parser's depth limit.  [img] is the typed reading of an inline image's dictionary; no
    inline image is written, so the statement holds for every one. *)
Theorem C08_roundtrip_bytes : forall img ops, accepted ops -> writable ops ->
  forall b, ser_ops ops = Ok b -> parse_bytes_with img b = Ok ops.
Proof. exact roundtrip_bytes_closed. Qed.
Print Assumptions C08_roundtrip_bytes.

(** the former premise [lex_reads_back], as a theorem about that reader: on the text of a written token stream it
    does what the builder does on the tokens *)
Theorem C08_lex_reads_back : forall img ts b,
  toks_okb ts = true -> render_toks ts = Ok b -> parse_bytes_with img b = parse_ops_toks ts.
Proof. exact lex_reads_back_discharged. Qed.
Print Assumptions C08_lex_reads_back.

(** … and serialize_ops does write such a sequence *)
Theorem C08_ser_defined : forall ops, accepted ops -> writable ops -> exists b, ser_ops ops = Ok b.
Proof. exact ser_ops_writable. Qed.
Print Assumptions C08_ser_defined.

(** serializer's current_point and builder's `last` agree initially and after every step *)
Theorem C08_cur_point_sync :
  sync None (fst st0) /\
  forall cur last o rest args k cur2 n,
    op_okb o = true -> td_okb o rest = true -> sync cur last ->
    ser_head cur o rest = Ok (args, k, cur2, n) ->
    exists last2, add k args (last, false) = (o :: firstn n rest, Ok (last2, false)) /\ sync cur2 last2.
Proof. exact cur_point_sync. Qed.
Print Assumptions C08_cur_point_sync.

(** the writer's current_point is never more than the standard's current point (Table 59: h, re, the painting
    operators included), and `v` is written only when the first control point equals it (C08-i, fixed) *)
Theorem C08_writer_current_point :
  below None None /\
  (forall cur (st : option point * option point) o rest args k cur2 n,
     below cur (fst st) -> ser_head cur o rest = Ok (args, k, cur2, n) ->
     below cur2 (fst (fold_left iso_cp_step (o :: firstn n rest) st))) /\
  (forall cur (st : option point * option point) c1 c2 p rest args cur2 n,
     below cur (fst st) -> ser_head cur (OCurveTo c1 c2 p) rest = Ok (args, Kv, cur2, n) ->
     exists q, fst st = Some q /\ pt_eqb c1 q = true /\ args = num2 c2 ++ num2 p).
Proof. exact writer_cp_iso. Qed.
Print Assumptions C08_writer_current_point.

(** the standard's definitions of the shorthand and alias operators, for all operands *)
Theorem C08_table : forall st,
  (forall a, pushed Ks a st = pushed Kh a st ++ pushed KS a st) /\
  (forall a, pushed Kb a st = pushed Kh a st ++ pushed KB a st) /\
  (forall a, pushed Kbstar a st = pushed Kh a st ++ pushed KBstar a st) /\
  (forall a, add KF a st = add Kf a st) /\
  (forall a, pushed Kquote a st = pushed KTstar [] st ++ pushed KTj a st) /\
  (forall w c s, pushed Kdquote [pnum w; pnum c; PStr s] st =
                 pushed KTw [pnum w] st ++ pushed KTc [pnum c] st ++ pushed Kquote [PStr s] st) /\
  (forall x y, pushed KTD [pnum x; pnum y] st = pushed KTL [pnum (fl_neg y)] st ++ pushed KTd [pnum x; pnum y] st) /\
  (forall x2 y2 x3 y3, add Kv [pnum x2; pnum y2; pnum x3; pnum y3] st =
                       add Kc [pnum (px (fst st)); pnum (py (fst st)); pnum x2; pnum y2; pnum x3; pnum y3] st) /\
  (forall x1 y1 x3 y3, add Ky [pnum x1; pnum y1; pnum x3; pnum y3] st =
                       add Kc [pnum x1; pnum y1; pnum x3; pnum y3; pnum x3; pnum y3] st).
Proof. exact table_shorthands. Qed.
Print Assumptions C08_table.

(** every operator of Annex A other than BX EX BI ID EI d0 d1 yields an operation on well-formed operands *)
Theorem C08_table_yields : forall kw, In kw iso_keywords -> existsb (beqb kw) silent_ok = false ->
  is_d0_d1 kw = false -> yields kw = true.
Proof. exact table_yields. Qed.
Print Assumptions C08_table_yields.

(** … and d0 / d1 do not (open finding C08-d) *)
Theorem C08_table_d0_d1_refuted : ~ C08_table_full_statement.
Proof. exact table_d0_d1_refuted. Qed.
Print Assumptions C08_table_d0_d1_refuted.

(** Table 106: every text rendering mode 0..7 yields its operation (C08-f, fixed) *)
Theorem C08_table_Tr : C08_table_Tr_full_statement.
Proof. exact table_Tr_full. Qed.
Print Assumptions C08_table_Tr.

(** operands never leak: after any operator the buffer is empty … *)
Theorem C08_no_leak : forall st buf w r, beqb w (kw_name KBI) = false ->
  parse_toks st buf None (TWord w :: r) =
  match add_word w buf st with
  | (pushed, Ok st') => do rest <- parse_toks st' [] None r; Ok (pushed ++ rest)
  | (pushed, Err _) => do rest <- parse_toks st [] None r; Ok (pushed ++ rest)
  | (_, Panic s) => Panic s
  | (_, OutOfFuel) => OutOfFuel
  end.
Proof. exact no_leak. Qed.
Print Assumptions C08_no_leak.

(** … and the next operator sees exactly the operands written after it *)
Theorem C08_no_leak_buffer : forall st buf w args r, beqb w (kw_name KBI) = false ->
  parse_toks st buf None (TWord w :: List.map TObj args ++ r) =
  match add_word w buf st with
  | (pushed, Ok st') => do rest <- parse_toks st' args None r; Ok (pushed ++ rest)
  | (pushed, Err _) => do rest <- parse_toks st args None r; Ok (pushed ++ rest)
  | (_, Panic s) => Panic s
  | (_, OutOfFuel) => OutOfFuel
  end.
Proof. exact no_leak_buffer. Qed.
Print Assumptions C08_no_leak_buffer.

(** table lemmas over the tables regenerated from the Rust source on this run *)
Theorem C08_keywords_cover_iso :
  forallb (fun kw => existsb (beqb kw) (List.map fst op_read_table) &&
                     match lookup_kw kw with Some _ => true | None => false end) iso_keywords = true.
Proof. exact keywords_cover_iso. Qed.
Print Assumptions C08_keywords_cover_iso.

Theorem C08_reader_matches_source : forallb check_read_entry op_read_table = true.
Proof. exact reader_matches_source. Qed.
Print Assumptions C08_reader_matches_source.

Theorem C08_writer_reader_agree :
  forallb check_write_entry op_write_table = true /\
  forallb (fun i => existsb (fun e : N * (list N * (bytes * (list N * N))) => fst e =? i) op_write_table)
          (seqN 0 (length op_ctor_names)) = true.
Proof. exact (conj writer_reader_agree writer_covers_constructors). Qed.
Print Assumptions C08_writer_reader_agree.

Theorem C08_inline_abbreviations :
  same_map iso_inline_keys inline_key_abbr && same_map iso_inline_cs inline_cs_abbr &&
  same_map iso_inline_filters inline_filter_abbr = true.
Proof. exact inline_abbreviations. Qed.
Print Assumptions C08_inline_abbreviations.

(** non-vacuity *)
Example C08_demo_accepted : accepted demo_ops.
Proof. exact demo_accepted. Qed.
Example C08_demo_roundtrip : exists ts, ser_toks demo_ops = Ok ts /\ parse_ops_toks ts = Ok demo_ops.
Proof. exact (roundtrip_tokens demo_ops demo_accepted). Qed.
(** the premise of C08_roundtrip is satisfiable for a given sequence (a reader that answers with the tokens) *)
Example C08_lex_premise_consistent : exists lex, lex_reads_back lex demo_ops.
Proof.
  destruct (roundtrip_tokens demo_ops demo_accepted) as [ts [Hts _]].
  exists (fun _ => Ok ts). intros ts' b H _. rewrite Hts in H. inversion H. reflexivity.
Qed.

Example C08_demo_roundtrip_bytes : exists b, ser_ops demo_ops = Ok b /\ parse_bytes_raw b = Ok demo_ops.
Proof. exact demo_roundtrip_bytes. Qed.
