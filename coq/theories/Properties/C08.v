From PdfV Require Import Base.Prelude Gen.Generated Content.Model.
