(** Properties/C16.v — "Every encoder is inverted by its decoder and emits the standard format".
    Only statements, each closed by [exact] of a lemma proved elsewhere. *)
From PdfV Require Import Base.Prelude Gen.Generated Codec.Model Codec.Dispatch Codec.HexProofs Codec.A85Proofs Codec.EncProofs.

(** ASCIIHex: for every byte string the encoder succeeds (its unreachable!() is unreachable),
    the decoder returns the input, and the encoded text is an ISO 32000-1 §7.4.2 spelling. *)
Theorem C16_hex : forall izlib iraw dz ld le x, wf_bytes x ->
  exists e, encode dz le FHex x = Ok e /\ decode izlib iraw ld FHex e = Ok x /\ hex_spells x e.
Proof. exact enc_dec_hex. Qed.
Print Assumptions C16_hex.

(** ASCII85: decode inverts encode on every byte string (all 2^32 groups, z shorthand, every
    tail length); the output consists of the digits !..u and z followed by ~> . *)
Theorem C16_a85 : forall izlib iraw dz ld le x, wf_bytes x ->
  exists e, encode dz le FA85 x = Ok e /\ decode izlib iraw ld FA85 e = Ok x /\
    exists body, e = body ++ [126; 62] /\ Forall sym_ok body.
Proof. exact enc_dec_a85. Qed.
Print Assumptions C16_a85.

Theorem C16_a85_group : forall a b c d, a < 256 -> b < 256 -> c < 256 -> d < 256 ->
  exists s0 s1 s2 s3 s4, base85_chunk (of_be4 a b c d) = [s0; s1; s2; s3; s4] /\
    digit s0 /\ digit s1 /\ digit s2 /\ digit s3 /\ digit s4 /\
    word_85 s0 s1 s2 s3 s4 = Some [a; b; c; d].
Proof. exact a85_group. Qed.
Print Assumptions C16_a85_group.

(** Flate (oracle premise: libflate's zlib decoder inverts libflate's finished zlib encoder). *)
Theorem C16_flate : forall izlib iraw dz ld le,
  (forall y, izlib (dz y) = Ok y) ->
  forall p x, (p_predictor p < png_from)%Z -> p_predictor p <> tiff_pred ->
    exists e, encode dz le (FFlate p) x = Ok e /\ decode izlib iraw ld (FFlate p) e = Ok x.
Proof. exact enc_dec_flate. Qed.
Print Assumptions C16_flate.

(** LZW (oracle premise: weezl's plain decoder inverts weezl's encoder). *)
Theorem C16_lzw : forall izlib iraw dz ld le,
  (forall y e, le y = Ok e -> ld false e = Ok y) ->
  forall p x e, p_early p = 0%Z -> (p_predictor p < png_from)%Z -> p_predictor p <> tiff_pred ->
    encode dz le (FLzw p) x = Ok e -> decode izlib iraw ld (FLzw p) e = Ok x.
Proof. exact enc_dec_lzw. Qed.
Print Assumptions C16_lzw.

Theorem C16_lzw_early_refused : forall dz le p x, p_early p <> 0%Z -> encode dz le (FLzw p) x = Err 5.
Proof. exact enc_lzw_early_refused. Qed.
Print Assumptions C16_lzw_early_refused.

(** non-vacuity: the premises of the conditional theorems are satisfiable (identity codec) *)
Example C16_oracles_consistent :
  (forall y, (fun d => Ok d) ((fun d : bytes => d) y) = Ok y) /\
  (forall y e, (fun d : bytes => @Ok bytes d) y = Ok e -> (fun (_ : bool) d => @Ok bytes d) false e = Ok y).
Proof. split; [reflexivity|]. intros y e H. inversion H. reflexivity. Qed.
