(** Properties/C14.v — "Hostile but well-formed object graphs end in an error, not a crash", the proved part:
    (1) the guarded recursion scheme of typed loading over an ARBITRARY finite object graph, (2) the repaired
    name/number tree walks, (3) one theorem per numeric-parameter site, quantified over the whole Rust integer
    type (boundary values are instances).  Where the code as it is can panic or blow up, the theorem excludes
    exactly a decidable class and a […_refuted] theorem gives the witness that is replayed on the real code.
    Only statements, each closed by [exact] of a lemma proved in Safety/*Proofs.v. *)
From PdfV Require Import Base.Prelude Gen.Generated Lex.Lexer Codec.Model
  Safety.Front Safety.FrontProofs Safety.Numeric Safety.NumericProofs Safety.Walks Safety.WalksProofs.

(** the full claim for the modelled sites; false of the code as it is (see the […_refuted] theorems) *)
Definition C14_full_statement : Prop :=
  (forall first offsets data_len index, never_crashes (objstm_slice first offsets data_len index)) /\
  (forall tolerant num w0 w1 w2 data_len, never_crashes (xref_section_entries tolerant num w0 w1 w2 data_len)) /\
  (forall items, never_crashes (widths_site items)) /\
  (forall v r bits cf, never_crashes (crypt_key_size v r bits cf)) /\
  (forall kids page_nr, never_crashes (page_site kids page_nr)) /\
  (forall p c cols d, never_crashes (unpredict p c cols d)).

(** 1. recursion guard (file.rs: StorageResolver::get): on every finite graph closed under "refers to", from every
    node, whether errors propagate or are swallowed: terminates with recursion depth <= |graph| + 1, the drop-guard
    assertion never fires, the guard stack is restored *)
Theorem C14_guarded_walk : forall nodes g, (forall n, In n nodes -> incl (g n) nodes) -> forall stop key, In key nodes ->
  exists ok, guarded (S (length nodes)) stop g [] key = Ok ([], ok).
Proof. exact guarded_walk_total. Qed.
Print Assumptions C14_guarded_walk.

(** C14-a before the repair: recursion that does not keep a guard diverges on a cyclic tree *)
Theorem C14_tree_walk_unguarded_refuted : forall fuel, unguarded fuel (fun _ => [0]) 0 = OutOfFuel.
Proof. exact unguarded_cycle_diverges. Qed.
Print Assumptions C14_tree_walk_unguarded_refuted.

(** the repaired NameTree/NumberTree walks: a value or an error on every graph (depth <= tree_depth by construction) … *)
Theorem C14_tree_walk_total : forall depth g kids seen, never_crashes (tree_walk depth g kids seen).
Proof. exact tree_walk_total. Qed.
Print Assumptions C14_tree_walk_total.

(** … and every node is visited at most once: cost linear in the number of nodes *)
Theorem C14_tree_walk_linear : forall g root nodes seen',
  In root nodes -> (forall n, In n nodes -> incl (g n) nodes) ->
  tree_walk_root g root = Ok seen' -> NoDup seen' /\ (length seen' <= length nodes)%nat.
Proof. exact tree_walk_linear. Qed.
Print Assumptions C14_tree_walk_linear.

Theorem C14_colorspace_total : forall depth base n, never_crashes (colorspace depth base n).
Proof. exact colorspace_total. Qed.
Print Assumptions C14_colorspace_total.

(** 2. PostScript calculator: any program, any stack, any rounding oracle — roll / index never index or subtract out of range *)
Theorem C14_ps_exec : forall rnd ops st, never_crashes (ps_exec rnd ops st).
Proof. exact ps_exec_total. Qed.
Print Assumptions C14_ps_exec.
Theorem C14_ps_run : forall rnd ops inputs n_out, never_crashes (ps_run rnd ops inputs n_out).
Proof. exact ps_run_total. Qed.
Print Assumptions C14_ps_run.
Theorem C14_ps_body : forall s, never_crashes (ps_body s).
Proof. exact ps_body_total. Qed.
Print Assumptions C14_ps_body.

(** Function type 2: any array lengths *)
Theorem C14_fn2_load : forall domain_len range_len c0_len c1_len, never_crashes (fn2_load domain_len range_len c0_len c1_len).
Proof. exact fn2_load_total. Qed.
Print Assumptions C14_fn2_load.

(** Encoding /Differences: any codes (the whole i32 range), at most one entry per item *)
Theorem C14_differences : forall items, exists l, differences items = Ok l /\ (length l <= length items)%nat.
Proof. exact differences_total. Qed.
Print Assumptions C14_differences.

(** ObjectStream offsets: safe exactly when first + offset fits usize; header loop linear in the data *)
Theorem C14_objstm_slice : forall first offsets data_len index,
  objstm_fits first offsets = true -> lenN offsets < U64 -> never_crashes (objstm_slice first offsets data_len index).
Proof. exact objstm_slice_safe. Qed.
Print Assumptions C14_objstm_slice.
Theorem C14_objstm_header : forall n data, never_crashes (objstm_header (S (length data)) n (mkLx 0 data) []).
Proof. exact objstm_header_total. Qed.
Print Assumptions C14_objstm_header.
Theorem C14_objstm_refuted :
  objstm_slice 8 [18446744073709551615] 6 0 = Panic 502 /\ objstm_fits 8 [18446744073709551615] = false.
Proof. exact objstm_slice_refuted. Qed.
Print Assumptions C14_objstm_refuted.

(** xref stream sections: no panic when the product fits; entries bounded by the data when a row has any width *)
Theorem C14_xref_section : forall tolerant num w0 w1 w2 data_len,
  w0 + w1 + w2 < U64 -> num * (w0 + w1 + w2) < U64 -> never_crashes (xref_section_entries tolerant num w0 w1 w2 data_len).
Proof. exact xref_section_safe. Qed.
Print Assumptions C14_xref_section.
Theorem C14_xref_section_i32 : forall tolerant num w0 w1 w2 data_len,
  num <= 2147483647 -> w0 <= 2147483647 -> w1 <= 2147483647 -> w2 <= 2147483647 ->
  never_crashes (xref_section_entries tolerant num w0 w1 w2 data_len).
Proof. exact xref_section_i32_safe. Qed.
Print Assumptions C14_xref_section_i32.
Theorem C14_xref_section_cost : forall tolerant num w0 w1 w2 data_len n,
  xref_section_entries tolerant num w0 w1 w2 data_len = Ok n -> 0 < w0 + w1 + w2 -> n * (w0 + w1 + w2) <= data_len.
Proof. exact xref_section_cost. Qed.
Print Assumptions C14_xref_section_cost.
Theorem C14_xref_section_refuted :
  xref_section_entries false 4294967295 2147483647 2147483647 2147483647 0 = Panic 602 /\
  xref_section_entries false 4294967295 0 0 0 0 = Ok 4294967295.
Proof. exact xref_section_refuted. Qed.
Print Assumptions C14_xref_section_refuted.

(** CID /W: no panic without an empty array; the cost of a range is NOT bounded by the input (refuted) *)
Theorem C14_widths : forall items sets top, widths_no_empty_array items = true ->
  (forall z, In (WInt z) items -> (z <= 2147483647)%Z) -> (forall n, In (WArr n) items -> n < U32) ->
  never_crashes (widths_go items sets top).
Proof. exact widths_safe. Qed.
Print Assumptions C14_widths.
Theorem C14_widths_refuted :
  widths_site [WInt 0; WArr 0] = Panic 702 /\
  widths_site [WInt 0; WInt (-1); WInt 5] = Ok (18446744073709551616, 18446744073709551616) /\
  widths_site [WInt 0; WInt 2147483647; WInt 5] = Ok (2147483648, 2147483648).
Proof. exact widths_refuted. Qed.
Print Assumptions C14_widths_refuted.

(** crypt key length: the only panics are 8 * n (801) and the Rc4::new assertion on an empty key (802) *)
Theorem C14_crypt_sites : forall v r bits cf s, crypt_key_size v r bits cf = Panic s -> s = 801 \/ s = 802.
Proof. exact crypt_key_size_sites. Qed.
Print Assumptions C14_crypt_sites.
Theorem C14_crypt_refuted :
  crypt_key_size 2 3 0 None = Panic 802 /\ crypt_key_size 4 4 128 (Some (0, Some 536870912)) = Panic 801 /\
  crypt_key_size 4 4 128 (Some (1, Some 0)) = Panic 802 /\ crypt_key_size 2 3 128 None = Ok 16.
Proof. exact crypt_key_size_refuted. Qed.
Print Assumptions C14_crypt_refuted.

(** page tree: no panic when the counts of every level sum to less than 2^32; depth <= sf_page_depth by construction *)
Theorem C14_page_counts : forall depth kids page_nr, counts_fit depth kids = true -> never_crashes (page_limited depth kids page_nr).
Proof. exact page_limited_safe. Qed.
Print Assumptions C14_page_counts.
Theorem C14_page_counts_refuted :
  page_site [PTree 2147483647 [PLeaf]; PTree 2147483647 [PLeaf]; PTree 2147483647 [PLeaf]] 4294967295 = Panic 901 /\
  counts_fit 16 [PTree 2147483647 [PLeaf]; PTree 2147483647 [PLeaf]; PTree 2147483647 [PLeaf]] = false /\
  page_site [PLeaf; PTree 2 [PLeaf; PLeaf]; PLeaf] 2 = Ok tt.
Proof. exact page_counts_refuted. Qed.
Print Assumptions C14_page_counts_refuted.

(** predictor geometry: safe when columns * colors + 1 fits usize; otherwise exactly sites 104 / 105 *)
Theorem C14_predictor : forall predictor colors columns decoded,
  as_usize columns * as_usize colors + 1 < U64 -> never_crashes (unpredict predictor colors columns decoded).
Proof. exact unpredict_safe. Qed.
Print Assumptions C14_predictor.
Theorem C14_predictor_sites : forall predictor colors columns decoded s,
  unpredict predictor colors columns decoded = Panic s -> s = 104 \/ s = 105.
Proof. exact unpredict_sites. Qed.
Print Assumptions C14_predictor_sites.
Theorem C14_predictor_refuted : unpredict 12 (-1) (-1) [0; 1; 2] = Panic 104 /\ unpredict 12 1 (-1) [0; 1; 2] = Panic 105.
Proof. exact unpredict_refuted. Qed.
Print Assumptions C14_predictor_refuted.

(** fax geometry *)
Theorem C14_fax_capacity : forall columns rows, columns < U32 -> rows < U32 ->
  (columns * rows <= ISIZE_MAX -> fax_capacity columns rows = Ok (columns * rows)) /\
  (ISIZE_MAX < columns * rows -> fax_capacity columns rows = Panic 1002).
Proof. exact fax_capacity_sites. Qed.
Print Assumptions C14_fax_capacity.
Theorem C14_fax_refuted : fax_capacity 4294967295 4294967295 = Panic 1002 /\ fax_check 0 0 = Panic 1003 /\
  forall buf_len columns, 0 < columns -> fax_check buf_len columns = Ok (buf_len mod columns).
Proof. exact fax_refuted. Qed.
Print Assumptions C14_fax_refuted.

Theorem C14_full_statement_refuted : ~ C14_full_statement.
Proof.
  intros H. destruct H as (H & _). destruct (H 8 [18446744073709551615] 6 0) as [Hp _].
  apply (Hp 502). exact (proj1 objstm_slice_refuted).
Qed.
Print Assumptions C14_full_statement_refuted.

(** generated guards and budgets (table lemmas): a change of the guards in the source changes these terms *)
Theorem C14_guards_in_source :
  ps_roll_len_guard = 1 /\ ps_roll_mod_guard = 1 /\ ps_index_guard = 1 /\ ps_parse_get = 1 /\ diff_wrapping = 1.
Proof. exact guards_table. Qed.
Print Assumptions C14_guards_in_source.
Theorem C14_budgets_in_source : (0 <? sf_page_depth) = true /\ (0 <? tree_depth) = true /\ (0 <? cs_depth) = true.
Proof. exact depth_table. Qed.
Print Assumptions C14_budgets_in_source.

(** non-vacuity *)
Example C14_guarded_cycle : guarded 3 true (fun n => if n =? 1 then [2] else [1]) [] 1 = Ok ([], false).
Proof. vm_compute. reflexivity. Qed.
Example C14_guarded_dag : guarded 4 true (fun n => if n =? 1 then [2; 3] else if n =? 2 then [3] else []) [] 1 = Ok ([], true).
Proof. vm_compute. reflexivity. Qed.
Example C14_tree_cycle_is_error :
  tree_walk_root (fun _ => [10]) 10 = Err E_TWICE /\
  tree_walk_root (fun n => if n =? 10 then [11; 11] else []) 10 = Err E_TWICE /\
  tree_walk_root (fun n => if n =? 10 then [11; 12] else []) 10 = Ok [12; 11].
Proof. exact tree_walk_cycle_is_error. Qed.
Example C14_roll_works : ps_run (fun z => z) [PsNum 1; PsNum 2; PsNum 3; PsNum 3; PsNum 1; PsRoll] [] 3 = Ok [3; 1; 2]%Z.
Proof. vm_compute. reflexivity. Qed.
Example C14_roll_hostile : ps_run (fun z => z) [PsNum 1; PsNum 5; PsNum 1; PsRoll] [] 1 = Err E_PS.
Proof. vm_compute. reflexivity. Qed.
