(** Properties/C14.v — "Hostile but well-formed object graphs end in an error, not a crash", the proved part:
    (1) the guarded recursion scheme of typed loading over an ARBITRARY finite object graph, (2) the repaired
    name/number tree walks and the colour-space budget, (3) one theorem per numeric-parameter site, quantified over the
    whole Rust integer type (boundary values are instances).
    OWN sites (models Safety/Numeric.v, Safety/Walks.v; proofs Safety/*Proofs.v): function.rs (PostScript calculator,
    type 2 loading), encoding.rs (/Differences), tree walks, colour spaces, the recursion guard, fax geometry.
    IMPORTED sites (4): the model is the owning area's model of the code AS IT IS NOW, kept faithful by that area's
    check, and the theorem is that area's lemma (or, for object streams and the crypt key length, a lemma proved in
    Safety/Imported.v about that area's model): object streams (ObjStm, C11), cross-reference streams (XRef, C02),
    CID /W and Type0 (Font, C19), page counts (PageTree, C07), predictor geometry / every decoder (Codec, C05),
    crypt key length (Crypt, C06), importer over cyclic graphs (Import, C20), guard keyed by thread (Cache, C13).
    No site of this area is excluded any more: [C14_full] proves [C14_full_statement] (fax_decode was repaired).
    Only statements, each closed by [exact]. *)
From PdfV Require Import Base.Prelude Gen.Generated Lex.Lexer
  Safety.Front Safety.FrontProofs Safety.Numeric Safety.NumericProofs Safety.Walks Safety.WalksProofs Safety.Imported.
From PdfV Require Codec.Model Codec.Dispatch Codec.Pairing Codec.ChainProofs ObjStm.Model ObjStm.Proofs XRef.Model XRef.StreamProofs
  Font.Model Font.WidthProofs PageTree.Model PageTree.Proofs Crypt.Model Crypt.SafeProofs Import.Model Import.Theorems Cache.Tables.

(** the full claim for the numeric sites of this area; it holds of the code as it is (C14_full) *)
Definition C14_full_statement : Prop :=
  (forall rnd ops st, never_crashes (ps_exec rnd ops st)) /\
  (forall domain_len range_len c0_len c1_len, never_crashes (fn2_load domain_len range_len c0_len c1_len)) /\
  (forall items, never_crashes (differences items)) /\
  (forall k columns rows decoded, columns < U32 -> rows < U32 -> never_crashes (fax_decode k columns rows decoded)).

(** 1. recursion guard (file.rs: StorageResolver::get): on every finite graph closed under "refers to", from every
    node, whether errors propagate or are swallowed: terminates with recursion depth <= |graph| + 1, the drop-guard
    assertion never fires, the guard stack is restored *)
Theorem C14_guarded_walk : forall nodes g, (forall n, In n nodes -> incl (g n) nodes) -> forall stop key, In key nodes ->
  exists ok, guarded (S (length nodes)) stop g [] key = Ok ([], ok).
Proof. exact guarded_walk_total. Qed.
Print Assumptions C14_guarded_walk.

(** C14-a before the repair: recursion that does not keep a guard diverges on a cyclic tree *)
Theorem C14_tree_walk_unguarded_refuted : forall fuel, unguarded fuel (fun _ => [0]) 0 = OutOfFuel.
Proof. exact unguarded_cycle_diverges. Qed.
Print Assumptions C14_tree_walk_unguarded_refuted.

(** the repaired NameTree/NumberTree walks: a value or an error on every graph (depth <= tree_depth by construction) … *)
Theorem C14_tree_walk_total : forall depth g kids seen, never_crashes (tree_walk depth g kids seen).
Proof. exact tree_walk_total. Qed.
Print Assumptions C14_tree_walk_total.

(** … and every node is visited at most once: cost linear in the number of nodes *)
Theorem C14_tree_walk_linear : forall g root nodes seen',
  In root nodes -> (forall n, In n nodes -> incl (g n) nodes) ->
  tree_walk_root g root = Ok seen' -> NoDup seen' /\ (length seen' <= length nodes)%nat.
Proof. exact tree_walk_linear. Qed.
Print Assumptions C14_tree_walk_linear.

Theorem C14_colorspace_total : forall depth base n, never_crashes (colorspace depth base n).
Proof. exact colorspace_total. Qed.
Print Assumptions C14_colorspace_total.

(** 2. PostScript calculator: any program, any stack, any rounding oracle — roll / index never index or subtract out of range *)
Theorem C14_ps_exec : forall rnd ops st, never_crashes (ps_exec rnd ops st).
Proof. exact ps_exec_total. Qed.
Print Assumptions C14_ps_exec.
Theorem C14_ps_run : forall rnd ops inputs n_out, never_crashes (ps_run rnd ops inputs n_out).
Proof. exact ps_run_total. Qed.
Print Assumptions C14_ps_run.
Theorem C14_ps_body : forall s, never_crashes (ps_body s).
Proof. exact ps_body_total. Qed.
Print Assumptions C14_ps_body.

(** Function type 2: any array lengths *)
Theorem C14_fn2_load : forall domain_len range_len c0_len c1_len, never_crashes (fn2_load domain_len range_len c0_len c1_len).
Proof. exact fn2_load_total. Qed.
Print Assumptions C14_fn2_load.

(** Encoding /Differences: any codes (the whole i32 range), at most one entry per item *)
Theorem C14_differences : forall items, exists l, differences items = Ok l /\ (length l <= length items)%nat.
Proof. exact differences_total. Qed.
Print Assumptions C14_differences.

(** 4. IMPORTED sites — theorems of the owning areas about the current code *)

(** object streams (stream.rs / file.rs; ObjStm/Model.v, correspondence in C11's check).  The offsets are added with
    checked_add now (fix dff5e30, the former C14-h): no slice computation can panic … *)
Theorem C14_objstm_slice : forall first offsets datalen index site,
  ObjStm.Model.object_slice first offsets datalen index <> Panic site.
Proof. exact ObjStm.Proofs.object_slice_no_panic. Qed.
Print Assumptions C14_objstm_slice.
(** … the header loop of any declared /N over any bytes ends in a value or an error … *)
Theorem C14_objstm_header : forall n s, never_crashes (ObjStm.Model.header_offsets n s).
Proof. exact objstm_header_total. Qed.
Print Assumptions C14_objstm_header.
(** … and so does the whole resolution of member [index] (header, slice, bounds test, parse), for any /First, /N, index *)
Theorem C14_objstm_member : forall R, total_resolver R -> forall flags first nobj data index,
  never_crashes (ObjStm.Model.resolve_member R flags first nobj data index).
Proof. exact objstm_member_total. Qed.
Print Assumptions C14_objstm_member.

(** xref stream sections (parse_xref.rs; XRef/Model.v, C02's check; fix 3d3f9ef, the former C14-k / C01-b / C01-c):
    no panic for all widths, counts and data; a successful read consumed a positive number of bytes per entry *)
Theorem C14_xref_section : forall first num width data allow,
  no_panic (XRef.Model.parse_xref_section_from_stream first num width data allow).
Proof. exact XRef.StreamProofs.stream_section_no_panic. Qed.
Print Assumptions C14_xref_section.
Theorem C14_xref_section_cost : forall first num w0 w1 w2 data allow s rest,
  XRef.Model.parse_xref_section_from_stream first num [w0; w1; w2] data allow = Ok (s, rest) ->
  0 < w0 + w1 + w2 /\ lenN data = lenN rest + lenN (XRef.Model.entries s) * (w0 + w1 + w2) /\
  lenN (XRef.Model.entries s) <= lenN data.
Proof. exact XRef.StreamProofs.stream_section_bounded. Qed.
Print Assumptions C14_xref_section_cost.

(** CID /W and Type0 (font.rs: Font::widths; Font/Model.v, C19's check; fixes 0479768, 5645a25, 5d6eb4a — the former
    C14-b, C14-c, C14-n): ANY /W vector — negative or huge codes, empty lists, missing operands — and any
    /DescendantFonts list (empty too) *)
Theorem C14_widths : forall dw items, Font.WidthProofs.clean (Font.Model.cid_widths dw items).
Proof. exact Font.WidthProofs.cid_widths_no_panic. Qed.
Print Assumptions C14_widths.
Theorem C14_type0 : forall (A : Type) (ds : list A) f, (forall d, Font.WidthProofs.clean (f d)) ->
  Font.WidthProofs.clean (Font.Model.type0_widths ds f).
Proof. exact @Font.WidthProofs.type0_no_panic. Qed.
Print Assumptions C14_type0.

(** crypt key length (crypt.rs: Decoder::from_password; Crypt/Model.v, C06's check; fix 9e4f745 — the former C14-d):
    EVERY revision with ANY /V, /Length, crypt filter /Length, /U /O /UE /OE of any length: never a panic (MD5 returns 16
    bytes) — the Crypt area's theorem C06_no_panic, about the code as repaired by 628eebc and f9fb306 *)
Theorem C14_crypt_key_length : forall MD5 SHA256 SHA384 SHA512 AESE AESD PREP, (forall x, length (MD5 x) = 16%nat) ->
  forall fuel d id0 pass s,
  Crypt.Model.from_password (fun x => Ok (MD5 x)) (fun x => Ok (SHA256 x)) (fun x => Ok (SHA384 x)) (fun x => Ok (SHA512 x))
                (fun k iv x => Ok (AESE k iv x)) (fun k iv x => Ok (AESD k iv x)) (fun x => Ok (PREP x)) fuel d id0 pass
  <> Panic s.
Proof. exact Crypt.SafeProofs.from_password_no_panic. Qed.
Print Assumptions C14_crypt_key_length.

(** page tree (types.rs: PageTree::page_limited, File::get_page; PageTree/Model.v, C07's check; fix 02e5245 — the former
    C14-e): EVERY store — untrue counts, foreign /Parent links, cycles, any depth *)
Theorem C14_page_counts : forall st root i, i <= PageTree.Model.u32_max ->
  no_panic (PageTree.Model.load_root st (S (length st)) root) /\
  forall rt, no_panic (PageTree.Model.get_page st (S (length st)) rt i).
Proof. exact PageTree.Proofs.page_api_total. Qed.
Print Assumptions C14_page_counts.

(** predictor geometry and every decoder (enc.rs; Codec/, C05's check; fixes 4b95f59, b531c77, df00eae — the former
    C14-i, C14-m): every filter, chain and stream dictionary, any parameters, any bytes *)
Theorem C14_decoders : forall izlib iraw ld, Codec.ChainProofs.oracles_total izlib iraw ld ->
  (forall f d, never_crashes (Codec.Dispatch.decode izlib iraw ld f d)) /\
  (forall fs d, never_crashes (Codec.Dispatch.decode_chain izlib iraw ld fs d)) /\
  (forall f pv d, never_crashes (Codec.Pairing.stream_data izlib iraw ld f pv d)).
Proof. exact decoders_total. Qed.
Print Assumptions C14_decoders.
Theorem C14_predictor : forall p d, no_panic (Codec.Model.unpredict p d).
Proof. exact Codec.ChainProofs.unpredict_no_panic. Qed.
Print Assumptions C14_predictor.

(** importer (build.rs: Importer; Import/Model.v, C20's check; fix d5dc342): terminates on every finite graph, cyclic or not *)
Theorem C14_import_total : forall fetch g roots fuel,
  (forall i gn st ln, Import.Theorems.ok_or_err (fetch i gn st ln)) ->
  (Import.Model.fuel_for g (map (fun r => PdfV.Syn.Prim.PRef (fst r) (snd r)) roots) <= fuel)%nat ->
  Import.Theorems.ok_or_err (Import.Model.import_roots fetch g fuel roots Import.Model.st0).
Proof. exact Import.Theorems.import_total. Qed.
Print Assumptions C14_import_total.

(** the recursion guard is keyed by thread in the source (fix 83677a2): [guarded] above is the projection on one thread *)
Theorem C14_guard_per_thread : cache_chain_per_thread = true.
Proof. exact Cache.Tables.chain_table. Qed.
Print Assumptions C14_guard_per_thread.

(** 5. CCITTFaxDecode (enc.rs: fax_decode, repaired — the former C14-j / C01-h): /K, /Columns, /Rows over the whole i32 / u32
    range and ANY behaviour of the external decoder (which lines it delivers, or that it gives up): a value or an error.
    /Columns 0, /Columns or /Rows beyond 65535, K >= 0 are error values ([C14_fax_examples]). *)
Theorem C14_fax_total : forall k columns rows decoded, columns < U32 -> rows < U32 ->
  never_crashes (fax_decode k columns rows decoded).
Proof. exact fax_decode_total. Qed.
Print Assumptions C14_fax_total.
(** with a declared height the result has exactly columns * rows bytes — at most 65535 * 65535, whatever the data says *)
Theorem C14_fax_bounded : forall k columns rows decoded len, fax_decode k columns rows decoded = Ok len -> rows <> 0 ->
  len = columns * rows /\ len <= 65535 * 65535.
Proof. exact fax_decode_bounded. Qed.
Print Assumptions C14_fax_bounded.
Example C14_fax_examples :
  fax_decode (-1) 8 2 (Some [8; 8]) = Ok 16 /\ fax_decode (-1) 0 0 (Some []) = Err E_NUM /\
  fax_decode (-1) 65536 1 (Some []) = Err E_NUM /\ fax_decode (-1) 8 65536 (Some []) = Err E_NUM /\
  fax_decode 0 8 1 (Some [8]) = Err E_NUM /\ fax_decode (-1) 4294967295 4294967295 None = Err E_NUM /\
  fax_decode (-1) 8 0 (Some [8; 7]) = Err E_NUM /\ fax_decode (-1) 8 0 (Some [8; 8; 8]) = Ok 24.
Proof. exact fax_decode_examples. Qed.

(** every numeric site of this area: no exclusion is left *)
Theorem C14_full : C14_full_statement.
Proof. exact (conj ps_exec_total (conj fn2_load_total (conj differences_never_crashes fax_decode_total))). Qed.
Print Assumptions C14_full.

(** generated guards and budgets (table lemmas): a change of the guards in the source changes these terms *)
Theorem C14_guards_in_source :
  ps_roll_len_guard = 1 /\ ps_roll_mod_guard = 1 /\ ps_index_guard = 1 /\ ps_parse_get = 1 /\ diff_wrapping = 1.
Proof. exact guards_table. Qed.
Print Assumptions C14_guards_in_source.
Theorem C14_fax_guards_in_source :
  fax_k_guard = 1 /\ fax_columns_guard = 1 /\ fax_rows_guard = 1 /\ fax_no_assert = 1 /\ fax_no_capacity = 1.
Proof. exact fax_guards_table. Qed.
Print Assumptions C14_fax_guards_in_source.
Theorem C14_budgets_in_source : (0 <? tree_depth) = true /\ (0 <? cs_depth) = true.
Proof. exact depth_table. Qed.
Print Assumptions C14_budgets_in_source.

(** non-vacuity *)
Example C14_guarded_cycle : guarded 3 true (fun n => if n =? 1 then [2] else [1]) [] 1 = Ok ([], false).
Proof. vm_compute. reflexivity. Qed.
Example C14_guarded_dag : guarded 4 true (fun n => if n =? 1 then [2; 3] else if n =? 2 then [3] else []) [] 1 = Ok ([], true).
Proof. vm_compute. reflexivity. Qed.
Example C14_tree_cycle_is_error :
  tree_walk_root (fun _ => [10]) 10 = Err E_TWICE /\
  tree_walk_root (fun n => if n =? 10 then [11; 11] else []) 10 = Err E_TWICE /\
  tree_walk_root (fun n => if n =? 10 then [11; 12] else []) 10 = Ok [12; 11].
Proof. exact tree_walk_cycle_is_error. Qed.
Example C14_roll_works : ps_run (fun z => z) [PsNum 1; PsNum 2; PsNum 3; PsNum 3; PsNum 1; PsRoll] [] 3 = Ok [3; 1; 2]%Z.
Proof. vm_compute. reflexivity. Qed.
Example C14_roll_hostile : ps_run (fun z => z) [PsNum 1; PsNum 5; PsNum 1; PsRoll] [] 1 = Err E_PS.
Proof. vm_compute. reflexivity. Qed.
