(** Properties/C17.v — "Bytes before the header do not change what is read".
    Only statements, each closed by [exact] of a lemma proved in XRef/. *)
From PdfV Require Import Base.Prelude Gen.Generated XRef.Model XRef.Spec XRef.HeaderProofs XRef.FrontProofs XRef.LexShift XRef.At XRef.ParseShift XRef.PrefixProofs XRef.AtProofs Syn.Prim Syn.Parser.
Set Warnings "-notation-overridden".   (* also ends the import list for the dependency scanner of tools/vplib *)

(** A marker without proper border (no proper suffix is a prefix) cannot straddle the end of a prefix
    that does not contain it: its first occurrence in prefix ++ s is at |prefix|. *)
Theorem C17_marker_first_occurrence : forall pat p s, pat <> [] -> no_border pat = true ->
  find_sub pat p = None -> starts_with pat s = true -> find_sub pat (p ++ s) = Some (lenN p).
Proof. exact find_sub_prefix. Qed.
Print Assumptions C17_marker_first_occurrence.

(** … and the marker the code searches for now (generated from backend.rs) has none. *)
Theorem C17_header_no_border : no_border xr_header = true.
Proof. exact header_no_border. Qed.
Print Assumptions C17_header_no_border.

(** locate_start_offset finds the header behind every prefix that does not contain the marker and leaves
    the header inside the search window. *)
Theorem C17_locate_start : forall p f,
  find_sub xr_header p = None -> starts_with xr_header f = true ->
  lenN p + lenN xr_header <= xr_header_window ->
  locate_start_offset (p ++ f) = Ok (lenN p).
Proof. exact locate_start_prefix. Qed.
Print Assumptions C17_locate_start.

(** locate_xref_offset reads the same startxref value. *)
Theorem C17_locate_xref : forall p f x, locate_xref_offset f = Ok x -> locate_xref_offset (p ++ f) = Ok x.
Proof. exact locate_xref_prefix. Qed.
Print Assumptions C17_locate_xref.

(** Loading (with_cache + load_storage_and_trailer): same table, same trailer, header position |p|.
    Premise about the parser oracle: a section read at |p| + pos in p ++ f is the section read at pos in f. *)
Theorem C17_load_invariant : forall (xref_at : bytes -> N -> res (list section * tinfo)) (p f : bytes),
  (forall pos, xref_at (p ++ f) (lenN p + pos) = xref_at f pos) ->
  lenN (p ++ f) < usize_max ->
  starts_with xr_header f = true -> find_sub xr_header p = None -> lenN p + lenN xr_header <= xr_header_window ->
  forall s t tid, load xref_at f = Ok (s, t, tid) -> s = 0 /\ load xref_at (p ++ f) = Ok (lenN p, t, tid).
Proof. exact load_prefix. Qed.
Print Assumptions C17_load_invariant.

(** Resolving any object number (direct, compressed, free, missing) through any cross-reference table:
    the same outcome, absolute file ranges inside the value moved by |p|.  No exclusion is left:
    `start_offset + pos` is a checked addition now (see C17_resolve_overflow_refuted_before_fix). *)
Theorem C17_resolve_invariant : forall (value : Type) (obj_at : bytes -> N -> res value)
    (member : bytes -> value -> N -> res value) (shift : N -> value -> value) (p f : bytes),
  (forall pos, obj_at (p ++ f) (lenN p + pos) = rmap (shift (lenN p)) (obj_at f pos)) ->
  (forall v i, member (p ++ f) (shift (lenN p) v) i = rmap (shift (lenN p)) (member f v i)) ->
  lenN (p ++ f) < usize_max ->
  forall t fuel id,
  resolve_ref value obj_at member fuel (p ++ f) (lenN p) t id
  = rmap (shift (lenN p)) (resolve_ref value obj_at member fuel f 0 t id).
Proof. exact resolve_prefix. Qed.
Print Assumptions C17_resolve_invariant.

(** The recovery scan lists the same items. *)
Theorem C17_scan_invariant : forall (value : Type) (scan_slice : bytes -> bytes -> N -> list (res value))
    (shift : N -> value -> value) (p f : bytes),
  (forall s o, scan_slice (p ++ f) s (lenN p + o) = map (rmap (shift (lenN p))) (scan_slice f s o)) ->
  lenN (p ++ f) < usize_max -> lenN p + lenN xr_header <= xr_header_window ->
  forall items, scan value scan_slice f 0 = Ok items ->
  scan value scan_slice (p ++ f) (lenN p) = Ok (map (rmap (shift (lenN p))) items).
Proof. exact scan_prefix. Qed.
Print Assumptions C17_scan_invariant.

(** The full statement (every table, every object number; the only premise besides the parser oracles is
    that the prefixed file is an addressable slice, |p ++ f| < 2^64) — proved since the repair of C17-b. *)
Definition C17_full_statement : Prop :=
  forall (value : Type) (obj_at : bytes -> N -> res value) (member : bytes -> value -> N -> res value)
    (shift : N -> value -> value) (p f : bytes),
  (forall pos, obj_at (p ++ f) (lenN p + pos) = rmap (shift (lenN p)) (obj_at f pos)) ->
  (forall v i, member (p ++ f) (shift (lenN p) v) i = rmap (shift (lenN p)) (member f v i)) ->
  lenN (p ++ f) < usize_max ->
  forall t fuel id,
  resolve_ref value obj_at member fuel (p ++ f) (lenN p) t id
  = rmap (shift (lenN p)) (resolve_ref value obj_at member fuel f 0 t id).

Theorem C17_full_statement_proved : C17_full_statement.
Proof. exact resolve_prefix. Qed.
Print Assumptions C17_full_statement_proved.

(** resolve_ref itself has no panic site left: with parser oracles that do not panic it does not panic. *)
Theorem C17_resolve_no_panic : forall (value : Type) (obj_at : bytes -> N -> res value) (member : bytes -> value -> N -> res value),
  (forall fl pos, no_panic (obj_at fl pos) \/ obj_at fl pos = OutOfFuel) ->
  (forall fl v i, no_panic (member fl v i) \/ member fl v i = OutOfFuel) ->
  forall fuel file start t id,
  match resolve_ref value obj_at member fuel file start t id with Panic _ => False | _ => True end.
Proof. exact resolve_ref_no_panic. Qed.
Print Assumptions C17_resolve_no_panic.

(** Before the repair (file.rs:247, unchecked `start_offset + pos`): offset 2^64-1 and one byte before the
    header — error value without the prefix, panic with it; the repaired function reports the same error. *)
Theorem C17_resolve_overflow_refuted_before_fix :
  exists (t : table) (p f : bytes) (id : N),
    resolve_ref_old N (fun _ _ => Ok 0) (fun _ _ _ => Ok 0) 2 f 0 t id = Err E_BOUNDS /\
    resolve_ref_old N (fun _ _ => Ok 0) (fun _ _ _ => Ok 0) 2 (p ++ f) (lenN p) t id = Panic 204 /\
    resolve_ref N (fun _ _ => Ok 0) (fun _ _ _ => Ok 0) 2 (p ++ f) (lenN p) t id = Err E_BOUNDS.
Proof. exact resolve_prefix_overflow_refuted. Qed.
Print Assumptions C17_resolve_overflow_refuted_before_fix.

(** The lexer position only labels (Lexer::with_offset): the same bytes lexed at a position moved by d give the
    same lexeme, its start and the lexer state moved by d. *)
Theorem C17_lexer_position : forall d s, next_word (shift_lx d s) = rmap (shift_word d) (next_word s).
Proof. exact next_word_shift. Qed.
Print Assumptions C17_lexer_position.

(** … and so does the object parser: same value, file ranges of streams moved by d (shift_prim), for all
    inputs, flags, depths, contexts and fuels — the premise "the parser reads only the slice it is given and
    the offset only labels reported ranges" of the theorems above, proved for the shared parser model. *)
Theorem C17_parser_position : forall d fuel R cx flags depth s,
  parse_fuel fuel R cx flags depth (shift_lx d s) = rmap (shift_pv d) (parse_fuel fuel R cx flags depth s).
Proof. intros d fuel. exact (proj1 (parse_shift d fuel)). Qed.
Print Assumptions C17_parser_position.

(** The oracle premises of C17_load_invariant and C17_resolve_invariant hold for the concrete readers of
    classic-table files (XRef/At.v) … *)
Theorem C17_xref_at_prefix : forall (R : resolver) (tid : dict -> N) (p f : bytes),
  (forall e, tid (shift_dict (lenN p) e) = tid e) ->
  forall pos, xref_at_tables R tid (p ++ f) (lenN p + pos) = xref_at_tables R tid f pos.
Proof. exact xref_at_tables_prefix. Qed.
Print Assumptions C17_xref_at_prefix.

Theorem C17_obj_at_prefix : forall (R : resolver) (p f : bytes) allow flags pos,
  obj_at_parse R allow flags (p ++ f) (lenN p + pos) = rmap (shift_prim (lenN p)) (obj_at_parse R allow flags f pos).
Proof. exact obj_at_parse_prefix. Qed.
Print Assumptions C17_obj_at_prefix.

(** … hence, with NO parser oracle: for every file f with the header at offset 0 (well-formed or not) and every
    prefix p that does not contain the marker and leaves the header inside the window, loading through classic
    tables gives the same table and the same trailer, and every object number resolves to the same outcome with
    the file ranges of streams moved by |p|.  (Cross-reference streams and object streams are outside these
    concrete readers: there the theorems above keep their oracle premises.) *)
Theorem C17_tables_invariant : forall (R : resolver) (tid : dict -> N) allow flags (p f : bytes),
  (forall e, tid (shift_dict (lenN p) e) = tid e) ->
  lenN (p ++ f) < usize_max ->
  starts_with xr_header f = true -> find_sub xr_header p = None -> lenN p + lenN xr_header <= xr_header_window ->
  (forall s t i, load (xref_at_tables R tid) f = Ok (s, t, i) -> s = 0 /\ load (xref_at_tables R tid) (p ++ f) = Ok (lenN p, t, i)) /\
  (forall t fuel id,
     resolve_ref prim (obj_at_parse R allow flags) (fun _ _ _ => Err E_OTHER) fuel (p ++ f) (lenN p) t id
     = rmap (shift_prim (lenN p)) (resolve_ref prim (obj_at_parse R allow flags) (fun _ _ _ => Err E_OTHER) fuel f 0 t id)).
Proof. exact tables_prefix_invariant. Qed.
Print Assumptions C17_tables_invariant.

(** C17 and C02 together, no oracle: a well-formed classic-table file (the premises of C02_resolve_latest) behind
    any marker-free prefix inside the window opens with the header at |p| and the newest trailer, and every number
    below /Size resolves to the object the newest mention points to (stream ranges moved by |p|), FreeObject or NullRef. *)
Theorem C17_resolve_latest_prefixed : forall R tid allow (p file : bytes) (h : history) secss q0 secs0 d0 older size,
  (forall e, tid (shift_dict (lenN p) e) = tid e) ->
  find_sub xr_header p = None -> lenN p + lenN xr_header <= xr_header_window -> lenN (p ++ file) < usize_max ->
  Forall2 represents secss h -> wf_history h ->
  map snd ((q0, secs0) :: older) = rev secss ->
  starts_with xr_header file = true -> startxref_at file q0 ->
  section_at file q0 secs0 d0 -> t_size (tinfo_of tid d0) = Some size -> size <= xr_max_id ->
  chain_at tid file 0 (t_prev (tinfo_of tid d0)) older -> NoDup (map fst older) ->
  (forall n g pos, latest h n = Some (Direct g pos) -> exists v, object_at file pos n g v) ->
  (forall n s i, latest h n <> Some (Compressed s i)) ->
  exists t, load (xref_at_tables R tid) (p ++ file) = Ok (lenN p, t, tid d0) /\
    forall n fuel, n < size ->
      stored_shifted (lenN p) file n (latest h n)
        (resolve_ref prim (obj_at_parse R allow F_ANY) (fun _ _ _ => Err E_OTHER) (S fuel) (p ++ file) (lenN p) t n).
Proof. exact resolve_latest_tables_prefixed. Qed.
Print Assumptions C17_resolve_latest_prefixed.

(** scan before the repair (file.rs:198-201): unshifted range end, lexer offset 0, unwrap. *)
Theorem C17_scan_refuted_before_fix :
  exists p, find_sub xr_header p = None /\
    scan_old N (fun _ s o => [Ok (lenN s + o)]) ex_file 0 = Ok [Ok 3] /\
    scan_old N (fun _ s o => [Ok (lenN s + o)]) (p ++ ex_file) (lenN p) = Panic 205 /\
    scan N (fun _ s o => [Ok (lenN s)]) (p ++ ex_file) (lenN p) = Ok [Ok 3].
Proof. exact scan_old_refuted. Qed.
Print Assumptions C17_scan_refuted_before_fix.

(** non-vacuity: the oracle premises are satisfiable (a parser that ignores the file and the offset),
    and the header premises hold for a concrete prefix *)
Example C17_premises_consistent :
  (forall (p f : bytes) pos, (fun (_ : bytes) (_ : N) => @Ok N 7) (p ++ f) (lenN p + pos) = rmap (fun v => v) ((fun (_ : bytes) (_ : N) => Ok 7) f pos)) /\
  find_sub xr_header [37; 37; 80; 68] = None /\ starts_with xr_header ex_file = true /\
  locate_start_offset ([37; 37; 80; 68] ++ ex_file) = Ok 4 /\ locate_xref_offset ([37; 37; 80; 68] ++ ex_file) = Ok 3.
Proof. split; [reflexivity|]. repeat split; vm_compute; reflexivity. Qed.
