(** Properties/C10.v — "Documents built from scratch reload with the same pages and are valid PDF".
    PdfBuilder::build is CatalogBuilder::build (promise / create / fulfill) followed by Storage::save on
    Storage::empty; the theorems below are about that save on every well-formed state.  The specification
    object is [valid_pdf] (Storage/Valid.v), an independent reading of the bytes. *)
From PdfV Require Import Base.Prelude Storage.Prim Storage.Model Storage.Proofs Storage.Syntax Storage.Run Storage.Tables Storage.Valid.
From PdfV Require Import Storage.Builder Storage.Reload Storage.BuilderProofs Storage.LoadProofs.
From PdfV Require Syn.Serialize.

(** Every in-use entry of a saved object points (relative to the header) at its `id gen obj` header. *)
Theorem C10_offsets : forall ser s tr s' tr',
  wf_st s -> save ser s tr = Ok (s', tr', None) ->
  forall id p g, clookup (changes (save_pre s tr)) id = Some (p, g) ->
    exists pre post, backend s' = pre ++ obj_header id g ++ post /\ start s <= lenN pre /\
                     nthN (refs s') id = Some (XRaw (lenN pre - start s) g).
Proof.
  intros ser s tr s' tr' Hwf Hs id p g Hl.
  destruct (save_layout ser s tr s' tr' Hwf Hs) as [H _].
  destruct (H id p g Hl) as [body [pre [post [_ [Hb [Hle Hn]]]]]].
  exists pre, (body ++ [10] ++ kw_endobj_nl ++ post). split; [|split; assumption].
  rewrite Hb. unfold obj_bytes. rewrite <- !app_assoc. reflexivity.
Qed.
Print Assumptions C10_offsets.

(** /W, /Index and the stream length of the cross-reference stream are consistent, the widths are between
    1 and 8 bytes, and the data decodes to the whole table. *)
Theorem C10_xref_consistent : forall es aw bw data,
  table_in_range es -> write_stream es (lenN es) = Ok (aw, bw, data) ->
  read_section 0 (lenN es) 1 aw bw data = Ok ((0, es), []) /\ aw <= 8 /\ bw <= 8 /\ lenN data = lenN es * (1 + aw + bw).
Proof. exact write_stream_roundtrip. Qed.
Print Assumptions C10_xref_consistent.

(** The cross-reference stream object itself is in the table, at the offset startxref announces, and the
    file ends with startxref / offset / %%EOF. *)
Theorem C10_startxref : forall ser s tr s' tr',
  wf_st s -> save ser s tr = Ok (s', tr', None) ->
  exists xpos xs pre, nthN (refs s') (lenN (refs (save_pre s tr))) = Some (XRaw xpos 0) /\
    backend s' = pre ++ obj_header (lenN (refs (save_pre s tr))) 0 ++ xs ++ kw_endobj_nl ++ startxref_tail xpos /\
    lenN pre = start s + xpos.
Proof.
  intros ser s tr s' tr' Hwf Hs.
  destruct (save_layout ser s tr s' tr' Hwf Hs) as [_ [_ [_ [Hx _]]]].
  destruct Hx as (xpos & aw & bw & data & xd & xs & _ & Hn & _ & pre & Hb & Hl).
  exists xpos, xs, pre. repeat split; assumption.
Qed.
Print Assumptions C10_startxref.

(** ---- the builder: PdfBuilder::build / CatalogBuilder::build as the Gallina program [Builder.build] over the storage
    model, for every page list (Storage/Builder.v; tied to the real builder byte for byte by mode `build_bytes`). ---- *)

(** C10_valid (structural part, proved): the bytes of every build are structurally valid in the sense of [valid_struct]
    (stated on the bytes and on the table the file's own cross-reference stream encodes): header first; the file ends
    with the cross-reference stream object — the last table entry, at the offset `startxref` announces — then
    `startxref`, the offset, `%%EOF`; the stream data decodes (parse_xref_section_from_stream) to exactly the table;
    /Size is not below the number of entries, /Length is the byte count of the data, /W and /Index describe the rows;
    entry 0 is free and every other entry is in use and points at the `num 0 obj` header of that very number. *)
Theorem C10_valid_struct : forall ps info s' tr',
  build ps info = Ok (s', tr', None) -> lenN (backend s') < 2 ^ 64 -> valid_struct (backend s') (refs s').
Proof. exact build_valid_struct. Qed.
Print Assumptions C10_valid_struct.

(** C10_reload: a reload of the built file (a state over the built bytes whose table is the saved table: C09_load_table)
    resolves the trailer's /Root to the catalog, its /Pages to a page tree whose /Kids are as many references as pages
    were given, in order ([Forall2]), each resolving to the page dictionary `other entries ++ Type, Parent, Resources,
    MediaBox?, CropBox?, TrimBox?, Contents, Rotate` of that page — the boxes, rotation and extra entries given — whose
    /Contents resolves to a stream of exactly the given content bytes; and the information dictionary comes back.
    Composition of [build_catalog_spec] with C09_reload / C09_reload_stream; the side conditions are C04's storable
    domain for the values the caller supplies ([page_ok], [info_ok]). *)
Theorem C10_reload : forall ps info s' tr',
  Forall page_ok ps -> info_ok info -> lenN ps < 1000000 ->
  build ps info = Ok (s', tr', None) ->
  forall member s3, reloaded s' s3 ->
  exists tree kids,
    resolve parse_obj member s3 (t_root tr') = Ok (PDict (catalog_dict tree)) /\
    resolve parse_obj member s3 tree = Ok (PDict (tree_dict kids)) /\
    Forall2 (page_reloaded member s3 tree) kids ps /\
    t_info tr' = info /\
    match info with
    | Some d => resolve parse_obj member s3 (lenN (refs s') - 2, 0) = Ok (PDict d)
    | None => True
    end.
Proof. exact build_reload. Qed.
Print Assumptions C10_reload.

(** the produced bytes open: FileOptions::load (model) succeeds on every built file and the loaded state is a reload in
    the sense of C10_reload — so C10_reload applies to what load returns, with no assumption about the table *)
Theorem C10_load : forall read_classic ps info s' tr' c,
  build ps info = Ok (s', tr', None) -> lenN ps < 300000 -> lenN (backend s') < 2 ^ 64 ->
  exists s3 td, load parse_obj read_classic (backend s') c = Ok (s3, td) /\ reloaded s' s3.
Proof. exact build_load. Qed.
Print Assumptions C10_load.

(** the state the builder hands to save is well-formed (so every C09 theorem applies to the save of a build) and
    contains exactly the objects of the document *)
Theorem C10_build_state : forall ps s4 cat,
  build_catalog ps = Ok (s4, cat) ->
  wf_st s4 /\ start s4 = 0 /\ backend s4 = backend empty_storage /\ lenN (refs s4) = 3 * lenN ps + 3 /\
  exists tree kids,
    clookup (changes s4) (fst cat) = Some (PDict (catalog_dict tree), 0) /\ snd cat = 0 /\ fst cat < lenN (refs s4) /\
    clookup (changes s4) (fst tree) = Some (PDict (tree_dict kids), 0) /\ snd tree = 0 /\ fst tree < lenN (refs s4) /\
    Forall2 (page_written s4 tree) kids ps.
Proof. exact build_catalog_spec. Qed.
Print Assumptions C10_build_state.

(** The whole statement about the bytes as the *executable* validator reads them — not proved universally (the
    validator tokenises every object body with its own tokeniser; [C10_valid_struct] proves the structure it checks
    around the bodies); it is evaluated by the extracted [valid_code] on the implementation's real output in every
    case — which the builder model reproduces byte for byte — and on the model's output in the examples below. *)
Definition C10_full_statement : Prop :=
  forall s tr s' tr', wf_st s -> start s = 0 -> prefixb HEADER (backend s) = true ->
    save Serialize.ser s tr = Ok (s', tr', None) -> valid_pdf (backend s') = true.


Definition n_ (s : list N) : prim := PName s.

(** CatalogBuilder::build for one page + PdfBuilder::build, as a program over the storage model *)
Definition build_one_page (info : option dict) : res (st * trailer * option N) :=
  let '(s1, page) := promise empty_storage in
  let '(s2, tree) := create s1 (PDict [(kT, n_ [80; 97; 103; 101; 115]); ([75; 105; 100; 115], PArr [PRef (fst page) 0]); ([67; 111; 117; 110; 116], PInt 1)]) in
  let '(s3, rsrc) := create s2 (PDict []) in
  let '(s4, cont) := create s3 (PStreamData [(k_Length, PInt 4)] [113; 10; 81; 10]) in
  do f <- fulfill s4 page (PDict [(kT, n_ [80; 97; 103; 101]); ([80; 97; 114; 101; 110; 116], PRef (fst tree) 0);
                                   ([82; 101; 115; 111; 117; 114; 99; 101; 115], PRef (fst rsrc) 0);
                                   ([77; 101; 100; 105; 97; 66; 111; 120], PArr [PInt 0; PInt 0; PReal [54; 49; 50; 46; 53]; PInt 792]);
                                   ([67; 111; 110; 116; 101; 110; 116; 115], PRef (fst cont) 0); ([82; 111; 116; 97; 116; 101], PInt 90)]);
  let '(s6, cat) := create (fst f) (PDict [(kT, n_ [67; 97; 116; 97; 108; 111; 103]); ([80; 97; 103; 101; 115], PRef (fst tree) 0)]) in
  save Serialize.ser s6 (mkTrailer 0 None cat info [[102; 111; 111]; [98; 97; 114]]).

Example C10_example_valid :
  match build_one_page None with Ok (s', _, None) => valid_code (backend s') = 0 | _ => False end.
Proof. vm_compute. reflexivity. Qed.

Example C10_example_valid_info :
  match build_one_page (Some [([84; 105; 116; 108; 101], PStr [104; 105; 40])]) with
  | Ok (s', _, None) => valid_code (backend s') = 0 /\
      (* and a second save of the same document is valid again *)
      match save Serialize.ser s' (mkTrailer 0 None (6, 0) None []) with Ok (s'', _, None) => valid_code (backend s'') = 0 | _ => False end
  | _ => False end.
Proof. vm_compute. split; reflexivity. Qed.

(** the validator is not vacuous: a wrong offset, a wrong /Length and a dangling reference are rejected *)
Example C10_validator_rejects :
  match build_one_page None with
  | Ok (s', _, None) =>
      let b := backend s' in
      valid_code (take 9 b ++ [32] ++ drop 9 b) <> 0 /\ valid_code (drop 1 b) <> 0
  | _ => False end.
Proof. vm_compute. split; discriminate. Qed.

(** the general builder on a two-page document with boxes, rotation, extra entries and an information dictionary:
    the executable validator accepts the bytes (non-vacuity of [Builder.build], [C10_valid_struct], [C10_reload]) *)
Example C10_example_pages : list page :=
  [mkPage [([88], PInt 5); ([89; 107], PName [83])] (Some [PInt 0; PInt 0; PInt 612; PInt 792])
          (Some [PInt 10; PInt 20; PReal [49; 48; 48; 46; 53]; PInt 300]) None 90 [113; 10; 81; 10];
   mkPage [] (Some [PInt 0; PInt 0; PInt 595; PInt 842]) None None 0 []].
Example C10_example_build :
  match build C10_example_pages (Some [([84; 105; 116; 108; 101], PStr [104; 105; 40])]) with
  | Ok (s', _, None) => valid_code (backend s') = 0 /\ lenN (refs s') = 11
  | _ => False end.
Proof. vm_compute. split; reflexivity. Qed.
Example C10_example_build_empty :
  match build [] None with Ok (s', _, None) => valid_code (backend s') = 0 | _ => False end.
Proof. vm_compute. reflexivity. Qed.
