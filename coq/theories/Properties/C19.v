(** Properties/C19.v — "Glyph widths and Unicode maps follow the font dictionaries exactly".
    Only statements, each closed by [exact] of a lemma proved in Font/*Proofs.v. *)
From Coq Require Import Sorted.
From PdfV Require Lex.Lexer Lex.StrLexer Lex.LexProofs Lex.StrProofs.
From PdfV Require Import Base.Prelude Gen.Generated Font.Model Font.Spec Font.WidthProofs Font.UtfProofs Font.CmapProofs Font.WriterProofs Font.LexEq Font.SpellProofs.

(** the width table: after [_set w c x] (which never panics, in any of its five growth cases)
    code c has width x and every other code keeps its width *)
Theorem C19_get_set : forall w c x, exists w', _set w c x = Ok w' /\
  forall c', get w' c' = if c' =? c then x else get w c'.
Proof. exact get_set. Qed.
Print Assumptions C19_get_set.

(** Widths::set: the debug assertion after _set never fires *)
Theorem C19_set_ok : forall w c x, exists w', set w c x = Ok w' /\ w_default w' = w_default w /\
  forall c', get w' c' = if c' =? c then x else get w c'.
Proof. exact set_ok. Qed.
Print Assumptions C19_set_ok.

(** composite fonts: for every well-formed W array (any mix and order of `c [w…]` — inline or by
    reference — and `cfirst clast w` groups over disjoint ranges of CIDs) and every default width,
    Font::widths succeeds and every code gets the width its group assigns, the default elsewhere *)
Theorem C19_cid_widths : forall gs dw, wf_groups gs ->
  exists w, cid_widths dw (render_groups gs) = Ok w /\ forall c, get w c = w_spec gs dw c.
Proof. exact cid_widths_correct. Qed.
Print Assumptions C19_cid_widths.

(** without disjointness: the last group covering a code wins *)
Theorem C19_cid_widths_last_wins : forall gs dw, Forall wf_group gs ->
  exists w, cid_widths dw (render_groups gs) = Ok w /\ forall c, get w c = w_spec (rev gs) dw c.
Proof. exact cid_widths_last_wins. Qed.
Print Assumptions C19_cid_widths_last_wins.

(** hostile arrays (negative or huge codes, empty lists, missing operands, wrong types, bad
    references): the interpretation of ANY /W vector ends in a table or an error *)
Theorem C19_widths_no_panic : forall dw items, clean (cid_widths dw items).
Proof. exact cid_widths_no_panic. Qed.
Print Assumptions C19_widths_no_panic.

Theorem C19_type0_no_panic : forall (A : Type) (ds : list A) f, (forall d, clean (f d)) -> clean (type0_widths ds f).
Proof. exact @type0_no_panic. Qed.
Print Assumptions C19_type0_no_panic.

(** simple fonts: Widths[c - FirstChar] inside the table, MissingWidth (0 without a descriptor) outside *)
Theorem C19_simple_widths : forall first ws missing c, (0 <= first)%Z ->
  exists w, simple_widths (Some first) (Some ws) missing = Some w /\
    get w c = simple_spec (Z.to_N first) ws (match missing with Some d => d | None => 0 end) c.
Proof. exact simple_widths_correct. Qed.
Print Assumptions C19_simple_widths.

(** simple fonts with ill-formed dictionaries — negative /FirstChar (cast to usize), /Widths absent, shorter or longer
    than /LastChar - /FirstChar + 1, /FirstChar > /LastChar (never read): no arithmetic can overflow, no index can be out
    of bounds, and every code has the width of the /Widths array placed at `FirstChar as usize`, /MissingWidth elsewhere *)
Theorem C19_simple_widths_any : forall first ws missing c,
  exists w, simple_widths (Some first) ws missing = Some w /\
    get w c = simple_spec (i32_as_usize first) (match ws with Some l => l | None => [] end)
                          (match missing with Some d => d | None => 0 end) c.
Proof. exact simple_widths_any. Qed.
Print Assumptions C19_simple_widths_any.

(** negative /FirstChar: every code below 2^64 - 2^31 gets /MissingWidth *)
Theorem C19_simple_widths_negative : forall first ws missing c, (-2147483648 <= first < 0)%Z -> c < 18446744071562067968 ->
  exists w, simple_widths (Some first) ws missing = Some w /\ get w c = match missing with Some d => d | None => 0 end.
Proof. exact simple_widths_negative. Qed.
Print Assumptions C19_simple_widths_negative.

(** UTF-16BE: decoding the encoding of any string of scalar values (supplementary planes included) returns it *)
Theorem C19_utf16_rt : forall u, forallb is_scalar u = true -> utf16be_to_string (utf16be_bytes u) = Ok u.
Proof. exact utf16_rt. Qed.
Print Assumptions C19_utf16_rt.

(** the CMap reader: every well-formed text of bfchar sections and bfrange sections (array form), in the
    spelling of [render_cmap], is read by parse_cmap — running on the crate's lexer, hex-string lexer and
    array parser — as exactly the map the specification defines (later entries replace earlier ones) *)
Theorem C19_cmap_read : forall t, wf_cmap t -> parse_cmap (render_cmap t) = Ok (cmap_denote t).
Proof. exact cmap_read. Qed.
Print Assumptions C19_cmap_read.

(** the CMap reader on every spelling the standard allows ([sp_text], Font/SpellProofs.v): any white-space and comments
    between tokens (or none where a delimiter separates them), hex strings in either digit case with white-space inside
    and odd digit counts, one- and two-byte source codes, bfrange in the array form and in the string form
    `<lo> <hi> <dst>` (last byte of dst incremented per code), any prologue / codespace / trailer tokens around the
    sections, `endcmap`, data ending inside a comment *)
Theorem C19_cmap_read_spelled : forall t s, sp_text t s -> parse_cmap s = Ok (cmap_denote t).
Proof. exact cmap_read_spelled. Qed.
Print Assumptions C19_cmap_read_spelled.

(** the reader's lexer pieces are the shared lexer models (Lex/Lexer.v, Lex/StrLexer.v) on every input, so the
    token-level theorems of Lex/LexProofs.v and Lex/StrProofs.v are facts about parse_cmap's lexer *)
Theorem C19_lexer_shared : forall s p,
  Font.Model.next_word s = proj_word (PdfV.Lex.Lexer.next_word (PdfV.Lex.Lexer.mkLx p s)).
Proof. exact next_word_shared. Qed.
Print Assumptions C19_lexer_shared.

Theorem C19_hexstr_shared : forall l,
  match PdfV.Lex.StrLexer.hexstring_lex l with
  | Ok (b, n) => hexstr None l = Ok (b, skipn (N.to_nat n) l)
  | Err _ => exists e, hexstr None l = Err e
  | Panic _ => False
  | OutOfFuel => False
  end.
Proof. exact hexstr_shared. Qed.
Print Assumptions C19_hexstr_shared.

(** writer -> reader, for EVERY map (a ToUnicodeMap is its content sorted by code; codes are u16, texts are strings
    of Unicode scalar values): write_cmap never panics — the u16 addition of its block splitter cannot overflow, no
    block is empty — its text is a CMap text in the spelling of [render_cmap] whose sections are the blocks of
    consecutive codes, and parse_cmap reads that text back as exactly the map *)
Theorem C19_cmap_rt : forall m : cmap, (forall e, In e m -> fst e < 65536 /\ wf_ustr (snd e)) ->
    StronglySorted (fun a b => fst a < fst b) m ->
    exists t, write_cmap m = Ok t /\ parse_cmap t = Ok m.
Proof. exact cmap_rt_full. Qed.
Print Assumptions C19_cmap_rt.

(** the writer's text is a well-formed CMap text that denotes the map (independent of the reader) *)
Theorem C19_cmap_write : forall m : cmap, Forall wf_entry m -> StronglySorted key_lt m ->
  exists t, write_cmap m = Ok (render_cmap t) /\ wf_cmap t /\ cmap_denote t = m.
Proof. exact write_cmap_text. Qed.
Print Assumptions C19_cmap_write.

(** every map built by ToUnicodeMap::create is in that domain *)
Theorem C19_cmap_rt_created : forall l, Forall wf_entry l ->
  exists t, write_cmap (map_create l) = Ok t /\ parse_cmap t = Ok (map_create l).
Proof. exact cmap_rt_created. Qed.
Print Assumptions C19_cmap_rt_created.

Example C19_cmap_rt_example :
  let m := [(0, [65]); (1, [66; 128512]); (2, []); (7, [1114111]); (9, [97]); (10, [98]); (300, [55295]);
            (65534, [57344]); (65535, [65535])] in
  exists t, write_cmap m = Ok t /\ parse_cmap t = Ok m.
Proof. exact cmap_rt_example. Qed.

Example C19_cmap_text_example :
  let t := [SChar [(65, [97]); (66, [128512; 98])]; SRange [(16, 18, [[120]; []; [1114111]]); (65535, 65535, [[122]])]; SChar []] in
  wf_cmap t /\ cmap_denote t = [(16, [120]); (17, []); (18, [1114111]); (65, [97]); (66, [128512; 98]); (65535, [122])].
Proof.
  split; [|vm_compute; reflexivity].
  repeat constructor; cbn; lia.
Qed.

(** non-vacuity *)
Example C19_groups_example :
  let gs := [GRange 10 12 (NInt 500 1140457472); GList 3 [NReal 1; NInt 7 2] true; GRange 0 0 (NReal 9)] in
  wf_groups gs /\
  exists w, cid_widths 77 (render_groups gs) = Ok w /\
    map (get w) [0; 1; 3; 4; 5; 10; 12; 13; 70000] = [9; 77; 1; 2; 77; 1140457472; 1140457472; 77; 77].
Proof.
  split.
  - split.
    + repeat constructor; cbn; lia.
    + cbn [disjoint_groups]. repeat split; intros g' Hin c Hc; cbn [In] in Hin;
        repeat (destruct Hin as [<-|Hin]); try contradiction; cbn [covers] in *;
        unfold lenN in *; cbn [length] in *;
        repeat match goal with H : _ && _ = true |- _ => apply andb_true_iff in H; destruct H end;
        repeat match goal with
               | H : (_ <=? _) = true |- _ => apply N.leb_le in H
               | H : (_ <? _) = true |- _ => apply N.ltb_lt in H end;
        apply andb_false_iff;
        try (left; apply N.leb_gt; lia); try (right; apply N.ltb_ge; lia); try (right; apply N.leb_gt; lia).
  - eexists. split; [vm_compute; reflexivity|]. vm_compute. reflexivity.
Qed.

Example C19_hostile_examples :
  cid_widths 0 [IInt 0 0; IInt (-1) 0; IInt 500 0] = Err 1 /\
  cid_widths 0 [IInt 0 0; IArr []] = Ok (new 0) /\
  cid_widths 0 [IInt 2147483647 0; IArr [NInt 1 1]] = Err 1.
Proof. repeat split; vm_compute; reflexivity. Qed.

(** non-vacuity of [sp_text]: comment, form feed, adjacent strings, lower-case digits, white-space inside a string,
    one-byte codes, string form of bfrange *)
Example C19_spelled_example : sp_text ex_text ex_bytes /\ parse_cmap ex_bytes = Ok [(26, [97]); (27, [98])].
Proof. split; [exact ex_spelled|exact ex_read]. Qed.
