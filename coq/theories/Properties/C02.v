(** Properties/C02.v — "The newest cross-reference entry for an object always wins".
    Only statements, each closed by [exact] of a lemma proved in XRef/. *)
From PdfV Require Import Base.Prelude Gen.Generated XRef.Model XRef.Spec XRef.MergeProofs XRef.StreamProofs XRef.FrontProofs XRef.TableProofs XRef.At XRef.AtProofs XRef.AtExample XRef.TotalProofs Syn.Prim Syn.Parser Syn.Spells Syn.RenderProofs.
Set Warnings "-notation-overridden".   (* also ends the import list for the dependency scanner of tools/vplib *)

(** For every well-formed history, every subsection split of every update and every /Size (growing or not):
    merging the sections newest first (XRefTable::new + add_entries_from) leaves, for every number below
    /Size, the entry of the most recent update that mentions it (Invalid = missing when none does). *)
Theorem C02_merge_latest : forall (h : history) (secss : list (list section)) (size n : N),
  Forall2 represents secss h -> wf_history h -> n < size ->
  exists t, merge size (concat (rev secss)) = Ok t /\ table_get t n = Ok (xent_opt (latest h n)).
Proof. exact merge_latest. Qed.
Print Assumptions C02_merge_latest.

(** Numbers at or beyond the newest /Size are never an older value: index /Size is the free entry
    XRefTable::new appends, everything above is unspecified (an error value). *)
Theorem C02_beyond_size : forall (h : history) (secss : list (list section)) (size n : N),
  Forall2 represents secss h -> wf_history h -> size <= n ->
  exists t, merge size (concat (rev secss)) = Ok t /\
    table_get t n = if n =? size then Ok (XFree xr_new_free_next xr_new_free_gen) else Err E_UNSPEC.
Proof. exact merge_beyond_size. Qed.
Print Assumptions C02_beyond_size.

(** The /Prev walk (read_xref_table_and_trailer) over a chain of sections linked by /Prev: the table is
    the merge above and the trailer returned is the newest one.  [xref_at] is the oracle "read one
    cross-reference section at this position"; the premises say what the history wrote where. *)
Theorem C02_walk_latest : forall xref_at file_len start (h : history) secss q0 secs0 tr0 older size fuel n,
  Forall2 represents secss h -> wf_history h ->
  map snd ((q0, secs0) :: older) = rev secss ->
  xref_at (start + q0) = Ok (secs0, tr0) -> t_size tr0 = Some size -> size <= xr_max_id ->
  linked xref_at start (t_prev tr0) older -> NoDup (map fst older) ->
  (forall q, In q (q0 :: map fst older) -> start + q < file_len) -> file_len < usize_max ->
  (length older <= fuel)%nat -> n < size ->
  exists t, read_xref_table_and_trailer xref_at file_len fuel start q0 = Ok (t, t_id tr0) /\
            table_get t n = Ok (xent_opt (latest h n)).
Proof. exact walk_latest. Qed.
Print Assumptions C02_walk_latest.

(** Classic tables (§7.5.4): reading at the `xref` keyword (read_xref_and_trailer_at, classic branch, up to and
    including the `trailer` keyword) inverts the printer: every row is 20 bytes in any of the three 2-byte
    end-of-line forms (chosen per row), any subsection split (including empty subsections and no subsection),
    any non-empty ISO white-space after `xref`, between the two header numbers and after them, any white-space
    before a header and before `trailer`.  [rest] is what follows the keyword (the trailer dictionary): its
    first byte must not continue the keyword
    (white-space or a delimiter such as `<`).  The lexer ends exactly behind the keyword. *)
Theorem C02_table_roundtrip : forall (L : layout) (secs : list section) (rest : bytes) (p : N),
  layout_ok L secs -> token_end rest ->
  read_xref_table_at (mkLx p (print_table_spec L secs ++ rest))
  = Ok (secs, mkLx (p + lenN (print_table_spec L secs)) rest).
Proof. exact table_roundtrip. Qed.
Print Assumptions C02_table_roundtrip.

(** every printed row has exactly 20 bytes *)
Theorem C02_table_row_20 : forall e el, row_fits e -> lenN (print_row e el) = 20.
Proof. exact print_row_len. Qed.
Print Assumptions C02_table_row_20.

(** For ALL inputs (well-formed or not) the classic-table reader and locate_xref_offset end in a value or an error
    value: there is no panic site, and the fuel of the model's loops always suffices because every lexeme consumes
    input (next_word_total) — so "OutOfFuel" is not an outcome of these models. *)
Theorem C02_table_total : forall s, no_panic (read_xref_table_at s).
Proof. exact read_xref_table_at_total. Qed.
Print Assumptions C02_table_total.

Theorem C02_locate_xref_total : forall file, no_panic (locate_xref_offset file).
Proof. exact locate_xref_offset_total. Qed.
Print Assumptions C02_locate_xref_total.

Theorem C02_lexer_progress : forall s,
  match next_word s with
  | Ok (_, _, s') => (length (lrest s') < length (lrest s))%nat
  | Err _ => True
  | _ => False
  end.
Proof. exact next_word_total. Qed.
Print Assumptions C02_lexer_progress.

(** One classic section as it stands in a file — the table in any layout of C02_table_roundtrip followed by the
    trailer dictionary in ANY conforming spelling (Syn/Spells.v: the specification object of C03) and a tail the
    parser cannot mistake for `stream` — is read back by read_xref_and_trailer_at: the sections, the dictionary,
    and the lexer exactly behind the dictionary.  (Composition of the table reader with the shared parser model.) *)
Theorem C02_section_roundtrip : forall (R : resolver) (L : layout) (secs : list section) (d : dict) its text tl p,
  layout_ok L secs -> spells (PDict d) its -> vdepth (PDict d) <= MAX_DEPTH ->
  renders its text tl -> tail_ok tl ->
  exists p', p' + lenN tl = p + lenN (print_table_spec L secs) + lenN text /\
    read_xref_and_trailer_at R (mkLx p (print_table_spec L secs ++ text)) = Ok (secs, d, mkLx p' tl).
Proof. exact read_section_roundtrip. Qed.
Print Assumptions C02_section_roundtrip.

(** "read one section at a position" — the oracle [xref_at] of C02_walk_latest — for classic sections:
    a premise about what the file CONTAINS at the position replaces the premise about what the oracle returns. *)
Theorem C02_xref_at_section : forall (R : resolver) (tid : dict -> N) file pos secs d,
  section_at file pos secs d -> xref_at_tables R tid file pos = Ok (secs, tinfo_of tid d).
Proof. exact xref_at_section. Qed.
Print Assumptions C02_xref_at_section.

(** C02_walk_latest with the oracle discharged: a file that contains a /Prev chain of classic sections. *)
Theorem C02_walk_latest_tables : forall (R : resolver) (tid : dict -> N) file start (h : history) secss q0 secs0 d0 older size fuel n,
  Forall2 represents secss h -> wf_history h ->
  map snd ((q0, secs0) :: older) = rev secss ->
  section_at file (start + q0) secs0 d0 ->
  t_size (tinfo_of tid d0) = Some size -> size <= xr_max_id ->
  chain_at tid file start (t_prev (tinfo_of tid d0)) older -> NoDup (map fst older) ->
  (forall q, In q (q0 :: map fst older) -> start + q < lenN file) -> lenN file < usize_max ->
  (length older <= fuel)%nat -> n < size ->
  exists t, read_xref_table_and_trailer (xref_at_tables R tid file) (lenN file) fuel start q0 = Ok (t, tid d0) /\
            table_get t n = Ok (xent_opt (latest h n)).
Proof. exact walk_latest_tables. Qed.
Print Assumptions C02_walk_latest_tables.

(** "read one object at a position" — the oracle [obj_at] of resolve_ref: `id gen obj value endobj` with the
    value in any conforming spelling is read back as the value. *)
Theorem C02_object_at : forall (R : resolver) allow file pos id gen v,
  object_at file pos id gen v -> obj_at_parse R allow F_ANY file pos = Ok v.
Proof. exact obj_at_object. Qed.
Print Assumptions C02_object_at.

(** locate_xref_offset reads the offset the file ends with (last occurrence of the keyword, the number after it) *)
Theorem C02_locate_startxref : forall file q, startxref_at file q -> locate_xref_offset file = Ok q.
Proof. exact locate_xref_startxref. Qed.
Print Assumptions C02_locate_startxref.

(** C02_resolve_latest (DESIGN §9 C02) for classic-table files: open (header at 0, startxref, /Prev walk) and
    resolve.  For every well-formed history written as a chain of classic sections, every number below /Size
    resolves to the object stored by the most recent update that mentions it, to FreeObject when that update
    freed it, to NullRef when no update mentions it; the trailer is the newest one.  No parser oracle is left;
    the remaining premises describe the file: header at 0; the file ends with `startxref`, the offset in decimal
    and a tail without the letter `s` (startxref_at, e.g. "\n%%EOF\n"); what stands at the positions the sections
    and the newest entries name. *)
Theorem C02_resolve_latest : forall (R : resolver) (tid : dict -> N) allow (member : bytes -> prim -> N -> res prim)
    file (h : history) secss q0 secs0 d0 older size,
  Forall2 represents secss h -> wf_history h ->
  map snd ((q0, secs0) :: older) = rev secss ->
  starts_with xr_header file = true -> startxref_at file q0 ->
  section_at file q0 secs0 d0 -> t_size (tinfo_of tid d0) = Some size -> size <= xr_max_id ->
  chain_at tid file 0 (t_prev (tinfo_of tid d0)) older -> NoDup (map fst older) ->
  lenN file < usize_max ->
  (forall n g pos, latest h n = Some (Direct g pos) -> exists v, object_at file pos n g v) ->
  (forall n s i, latest h n <> Some (Compressed s i)) ->
  exists t, load (xref_at_tables R tid) file = Ok (0, t, tid d0) /\
    forall n fuel, n < size ->
      stored file 0 n (latest h n) (resolve_ref prim (obj_at_parse R allow F_ANY) member (S fuel) file 0 t n).
Proof. exact resolve_latest_tables_file. Qed.
Print Assumptions C02_resolve_latest.

(** Cross-reference streams: the section reader inverts the §7.5.8 printer for every /W with fields of
    0..8 bytes (w0 = 0: default type 1), one subsection … *)
Theorem C02_stream_roundtrip : forall w0 w1 w2 first es rest allow,
  w0 <= 8 -> w1 <= 8 -> w2 <= 8 -> 0 < w0 + w1 + w2 ->
  Forall (entry_fits w0 w1 w2) es ->
  lenN (print_rows w0 w1 w2 es ++ rest) < usize_max ->
  parse_xref_section_from_stream first (lenN es) [w0; w1; w2] (print_rows w0 w1 w2 es ++ rest) allow
  = Ok ({| first_id := first; entries := es |}, rest).
Proof. exact stream_section_roundtrip. Qed.
Print Assumptions C02_stream_roundtrip.

(** … and any list of subsections with its /Index array. *)
Theorem C02_stream_sections_roundtrip : forall w0 w1 w2 secs allow,
  w0 <= 8 -> w1 <= 8 -> w2 <= 8 -> 0 < w0 + w1 + w2 ->
  Forall (section_fits w0 w1 w2) secs ->
  lenN (print_stream w0 w1 w2 secs) < usize_max ->
  parse_xref_stream_sections (index_of secs) [w0; w1; w2] (print_stream w0 w1 w2 secs) allow = Ok secs.
Proof. exact stream_sections_roundtrip. Qed.
Print Assumptions C02_stream_sections_roundtrip.

(** The xref-stream numeric sites (C01-b, C01-c): for all widths, counts and data the section reader ends
    in a value or an error value, and a successful read consumed at least one byte per entry. *)
Theorem C02_stream_no_panic : forall first num width data allow,
  no_panic (parse_xref_section_from_stream first num width data allow).
Proof. exact stream_section_no_panic. Qed.
Print Assumptions C02_stream_no_panic.

Theorem C02_stream_bounded : forall first num w0 w1 w2 data allow s rest,
  parse_xref_section_from_stream first num [w0; w1; w2] data allow = Ok (s, rest) ->
  0 < w0 + w1 + w2 /\ lenN data = lenN rest + lenN (entries s) * (w0 + w1 + w2) /\ lenN (entries s) <= lenN data.
Proof. exact stream_section_bounded. Qed.
Print Assumptions C02_stream_bounded.

(** The rule before the repair (xref.rs:116: an existing Stream entry was always replaced) let an older
    direct entry win over a newer compressed one although the step is well-formed. *)
Theorem C02_merge_older_stream_refuted_before_fix :
  exists dst e older newer, step_ok older newer /\ dst = xent_of newer /\ e = xent_of older /\
    should_update_old dst e = Ok true /\ should_update dst e = Ok false.
Proof. exact old_rule_refuted. Qed.
Print Assumptions C02_merge_older_stream_refuted_before_fix.

(** non-vacuity *)
Example C02_history_example :
  rmap (fun t => (table_get t 1, table_get t 2, table_get t 3)) (merge 4 (concat (rev ex_secss)))
  = Ok (Ok (XStream 7 0), Ok (XFree 0 1), Ok XInvalid).
Proof. exact ex_merge. Qed.
Example C02_example_wf : Forall2 represents ex_secss ex_h /\ latest ex_h 1 = Some (Compressed 7 0) /\ latest ex_h 2 = Some (Freed 1 0).
Proof.
  split; [|split; reflexivity].
  repeat constructor; intros n; unfold picks; cbn [flat_map first_id entries pick_es app].
  - destruct (N.eqb_spec 1 n) as [<-|H1]; [reflexivity|]. cbn [N.add].
    destruct (N.eqb_spec (1 + 1) n) as [<-|H2]; [reflexivity|].
    assert (E1 : n =? 1 = false) by (apply N.eqb_neq; lia). assert (E2 : n =? 2 = false) by (apply N.eqb_neq; lia).
    rewrite E1, E2. reflexivity.
  - destruct (N.eqb_spec 1 n) as [<-|H1]; [reflexivity|].
    assert (E1 : n =? 1 = false) by (apply N.eqb_neq; lia). rewrite E1. reflexivity.
  - destruct (N.eqb_spec 2 n) as [<-|H1]; [reflexivity|].
    assert (E1 : n =? 2 = false) by (apply N.eqb_neq; lia). rewrite E1. reflexivity.
Qed.
Example C02_stream_example :
  parse_xref_stream_sections [3; 2] [1; 2; 1] (print_stream 1 2 1 [{| first_id := 3; entries := [XRaw 300 0; XStream 9 4] |}]) false
  = Ok [{| first_id := 3; entries := [XRaw 300 0; XStream 9 4] |}].
Proof. vm_compute. reflexivity. Qed.
Definition ex_layout : layout :=
  {| l_first := [13; 10];
     l_subs := [ {| l_pre := []; l_mid := [32]; l_heol := [10]; l_eols := [SpLf; CrLf] |};
                 {| l_pre := [32; 9]; l_mid := [32; 32]; l_heol := [13]; l_eols := [SpCr] |};
                 {| l_pre := []; l_mid := [32]; l_heol := [13; 10]; l_eols := [] |} ];
     l_end := [] |}.
Definition ex_tab_secs : list section :=
  [ {| first_id := 0; entries := [XFree 0 65535; XRaw 17 0] |};
    {| first_id := 7; entries := [XRaw 9999999999 3] |};
    {| first_id := 12; entries := [] |} ].
Example C02_table_example :
  read_xref_table_at (mkLx 100 (print_table_spec ex_layout ex_tab_secs ++ [10; 60; 60; 62; 62]))
  = Ok (ex_tab_secs, mkLx (100 + lenN (print_table_spec ex_layout ex_tab_secs)) [10; 60; 60; 62; 62]) /\
  lenN (print_table_spec ex_layout ex_tab_secs) = 90.
Proof. split; vm_compute; reflexivity. Qed.
Example C02_table_example_ok : layout_ok ex_layout ex_tab_secs.
Proof.
  unfold layout_ok, ex_layout, ex_tab_secs, sub_ok, gap, iso_white, row_fits. cbn [l_first l_end l_subs l_pre l_mid l_heol l_eols entries first_id].
  repeat match goal with
         | |- _ /\ _ => split
         | |- Forall2 _ _ _ => constructor
         | |- Forall _ _ => constructor
         | |- _ <> _ => discriminate
         | |- In _ _ => cbn [In]; tauto
         | |- _ < _ => reflexivity
         | |- _ = _ => reflexivity
         end.
Qed.
(** non-vacuity of C02_resolve_latest: every premise holds for a concrete file (derived THROUGH the theorem) … *)
Example C02_resolve_latest_example :
  exists t, load (xref_at_tables no_resolve (fun _ => 0)) ex1_file = Ok (0, t, 0) /\
    forall n fuel, n < 2 ->
      stored ex1_file 0 n (latest ex1_h n)
        (resolve_ref prim (obj_at_parse no_resolve false F_ANY) (fun _ _ _ => Err E_OTHER) (S fuel) ex1_file 0 t n).
Proof. exact resolve_latest_example. Qed.
(** … and the functions compute exactly that on the file *)
Example C02_resolve_latest_example_computed :
  exists t, load (xref_at_tables no_resolve (fun _ => 0)) ex1_file = Ok (0, t, 0) /\
    resolve_ref prim (obj_at_parse no_resolve false F_ANY) (fun _ _ _ => Err E_OTHER) 2 ex1_file 0 t 1 = Ok (PInt 5) /\
    resolve_ref prim (obj_at_parse no_resolve false F_ANY) (fun _ _ _ => Err E_OTHER) 2 ex1_file 0 t 0 = Err E_FREE.
Proof. exact resolve_latest_example_computed. Qed.
