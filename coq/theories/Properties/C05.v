(** Properties/C05.v — preliminary *)
From PdfV Require Import Base.Prelude Gen.Generated Codec.Model Codec.Spec Codec.Dispatch Codec.HexProofs Codec.A85Proofs Codec.A85Spell Codec.RleProofs.

Theorem C05_hex : forall x s, hex_spells_iso x s -> decode_hex s = Ok x.
Proof. exact hex_decodes_iso. Qed.
Print Assumptions C05_hex.
