(** Properties/C05.v — "Stream filters decode what standard encoders produce; truncated or corrupted
    data produces an error or a value, never a panic".
    Only statements, each closed by [exact] of a lemma proved under Codec/.  The specification
    objects (spellings, run partitions, PNG/TIFF prediction, dictionary spellings) are in
    Codec/Spec.v and the first half of Codec/ChainProofs.v, written from the standards. *)
From PdfV Require Import Base.Prelude Gen.Generated Codec.Model Codec.Spec Codec.Dispatch Codec.Pairing
  Codec.HexProofs Codec.A85Proofs Codec.A85Spell Codec.RleProofs Codec.PngProofs Codec.TiffProofs Codec.ChainProofs.

(** ASCIIHex: every spelling of ISO 32000-1 §7.4.2 — digits in either case, the six white-space
    bytes anywhere, an odd number of digits (final 0 implied), `>` or end of data. *)
Theorem C05_hex : forall x s, hex_spells_iso x s -> decode_hex s = Ok x.
Proof. exact hex_decodes_iso. Qed.
Print Assumptions C05_hex.

(** ASCII85: every spelling of §7.4.3 — white-space anywhere, z, partial final group, ~> . *)
Theorem C05_a85 : forall x s, a85_spells x s -> decode_85 s = Ok x.
Proof. exact a85_decodes_every_spelling. Qed.
Print Assumptions C05_a85.

(** all 2^32 groups, by arithmetic *)
Theorem C05_a85_group : forall a b c d, a < 256 -> b < 256 -> c < 256 -> d < 256 ->
  exists s0 s1 s2 s3 s4, base85_chunk (of_be4 a b c d) = [s0; s1; s2; s3; s4] /\
    digit s0 /\ digit s1 /\ digit s2 /\ digit s3 /\ digit s4 /\
    word_85 s0 s1 s2 s3 s4 = Some [a; b; c; d].
Proof. exact a85_group. Qed.
Print Assumptions C05_a85_group.

(** RunLength: any partition of the data into literal runs 1..128 and repeat runs 2..128,
    ended by EOD (128) or by the end of the data. *)
Theorem C05_rle : forall x e, rle_encodes x e -> run_length_decode e = Ok x.
Proof. exact rle_decodes. Qed.
Print Assumptions C05_rle.

(** Paeth: the i16 code equals PNG §9.4 for all 2^24 (left, up, upper-left) triples. *)
Theorem C05_paeth : forall a b c, a < 256 -> b < 256 -> c < 256 -> filter_paeth a b c = paeth_iso a b c.
Proof. exact paeth_spec. Qed.
Print Assumptions C05_paeth.

(** one PNG row: every filter type, every pixel size, every prior row *)
Theorem C05_png_row : forall tag ft bpp prior row,
  tag < 5 -> ptype_of_tag tag = Some ft -> (1 <= bpp <= length row)%nat -> length prior = length row ->
  wf_bytes prior -> wf_bytes row ->
  unfilter ft bpp prior (png_filter_row tag bpp prior row) = Ok row.
Proof. exact png_row_inverts. Qed.
Print Assumptions C05_png_row.

(** geometry: row stride ceil(colors*bpc*columns/8), pixel size ceil(colors*bpc/8) *)
Theorem C05_geometry : forall p,
  (1 <= p_colors p)%Z -> (1 <= p_columns p)%Z -> In (p_bpc p) [1;2;4;8;16]%Z ->
  Z.to_N (p_columns p) * (Z.to_N (p_colors p) * Z.to_N (p_bpc p)) < usize_lim ->
  predictor_geometry p = Ok (iso_row_bytes (Z.to_N (p_colors p)) (Z.to_N (p_bpc p)) (Z.to_N (p_columns p)),
                             iso_pixel_bytes (Z.to_N (p_colors p)) (Z.to_N (p_bpc p))).
Proof. exact geometry_iso. Qed.
Print Assumptions C05_geometry.

(** whole image, PNG predictors: any rows, a filter type per row, any geometry *)
Theorem C05_png : forall p fts rows,
  (png_from <= p_predictor p)%Z ->
  (1 <= p_colors p)%Z -> (1 <= p_columns p)%Z -> In (p_bpc p) [1;2;4;8;16]%Z ->
  Z.to_N (p_columns p) * (Z.to_N (p_colors p) * Z.to_N (p_bpc p)) < usize_lim ->
  length fts = length rows -> Forall (fun t => t < 5) fts ->
  Forall (fun r => lenN r = iso_row_bytes (Z.to_N (p_colors p)) (Z.to_N (p_bpc p)) (Z.to_N (p_columns p))) rows ->
  Forall wf_bytes rows ->
  unpredict p (png_encode (Z.to_N (p_colors p)) (Z.to_N (p_bpc p)) (Z.to_N (p_columns p)) fts rows) = Ok (concat rows).
Proof. exact png_image_inverts. Qed.
Print Assumptions C05_png.

(** TIFF predictor 2, one row and whole image: 1, 2, 4, 8, 16 bit samples *)
Theorem C05_tiff_row : forall colors bpc columns row,
  1 <= colors -> 1 <= columns -> In bpc [1;2;4;8;16] -> wf_bytes row ->
  lenN row = iso_row_bytes colors bpc columns ->
  tiff_unpredict_row (N.to_nat colors) bpc (N.to_nat (colors * columns)) (tiff_encode_row colors bpc columns row) = Ok row.
Proof. exact tiff_row_inverts. Qed.
Print Assumptions C05_tiff_row.

Theorem C05_tiff : forall p rows,
  p_predictor p = tiff_pred ->
  (1 <= p_colors p)%Z -> (1 <= p_columns p)%Z -> In (p_bpc p) [1;2;4;8;16]%Z ->
  Z.to_N (p_columns p) * (Z.to_N (p_colors p) * Z.to_N (p_bpc p)) < usize_lim ->
  Forall (fun r => lenN r = iso_row_bytes (Z.to_N (p_colors p)) (Z.to_N (p_bpc p)) (Z.to_N (p_columns p))) rows ->
  Forall wf_bytes rows ->
  unpredict p (tiff_encode (Z.to_N (p_colors p)) (Z.to_N (p_bpc p)) (Z.to_N (p_columns p)) rows) = Ok (concat rows).
Proof. exact tiff_image_inverts. Qed.
Print Assumptions C05_tiff.

(** Flate, zlib or raw framing, with or without a predictor (oracle premise: libflate decodes
    what the standard encoders produce and does not take a raw stream for a zlib stream) *)
Theorem C05_flate : forall izlib iraw ld zenc renc,
  flate_oracle izlib iraw zenc renc -> forall p x y, predicted p x y ->
  decode izlib iraw ld (FFlate p) (zenc y) = Ok x /\ decode izlib iraw ld (FFlate p) (renc y) = Ok x.
Proof. exact flate_correct. Qed.
Print Assumptions C05_flate.

(** LZW, either EarlyChange value, with or without a predictor (oracle premise on weezl) *)
Theorem C05_lzw : forall izlib iraw ld lenc,
  lzw_oracle ld lenc -> forall p x y, predicted p x y ->
  decode izlib iraw ld (FLzw p) (lenc (early_of p) y) = Ok x.
Proof. exact lzw_correct. Qed.
Print Assumptions C05_lzw.

(** every chain of filters, any length *)
Theorem C05_chain : forall izlib iraw ld zenc renc lenc,
  flate_oracle izlib iraw zenc renc -> lzw_oracle ld lenc ->
  forall fs x e, chain_encodes zenc renc lenc fs x e -> decode_chain izlib iraw ld fs e = Ok x.
Proof. exact chain_correct. Qed.
Print Assumptions C05_chain.

(** /Filter name-or-array x /DecodeParms absent / dictionary / array with nulls *)
Theorem C05_pairing : forall fs f pv, dict_spells fs f pv -> filters_of f pv = Ok fs.
Proof. exact pairing_correct. Qed.
Print Assumptions C05_pairing.

(** a stream whose dictionary names the chain: Stream::data returns the original bytes *)
Theorem C05_stream : forall izlib iraw ld zenc renc lenc,
  flate_oracle izlib iraw zenc renc -> lzw_oracle ld lenc ->
  forall fs f pv x e, dict_spells fs f pv -> chain_encodes zenc renc lenc fs x e ->
  stream_data izlib iraw ld f pv e = Ok x.
Proof. exact stream_correct. Qed.
Print Assumptions C05_stream.

(** truncated, corrupted, arbitrary data and parameters: a value or an error, never a panic
    (nor does the model run out of fuel), at every level *)
Definition C05_no_panic_statement : Prop :=
  forall izlib iraw ld, oracles_total izlib iraw ld ->
    (forall f d, no_panic (decode izlib iraw ld f d)) /\
    (forall fs d, no_panic (decode_chain izlib iraw ld fs d)) /\
    (forall f pv d, no_panic (stream_data izlib iraw ld f pv d)).
Theorem C05_no_panic : C05_no_panic_statement.
Proof.
  intros izlib iraw ld T. split; [|split].
  - exact (decode_no_panic izlib iraw ld T).
  - exact (chain_no_panic izlib iraw ld T).
  - exact (stream_no_panic izlib iraw ld T).
Qed.
Print Assumptions C05_no_panic.

(** The full statement of the property over the model; no input class is excluded. *)
Definition C05_full_statement : Prop :=
  forall izlib iraw ld zenc renc lenc,
    flate_oracle izlib iraw zenc renc -> lzw_oracle ld lenc -> oracles_total izlib iraw ld ->
    (forall fs f pv x e, dict_spells fs f pv -> chain_encodes zenc renc lenc fs x e ->
       stream_data izlib iraw ld f pv e = Ok x) /\
    (forall f pv d, no_panic (stream_data izlib iraw ld f pv d)).
Theorem C05_full : C05_full_statement.
Proof.
  intros izlib iraw ld zenc renc lenc Hf Hl T. split.
  - exact (stream_correct izlib iraw ld zenc renc lenc Hf Hl).
  - exact (stream_no_panic izlib iraw ld T).
Qed.
Print Assumptions C05_full.

(** non-vacuity *)
Example C05_oracles_consistent :
  flate_oracle (toy_unframe 120) (toy_unframe 0) (fun y => 120 :: y) (fun y => 0 :: y) /\
  lzw_oracle (fun _ d => Ok d) (fun _ y => y) /\
  oracles_total (toy_unframe 120) (toy_unframe 0) (fun _ d => Ok d).
Proof. exact oracles_consistent. Qed.
Example C05_hex_odd_example : hex_spells_odd [65; 112] [52; 49; 55; 62].
Proof. exact hex_odd_example. Qed.
Example C05_a85_example : a85_spells [0;0;0;0;65] [122; 32; 53; 12; 108; 126; 62].
Proof. exact a85_spelling_example. Qed.
Example C05_rle_example : rle_encodes [97;97;97;98;99] [254; 97; 1; 98; 99; 128].
Proof. exact rle_example. Qed.
Example C05_chain_example :
  chain_encodes (fun y => 120 :: y) (fun y => 0 :: y) (fun _ y => y)
    [FA85; FRle] [97; 97; 97; 98]
    (a85_digits (group_value 254 97 0 98) ++ [32] ++ firstn 2 (a85_digits (group_value 128 0 0 0)) ++ [126; 62]).
Proof. exact chain_example. Qed.
Example C05_predicted_example :
  predicted ex_params (concat [[10; 200; 30]; [250; 5; 60]])
            (png_encode (pC ex_params) (pB ex_params) (pW ex_params) [2; 4] [[10; 200; 30]; [250; 5; 60]]).
Proof. exact predicted_example. Qed.
(* the former defects are errors / values now *)
Example C05_rle_truncated : run_length_decode [5; 1] = Err 9 /\ run_length_decode [200] = Err 9.
Proof. split; [exact rle_truncated_literal|exact rle_truncated_repeat]. Qed.
