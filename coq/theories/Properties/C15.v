(** Properties/C15.v — "Typed objects round-trip through their dictionary form without losing entries".
    Only statements, each closed by [exact] of a lemma proved elsewhere. *)
From PdfV Require Import Base.Prelude Gen.Generated Typed.Prim Typed.Schema Typed.Derive Typed.Hand
  Typed.DictProofs Typed.DeriveProofs Typed.HandProofs.

(** The first sentence of the property, for every type of the universe (containers, derived structs, name and integer
    enums, hand-written pairs as a parameter), every schema set, both option sets, every object table: a value that
    the writer accepts is written to a primitive that reads back to a value with the identical written form. *)
Theorem C15_value_rt : forall SC H allow E (hand_ok : N -> value -> Prop),
  (forall i x p, hand_ok i x -> h_write H i x = TOk p ->
     exists x', h_read H i (resolve E) p = TOk x' /\ h_write H i x' = TOk p) ->
  forall f chain t v p, val_ok SC H allow E hand_ok f chain t v -> write SC H f t v = TOk p ->
  exists v', read SC H allow E f chain t p = TOk v' /\ write SC H f t v' = TOk p.
Proof. exact value_rt. Qed.
Print Assumptions C15_value_rt.

(** The struct loops of the derive macros, for an arbitrary field reader/writer pair: the written dictionary reads back
    field by field, the catch-all receives exactly the base dictionary. *)
Theorem C15_fields_rt : forall rd wr never_null,
  (forall t x, never_null t = true -> wr t x <> TOk PNull) ->
  forall fs, fields_wf never_null fs = true ->
  forall vs d dw acc,
  (forall fd, In fd fs -> normal fd = true -> dget (f_key fd) d = None) ->
  write_fields wr fs vs d = TOk (PDict dw) -> fields_rt rd wr fs vs ->
  exists vs', read_fields rd fs dw acc = TOk (VStruct (rev acc ++ vs')) /\ same_writes wr fs vs vs'
              /\ (existsb f_other fs = true -> other_of fs vs' = d).
Proof. exact rt_fields. Qed.
Print Assumptions C15_fields_rt.

(** Second sentence, writer half: an unrecognised entry kept by the catch-all is written back verbatim. *)
Theorem C15_dict_rt : forall SC H f i s vs dw k,
  get_struct SC i = Some s -> schema_wf s = true ->
  write SC H (S f) (TStruct i) (VStruct vs) = TOk (PDict dw) ->
  key_fresh k (s_fields s) = true -> beqb k TypeKey = false ->
  forallb (fun c => negb (beqb k (fst c))) (s_checks s) = true ->
  dget k dw = dget k (other_of (s_fields s) vs).
Proof. exact write_keeps_unknown. Qed.
Print Assumptions C15_dict_rt.

(** The schemas extracted from the Rust sources now: every derived struct with reader and writer and without an
    `indirect` field is well-formed (computed). *)
Theorem C15_generated_wf :
  forallb (fun s => negb (rw s) || has_indirect s || schema_wf s) (structs gen_schemas) = true.
Proof. exact generated_wf. Qed.
Print Assumptions C15_generated_wf.

Theorem C15_generated_indirect :
  indirect_not_nested gen_schemas = true /\
  forallb (fun s => forallb (fun fd => negb (f_indirect fd) ||
      match f_ty fd with TOption (TMaybeRef _) | TOption (TStruct _) => true | _ => false end) (s_fields s))
    (structs gen_schemas) = true.
Proof. exact (conj generated_indirect_not_nested generated_indirect_fields). Qed.
Print Assumptions C15_generated_indirect.

(** Closed instance: the generated schemas with the modelled hand-written pairs. *)
Theorem C15_generated_value_rt : forall allow E f chain t v p,
  val_ok gen_schemas hands allow E hand_ok f chain t v -> write gen_schemas hands f t v = TOk p ->
  exists v', read gen_schemas hands allow E f chain t p = TOk v' /\ write gen_schemas hands f t v' = TOk p.
Proof. exact (fun allow E => value_rt gen_schemas hands allow E hand_ok (hands_law E)). Qed.
Print Assumptions C15_generated_value_rt.

Theorem C15_hand_Rectangle : forall rs v p, write_numbers 4 v = TOk p ->
  exists v', read_rectangle rs p = TOk v' /\ write_numbers 4 v' = TOk p.
Proof. exact rectangle_rt. Qed.
Print Assumptions C15_hand_Rectangle.

Theorem C15_hand_Matrix : forall v p, write_numbers 6 v = TOk p ->
  exists v', read_matrix p = TOk v' /\ write_numbers 6 v' = TOk p.
Proof. exact matrix_rt. Qed.
Print Assumptions C15_hand_Matrix.

(** non-vacuity: a concrete Page-like value of a generated schema satisfies the premises and goes round *)
Example C15_nonvacuous_date :
  tbind (write_date (VNums [1998; 12; 23; 19; 52; 0; 0; 8; 0]%Z)) (read_date (fun _ => TErr (EBase 1)))
  = TOk (VNums [1998; 12; 23; 19; 52; 0; 0; 8; 0]%Z).
Proof. exact date_example. Qed.
