(** Properties/C15.v — "Typed objects round-trip through their dictionary form without losing entries".
    Only statements, each closed by [exact] of a lemma proved elsewhere. *)
From PdfV Require Import Base.Prelude Gen.Generated Typed.Prim Typed.Schema Typed.Derive Typed.Hand
  Typed.DictProofs Typed.DeriveProofs Typed.HandProofs Typed.ReadProofs Typed.TopProofs Typed.EncodingProofs.

(** The first sentence of the property, for every type of the universe (containers, derived structs, name and integer
    enums, hand-written pairs as a parameter), every schema set, both option sets, every object table: a value that
    the writer accepts is written to a primitive that reads back to a value with the identical written form. *)
Theorem C15_value_rt : forall SC H allow E (hand_ok : N -> value -> Prop),
  (forall i x p, hand_ok i x -> h_write H i x = TOk p ->
     exists x', h_read H i (resolve E) p = TOk x' /\ h_write H i x' = TOk p) ->
  forall f chain t v p, val_ok SC H allow E hand_ok f chain t v -> write SC H f t v = TOk p ->
  exists v', read SC H allow E f chain t p = TOk v' /\ write SC H f t v' = TOk p.
Proof. exact value_rt. Qed.
Print Assumptions C15_value_rt.

(** The struct loops of the derive macros, for an arbitrary field reader/writer pair: the written dictionary reads back
    field by field, the catch-all receives exactly the base dictionary. *)
Theorem C15_fields_rt : forall rd wr never_null,
  (forall t x, never_null t = true -> wr t x <> TOk PNull) ->
  forall fs, fields_wf never_null fs = true ->
  forall vs d dw acc,
  (forall fd, In fd fs -> normal fd = true -> dget (f_key fd) d = None) ->
  write_fields wr fs vs d = TOk (PDict dw) -> fields_rt rd wr fs vs ->
  exists vs', read_fields rd fs dw acc = TOk (VStruct (rev acc ++ vs')) /\ same_writes wr fs vs vs'
              /\ (existsb f_other fs = true -> other_of fs vs' = d).
Proof. exact rt_fields. Qed.
Print Assumptions C15_fields_rt.

(** Second sentence, writer half: an unrecognised entry kept by the catch-all is written back verbatim. *)
Theorem C15_dict_rt : forall SC H f i s vs dw k,
  get_struct SC i = Some s -> schema_wf s = true ->
  write SC H (S f) (TStruct i) (VStruct vs) = TOk (PDict dw) ->
  key_fresh k (s_fields s) = true -> beqb k TypeKey = false ->
  forallb (fun c => negb (beqb k (fst c))) (s_checks s) = true ->
  dget k dw = dget k (other_of (s_fields s) vs).
Proof. exact write_keeps_unknown. Qed.
Print Assumptions C15_dict_rt.

(** The schemas extracted from the Rust sources now: every derived struct with reader and writer and without an
    `indirect` field is well-formed (computed). *)
Theorem C15_generated_wf :
  forallb (fun s => negb (rw s) || has_indirect s || schema_wf s) (structs gen_schemas) = true.
Proof. exact generated_wf. Qed.
Print Assumptions C15_generated_wf.

Theorem C15_generated_indirect :
  indirect_not_nested gen_schemas = true /\
  forallb (fun s => forallb (fun fd => negb (f_indirect fd) ||
      match f_ty fd with TOption (TMaybeRef _) | TOption (TStruct _) => true | _ => false end) (s_fields s))
    (structs gen_schemas) = true.
Proof. exact (conj generated_indirect_not_nested generated_indirect_fields). Qed.
Print Assumptions C15_generated_indirect.

(** Closed instance: the generated schemas with the modelled hand-written pairs. *)
Theorem C15_generated_value_rt : forall allow E f chain t v p,
  val_ok gen_schemas hands allow E hand_ok f chain t v -> write gen_schemas hands f t v = TOk p ->
  exists v', read gen_schemas hands allow E f chain t p = TOk v' /\ write gen_schemas hands f t v' = TOk p.
Proof. exact (fun allow E => value_rt gen_schemas hands allow E hand_ok (hands_law E)). Qed.
Print Assumptions C15_generated_value_rt.

Theorem C15_hand_Rectangle : forall rs v p, write_numbers 4 v = TOk p ->
  exists v', read_rectangle rs p = TOk v' /\ write_numbers 4 v' = TOk p.
Proof. exact rectangle_rt. Qed.
Print Assumptions C15_hand_Rectangle.

Theorem C15_hand_Matrix : forall rs v p, write_numbers 6 v = TOk p ->
  exists v', read_matrix rs p = TOk v' /\ write_numbers 6 v' = TOk p.
Proof. exact matrix_rt. Qed.
Print Assumptions C15_hand_Matrix.

(** Date: every date the writer accepts reads back (whatever the resolver) to a date with the same written form *)
Theorem C15_hand_Date : forall rs v p, write_date v = TOk p ->
  exists v', read_date rs p = TOk v' /\ write_date v' = TOk p.
Proof. exact date_rt. Qed.
Print Assumptions C15_hand_Date.

(** Action (after fix C15-b): Goto with a named destination and every other action *)
Theorem C15_hand_Action : forall rs v p, action_ok v -> write_action v = TOk p ->
  exists v', read_action rs p = TOk v' /\ write_action v' = TOk p.
Proof. exact action_rt. Qed.
Print Assumptions C15_hand_Action.

(** Second sentence, READER half: for a model with a catch-all, every entry of an accepted input dictionary survives
    reading and writing back — (1) an unrecognised entry verbatim (also /Type and the checked keys), (2) a recognised
    entry as the written form of the value read from it (this per-type normalisation is where integers become reals
    of equal value and where one-or-many / references are normalised; it disappears only when that written form is
    Null, i.e. an omitted default of an Option / HashMap), and (3) nothing is invented except /Type, the checked keys
    and the written forms of declared defaults / of the value read from Null.  [nodup_keys]: IndexMap invariant. *)
Theorem C15_dict_rt_read : forall SC H allow E f chain i s d vs dw,
  get_struct SC i = Some s -> schema_wf s = true -> existsb f_other (s_fields s) = true -> nodup_keys d ->
  read SC H allow E (S f) chain (TStruct i) (PDict d) = TOk (VStruct vs) ->
  write SC H (S f) (TStruct i) (VStruct vs) = TOk (PDict dw) ->
  (forall k v, key_fresh k (s_fields s) = true -> dget k d = Some v -> dget k dw = Some v)
  /\
  (forall fd q, In fd (s_fields s) -> normal fd = true -> dget (f_key fd) d = Some q ->
     exists x val, read SC H allow E f chain (f_ty fd) q = TOk x /\ write SC H f (f_ty fd) x = TOk val
                   /\ dget (f_key fd) dw = (if is_null val then None else Some val))
  /\
  (forall k val, dget k dw = Some val -> dget k d = None ->
     (k = TypeKey /\ val = PName (s_type s))
     \/ (exists n, In (k, n) (s_checks s) /\ val = PName n)
     \/ exists fd x, In fd (s_fields s) /\ normal fd = true /\ k = f_key fd /\ write SC H f (f_ty fd) x = TOk val /\
          (match f_default fd with
           | DNone => read SC H allow E f chain (f_ty fd) PNull = TOk x
           | dv => exists acc, x = default_value dv acc
           end)).
Proof. exact dict_rt_read. Qed.
Print Assumptions C15_dict_rt_read.

(** integers versus reals of equal value, at the leaf: an f32 entry given as an integer is written back as the real
    number of equal value (exact binary32 conversion Prim.f32_of_i32) *)
Theorem C15_int_real : forall SC H allow E f chain z,
  tbind (read SC H allow E (S f) chain TF32 (PInt z)) (write SC H (S f) TF32) = TOk (PNum (f32_of_i32 z)).
Proof. intros. reflexivity. Qed.
Print Assumptions C15_int_real.

(** `indirect` fields: the top-level writer threads the object table (Updater::create appends, the entry is a fresh
    reference).  The written dictionary reads back — in the table after the write — to a value whose write gives the
    same dictionary up to the number of a re-created object of equal content ([sim_dict]); literally the same
    dictionary and table when every indirect field is an Option<MaybeRef<_>> (Page). *)
Theorem C15_top_rt : forall SC H allow E1 (hand_ok : N -> value -> Prop),
  (forall i x p, hand_ok i x -> h_write H i x = TOk p ->
     exists x', h_read H i (resolve E1) p = TOk x' /\ h_write H i x' = TOk p) ->
  forall F E0 i s vs dw,
  get_struct SC i = Some s -> schema_wf_top s = true ->
  (forall fd, In fd (s_fields s) -> normal fd = true -> dget (f_key fd) (other_of (s_fields s) vs) = None) ->
  write_top SC H F E0 i (VStruct vs) = TOk (PDict dw, E1) ->
  top_ok SC H allow E1 hand_ok F (s_fields s) vs (lenN E0) ->
  (3 <= F)%nat ->
  exists vs', read SC H allow E1 (S F) [] (TStruct i) (PDict dw) = TOk (VStruct vs')
    /\ exists dw' E2, write_top SC H F E1 i (VStruct vs') = TOk (PDict dw', E2)
         /\ (exists X, E2 = E1 ++ X) /\ sim_dict E2 dw dw'.
Proof. exact top_rt. Qed.
Print Assumptions C15_top_rt.

Theorem C15_top_rt_maybe_ref : forall SC H allow E1 (hand_ok : N -> value -> Prop),
  (forall i x p, hand_ok i x -> h_write H i x = TOk p ->
     exists x', h_read H i (resolve E1) p = TOk x' /\ h_write H i x' = TOk p) ->
  forall F E0 i s vs dw,
  get_struct SC i = Some s -> schema_wf_top s = true ->
  (forall fd, In fd (s_fields s) -> normal fd = true -> dget (f_key fd) (other_of (s_fields s) vs) = None) ->
  write_top SC H F E0 i (VStruct vs) = TOk (PDict dw, E1) ->
  top_ok SC H allow E1 hand_ok F (s_fields s) vs (lenN E0) ->
  maybe_ref_only s = true ->
  exists vs', read SC H allow E1 (S F) [] (TStruct i) (PDict dw) = TOk (VStruct vs')
    /\ write_top SC H F E1 i (VStruct vs') = TOk (PDict dw, E1).
Proof. exact top_rt_maybe_ref. Qed.
Print Assumptions C15_top_rt_maybe_ref.

(** every generated struct with reader and writer — those with `indirect` fields included — meets the premise *)
Theorem C15_generated_top_wf : forallb (fun s => negb (rw s) || schema_wf_top s) (structs gen_schemas) = true.
Proof. exact top_generated_wf. Qed.
Print Assumptions C15_generated_top_wf.

(** NameTree<Primitive> (after fix C15-c): every node the writer accepts — leaf or intermediate, with or without /Limits —
    reads back to the identical value, whatever the resolver *)
Theorem C15_hand_NameTree : forall rs v p, write_nametree v = TOk p -> read_nametree rs p = TOk v.
Proof. exact nametree_rt. Qed.
Print Assumptions C15_hand_NameTree.

(** Encoding (encoding.rs; ISO 32000-1 9.6.6.1, Table 114): for every base encoding whose name reads back to it (every
    variant of the generated enum and any foreign name: [base_variants_ok], [base_other_ok]) and EVERY differences map —
    codes strictly increasing (the sorted HashMap<u32, _>), each below 2^32, so in particular every map over 0..255 —
    the value is written, reads back to the identical value whatever the resolver, and the written /Differences array
    is the run-length form of the standard: the groups [group m] written as "code, then the names of consecutive
    codes" ([run_form]); the groups denote exactly the map ([expand]), none is empty and no two neighbours could be
    joined ([maximal]).  An empty map is written as the bare base-encoding name. *)
Theorem C15_hand_Encoding : forall rs b m, base_ok b -> codes_ok 0 m = true ->
  exists p, write_encoding (enc_value b m) = TOk p
    /\ read_encoding rs p = TOk (enc_value b m)
    /\ (m <> [] -> exists bp, write_base_encoding b = TOk bp /\
                    p = PDict [(k_BaseEncoding, bp); (k_Differences, PArr (run_form (group m)))])
    /\ (m = [] -> write_base_encoding b = TOk p)
    /\ expand (group m) = m /\ maximal (group m).
Proof. exact encoding_rt. Qed.
Print Assumptions C15_hand_Encoding.

Example C15_hand_Encoding_from_one :
  write_diffs [(1, [100]); (2, [99]); (5, [114])] None = [PInt 1; PName [100]; PName [99]; PInt 5; PName [114]]
  /\ read_diffs [PInt 1; PName [100]; PName [99]; PInt 5; PName [114]] 0 [] = TOk [(1, [100]); (2, [99]); (5, [114])]
  /\ group [(1, [100]); (2, [99]); (5, [114])] = [(1, [[100]; [99]]); (5, [[114]])].
Proof. exact encoding_from_one. Qed.

(** non-vacuity: a concrete Page-like value of a generated schema satisfies the premises and goes round *)
Example C15_nonvacuous_date :
  tbind (write_date (VNums [1998; 12; 23; 19; 52; 0; 0; 8; 0]%Z)) (read_date (fun _ => TErr (EBase 1)))
  = TOk (VNums [1998; 12; 23; 19; 52; 0; 0; 8; 0]%Z).
Proof. exact date_example. Qed.
