(** Properties/C12.v — "Caches are invisible: cached and uncached documents answer identically".
    Only statements, each closed by [exact] of a lemma proved in Cache/Proofs.v / Cache/Tables.v. *)
From PdfV Require Import Base.Prelude Gen.Generated Cache.Model Cache.Node Cache.Proofs Cache.Tables.

(** The statement of the property on the model of the code as it is now (both fixes in): for every document,
    cache configuration and call sequence, the answers equal the answers each call gives alone on a cache-free
    document.  It is false as it stands (C12_cyclic_refuted). *)
Definition C12_full_statement : Prop := full_statement.

(** ... and holds for every document whose eagerly loaded references follow a rank (no cycle among nested loads) *)
Theorem C12_invisible : forall prog filters raw appf imgc rank oc sc fuel calls,
  acyclic prog rank -> fuel_ok rank fuel calls ->
  run (cfg_fixed oc sc) prog filters raw appf imgc fuel calls init
  = map (answer_alone prog filters raw appf imgc fuel) calls.
Proof. exact cache_invisible. Qed.
Print Assumptions C12_invisible.

(** the answer to a call does not depend on the calls before it *)
Theorem C12_order_independent : forall prog filters raw appf imgc rank oc sc fuel pre1 pre2 cl,
  acyclic prog rank -> fuel_ok rank fuel (pre1 ++ [cl]) -> fuel_ok rank fuel (pre2 ++ [cl]) ->
  nth (length pre1) (run (cfg_fixed oc sc) prog filters raw appf imgc fuel (pre1 ++ [cl]) init) OutOfFuel
  = nth (length pre2) (run (cfg_fixed oc sc) prog filters raw appf imgc fuel (pre2 ++ [cl]) init) OutOfFuel.
Proof. exact cache_order_independent. Qed.
Print Assumptions C12_order_independent.

(** a typed get returns the chain-free, cache-free denotation: the recursion guard never fires spuriously and
    the fuel (nesting bound) suffices *)
Theorem C12_get_is_denotation : forall (prog : tytag -> ref -> comp) (filters : ref -> list filt) (raw : ref -> outcome)
    (appf : filt -> val -> outcome) (imgc : ref -> filt -> val -> outcome) (rank : ref -> nat) (oc sc : bool)
    (fuel : nat) (ty : tytag) (r : ref) (st' : state) (o : outcome),
  acyclic prog rank -> (rank r < fuel)%nat ->
  get (cfg_fixed oc sc) prog fuel [] ty r init = (o, st') -> o = D prog rank ty r.
Proof. exact cache_answers_D. Qed.
Print Assumptions C12_get_is_denotation.

(** the typed-load dimension, for every history.  Cache entries are keyed by the reference only; whatever
    was read before — the same reference as other types, with values, with errors of any kind, re-loaded —
    get::<ty>(r) returns the denotation of loading r AS ty, which is what the uncached resolver returns for
    that type *)
Theorem C12_typed_get_any_history :
  forall (prog : tytag -> ref -> comp) (filters : ref -> list filt) (raw : ref -> outcome)
         (appf : filt -> val -> outcome) (imgc : ref -> filt -> val -> outcome)
         (rank : ref -> nat) (oc sc : bool) (fuel : nat) (history : list call) (ty : tytag) (r : ref),
    acyclic prog rank -> fuel_ok rank fuel history -> (rank r < fuel)%nat ->
    let st := final_state prog filters raw appf imgc oc sc fuel history init in
    fst (get (cfg_fixed oc sc) prog fuel [] ty r st) = D prog rank ty r /\
    fst (get no_cache prog fuel [] ty r init) = D prog rank ty r.
Proof. exact cache_typed_get_any_history. Qed.
Print Assumptions C12_typed_get_any_history.

(** cached errors are never trusted: an error entry of ANY kind under ANY reference (what a load as another
    type, a retried load or a concurrent load may have left there) changes no typed answer *)
Theorem C12_error_entries_irrelevant :
  forall (prog : tytag -> ref -> comp) (filters : ref -> list filt) (raw : ref -> outcome)
         (appf : filt -> val -> outcome) (imgc : ref -> filt -> val -> outcome)
         (rank : ref -> nat) (oc sc : bool) (fuel : nat) (history : list call) (ty : tytag) (r r0 : ref) (k : N),
    acyclic prog rank -> fuel_ok rank fuel history -> (rank r < fuel)%nat ->
    let st := final_state prog filters raw appf imgc oc sc fuel history init in
    fst (get (cfg_fixed oc sc) prog fuel [] ty r (set_oc st r0 (EErr k))) = D prog rank ty r.
Proof. exact cache_error_entries_irrelevant. Qed.
Print Assumptions C12_error_entries_irrelevant.

(** a value cached as one type is never served as another: an entry only has to be right for its own type *)
Theorem C12_value_entries_typed :
  forall (prog : tytag -> ref -> comp) (filters : ref -> list filt) (raw : ref -> outcome)
         (appf : filt -> val -> outcome) (imgc : ref -> filt -> val -> outcome)
         (rank : ref -> nat) (oc sc : bool) (fuel : nat) (history : list call) (ty ty0 : tytag) (r r0 : ref) (v0 : val),
    acyclic prog rank -> fuel_ok rank fuel history -> (rank r < fuel)%nat ->
    D prog rank ty0 r0 = Ok v0 ->
    let st := final_state prog filters raw appf imgc oc sc fuel history init in
    fst (get (cfg_fixed oc sc) prog fuel [] ty r (set_oc st r0 (EOk ty0 v0))) = D prog rank ty r.
Proof. exact cache_value_entries_typed. Qed.
Print Assumptions C12_value_entries_typed.

(** the stream cache (keyed by the reference only) holds nothing but full decodes after every history ... *)
Theorem C12_stream_entries_full :
  forall (prog : tytag -> ref -> comp) (filters : ref -> list filt) (raw : ref -> outcome)
         (appf : filt -> val -> outcome) (imgc : ref -> filt -> val -> outcome)
         (rank : ref -> nat) (oc sc : bool) (fuel : nat) (history : list call) (r : ref) (x : outcome),
    acyclic prog rank -> fuel_ok rank fuel history ->
    let st := final_state prog filters raw appf imgc oc sc fuel history init in
    lookup r (scache st) = Some x -> x = sdecode raw appf r (filters r).
Proof. exact cache_stream_entries_full. Qed.
Print Assumptions C12_stream_entries_full.

(** ... and the partial-decode path of raw_image_data (get_data_or_decode is by-passed when image filters are
    left over) answers the pure split decode in every reachable state and leaves the caches untouched *)
Theorem C12_partial_decode :
  forall (prog : tytag -> ref -> comp) (filters : ref -> list filt) (raw : ref -> outcome)
         (appf : filt -> val -> outcome) (imgc : ref -> filt -> val -> outcome)
         (rank : ref -> nat) (oc sc : bool) (fuel : nat) (history : list call) (r : ref),
    acyclic prog rank -> fuel_ok rank fuel history ->
    let st := final_state prog filters raw appf imgc oc sc fuel history init in
    fst (raw_image_data (cfg_fixed oc sc) filters raw appf r st) = raw_image_pure filters raw appf r /\
    (skipn (match rposition is_image_filter (filters r) with Some i => i | None => length (filters r) end)
           (filters r) <> [] ->
     snd (raw_image_data (cfg_fixed oc sc) filters raw appf r st) = st).
Proof. exact cache_partial_decode. Qed.
Print Assumptions C12_partial_decode.

(** C12-c (open): objects that eagerly load each other and survive the nested "Recursive reference" error *)
Theorem C12_cyclic_refuted : ~ C12_full_statement.
Proof. exact cyclic_refuted. Qed.
Print Assumptions C12_cyclic_refuted.

(** C12-a, C12-b (fixed): the model with the respective fix switched off violates the statement *)
Theorem C12_a_refuted_before_fix : exists prog filters raw appf imgc fuel calls,
  run (mkCfg true true false true) prog filters raw appf imgc fuel calls init
  <> map (fun cl => fst (do_call no_cache prog filters raw appf imgc fuel cl init)) calls.
Proof. exact prefix_a_refuted. Qed.
Print Assumptions C12_a_refuted_before_fix.
Theorem C12_b_refuted_before_fix : exists prog filters raw appf imgc fuel calls,
  run (mkCfg true true true false) prog filters raw appf imgc fuel calls init
  <> map (fun cl => fst (do_call no_cache prog filters raw appf imgc fuel cl init)) calls.
Proof. exact prefix_b_refuted. Qed.
Print Assumptions C12_b_refuted_before_fix.

(** the class of changes "serve a cached error of some kinds to a load that did not compute it" (C12-b was: all
    kinds; the seeded change missed_C13b: the missing-object kinds) breaks the property for EVERY kind *)
Theorem C12_serving_cached_errors_refuted : forall (serve : N -> bool) (k : N),
  serve k = true ->
  exists (prog : tytag -> ref -> comp) (rank : ref -> nat) (fuel : nat) (ty1 ty2 : tytag) (r : ref),
    acyclic prog rank /\
    let first := get_gen (cfg_fixed true true) prog serve fuel [] ty1 r init in
    fst (get_gen (cfg_fixed true true) prog serve fuel [] ty2 r (snd first))
    <> fst (get no_cache prog fuel [] ty2 r init).
Proof. exact serving_cached_errors_refuted. Qed.
Print Assumptions C12_serving_cached_errors_refuted.

(** generated tables of types.rs raw_image_data against the standard's filter classes *)
Theorem C12_split_table : forall f, In f filter_codes -> is_image_filter f = spec_is_image f.
Proof. exact split_table. Qed.
Print Assumptions C12_split_table.
Theorem C12_codecs_table : forall f, In f filter_codes -> memN f cache_image_codecs = memN f [5; 6; 7; 8; 9].
Proof. exact codecs_table. Qed.
Print Assumptions C12_codecs_table.

(** non-vacuity: an acyclic document with nested loads exists (object 2 loads object 1 as two different
    types, one of which fails), and on it a cached history with a type confusion and a cached error is
    answered as alone *)
Definition ex_prog (ty : tytag) (r : ref) : comp :=
  if r =? 2 then Call 0 1 (fun o1 => Call 1 1 (fun o2 => Ret (match o1, o2 with Ok v, Err e => Ok (v + e) | _, _ => Err 9 end)))
  else if ty =? 1 then Ret (Err 1) else Ret (Ok 5).
Definition ex_rank (r : ref) : nat := if r =? 2 then 1%nat else 0%nat.
Example C12_acyclic_nonvacuous :
  acyclic ex_prog ex_rank /\
  run (cfg_fixed true true) ex_prog (fun _ => []) (fun _ => Ok 0) (fun _ d => Ok d) (fun _ _ d => Ok d)
      5 [CGet 1 1; CGet 0 1; CGet 0 2; CGet 2 2] init = [Err 1; Ok 5; Ok 6; Ok 6].
Proof.
  split; [|vm_compute; reflexivity].
  intros ty r. unfold ex_prog, ex_rank.
  destruct (r =? 2) eqn:E2.
  - cbn [bounded]. change (1 =? 2) with false. cbv iota. split; [lia|]. intros o1. split; [lia|]. intros o2. exact I.
  - destruct (ty =? 1); exact I.
Qed.

(** non-vacuity of the typed statements: object 2 loaded eagerly (type 0) follows a reference to an object that
    does not exist (error 3), loaded lazily (type 1) it succeeds; object 4 is of the wrong type for type 0
    (error 10), fails to parse... for type 1 (error 11) and loads as type 2.  Every order of the loads is answered
    as alone, and the state reached holds error entries *)
Definition ex2_prog (ty : tytag) (r : ref) : comp :=
  if r =? 2 then (if ty =? 1 then Ret (Ok 7) else Call 0 3 (fun o => Ret (match o with Ok v => Ok (v + 1) | _ => o end)))
  else if r =? 3 then Ret (Err 3)
  else if r =? 4 then (if ty =? 0 then Ret (Err 10) else if ty =? 1 then Ret (Err 11) else Ret (Ok 9))
  else Ret (Ok 5).
Example C12_typed_nonvacuous :
  acyclic ex2_prog (fun r => if r =? 2 then 1%nat else 0%nat) /\
  let run_ := run (cfg_fixed true true) ex2_prog (fun _ => []) (fun _ => Ok 0) (fun _ d => Ok d) (fun _ _ d => Ok d) 5 in
  run_ [CGet 0 2; CGet 1 2; CGet 0 2; CGet 0 4; CGet 1 4; CGet 2 4; CGet 0 4] init
    = [Err 3; Ok 7; Err 3; Err 10; Err 11; Ok 9; Err 10] /\
  run_ [CGet 1 2; CGet 0 2; CGet 2 4; CGet 1 4] init = [Ok 7; Err 3; Ok 9; Err 11] /\
  lookup 2 (ocache (final_state ex2_prog (fun _ => []) (fun _ => Ok 0) (fun _ d => Ok d) (fun _ _ d => Ok d)
                                true true 5 [CGet 0 2; CGet 1 2] init)) = Some (EErr 3).
Proof.
  split; [|vm_compute; repeat split; reflexivity].
  intros ty r. destruct (r =? 2) eqn:E2; unfold ex2_prog; rewrite E2.
  - destruct (ty =? 1); [exact I|]. cbn [bounded]. change (3 =? 2) with false. cbv iota.
    split; [lia|]. intros o. exact I.
  - destruct (r =? 3); [exact I|]. destruct (r =? 4); [|exact I].
    destruct (ty =? 0); [exact I|]. destruct (ty =? 1); exact I.
Qed.
