(** Properties/C12.v — "Caches are invisible: cached and uncached documents answer identically".
    Only statements, each closed by [exact] of a lemma proved in Cache/Proofs.v / Cache/Tables.v. *)
From PdfV Require Import Base.Prelude Gen.Generated Cache.Model Cache.Node Cache.Proofs Cache.Tables.

(** The statement of the property on the model of the code as it is now (both fixes in): for every document,
    cache configuration and call sequence, the answers equal the answers each call gives alone on a cache-free
    document.  It is false as it stands (C12_cyclic_refuted). *)
Definition C12_full_statement : Prop := full_statement.

(** ... and holds for every document whose eagerly loaded references follow a rank (no cycle among nested loads) *)
Theorem C12_invisible : forall prog filters raw appf imgc rank oc sc fuel calls,
  acyclic prog rank -> fuel_ok rank fuel calls ->
  run (cfg_fixed oc sc) prog filters raw appf imgc fuel calls init
  = map (answer_alone prog filters raw appf imgc fuel) calls.
Proof. exact cache_invisible. Qed.
Print Assumptions C12_invisible.

(** the answer to a call does not depend on the calls before it *)
Theorem C12_order_independent : forall prog filters raw appf imgc rank oc sc fuel pre1 pre2 cl,
  acyclic prog rank -> fuel_ok rank fuel (pre1 ++ [cl]) -> fuel_ok rank fuel (pre2 ++ [cl]) ->
  nth (length pre1) (run (cfg_fixed oc sc) prog filters raw appf imgc fuel (pre1 ++ [cl]) init) OutOfFuel
  = nth (length pre2) (run (cfg_fixed oc sc) prog filters raw appf imgc fuel (pre2 ++ [cl]) init) OutOfFuel.
Proof. exact cache_order_independent. Qed.
Print Assumptions C12_order_independent.

(** a typed get returns the chain-free, cache-free denotation: the recursion guard never fires spuriously and
    the fuel (nesting bound) suffices *)
Theorem C12_get_is_denotation : forall (prog : tytag -> ref -> comp) (filters : ref -> list filt) (raw : ref -> outcome)
    (appf : filt -> val -> outcome) (imgc : ref -> filt -> val -> outcome) (rank : ref -> nat) (oc sc : bool)
    (fuel : nat) (ty : tytag) (r : ref) (st' : state) (o : outcome),
  acyclic prog rank -> (rank r < fuel)%nat ->
  get (cfg_fixed oc sc) prog fuel [] ty r init = (o, st') -> o = D prog rank ty r.
Proof. exact cache_answers_D. Qed.
Print Assumptions C12_get_is_denotation.

(** C12-c (open): objects that eagerly load each other and survive the nested "Recursive reference" error *)
Theorem C12_cyclic_refuted : ~ C12_full_statement.
Proof. exact cyclic_refuted. Qed.
Print Assumptions C12_cyclic_refuted.

(** C12-a, C12-b (fixed): the model with the respective fix switched off violates the statement *)
Theorem C12_a_refuted_before_fix : exists prog filters raw appf imgc fuel calls,
  run (mkCfg true true false true) prog filters raw appf imgc fuel calls init
  <> map (fun cl => fst (do_call no_cache prog filters raw appf imgc fuel cl init)) calls.
Proof. exact prefix_a_refuted. Qed.
Print Assumptions C12_a_refuted_before_fix.
Theorem C12_b_refuted_before_fix : exists prog filters raw appf imgc fuel calls,
  run (mkCfg true true true false) prog filters raw appf imgc fuel calls init
  <> map (fun cl => fst (do_call no_cache prog filters raw appf imgc fuel cl init)) calls.
Proof. exact prefix_b_refuted. Qed.
Print Assumptions C12_b_refuted_before_fix.

(** generated tables of types.rs raw_image_data against the standard's filter classes *)
Theorem C12_split_table : forall f, In f filter_codes -> is_image_filter f = spec_is_image f.
Proof. exact split_table. Qed.
Print Assumptions C12_split_table.
Theorem C12_codecs_table : forall f, In f filter_codes -> memN f cache_image_codecs = memN f [5; 6; 7; 8; 9].
Proof. exact codecs_table. Qed.
Print Assumptions C12_codecs_table.

(** non-vacuity: an acyclic document with nested loads exists (object 2 loads object 1 as two different
    types, one of which fails), and on it a cached history with a type confusion and a cached error is
    answered as alone *)
Definition ex_prog (ty : tytag) (r : ref) : comp :=
  if r =? 2 then Call 0 1 (fun o1 => Call 1 1 (fun o2 => Ret (match o1, o2 with Ok v, Err e => Ok (v + e) | _, _ => Err 9 end)))
  else if ty =? 1 then Ret (Err 1) else Ret (Ok 5).
Definition ex_rank (r : ref) : nat := if r =? 2 then 1%nat else 0%nat.
Example C12_acyclic_nonvacuous :
  acyclic ex_prog ex_rank /\
  run (cfg_fixed true true) ex_prog (fun _ => []) (fun _ => Ok 0) (fun _ d => Ok d) (fun _ _ d => Ok d)
      5 [CGet 1 1; CGet 0 1; CGet 0 2; CGet 2 2] init = [Err 1; Ok 5; Ok 6; Ok 6].
Proof.
  split; [|vm_compute; reflexivity].
  intros ty r. unfold ex_prog, ex_rank.
  destruct (r =? 2) eqn:E2.
  - cbn [bounded]. change (1 =? 2) with false. cbv iota. split; [lia|]. intros o1. split; [lia|]. intros o2. exact I.
  - destruct (ty =? 1); exact I.
Qed.
