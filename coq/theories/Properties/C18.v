(** Properties/C18.v — "References to missing or free objects read as null".
    Only statements, each closed by [exact] of a lemma proved elsewhere. *)
From PdfV Require Import Base.Prelude Gen.Generated Typed.Prim Typed.Schema Typed.Derive Typed.DictProofs Typed.DanglingProofs.

(** the full statement at the level of Option<T>::from_primitive *)
Definition C18_full_statement : Prop := forall SC H allow E f chain t i g,
  resolving SC t = true -> dangling E i -> chain_has i g chain = false ->
  read SC H allow E (S (S f)) chain (TOption t) (PRef i g) = TOk VNone.

(** every way a reference dangles (free entry, entry never defined, number beyond the table) is an error that the
    Option reader recognises — also after Resolve::get has wrapped it (computed on the generated constants) *)
Theorem C18_missing_recognised :
  is_missing (EBase resolve_ref_free_err) = true /\
  is_missing (EBase resolve_ref_invalid_err) = true /\
  is_missing (if resolve_ref_get_in_try then ETry (EBase xref_get_none_err) else EBase xref_get_none_err) = true.
Proof. exact dangling_kinds_missing. Qed.
Print Assumptions C18_missing_recognised.

(** … and an error a derived reader raised for an ENTRY of an object that exists (PdfError::FromPrimitive) is never one of them:
    an optional entry / array element that designates an existing object whose own required entry dangles stays an error naming
    that entry (the second sentence of the property; computed on the generated look-through table of is_missing_object) *)
Theorem C18_existing_object_not_missing : forall f e, is_missing (EFromPrim f e) = false /\ opt_none (EFromPrim f e) = false.
Proof. exact existing_object_not_missing. Qed.
Print Assumptions C18_existing_object_not_missing.

(** strict and tolerant ([allow] is universally quantified): an optional holder that follows references reads a
    dangling reference as None *)
Theorem C18_option_null : C18_full_statement.
Proof. exact option_dangling. Qed.
Print Assumptions C18_option_null.

(** … and at the level of a derived struct: the dictionary with the planted reference reads exactly like the
    dictionary without the key *)
Theorem C18_optional_null : forall SC H allow E f chain i s pre fd0 post t0 d r g,
  get_struct SC i = Some s -> s_fields s = pre ++ fd0 :: post ->
  Forall (fun g => normal g = true /\ beqb (f_key g) (f_key fd0) = false) pre ->
  normal fd0 = true -> f_default fd0 = DNone -> f_ty fd0 = TOption t0 -> resolving SC t0 = true ->
  beqb (f_key fd0) TypeKey = false -> forallb (fun c => negb (beqb (fst c) (f_key fd0))) (s_checks s) = true ->
  dget (f_key fd0) (ddel (f_key fd0) d) = None ->
  dangling E r -> chain_has r g chain = false ->
  read SC H allow E (S (S (S f))) chain (TStruct i) (PDict (dinsert (f_key fd0) (PRef r g) d))
  = read SC H allow E (S (S (S f))) chain (TStruct i) (PDict (ddel (f_key fd0) d)).
Proof. exact struct_optional_null. Qed.
Print Assumptions C18_optional_null.

(** array elements (fix C18-b): a dangling element of Vec<T> does not fail the array — it is left out when T does not
    read the null object, and is the null object when T does *)
Theorem C18_element_skipped : forall SC H allow E f chain t i g pre post e0,
  resolving SC t = true -> dangling E i -> chain_has i g chain = false ->
  read SC H allow E (S f) chain t PNull = TErr e0 ->
  read SC H allow E (S (S f)) chain (TVec t) (PArr (pre ++ PRef i g :: post))
  = read SC H allow E (S (S f)) chain (TVec t) (PArr (pre ++ post)).
Proof. exact element_dangling_skipped. Qed.
Print Assumptions C18_element_skipped.

Theorem C18_element_null : forall SC H allow E f chain t i g pre post v0,
  resolving SC t = true -> dangling E i -> chain_has i g chain = false ->
  read SC H allow E (S f) chain t PNull = TOk v0 ->
  read SC H allow E (S (S f)) chain (TVec t) (PArr (pre ++ PRef i g :: post))
  = read SC H allow E (S (S f)) chain (TVec t) (PArr (pre ++ PNull :: post)).
Proof. exact element_dangling_null. Qed.
Print Assumptions C18_element_null.

(** the derived enums are among the holders that follow a reference (fix C18-c; computed on the generated schemas) *)
Theorem C18_enums_resolve :
  forallb (fun i => resolving gen_schemas (TNameEnum (N.of_nat i))) (seq 0 (length (nenums gen_schemas))) = true /\
  forallb (fun i => resolving gen_schemas (TIntEnum (N.of_nat i))) (seq 0 (length (ienums gen_schemas))) = true.
Proof. vm_compute. split; reflexivity. Qed.
Print Assumptions C18_enums_resolve.

(** holders that do not follow the reference (Ref, Lazy, Primitive) keep it: reading succeeds *)
Theorem C18_deferred : forall SC H allow E f chain t i g, deferring t = true ->
  exists v, read SC H allow E (S (S f)) chain (TOption t) (PRef i g) = TOk (VSome v).
Proof. exact option_deferred. Qed.
Print Assumptions C18_deferred.

(** a required field: an error value (never a panic) that names the field and whose cause is the missing object *)
Theorem C18_required_err : forall SC H allow E f chain fd0 post d acc r g,
  normal fd0 = true -> resolving SC (f_ty fd0) = true -> dget (f_key fd0) d = Some (PRef r g) ->
  dangling E r -> chain_has r g chain = false ->
  exists e, read_fields (read SC H allow E (S f) chain) (fd0 :: post) d acc = TErr (EFromPrim (f_name fd0) e)
            /\ is_missing e = true.
Proof. exact required_dangling. Qed.
Print Assumptions C18_required_err.

(** non-vacuity: a table with a free entry, a gap and an end; Option<MaybeRef<i32>> over each kind *)
Example C18_nonvacuous :
  let E := [XFree; XObj (PInt 7); XInvalid] in
  map (fun i => read gen_schemas {| h_read := fun _ _ _ => TErr (EBase 99); h_write := fun _ _ => TErr (EBase 99) |}
                     false E 4 [] (TOption (TMaybeRef TI32)) (PRef i 0)) [0; 1; 2; 3]
  = [TOk VNone; TOk (VSome (VIndirect 1 0 (VInt 7))); TOk VNone; TOk VNone].
Proof. vm_compute. reflexivity. Qed.
