(** Properties/C06.v — "Encrypted documents yield their plaintext with either password, and only then".
    Only statements, each closed by [exact] of a lemma proved in Crypt/*Proofs.v.  MD5, SHA-2, AES-CBC and SASLprep
    are universally quantified functions; what a theorem needs of them is an explicit premise. *)
From PdfV Require Import Base.Prelude Gen.Generated Crypt.Rc4 Crypt.Rc4Proofs Crypt.Rc4Spec Crypt.Model Crypt.Spec Crypt.Tables Crypt.Proofs Crypt.KdfProofs Crypt.Proofs56 Crypt.SafeProofs.

(** the full statement: for every variant, passwords, P, id, EncryptMetadata, crypt filters named by /StmF (streams) and /StrF
    (strings) independently of each other — Identity, RC4, AES-128, AES-256 —, object and generation numbers and contents:
    what a conforming writer stored is read back as the original bytes (C06_full; the opening theorems give the decoder) *)
Definition C06_full_statement : Prop :=
  forall MD5 AESE AESD, (forall x, length (MD5 x) = 16%nat) ->
  (forall k iv x, lenN x mod 16 = 0 -> AESD k iv (AESE k iv x) = x) -> (forall k iv x, lenN (AESE k iv x) = lenN x) ->
  forall dc fk m ms num gen iv data, decoder_for dc fk m ms -> lenN iv = 16 ->
  (* a stream of object (num, gen), stored under /StmF's method, read through Storage::decode's Decoder::decrypt *)
  decrypt (fun x => Ok (MD5 x)) (fun k iv x => Ok (AESD k iv x)) dc num gen
    (protect_bytes MD5 AESE m fk (k_enc_obj dc) (k_meta_obj dc) (negb (k_em dc)) num gen iv data) = Ok data /\
  (* a string of object (num, gen), stored under /StrF's method, read through the parser's Context::decrypt *)
  ctx_decrypt (fun x => Ok (MD5 x)) (fun k iv x => Ok (AESD k iv x)) (Some dc) num gen
    (protect_bytes MD5 AESE ms fk (k_enc_obj dc) (k_meta_obj dc) (negb (k_em dc)) num gen iv data) = Ok data.

(** RC4 (implemented in the crate): an involution for every key of 1..256 bytes and every message *)
Theorem C06_rc4_involution : forall k m, 1 <= lenN k <= 256 ->
  exists c, rc4 k m = Ok c /\ rc4 k c = Ok m /\ length c = length m.
Proof. exact rc4_involution. Qed.
Print Assumptions C06_rc4_involution.

Theorem C06_rc4_bad_key : forall k m, lenN k = 0 \/ 256 < lenN k -> rc4 k m = Panic 601.
Proof. exact rc4_bad_key_panics. Qed.
Print Assumptions C06_rc4_bad_key.

(** the crate's Rc4 (state as a 256-entry array, u8 wrapping arithmetic) computes RC4 as published (KSA / PRGA over a
    permutation given as a function, arithmetic modulo 256): for every key of 1..256 bytes and every message *)
Theorem C06_rc4_is_rc4 : forall k m, 1 <= lenN k <= 256 -> rc4 k m = Ok (rc4_spec k m).
Proof. exact rc4_is_spec. Qed.
Print Assumptions C06_rc4_is_rc4.

(** PKCS#7 unpadding (block-padding, strict) inverts the standard padding for every length incl. 0 and multiples of 16 *)
Theorem C06_pkcs7 : forall m, pkcs7_unpad (pkcs7_pad m) = Some m.
Proof. exact pkcs7_unpad_pad. Qed.
Print Assumptions C06_pkcs7.

(** the generated constants of crypt.rs are the ones the model was written with; PADDING is the standard's string *)
Theorem C06_tables : PADDING = spec_pad /\ crypt_salt = salt_tag /\
  crypt_constants = [1; 19; 3; 50; 4; 32; 16;  16; 3; 50; 2; 1; 20;  1; 40; 2; 8; 4; 6; 5; 2; 6;  4; 48; 48; 127; 64; 32; 64; 16;
                     3; 16; 32; 32; 3; 2; 5; 16;  16; 16; 16;  32; 32] /\
  crypt_meta_bytes = [255; 255; 255; 255] /\
  crypt_r56_slices = [(0, 32); (32, 40); (40, 48); (0, 32); (32, 40); (40, 48)] /\
  crypt_kdf_arms = [(32, 256); (48, 384); (64, 512)] /\
  crypt_identity_name = identity_name.
Proof. exact (conj padding_is_standard (conj salt_is_standard (conj constants_as_modelled (conj meta_bytes_as_modelled (conj r56_slices_as_modelled (conj kdf_arms_as_modelled identity_name_as_modelled)))))). Qed.
Print Assumptions C06_tables.

(** revisions 2-4: Decoder::from_password is Algorithm 6 followed by Algorithm 7, for every dictionary with a key of 1..16
    bytes, every document id and every password ([m]: method of /StmF, [ms]: method of /StrF) *)
Theorem C06_from_password_rc4_refines : forall MD5, (forall x, length (MD5 x) = 16%nat) ->
  forall R bits n m ms d id0 pass, 2 <= R <= 4 -> bits / 8 = n -> 1 <= n <= 16 ->
  from_password_rc4 (fun x => Ok (MD5 x)) R bits m ms d id0 pass =
    match alg6 MD5 R n pass (d_o d) (d_u d) (d_p d) id0 (d_em d) with
    | Some _ => Ok (decoder_with (alg2_full MD5 R n pass (d_o d) (d_p d) id0 (d_em d) ++ []) n m ms (d_em d || (d_v d <? 4)%Z))
    | None =>
        let upw := if R =? 2 then rc4_raw (owner_key MD5 R n pass) (d_o d)
                   else rc4_passes (rev (xkeys (owner_key MD5 R n pass) 0 20)) (d_o d) in
        match alg6 MD5 R n upw (d_o d) (d_u d) (d_p d) id0 (d_em d) with
        | Some _ => Ok (decoder_with (alg2_full MD5 R n upw (d_o d) (d_p d) id0 (d_em d) ++ []) n m ms (d_em d || (d_v d <? 4)%Z))
        | None => Err E_INVALID_PASSWORD
        end
    end.
Proof. exact from_password_rc4_refines. Qed.
Print Assumptions C06_from_password_rc4_refines.

(** opening with the user password yields the file key of Algorithm 2 (U written by Algorithm 4 / 5) *)
Theorem C06_open_user_rc4 : forall MD5 SHA256 SHA384 SHA512 AESE AESD PREP, (forall x, length (MD5 x) = 16%nat) ->
  forall fuel d id0 upw R n m ms tail, std_rc4_dict d R n m ms ->
  let fk := alg2 MD5 R n upw (d_o d) (d_p d) id0 (d_em d) in
  d_u d = u_entry MD5 R fk id0 tail ->
  opens_with (from_password (fun x => Ok (MD5 x)) (fun x => Ok (SHA256 x)) (fun x => Ok (SHA384 x)) (fun x => Ok (SHA512 x))
                (fun k iv x => Ok (AESE k iv x)) (fun k iv x => Ok (AESD k iv x)) (fun x => Ok (PREP x)) fuel d id0 upw)
             n fk m ms (d_em d || (d_v d <? 4)%Z).
Proof. exact open_user_rc4. Qed.
Print Assumptions C06_open_user_rc4.

(** opening with the owner password (O written by Algorithm 3) yields the same file key *)
Theorem C06_open_owner_rc4 : forall MD5 SHA256 SHA384 SHA512 AESE AESD PREP, (forall x, length (MD5 x) = 16%nat) ->
  forall fuel d id0 upw opw R n m ms tail, std_rc4_dict d R n m ms ->
  d_o d = alg3 MD5 R n opw upw ->
  let fk := alg2 MD5 R n upw (d_o d) (d_p d) id0 (d_em d) in
  d_u d = u_entry MD5 R fk id0 tail ->
  alg6 MD5 R n opw (d_o d) (d_u d) (d_p d) id0 (d_em d) = None ->
  opens_with (from_password (fun x => Ok (MD5 x)) (fun x => Ok (SHA256 x)) (fun x => Ok (SHA384 x)) (fun x => Ok (SHA512 x))
                (fun k iv x => Ok (AESE k iv x)) (fun k iv x => Ok (AESD k iv x)) (fun x => Ok (PREP x)) fuel d id0 opw)
             n fk m ms (d_em d || (d_v d <? 4)%Z).
Proof. exact open_owner_rc4. Qed.
Print Assumptions C06_open_owner_rc4.

(** a password whose validation values differ (Algorithms 6 and 7 both reject it) is rejected with InvalidPassword *)
Theorem C06_wrong_pw_rc4 : forall MD5 SHA256 SHA384 SHA512 AESE AESD PREP, (forall x, length (MD5 x) = 16%nat) ->
  forall fuel d id0 pw R n m ms, std_rc4_dict d R n m ms ->
  alg6 MD5 R n pw (d_o d) (d_u d) (d_p d) id0 (d_em d) = None ->
  alg7 MD5 R n pw (d_o d) (d_u d) (d_p d) id0 (d_em d) = None ->
  from_password (fun x => Ok (MD5 x)) (fun x => Ok (SHA256 x)) (fun x => Ok (SHA384 x)) (fun x => Ok (SHA512 x))
                (fun k iv x => Ok (AESE k iv x)) (fun k iv x => Ok (AESD k iv x)) (fun x => Ok (PREP x)) fuel d id0 pw
  = Err E_INVALID_PASSWORD.
Proof. exact wrong_pw_rc4. Qed.
Print Assumptions C06_wrong_pw_rc4.

(** ... and only then: a password is accepted iff Algorithm 6 or Algorithm 7 accepts it *)
Theorem C06_accepted_iff_rc4 : forall MD5 SHA256 SHA384 SHA512 AESE AESD PREP, (forall x, length (MD5 x) = 16%nat) ->
  forall fuel d id0 pw R n m ms, std_rc4_dict d R n m ms ->
  (exists dc, from_password (fun x => Ok (MD5 x)) (fun x => Ok (SHA256 x)) (fun x => Ok (SHA384 x)) (fun x => Ok (SHA512 x))
                (fun k iv x => Ok (AESE k iv x)) (fun k iv x => Ok (AESD k iv x)) (fun x => Ok (PREP x)) fuel d id0 pw = Ok dc) <->
  (alg6 MD5 R n pw (d_o d) (d_u d) (d_p d) id0 (d_em d) <> None \/ alg7 MD5 R n pw (d_o d) (d_u d) (d_p d) id0 (d_em d) <> None).
Proof. exact accepted_iff_rc4. Qed.
Print Assumptions C06_accepted_iff_rc4.

(** revision 6: for every fuel on which Algorithm 2.B (ISO 32000-2, do-while form, "first 16 bytes as a big-endian
    integer modulo 3") returns, Decoder::revision_6_kdf (while form, byte sum modulo 3) returns the same hash *)
Theorem C06_kdf_refines : forall SHA256 SHA384 SHA512 AESE, (forall x, length (SHA256 x) = 32%nat) ->
  forall fuel pw salt u h, alg2b SHA256 SHA384 SHA512 AESE fuel pw salt u = Some h ->
  revision_6_kdf (fun x => Ok (SHA256 x)) (fun x => Ok (SHA384 x)) (fun x => Ok (SHA512 x)) (fun k iv x => Ok (AESE k iv x)) fuel pw salt u = Ok h.
Proof. exact kdf_refines. Qed.
Print Assumptions C06_kdf_refines.

(** revisions 5 and 6: Decoder::from_password is Algorithm 2.A (ISO 32000-2 §7.6.4.3.3; user test = Algorithm 11 first, then owner
    test = Algorithm 12), for every dictionary whose U/O have 48 bytes and whose UE/OE are whole AES blocks, every preparable
    password and every fuel on which the hashes (SHA-256 for R5, Algorithm 2.B for R6) are defined *)
Theorem C06_from_password_56_refines : forall SHA256 SHA384 SHA512 AESE AESD PREP, (forall x, length (SHA256 x) = 32%nat) ->
  forall fuel R m ms d pass p ue oe ru ro,
  PREP pass = Some p -> lenN (d_u d) = 48 -> lenN (d_o d) = 48 ->
  d_ue d = Some ue -> d_oe d = Some oe -> lenN ue mod 16 = 0 -> lenN oe mod 16 = 0 ->
  alg2a_user SHA256 SHA384 SHA512 AESE AESD R fuel (pw56 p) (d_u d) ue = Some ru ->
  (ru = None -> alg2a_owner SHA256 SHA384 SHA512 AESE AESD R fuel (pw56 p) (d_o d) (d_u d) oe = Some ro) ->
  from_password_56 (fun x => Ok (SHA256 x)) (fun x => Ok (SHA384 x)) (fun x => Ok (SHA512 x))
                (fun k iv x => Ok (AESE k iv x)) (fun k iv x => Ok (AESD k iv x)) (fun x => Ok (PREP x)) fuel R m ms d pass
  = match ru with Some k => finish56 m ms d k | None => result56 m ms d ro end.
Proof. exact from_password_56_refines. Qed.
Print Assumptions C06_from_password_56_refines.

(** a dictionary whose U and UE were written by Algorithm 8 for the user password opens with it; the decoder holds the file key *)
Theorem C06_open_user_56 : forall MD5 SHA256 SHA384 SHA512 AESE AESD PREP,
  (forall x, length (SHA256 x) = 32%nat) -> (forall x, length (SHA384 x) = 48%nat) -> (forall x, length (SHA512 x) = 64%nat) ->
  (forall k iv x, lenN x mod 16 = 0 -> AESD k iv (AESE k iv x) = x) -> (forall k iv x, lenN (AESE k iv x) = lenN x) ->
  forall fuel d id0 upw p R m ms hv hk vs ks fk oe,
  std_56_dict d R m ms -> PREP upw = Some p ->
  lenN vs = 8 -> lenN ks = 8 -> lenN fk = 32 ->
  hash56 SHA256 SHA384 SHA512 AESE R fuel (pw56 p) vs [] = Some hv ->
  hash56 SHA256 SHA384 SHA512 AESE R fuel (pw56 p) ks [] = Some hk ->
  d_u d = alg8_U hv vs ks -> d_ue d = Some (alg8_UE AESE hk fk) ->
  lenN (d_o d) = 48 -> d_oe d = Some oe -> lenN oe mod 16 = 0 ->
  opens_with (from_password (fun x => Ok (MD5 x)) (fun x => Ok (SHA256 x)) (fun x => Ok (SHA384 x)) (fun x => Ok (SHA512 x))
                (fun k iv x => Ok (AESE k iv x)) (fun k iv x => Ok (AESD k iv x)) (fun x => Ok (PREP x)) fuel d id0 upw)
             32 fk m ms (em_of d).
Proof. exact open_user_56. Qed.
Print Assumptions C06_open_user_56.

(** a dictionary whose O and OE were written by Algorithm 9 for the owner password opens with it (premise: the owner password
    is not also accepted as user password, which the code tests first) *)
Theorem C06_open_owner_56 : forall MD5 SHA256 SHA384 SHA512 AESE AESD PREP,
  (forall x, length (SHA256 x) = 32%nat) -> (forall x, length (SHA384 x) = 48%nat) -> (forall x, length (SHA512 x) = 64%nat) ->
  (forall k iv x, lenN x mod 16 = 0 -> AESD k iv (AESE k iv x) = x) -> (forall k iv x, lenN (AESE k iv x) = lenN x) ->
  forall fuel d id0 opw p R m ms hx ho hk vs ks fk ue,
  std_56_dict d R m ms -> PREP opw = Some p ->
  lenN vs = 8 -> lenN ks = 8 -> lenN fk = 32 ->
  lenN (d_u d) = 48 -> d_ue d = Some ue -> lenN ue mod 16 = 0 ->
  hash56 SHA256 SHA384 SHA512 AESE R fuel (pw56 p) (vsalt (d_u d)) [] = Some hx -> hx <> take 32 (d_u d) ->
  hash56 SHA256 SHA384 SHA512 AESE R fuel (pw56 p) vs (d_u d) = Some ho ->
  hash56 SHA256 SHA384 SHA512 AESE R fuel (pw56 p) ks (d_u d) = Some hk ->
  d_o d = alg9_O ho vs ks -> d_oe d = Some (alg9_OE AESE hk fk) ->
  opens_with (from_password (fun x => Ok (MD5 x)) (fun x => Ok (SHA256 x)) (fun x => Ok (SHA384 x)) (fun x => Ok (SHA512 x))
                (fun k iv x => Ok (AESE k iv x)) (fun k iv x => Ok (AESD k iv x)) (fun x => Ok (PREP x)) fuel d id0 opw)
             32 fk m ms (em_of d).
Proof. exact open_owner_56. Qed.
Print Assumptions C06_open_owner_56.

(** a password SASLprep rejects, or one that neither Algorithm 11 nor Algorithm 12 accepts, is rejected with InvalidPassword *)
Theorem C06_wrong_pw_56 : forall MD5 SHA256 SHA384 SHA512 AESE AESD PREP, (forall x, length (SHA256 x) = 32%nat) ->
  forall fuel d id0 pw R m ms ue oe,
  std_56_dict d R m ms -> lenN (d_u d) = 48 -> lenN (d_o d) = 48 ->
  d_ue d = Some ue -> d_oe d = Some oe -> lenN ue mod 16 = 0 -> lenN oe mod 16 = 0 ->
  (PREP pw = None \/
   exists p, PREP pw = Some p /\
     alg2a_user SHA256 SHA384 SHA512 AESE AESD R fuel (pw56 p) (d_u d) ue = Some None /\
     alg2a_owner SHA256 SHA384 SHA512 AESE AESD R fuel (pw56 p) (d_o d) (d_u d) oe = Some None) ->
  from_password (fun x => Ok (MD5 x)) (fun x => Ok (SHA256 x)) (fun x => Ok (SHA384 x)) (fun x => Ok (SHA512 x))
                (fun k iv x => Ok (AESE k iv x)) (fun k iv x => Ok (AESD k iv x)) (fun x => Ok (PREP x)) fuel d id0 pw
  = Err E_INVALID_PASSWORD.
Proof. exact wrong_pw_56. Qed.
Print Assumptions C06_wrong_pw_56.

(** ... and only then: a decoder is returned iff Algorithm 11 or 12 accepts and the unwrapped key has 32 bytes *)
Theorem C06_accepted_iff_56 : forall MD5 SHA256 SHA384 SHA512 AESE AESD PREP, (forall x, length (SHA256 x) = 32%nat) ->
  forall fuel d id0 pw p R m ms ue oe ru ro,
  std_56_dict d R m ms -> PREP pw = Some p -> lenN (d_u d) = 48 -> lenN (d_o d) = 48 ->
  d_ue d = Some ue -> d_oe d = Some oe -> lenN ue mod 16 = 0 -> lenN oe mod 16 = 0 ->
  alg2a_user SHA256 SHA384 SHA512 AESE AESD R fuel (pw56 p) (d_u d) ue = Some ru ->
  alg2a_owner SHA256 SHA384 SHA512 AESE AESD R fuel (pw56 p) (d_o d) (d_u d) oe = Some ro ->
  ((exists dc, from_password (fun x => Ok (MD5 x)) (fun x => Ok (SHA256 x)) (fun x => Ok (SHA384 x)) (fun x => Ok (SHA512 x))
                (fun k iv x => Ok (AESE k iv x)) (fun k iv x => Ok (AESD k iv x)) (fun x => Ok (PREP x)) fuel d id0 pw = Ok dc) <->
   (exists k, lenN k = 32 /\ (ru = Some k \/ (ru = None /\ ro = Some k)))).
Proof. exact accepted_iff_56. Qed.
Print Assumptions C06_accepted_iff_56.

(** Decoder::from_password never panics: for every dictionary, document id, password and fuel the outcome is an error value,
    fuel exhaustion of the model's revision_6_kdf loop, or a decoder *)
Theorem C06_no_panic : forall MD5 SHA256 SHA384 SHA512 AESE AESD PREP, (forall x, length (MD5 x) = 16%nat) ->
  forall fuel d id0 pass s,
  from_password (fun x => Ok (MD5 x)) (fun x => Ok (SHA256 x)) (fun x => Ok (SHA384 x)) (fun x => Ok (SHA512 x))
                (fun k iv x => Ok (AESE k iv x)) (fun k iv x => Ok (AESD k iv x)) (fun x => Ok (PREP x)) fuel d id0 pass
  <> Panic s.
Proof. exact from_password_no_panic. Qed.
Print Assumptions C06_no_panic.

(** ... and whatever decoder load_storage_and_trailer_password installs never makes a stream or string decryption panic
    (Decoder::key slice, Rc4::new assert!), for every object, generation and bytes *)
Theorem C06_decrypt_no_panic : forall MD5 SHA256 SHA384 SHA512 AESE AESD PREP, (forall x, length (MD5 x) = 16%nat) ->
  forall fuel d id0 pass enc meta dc num gen data s,
  load_decoder (fun x => Ok (MD5 x)) (fun x => Ok (SHA256 x)) (fun x => Ok (SHA384 x)) (fun x => Ok (SHA512 x))
                (fun k iv x => Ok (AESE k iv x)) (fun k iv x => Ok (AESD k iv x)) (fun x => Ok (PREP x)) fuel d id0 pass enc meta = Ok dc ->
  decrypt (fun x => Ok (MD5 x)) (fun k iv x => Ok (AESD k iv x)) dc num gen data <> Panic s /\
  ctx_decrypt (fun x => Ok (MD5 x)) (fun k iv x => Ok (AESD k iv x)) (Some dc) num gen data <> Panic s.
Proof. exact loaded_decoder_no_panic. Qed.
Print Assumptions C06_decrypt_no_panic.

(** every stream: Decoder::decrypt (the method of /StmF) inverts Algorithm 1 / 1.A for every object number, generation, IV and
    length (incl. empty and block-aligned), for Identity, RC4, AES-128 and AES-256; exempt objects are returned as stored *)
Theorem C06_plaintext : forall MD5 AESE AESD, (forall x, length (MD5 x) = 16%nat) ->
  (forall k iv x, lenN x mod 16 = 0 -> AESD k iv (AESE k iv x) = x) -> (forall k iv x, lenN (AESE k iv x) = lenN x) ->
  forall dc fk m ms num gen iv data, decoder_for dc fk m ms -> lenN iv = 16 ->
  decrypt (fun x => Ok (MD5 x)) (fun k iv x => Ok (AESD k iv x)) dc num gen
    (protect_bytes MD5 AESE m fk (k_enc_obj dc) (k_meta_obj dc) (negb (k_em dc)) num gen iv data) = Ok data.
Proof. exact plaintext. Qed.
Print Assumptions C06_plaintext.

(** every string: the parser's Context::decrypt (Decoder::decrypt_string, the method of /StrF — whatever /StmF's is) *)
Theorem C06_plaintext_string : forall MD5 AESE AESD, (forall x, length (MD5 x) = 16%nat) ->
  (forall k iv x, lenN x mod 16 = 0 -> AESD k iv (AESE k iv x) = x) -> (forall k iv x, lenN (AESE k iv x) = lenN x) ->
  forall dc fk m ms num gen iv s, decoder_for dc fk m ms -> lenN iv = 16 ->
  ctx_decrypt (fun x => Ok (MD5 x)) (fun k iv x => Ok (AESD k iv x)) (Some dc) num gen
    (protect_bytes MD5 AESE ms fk (k_enc_obj dc) (k_meta_obj dc) (negb (k_em dc)) num gen iv s) = Ok s.
Proof. exact plaintext_string. Qed.
Print Assumptions C06_plaintext_string.

(** Storage::decode hands the plaintext of a stream to its filters *)
Theorem C06_plaintext_decode : forall MD5 AESE AESD, (forall x, length (MD5 x) = 16%nat) ->
  (forall k iv x, lenN x mod 16 = 0 -> AESD k iv (AESE k iv x) = x) -> (forall k iv x, lenN (AESE k iv x) = lenN x) ->
  forall filters dc fk m ms num gen iv data, decoder_for dc fk m ms -> lenN iv = 16 ->
  storage_decode (fun x => Ok (MD5 x)) (fun k iv x => Ok (AESD k iv x)) filters (Some dc) num gen
    (protect_bytes MD5 AESE m fk (k_enc_obj dc) (k_meta_obj dc) (negb (k_em dc)) num gen iv data) = filters data.
Proof. exact plaintext_decode. Qed.
Print Assumptions C06_plaintext_decode.

(** revisions 2-4, end to end: a dictionary written by Algorithms 3-5 opens with the user password, and through the decoder
    as installed every stream (/StmF's method) and every string (/StrF's method) a conforming writer stored is its plaintext *)
Theorem C06_open_user_rc4_reads : forall MD5 SHA256 SHA384 SHA512 AESE AESD PREP, (forall x, length (MD5 x) = 16%nat) ->
  (forall k iv x, lenN x mod 16 = 0 -> AESD k iv (AESE k iv x) = x) -> (forall k iv x, lenN (AESE k iv x) = lenN x) ->
  forall fuel d id0 upw R n m ms tail, std_rc4_dict d R n m ms -> meth_fits n m -> meth_fits n ms ->
  let fk := alg2 MD5 R n upw (d_o d) (d_p d) id0 (d_em d) in
  d_u d = u_entry MD5 R fk id0 tail ->
  exists dc, from_password (fun x => Ok (MD5 x)) (fun x => Ok (SHA256 x)) (fun x => Ok (SHA384 x)) (fun x => Ok (SHA512 x))
                (fun k iv x => Ok (AESE k iv x)) (fun k iv x => Ok (AESD k iv x)) (fun x => Ok (PREP x)) fuel d id0 upw = Ok dc /\
    forall enc meta num gen iv data, lenN iv = 16 ->
      let dc' := install dc enc meta in
      decrypt (fun x => Ok (MD5 x)) (fun k iv x => Ok (AESD k iv x)) dc' num gen (protect_bytes MD5 AESE m fk enc meta (negb (k_em dc)) num gen iv data) = Ok data /\
      ctx_decrypt (fun x => Ok (MD5 x)) (fun k iv x => Ok (AESD k iv x)) (Some dc') num gen (protect_bytes MD5 AESE ms fk enc meta (negb (k_em dc)) num gen iv data) = Ok data.
Proof. exact open_user_rc4_reads. Qed.
Print Assumptions C06_open_user_rc4_reads.

(** revisions 5/6: the decoder an Algorithm-8 dictionary opens with is exactly Decoder::with_methods(file key, 32, StmF, StrF) *)
Theorem C06_open_user_56_key : forall MD5 SHA256 SHA384 SHA512 AESE AESD PREP,
  (forall x, length (SHA256 x) = 32%nat) -> (forall x, length (SHA384 x) = 48%nat) -> (forall x, length (SHA512 x) = 64%nat) ->
  (forall k iv x, lenN x mod 16 = 0 -> AESD k iv (AESE k iv x) = x) -> (forall k iv x, lenN (AESE k iv x) = lenN x) ->
  forall fuel d id0 upw p R m ms hv hk vs ks fk oe,
  std_56_dict d R m ms -> PREP upw = Some p ->
  lenN vs = 8 -> lenN ks = 8 -> lenN fk = 32 ->
  hash56 SHA256 SHA384 SHA512 AESE R fuel (pw56 p) vs [] = Some hv ->
  hash56 SHA256 SHA384 SHA512 AESE R fuel (pw56 p) ks [] = Some hk ->
  d_u d = alg8_U hv vs ks -> d_ue d = Some (alg8_UE AESE hk fk) ->
  lenN (d_o d) = 48 -> d_oe d = Some oe -> lenN oe mod 16 = 0 ->
  from_password (fun x => Ok (MD5 x)) (fun x => Ok (SHA256 x)) (fun x => Ok (SHA384 x)) (fun x => Ok (SHA512 x))
                (fun k iv x => Ok (AESE k iv x)) (fun k iv x => Ok (AESD k iv x)) (fun x => Ok (PREP x)) fuel d id0 upw
  = Ok (decoder_with fk 32 m ms (em_of d)).
Proof. exact open_user_56_eq. Qed.
Print Assumptions C06_open_user_56_key.

Theorem C06_open_owner_56_key : forall MD5 SHA256 SHA384 SHA512 AESE AESD PREP,
  (forall x, length (SHA256 x) = 32%nat) -> (forall x, length (SHA384 x) = 48%nat) -> (forall x, length (SHA512 x) = 64%nat) ->
  (forall k iv x, lenN x mod 16 = 0 -> AESD k iv (AESE k iv x) = x) -> (forall k iv x, lenN (AESE k iv x) = lenN x) ->
  forall fuel d id0 opw p R m ms hx ho hk vs ks fk ue,
  std_56_dict d R m ms -> PREP opw = Some p ->
  lenN vs = 8 -> lenN ks = 8 -> lenN fk = 32 ->
  lenN (d_u d) = 48 -> d_ue d = Some ue -> lenN ue mod 16 = 0 ->
  hash56 SHA256 SHA384 SHA512 AESE R fuel (pw56 p) (vsalt (d_u d)) [] = Some hx -> hx <> take 32 (d_u d) ->
  hash56 SHA256 SHA384 SHA512 AESE R fuel (pw56 p) vs (d_u d) = Some ho ->
  hash56 SHA256 SHA384 SHA512 AESE R fuel (pw56 p) ks (d_u d) = Some hk ->
  d_o d = alg9_O ho vs ks -> d_oe d = Some (alg9_OE AESE hk fk) ->
  from_password (fun x => Ok (MD5 x)) (fun x => Ok (SHA256 x)) (fun x => Ok (SHA384 x)) (fun x => Ok (SHA512 x))
                (fun k iv x => Ok (AESE k iv x)) (fun k iv x => Ok (AESD k iv x)) (fun x => Ok (PREP x)) fuel d id0 opw
  = Ok (decoder_with fk 32 m ms (em_of d)).
Proof. exact open_owner_56_eq. Qed.
Print Assumptions C06_open_owner_56_key.

(** ... and through that decoder, as installed, every stream and string stored under the 32-byte file key is its plaintext
    (methods AES-256 or Identity, independently) *)
Theorem C06_opened_56_reads : forall MD5 AESE AESD, (forall k iv x, lenN x mod 16 = 0 -> AESD k iv (AESE k iv x) = x) -> (forall k iv x, lenN (AESE k iv x) = lenN x) ->
  (forall x, length (MD5 x) = 16%nat) ->
  forall r fk m ms em, r = Ok (decoder_with fk 32 m ms em) -> lenN fk = 32 -> meth_fits 32 m -> meth_fits 32 ms ->
  exists dc, r = Ok dc /\
    forall enc meta num gen iv data, lenN iv = 16 ->
      let dc' := install dc enc meta in
      decrypt (fun x => Ok (MD5 x)) (fun k iv x => Ok (AESD k iv x)) dc' num gen (protect_bytes MD5 AESE m fk enc meta (negb (k_em dc)) num gen iv data) = Ok data /\
      ctx_decrypt (fun x => Ok (MD5 x)) (fun k iv x => Ok (AESD k iv x)) (Some dc') num gen (protect_bytes MD5 AESE ms fk enc meta (negb (k_em dc)) num gen iv data) = Ok data.
Proof. exact opened_56_reads. Qed.
Print Assumptions C06_opened_56_reads.

(** the strings and streams of the /Encrypt object and (EncryptMetadata false, V >= 4) the /Metadata object are returned unmodified *)
Theorem C06_exempt : forall MD5 AESD dc enc meta data,
  (forall num gen, enc = Some (num, gen) ->
     decrypt (fun x => Ok (MD5 x)) (fun k iv x => Ok (AESD k iv x)) (install dc enc meta) num gen data = Ok data /\
     decrypt_string (fun x => Ok (MD5 x)) (fun k iv x => Ok (AESD k iv x)) (install dc enc meta) num gen data = Ok data) /\
  (forall num gen, meta = Some (num, gen) -> k_em dc = false ->
     decrypt (fun x => Ok (MD5 x)) (fun k iv x => Ok (AESD k iv x)) (install dc enc meta) num gen data = Ok data /\
     decrypt_string (fun x => Ok (MD5 x)) (fun k iv x => Ok (AESD k iv x)) (install dc enc meta) num gen data = Ok data).
Proof. exact exempt. Qed.
Print Assumptions C06_exempt.

(** the full statement holds: crypt filters chosen independently for streams and strings, Identity included (C06-b repaired) *)
Theorem C06_full : C06_full_statement.
Proof. exact (fun MD5 AESE AESD Hm Hi Hl dc fk m ms num gen iv data Hd Hiv =>
         conj (plaintext MD5 AESE AESD Hm Hi Hl dc fk m ms num gen iv data Hd Hiv) (plaintext_string MD5 AESE AESD Hm Hi Hl dc fk m ms num gen iv data Hd Hiv)). Qed.
Print Assumptions C06_full.

(** non-vacuity *)
Example C06_oracle_premises_consistent :
  (forall x : bytes, length ((fun _ => repeatN 0 16) x) = 16%nat) /\
  (forall k iv x : bytes, lenN x mod 16 = 0 -> (fun _ _ y => y) k iv ((fun _ _ y : bytes => y) k iv x) = x) /\
  (forall k iv x : bytes, lenN ((fun _ _ y : bytes => y) k iv x) = lenN x).
Proof. repeat split. Qed.

Example C06_std_dict_exists :
  std_rc4_dict {| d_o := []; d_u := []; d_r := 3; d_p := (-4)%Z; d_v := 2; d_bits := 128; d_cf := []; d_stmf := None; d_strf := None;
                  d_em := true; d_oe := None; d_ue := None |} 3 16 MV2 MV2 /\
  (* /StmF names an AES-128 filter, /StrF is Identity *)
  std_rc4_dict {| d_o := []; d_u := []; d_r := 4; d_p := (-4)%Z; d_v := 4; d_bits := 40; d_cf := [([83], {| cf_method := MAESV2; cf_length := Some 16 |})];
                  d_stmf := Some [83]; d_strf := Some identity_name; d_em := false; d_oe := None; d_ue := None |} 4 16 MAESV2 MNone /\
  (* /StmF is absent (Identity by default), /StrF names an RC4 filter *)
  std_rc4_dict {| d_o := []; d_u := []; d_r := 4; d_p := (-4)%Z; d_v := 4; d_bits := 40; d_cf := [([83], {| cf_method := MV2; cf_length := Some 16 |})];
                  d_stmf := None; d_strf := Some [83]; d_em := false; d_oe := None; d_ue := None |} 4 16 MNone MV2.
Proof. repeat split; try (vm_compute; reflexivity); discriminate. Qed.

Example C06_decoder_for_exists :
  decoder_for (decoder_new (repeatN 1 32) 32 MAESV3 true) (repeatN 1 32) MAESV3 MAESV3 /\
  decoder_for (decoder_with (repeatN 1 16) 5 MV2 MNone true) (repeatN 1 5) MV2 MNone /\
  decoder_for (decoder_with (repeatN 1 16) 16 MAESV2 MV2 true) (repeatN 1 16) MAESV2 MV2.
Proof. repeat split; try reflexivity; vm_compute; intuition discriminate. Qed.

(* revisions 5/6: a dictionary of the shape the theorems speak about exists, and Algorithm 2.B is defined on some fuel
   (toy oracles: constant digests of the right lengths, AES-CBC = identity) *)
Example C06_std_56_dict_exists :
  std_56_dict {| d_o := []; d_u := []; d_r := 6; d_p := (-4)%Z; d_v := 5; d_bits := 256;
                 d_cf := [([83], {| cf_method := MAESV3; cf_length := Some 32 |})]; d_stmf := Some [83]; d_strf := Some [83];
                 d_em := true; d_oe := None; d_ue := None |} 6 MAESV3 MAESV3.
Proof. split; [exists 256; vm_compute; reflexivity|split; [reflexivity|right; reflexivity]]. Qed.

Example C06_hash56_defined :
  hash56 (fun _ => repeatN 0 32) (fun _ => repeatN 0 48) (fun _ => repeatN 0 64) (fun _ _ x => x) 6 64 [112] (repeatN 1 8) [] = Some (repeatN 0 32) /\
  hash56 (fun _ => repeatN 0 32) (fun _ => repeatN 0 48) (fun _ => repeatN 0 64) (fun _ _ x => x) 5 0 [112] (repeatN 1 8) [] = Some (repeatN 0 32).
Proof. split; vm_compute; reflexivity. Qed.
