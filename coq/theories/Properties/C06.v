(** Properties/C06.v — "Encrypted documents yield their plaintext with either password, and only then".
    Only statements, each closed by [exact] of a lemma proved in Crypt/*Proofs.v.  MD5, SHA-2, AES-CBC and SASLprep
    are universally quantified functions; what a theorem needs of them is an explicit premise. *)
From PdfV Require Import Base.Prelude Gen.Generated Crypt.Rc4 Crypt.Rc4Proofs Crypt.Model Crypt.Spec Crypt.Tables Crypt.Proofs Crypt.KdfProofs.

(** the full statement (for reference): for every variant, passwords, P, id, EncryptMetadata, crypt filters named by /StmF and
    /StrF, object and generation numbers and contents — proved below for /StrF = /StmF; refuted otherwise (C06_strf_refuted, C06-b) *)
Definition C06_full_statement : Prop :=
  forall MD5 AESE AESD, (forall x, length (MD5 x) = 16%nat) ->
  (forall k iv x, lenN x mod 16 = 0 -> AESD k iv (AESE k iv x) = x) -> (forall k iv x, lenN (AESE k iv x) = lenN x) ->
  forall dc fk m (strf_identity : bool) num gen iv s, decoder_for dc fk m -> lenN iv = 16 ->
  ctx_decrypt (fun x => Ok (MD5 x)) (fun k iv x => Ok (AESD k iv x)) (Some dc) num gen
    (if strf_identity then s        (* /StrF /Identity: a conforming writer stores the string as it is *)
     else protect_bytes MD5 AESE m fk (k_enc_obj dc) (k_meta_obj dc) (negb (k_em dc)) num gen iv s) = Ok s.

(** RC4 (implemented in the crate): an involution for every key of 1..256 bytes and every message *)
Theorem C06_rc4_involution : forall k m, 1 <= lenN k <= 256 ->
  exists c, rc4 k m = Ok c /\ rc4 k c = Ok m /\ length c = length m.
Proof. exact rc4_involution. Qed.
Print Assumptions C06_rc4_involution.

Theorem C06_rc4_bad_key : forall k m, lenN k = 0 \/ 256 < lenN k -> rc4 k m = Panic 601.
Proof. exact rc4_bad_key_panics. Qed.
Print Assumptions C06_rc4_bad_key.

(** PKCS#7 unpadding (block-padding, strict) inverts the standard padding for every length incl. 0 and multiples of 16 *)
Theorem C06_pkcs7 : forall m, pkcs7_unpad (pkcs7_pad m) = Some m.
Proof. exact pkcs7_unpad_pad. Qed.
Print Assumptions C06_pkcs7.

(** the generated constants of crypt.rs are the ones the model was written with; PADDING is the standard's string *)
Theorem C06_tables : PADDING = spec_pad /\ crypt_salt = salt_tag /\
  crypt_constants = [1; 19; 3; 50; 4; 32; 16;  16; 3; 50; 2; 1; 20;  1; 40; 2; 8; 4; 6; 5; 2; 6;  4; 48; 48; 127; 64; 32; 64; 16;
                     3; 16; 32; 32; 3; 2; 5; 16;  16; 16; 16] /\
  crypt_meta_bytes = [255; 255; 255; 255] /\
  crypt_r56_slices = [(0, 32); (32, 40); (40, 48); (0, 32); (32, 40); (40, 48)] /\
  crypt_kdf_arms = [(32, 256); (48, 384); (64, 512)].
Proof. exact (conj padding_is_standard (conj salt_is_standard (conj constants_as_modelled (conj meta_bytes_as_modelled (conj r56_slices_as_modelled kdf_arms_as_modelled))))). Qed.
Print Assumptions C06_tables.

(** revisions 2-4: Decoder::from_password is Algorithm 6 followed by Algorithm 7, for every dictionary with a key of 1..16
    bytes, every document id and every password *)
Theorem C06_from_password_rc4_refines : forall MD5, (forall x, length (MD5 x) = 16%nat) ->
  forall R bits n m d id0 pass, 2 <= R <= 4 -> bits / 8 = n -> 1 <= n <= 16 ->
  from_password_rc4 (fun x => Ok (MD5 x)) R bits m d id0 pass =
    match alg6 MD5 R n pass (d_o d) (d_u d) (d_p d) id0 (d_em d) with
    | Some _ => Ok (decoder_new (alg2_full MD5 R n pass (d_o d) (d_p d) id0 (d_em d) ++ []) n m (d_em d || (d_v d <? 4)%Z))
    | None =>
        let upw := if R =? 2 then rc4_raw (owner_key MD5 R n pass) (d_o d)
                   else rc4_passes (rev (xkeys (owner_key MD5 R n pass) 0 20)) (d_o d) in
        match alg6 MD5 R n upw (d_o d) (d_u d) (d_p d) id0 (d_em d) with
        | Some _ => Ok (decoder_new (alg2_full MD5 R n upw (d_o d) (d_p d) id0 (d_em d) ++ []) n m (d_em d || (d_v d <? 4)%Z))
        | None => Err E_INVALID_PASSWORD
        end
    end.
Proof. exact from_password_rc4_refines. Qed.
Print Assumptions C06_from_password_rc4_refines.

(** opening with the user password yields the file key of Algorithm 2 (U written by Algorithm 4 / 5) *)
Theorem C06_open_user_rc4 : forall MD5 SHA256 SHA384 SHA512 AESE AESD PREP, (forall x, length (MD5 x) = 16%nat) ->
  forall fuel d id0 upw R n m tail, std_rc4_dict d R n m ->
  let fk := alg2 MD5 R n upw (d_o d) (d_p d) id0 (d_em d) in
  d_u d = u_entry MD5 R fk id0 tail ->
  opens_with (from_password (fun x => Ok (MD5 x)) (fun x => Ok (SHA256 x)) (fun x => Ok (SHA384 x)) (fun x => Ok (SHA512 x))
                (fun k iv x => Ok (AESE k iv x)) (fun k iv x => Ok (AESD k iv x)) (fun x => Ok (PREP x)) fuel d id0 upw)
             n fk m (d_em d || (d_v d <? 4)%Z).
Proof. exact open_user_rc4. Qed.
Print Assumptions C06_open_user_rc4.

(** opening with the owner password (O written by Algorithm 3) yields the same file key *)
Theorem C06_open_owner_rc4 : forall MD5 SHA256 SHA384 SHA512 AESE AESD PREP, (forall x, length (MD5 x) = 16%nat) ->
  forall fuel d id0 upw opw R n m tail, std_rc4_dict d R n m ->
  d_o d = alg3 MD5 R n opw upw ->
  let fk := alg2 MD5 R n upw (d_o d) (d_p d) id0 (d_em d) in
  d_u d = u_entry MD5 R fk id0 tail ->
  alg6 MD5 R n opw (d_o d) (d_u d) (d_p d) id0 (d_em d) = None ->
  opens_with (from_password (fun x => Ok (MD5 x)) (fun x => Ok (SHA256 x)) (fun x => Ok (SHA384 x)) (fun x => Ok (SHA512 x))
                (fun k iv x => Ok (AESE k iv x)) (fun k iv x => Ok (AESD k iv x)) (fun x => Ok (PREP x)) fuel d id0 opw)
             n fk m (d_em d || (d_v d <? 4)%Z).
Proof. exact open_owner_rc4. Qed.
Print Assumptions C06_open_owner_rc4.

(** a password whose validation values differ (Algorithms 6 and 7 both reject it) is rejected with InvalidPassword *)
Theorem C06_wrong_pw_rc4 : forall MD5 SHA256 SHA384 SHA512 AESE AESD PREP, (forall x, length (MD5 x) = 16%nat) ->
  forall fuel d id0 pw R n m, std_rc4_dict d R n m ->
  alg6 MD5 R n pw (d_o d) (d_u d) (d_p d) id0 (d_em d) = None ->
  alg7 MD5 R n pw (d_o d) (d_u d) (d_p d) id0 (d_em d) = None ->
  from_password (fun x => Ok (MD5 x)) (fun x => Ok (SHA256 x)) (fun x => Ok (SHA384 x)) (fun x => Ok (SHA512 x))
                (fun k iv x => Ok (AESE k iv x)) (fun k iv x => Ok (AESD k iv x)) (fun x => Ok (PREP x)) fuel d id0 pw
  = Err E_INVALID_PASSWORD.
Proof. exact wrong_pw_rc4. Qed.
Print Assumptions C06_wrong_pw_rc4.

(** ... and only then: a password is accepted iff Algorithm 6 or Algorithm 7 accepts it *)
Theorem C06_accepted_iff_rc4 : forall MD5 SHA256 SHA384 SHA512 AESE AESD PREP, (forall x, length (MD5 x) = 16%nat) ->
  forall fuel d id0 pw R n m, std_rc4_dict d R n m ->
  (exists dc, from_password (fun x => Ok (MD5 x)) (fun x => Ok (SHA256 x)) (fun x => Ok (SHA384 x)) (fun x => Ok (SHA512 x))
                (fun k iv x => Ok (AESE k iv x)) (fun k iv x => Ok (AESD k iv x)) (fun x => Ok (PREP x)) fuel d id0 pw = Ok dc) <->
  (alg6 MD5 R n pw (d_o d) (d_u d) (d_p d) id0 (d_em d) <> None \/ alg7 MD5 R n pw (d_o d) (d_u d) (d_p d) id0 (d_em d) <> None).
Proof. exact accepted_iff_rc4. Qed.
Print Assumptions C06_accepted_iff_rc4.

(** revision 6: for every fuel on which Algorithm 2.B (ISO 32000-2, do-while form, "first 16 bytes as a big-endian
    integer modulo 3") returns, Decoder::revision_6_kdf (while form, byte sum modulo 3) returns the same hash *)
Theorem C06_kdf_refines : forall SHA256 SHA384 SHA512 AESE, (forall x, length (SHA256 x) = 32%nat) ->
  forall fuel pw salt u h, alg2b SHA256 SHA384 SHA512 AESE fuel pw salt u = Some h ->
  revision_6_kdf (fun x => Ok (SHA256 x)) (fun x => Ok (SHA384 x)) (fun x => Ok (SHA512 x)) (fun k iv x => Ok (AESE k iv x)) fuel pw salt u = Ok h.
Proof. exact kdf_refines. Qed.
Print Assumptions C06_kdf_refines.

(** every string and stream: decrypt inverts Algorithm 1 / 1.A for every object number, generation, IV and length
    (incl. empty and block-aligned), for RC4, AES-128 and AES-256; exempt objects are returned as stored *)
Theorem C06_plaintext : forall MD5 AESE AESD, (forall x, length (MD5 x) = 16%nat) ->
  (forall k iv x, lenN x mod 16 = 0 -> AESD k iv (AESE k iv x) = x) -> (forall k iv x, lenN (AESE k iv x) = lenN x) ->
  forall dc fk m num gen iv data, decoder_for dc fk m -> lenN iv = 16 ->
  decrypt (fun x => Ok (MD5 x)) (fun k iv x => Ok (AESD k iv x)) dc num gen
    (protect_bytes MD5 AESE m fk (k_enc_obj dc) (k_meta_obj dc) (negb (k_em dc)) num gen iv data) = Ok data.
Proof. exact plaintext. Qed.
Print Assumptions C06_plaintext.

(** the strings of the /Encrypt object and (EncryptMetadata false, V >= 4) the /Metadata object are returned unmodified *)
Theorem C06_exempt : forall MD5 AESD dc enc meta data,
  (forall num gen, enc = Some (num, gen) ->
     decrypt (fun x => Ok (MD5 x)) (fun k iv x => Ok (AESD k iv x)) (install dc enc meta) num gen data = Ok data) /\
  (forall num gen, meta = Some (num, gen) -> k_em dc = false ->
     decrypt (fun x => Ok (MD5 x)) (fun k iv x => Ok (AESD k iv x)) (install dc enc meta) num gen data = Ok data).
Proof. exact exempt. Qed.
Print Assumptions C06_exempt.

(** C06-b: with /StrF /Identity the stored string is the plaintext and the reader (which applies /StmF's method to
    strings, as crypt.rs does) does not return it: the full statement is false of the faithful model *)
Theorem C06_strf_refuted : ~ C06_full_statement.
Proof. exact strf_refuted. Qed.
Print Assumptions C06_strf_refuted.

(** non-vacuity *)
Example C06_oracle_premises_consistent :
  (forall x : bytes, length ((fun _ => repeatN 0 16) x) = 16%nat) /\
  (forall k iv x : bytes, lenN x mod 16 = 0 -> (fun _ _ y => y) k iv ((fun _ _ y : bytes => y) k iv x) = x) /\
  (forall k iv x : bytes, lenN ((fun _ _ y : bytes => y) k iv x) = lenN x).
Proof. repeat split. Qed.

Example C06_std_dict_exists :
  std_rc4_dict {| d_o := []; d_u := []; d_r := 3; d_p := (-4)%Z; d_v := 2; d_bits := 128; d_cf := []; d_stmf := None;
                  d_em := true; d_oe := None; d_ue := None |} 3 16 MV2 /\
  std_rc4_dict {| d_o := []; d_u := []; d_r := 4; d_p := (-4)%Z; d_v := 4; d_bits := 40; d_cf := [([83], {| cf_method := MAESV2; cf_length := Some 16 |})];
                  d_stmf := Some [83]; d_em := false; d_oe := None; d_ue := None |} 4 16 MAESV2.
Proof. split; (split; [vm_compute; reflexivity|split; [reflexivity|split; split; discriminate]]). Qed.

Example C06_decoder_for_exists :
  decoder_for (decoder_new (repeatN 1 32) 32 MAESV3 true) (repeatN 1 32) MAESV3 /\
  decoder_for (decoder_new (repeatN 1 16) 5 MV2 true) (repeatN 1 5) MV2.
Proof. split; (split; [reflexivity|vm_compute; intuition discriminate]). Qed.
