(** Properties/C01.v — "Reading arbitrary bytes never panics, aborts or hangs", the proved half:
    the byte-level front end.  For EVERY byte string (no well-formedness premise at all) the
    models of the lexer, the two string lexers, the parser, the indirect-object reader and the
    stream decoders return a value or an error value — no [Panic] at any site, and
    no [OutOfFuel] with the fuel their entry points use, which is linear in the input
    ([S (length data)] for the loops, [fuel_for s = 2 * remaining + 4] for the recursive descent):
    termination within linear recursion depth + totality.
    Proved in this area (Safety/FrontProofs.v): lexer, string lexers, parser, indirect objects, object sequences.
    Imported (Safety/Imported.v, closed by the owning area's lemma on that area's model of the CURRENT code):
    decoders (Codec), object-stream members (ObjStm), cross-reference stream sections (XRef).
    Only statements, each closed by [exact]. *)
From PdfV Require Import Base.Prelude Gen.Generated Lex.Lexer Lex.StrLexer Syn.Prim Syn.Parser Syn.Run Codec.Model Codec.Dispatch
  Codec.Pairing Codec.ChainProofs Safety.Front Safety.FrontProofs Safety.Imported.
From PdfV Require ObjStm.Model XRef.Model.

(** what is claimed for the whole front end; holds of the code as it is (C01_full) *)
Definition C01_full_statement : Prop :=
  (forall R, total_resolver R -> forall flags data, never_crashes (parse R flags data)) /\
  (forall data, never_crashes (lex_all (S (length data)) (mkLx 0 data))) /\
  (forall data, never_crashes (string_lex data)) /\ (forall data, never_crashes (hexstring_lex data)) /\
  (forall data, never_crashes (decode_hex data)) /\ (forall data, never_crashes (decode_85 data)) /\
  (forall data, never_crashes (run_length_decode data)).

Theorem C01_lexer_step : forall s, post (fun x => (remaining (snd x) < remaining s)%nat) (next_word s).
Proof. exact next_word_post. Qed.
Print Assumptions C01_lexer_step.

Theorem C01_lex_total : forall data, never_crashes (lex_all (S (length data)) (mkLx 0 data)).
Proof. exact lex_all_total. Qed.
Print Assumptions C01_lex_total.

Theorem C01_string_lex_total : forall data, never_crashes (string_lex data).
Proof. exact string_lex_total. Qed.
Print Assumptions C01_string_lex_total.

Theorem C01_hexstring_lex_total : forall data, never_crashes (hexstring_lex data).
Proof. exact hexstring_lex_total. Qed.
Print Assumptions C01_hexstring_lex_total.

(** the recursive descent: any resolver that itself returns a value or an error, any flags, any bytes;
    the fuel is [fuel_for (mkLx 0 data) = 2 * length data + 4] *)
Theorem C01_parse_total : forall R, total_resolver R -> forall flags data, never_crashes (parse R flags data).
Proof. exact parse_total. Qed.
Print Assumptions C01_parse_total.

(** every successful parse consumes input: the position strictly advances (the reason the fuel suffices) *)
Theorem C01_parse_progress : forall R, total_resolver R -> forall cx flags depth s,
  post (fun x => (remaining (snd x) < remaining s)%nat) (parse_ctx R cx flags depth s).
Proof. exact parse_ctx_post. Qed.
Print Assumptions C01_parse_progress.

Theorem C01_parse_fuel_linear : forall s, fuel_for s = (2 * remaining s + 4)%nat.
Proof. intros s. reflexivity. Qed.
Print Assumptions C01_parse_fuel_linear.

Theorem C01_parse_indirect_total : forall R, total_resolver R -> forall allow_missing_endobj flags s,
  never_crashes (parse_indirect_object R allow_missing_endobj flags s).
Proof. exact parse_indirect_total. Qed.
Print Assumptions C01_parse_indirect_total.

Theorem C01_parse_seq_total : forall data, never_crashes (parse_all (S (length data)) data (mkLx 0 data)).
Proof. exact parse_seq_total. Qed.
Print Assumptions C01_parse_seq_total.

(** the stream decoders (enc.rs: decode_hex, decode_85, run_length_decode, flate/LZW + predictors, filter chains,
    stream dictionaries): owned, modelled (Codec/Model.v, Codec/Dispatch.v) and proved by the Codec area on the code AS IT IS
    NOW (RunLength bounds checked, predictor geometry validated); re-exported here — the same lemmas that close
    Properties/C05.v: C05_no_panic.  libflate / weezl are oracles that return a value or an error. *)
Theorem C01_decoders_total : forall izlib iraw ld, oracles_total izlib iraw ld ->
  (forall f d, never_crashes (decode izlib iraw ld f d)) /\
  (forall fs d, never_crashes (decode_chain izlib iraw ld fs d)) /\
  (forall f pv d, never_crashes (stream_data izlib iraw ld f pv d)).
Proof. exact decoders_total. Qed.
Print Assumptions C01_decoders_total.

(** instances without oracles: ASCIIHex, ASCII85, RunLength — any bytes *)
Theorem C01_decode_hex_total : forall data, never_crashes (decode_hex data).
Proof. exact decode_hex_total. Qed.
Print Assumptions C01_decode_hex_total.

Theorem C01_decode_85_total : forall data, never_crashes (decode_85 data).
Proof. exact decode_85_total. Qed.
Print Assumptions C01_decode_85_total.

(** C01-a (fixed, df00eae): truncated RunLength data is an error value now *)
Theorem C01_rle_total : forall data, never_crashes (run_length_decode data).
Proof. exact rle_total. Qed.
Print Assumptions C01_rle_total.

(** objects stored in object streams (stream.rs: ObjectStream::from_primitive / get_object_slice, file.rs: resolve_ref,
    compressed arm; model ObjStm/Model.v, tied to the code by C11's check): header of ANY declared length over any
    bytes, any /First, any member index — a value or an error *)
Theorem C01_objstm_member_total : forall R, total_resolver R -> forall flags first nobj data index,
  never_crashes (ObjStm.Model.resolve_member R flags first nobj data index).
Proof. exact objstm_member_total. Qed.
Print Assumptions C01_objstm_member_total.

(** cross-reference streams (parse_xref.rs: parse_xref_section_from_stream; model XRef/Model.v, theorem of the XRef area
    = C02_stream_no_panic / C02_stream_bounded; the former findings C01-b / C01-c): all widths, counts and data *)
Theorem C01_xref_stream_total : forall first num width data allow,
  never_crashes (XRef.Model.parse_xref_section_from_stream first num width data allow).
Proof. exact xref_stream_total. Qed.
Print Assumptions C01_xref_stream_total.

Theorem C01_full : C01_full_statement.
Proof. exact front_full. Qed.
Print Assumptions C01_full.

(** non-vacuity: the theorems speak about runs that do real work *)
Example C01_parse_runs : parse no_resolve F_ANY [91; 49; 32; 40; 97; 41; 60; 52; 49; 62; 93] =
  Ok (PArr [PInt 1; PStr [97]; PStr [65]]).
Proof. vm_compute. reflexivity. Qed.
Example C01_parse_errors_not_panics : parse no_resolve F_ANY [91; 91; 91; 40; 92] = Err E_EOF.
Proof. vm_compute. reflexivity. Qed.
Example C01_resolver_consistent : total_resolver no_resolve.
Proof. exact no_resolve_total. Qed.
