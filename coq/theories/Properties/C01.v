(** Properties/C01.v — "Reading arbitrary bytes never panics, aborts or hangs", the proved half:
    the byte-level front end.  For EVERY byte string (no well-formedness premise at all) the
    models of the lexer, the two string lexers, the parser, the indirect-object reader and the
    ASCIIHex / ASCII85 decoders return a value or an error value — no [Panic] at any site, and
    no [OutOfFuel] with the fuel their entry points use, which is linear in the input
    ([S (length data)] for the loops, [fuel_for s = 2 * remaining + 4] for the recursive descent):
    termination within linear recursion depth + totality.  RunLength: terminates on every input,
    panics only at its two slice sites and only on truncated runs (C01-a, refuted below).
    Only statements, each closed by [exact] of a lemma proved in Safety/FrontProofs.v. *)
From PdfV Require Import Base.Prelude Gen.Generated Lex.Lexer Lex.StrLexer Syn.Prim Syn.Parser Syn.Run Codec.Model
  Safety.Front Safety.FrontProofs.

(** what is claimed for the whole front end; the RunLength clause is false of the code as it is *)
Definition C01_full_statement : Prop :=
  (forall R, total_resolver R -> forall flags data, never_crashes (parse R flags data)) /\
  (forall data, never_crashes (lex_all (S (length data)) (mkLx 0 data))) /\
  (forall data, never_crashes (string_lex data)) /\ (forall data, never_crashes (hexstring_lex data)) /\
  (forall data, never_crashes (decode_hex data)) /\ (forall data, never_crashes (decode_85 data)) /\
  (forall data, never_crashes (run_length_decode data)).

Theorem C01_lexer_step : forall s, post (fun x => (remaining (snd x) < remaining s)%nat) (next_word s).
Proof. exact next_word_post. Qed.
Print Assumptions C01_lexer_step.

Theorem C01_lex_total : forall data, never_crashes (lex_all (S (length data)) (mkLx 0 data)).
Proof. exact lex_all_total. Qed.
Print Assumptions C01_lex_total.

Theorem C01_string_lex_total : forall data, never_crashes (string_lex data).
Proof. exact string_lex_total. Qed.
Print Assumptions C01_string_lex_total.

Theorem C01_hexstring_lex_total : forall data, never_crashes (hexstring_lex data).
Proof. exact hexstring_lex_total. Qed.
Print Assumptions C01_hexstring_lex_total.

(** the recursive descent: any resolver that itself returns a value or an error, any flags, any bytes;
    the fuel is [fuel_for (mkLx 0 data) = 2 * length data + 4] *)
Theorem C01_parse_total : forall R, total_resolver R -> forall flags data, never_crashes (parse R flags data).
Proof. exact parse_total. Qed.
Print Assumptions C01_parse_total.

(** every successful parse consumes input: the position strictly advances (the reason the fuel suffices) *)
Theorem C01_parse_progress : forall R, total_resolver R -> forall cx flags depth s,
  post (fun x => (remaining (snd x) < remaining s)%nat) (parse_ctx R cx flags depth s).
Proof. exact parse_ctx_post. Qed.
Print Assumptions C01_parse_progress.

Theorem C01_parse_fuel_linear : forall s, fuel_for s = (2 * remaining s + 4)%nat.
Proof. intros s. reflexivity. Qed.
Print Assumptions C01_parse_fuel_linear.

Theorem C01_parse_indirect_total : forall R, total_resolver R -> forall allow_missing_endobj flags s,
  never_crashes (parse_indirect_object R allow_missing_endobj flags s).
Proof. exact parse_indirect_total. Qed.
Print Assumptions C01_parse_indirect_total.

Theorem C01_parse_seq_total : forall data, never_crashes (parse_all (S (length data)) data (mkLx 0 data)).
Proof. exact parse_seq_total. Qed.
Print Assumptions C01_parse_seq_total.

Theorem C01_decode_hex_total : forall data, never_crashes (decode_hex data).
Proof. exact decode_hex_total. Qed.
Print Assumptions C01_decode_hex_total.

Theorem C01_decode_85_total : forall data, never_crashes (decode_85 data).
Proof. exact decode_85_total. Qed.
Print Assumptions C01_decode_85_total.

Theorem C01_rle_terminates : forall data, run_length_decode data <> OutOfFuel.
Proof. exact run_length_decode_terminates. Qed.
Print Assumptions C01_rle_terminates.

Theorem C01_rle_total_on_complete : forall data, rle_complete data = true -> never_crashes (run_length_decode data).
Proof. exact run_length_decode_total_on_complete. Qed.
Print Assumptions C01_rle_total_on_complete.

Theorem C01_rle_panic_sites : forall data s, run_length_decode data = Panic s -> s = 102 \/ s = 103.
Proof. exact run_length_decode_panic_sites. Qed.
Print Assumptions C01_rle_panic_sites.

(** C01-a: truncated RunLength data indexes past the end of the buffer (witnesses replayed on the code) *)
Theorem C01_rle_refuted :
  ~ (forall d, never_crashes (run_length_decode d)) /\
  run_length_decode [0] = Panic 102 /\ run_length_decode [200] = Panic 103 /\
  rle_complete [0] = false /\ rle_complete [200] = false.
Proof. exact run_length_decode_refuted. Qed.
Print Assumptions C01_rle_refuted.

Theorem C01_full_statement_refuted : ~ C01_full_statement.
Proof. intros H. exact (proj1 run_length_decode_refuted (proj2 (proj2 (proj2 (proj2 (proj2 (proj2 H))))))). Qed.
Print Assumptions C01_full_statement_refuted.

(** non-vacuity: the theorems speak about runs that do real work *)
Example C01_parse_runs : parse no_resolve F_ANY [91; 49; 32; 40; 97; 41; 60; 52; 49; 62; 93] =
  Ok (PArr [PInt 1; PStr [97]; PStr [65]]).
Proof. vm_compute. reflexivity. Qed.
Example C01_parse_errors_not_panics : parse no_resolve F_ANY [91; 91; 91; 40; 92] = Err E_EOF.
Proof. vm_compute. reflexivity. Qed.
Example C01_resolver_consistent : total_resolver no_resolve.
Proof. exact no_resolve_total. Qed.
