(** Properties/C13.v — "Concurrent readers get the answers sequential readers would".
    Only statements, each closed by [exact] of a lemma proved in Cache/ConcProofs.v / ConcLink.v / Tables.v.
    Level: proof on the interleaving model of Cache/Conc.v (partial: see the header of Conc.v for what is
    outside the model). *)
From PdfV Require Import Base.Prelude Gen.Generated Cache.Model Cache.Conc Cache.ConcProofs Cache.ConcLink Cache.Tables.

(** for every configuration, document, programs and schedule: no abort, no poisoned lock, every finished call
    answered as alone, no deadlock.  False as it stands (C13_full_refuted: cyclic documents deadlock, and the
    guard shared between threads — the code before the fix — fails even on acyclic ones). *)
Definition C13_full_statement : Prop := conc_full_statement.

(** the guard keyed by thread (the code as it is now, C13_chain_table), documents whose eager loads follow a
    rank: every reachable state of every schedule is safe and not deadlocked *)
Theorem C13_per_thread_chain : forall c prog rank,
  per_thread c = true -> acyclic1 prog rank -> conc_statement c prog (D1 prog rank).
Proof. exact conc_per_thread_chain. Qed.
Print Assumptions C13_per_thread_chain.

(** ... also after letting the remaining threads run (the harness' completion phase) *)
Theorem C13_completion : forall c prog rank progs sched fuel,
  per_thread c = true -> acyclic1 prog rank ->
  state_ok c (D1 prog rank) progs (complete c prog fuel (length progs) (run_sched c prog (ginit progs) sched)).
Proof. exact conc_per_thread_complete. Qed.
Print Assumptions C13_completion.

(** ... and every run ends with all threads finished *)
Theorem C13_terminates : forall c prog rank progs sched,
  per_thread c = true -> acyclic1 prog rank ->
  exists fuel, all_finished (complete c prog fuel (length progs) (run_sched c prog (ginit progs) sched)) (length progs) = true.
Proof. exact conc_terminates. Qed.
Print Assumptions C13_terminates.

(** the expected answer D1 is the answer of the sequential model of get (C12), cached or not *)
Theorem C13_sequential_answer : forall (prog : ref -> comp) (rank : ref -> nat) (oc sc : bool) (fuel : nat)
    (r : ref) (o : outcome) (st' : state),
  acyclic1 prog rank -> (rank r < fuel)%nat ->
  get (cfg_fixed oc sc) (fun _ => prog) fuel [] 0 r init = (o, st') -> o = D1 prog rank r.
Proof. exact D1_is_sequential_answer. Qed.
Print Assumptions C13_sequential_answer.

Theorem C13_full_refuted : ~ C13_full_statement.
Proof. exact conc_full_refuted. Qed.
Print Assumptions C13_full_refuted.

(** C13-a (fixed): one guard stack per resolver shared by all threads — spurious "Recursive reference" *)
Theorem C13_refuted_shared_chain : exists prog progs sched,
  let c := mkCcfg true false false in
  let g := complete c prog 100 (length progs) (run_sched c prog (ginit progs) sched) in
  results (threads g 1%nat) = [Err E_OTHER] /\
  (forall fuel, fst (get no_cache (fun _ => prog) (S fuel) [] 0 1 init) = Ok 5).
Proof. exact conc_refuted_shared_chain. Qed.
Print Assumptions C13_refuted_shared_chain.

(** C13-a: assert_eq! in the drop guard fails, the mutex is poisoned, the other thread panics too *)
Theorem C13_refuted_pop_assert : exists prog progs sched,
  let c := mkCcfg true false false in
  let g := complete c prog 100 (length progs) (run_sched c prog (ginit progs) sched) in
  poisoned g 0 = true /\ results (threads g 0%nat) = [Panic 1] /\ results (threads g 1%nat) = [Panic 1].
Proof. exact conc_refuted_pop_assert. Qed.
Print Assumptions C13_refuted_pop_assert.

(** C13-a: the failing pop in a nested load: second panic while unwinding = process abort *)
Theorem C13_refuted_abort : exists prog progs sched,
  let c := mkCcfg true false false in
  aborted (complete c prog 100 (length progs) (run_sched c prog (ginit progs) sched)) = true.
Proof. exact conc_refuted_abort. Qed.
Print Assumptions C13_refuted_abort.

(** C13-b (open): objects that eagerly load each other, cache on: mutual wait on InProcess — with the fixed guard too *)
Theorem C13_cyclic_deadlock : exists prog progs sched,
  let c := mkCcfg true true true in
  deadlocked c (complete c prog 100 (length progs) (run_sched c prog (ginit progs) sched)) (length progs) = true.
Proof. exact conc_cyclic_deadlock. Qed.
Print Assumptions C13_cyclic_deadlock.

Theorem C13_chain_table : cache_chain_per_thread = true.
Proof. exact chain_table. Qed.
Print Assumptions C13_chain_table.

(** non-vacuity: an acyclic document with a nested load and a failing load; two threads sharing the resolver and
    the cache, interleaved step by step, both get the sequential answers *)
Definition ex_prog (r : ref) : comp :=
  if r =? 2 then Call 0 1 (fun o => Ret (match o with Ok v => Ok (v + 1) | _ => Err 9 end))
  else if r =? 3 then Ret (Err 1) else Ret (Ok 5).
Definition ex_rank (r : ref) : nat := if r =? 2 then 1%nat else 0%nat.
Example C13_nonvacuous :
  acyclic1 ex_prog ex_rank /\
  let c := mkCcfg true true true in
  let g := complete c ex_prog 200 2 (run_sched c ex_prog (ginit [[2; 3]; [1; 3; 2]]) [0; 1; 0; 1; 0; 1; 0; 1; 1; 0]%nat) in
  map results (map (threads g) [0; 1]%nat) = [[Ok 6; Err 1]; [Ok 5; Err 1; Ok 6]] /\ all_finished g 2 = true.
Proof.
  split; [|vm_compute; split; reflexivity].
  intros r. unfold ex_prog, ex_rank. destruct (r =? 2) eqn:E2.
  - cbn [bounded1]. change (1 =? 2) with false. cbv iota. split; [lia|]. intros o. exact I.
  - destruct (r =? 3); exact I.
Qed.
